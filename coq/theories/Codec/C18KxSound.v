(* C18 group 2 - theorems about ServerKeyExchange and CertificateRequest (models in C18Kx.v). *)
From DtlsV Require Import Lib.Bytes Gen.Generated Codec.C18Comb Codec.C18CombSound Codec.C18Rec
  Codec.C18Hs Codec.C18HsSound Codec.C18Ext Codec.C18ExtSound Codec.C18Kx.
From Coq Require Import ZifyN ZifyNat ZifyBool.
Open Scope N_scope.

Ltac split_andb :=
  repeat match goal with
         | H : _ && _ = true |- _ => apply andb_prop in H; destruct H
         end.

(* ------------------------------------------------------------------ optional tail *)

Lemma wsound_opt_end {A} (w : wcodec A) : wsound w -> wsound (w_opt_end w).
Proof.
  intros S [a|] W; cbn [wwf wenc wdec w_opt_end] in *.
  - apply andb_prop in W. destruct W as [W Hne]. destruct (S a W) as [e [E D]]. rewrite E in *.
    exists e. split; [reflexivity|]. destruct e; [discriminate|]. rewrite D. reflexivity.
  - exists []. split; reflexivity.
Qed.

(* ------------------------------------------------------------------ ServerKeyExchange pieces *)

Lemma sound_ecdhe_params : sound c_ecdhe_params.
Proof. unfold c_ecdhe_params. ext_auto. Qed.
Lemma sound_ske_sig : sound c_ske_sig.
Proof. unfold c_ske_sig. apply sound_seq; [apply sound_sigalg|ext_auto]. Qed.

Lemma wsound_ske_ecdhe : wsound w_ske_ecdhe.
Proof.
  unfold w_ske_ecdhe, w_seq. apply wsound_bind; [apply sound_ecdhe_params|].
  intros _ _. apply wsound_opt_end, wsound_lenient, sound_ske_sig.
Qed.

Lemma ecdhe_params_enc ct cv pk : is_curve_type ct = true -> is_known_curve cv = true -> len pk <= 255 ->
  enc c_ecdhe_params (ct, (cv, pk)) = Some (be_enc 1 ct ++ be_enc 2 cv ++ be_enc 1 (len pk) ++ pk).
Proof.
  intros H1 H2 H3. unfold c_ecdhe_params, c_seq, c_bind, c_check, c_guard, c_opaque, c_vec, c_u, w_rest;
    cbn [enc wenc fst snd]. rewrite H1, H2. change (256 ^ N.of_nat 1) with 256.
  destruct (N.ltb_spec (len pk) 256) as [_|]; [reflexivity|lia].
Qed.

Lemma ske_sig_enc h s sg : len sg < 65536 ->
  enc c_ske_sig ((h, s), sg) = Some (be_enc 2 (sig_scheme_of (h, s)) ++ be_enc 2 (len sg) ++ sg).
Proof.
  intro H. unfold c_ske_sig, c_seq, c_bind, c_sigalg, c_map, c_guard, c_opaque, c_vec, c_u, w_rest;
    cbn [enc wenc fst snd]. change (256 ^ N.of_nat 2) with 65536.
  destruct (N.ltb_spec (len sg) 65536) as [_|]; [reflexivity|lia].
Qed.

(* ------------------------------------------------------------------ ServerKeyExchange round trip *)

Lemma be_enc2_split (n : N) (b : bytes) : firstn 2 (be_enc 2 n ++ b) = be_enc 2 n /\ skipn 2 (be_enc 2 n ++ b) = b.
Proof. split; [apply firstn_app_len|apply skipn_app_len]; apply be_enc_length. Qed.

Lemma take_len_all (b : bytes) : take (len b) b = b.
Proof. unfold take, len. rewrite Nat2N.id. apply firstn_all. Qed.
Lemma drop_len_all (b : bytes) : drop (len b) b = [].
Proof. unfold drop, len. rewrite Nat2N.id. apply skipn_all. Qed.

Theorem ske_roundtrip kx : wsound (w_ske kx).
Proof.
  intros [hint [ct [cv [pk [h [s sg]]]]]] W. cbn [wwf wenc wdec w_ske] in *. unfold ske_wf in W.
  apply andb_prop in W. destruct W as [W Wk]. apply andb_prop in W. destruct W as [Wz Wh].
  apply negb_true_iff in Wz.
  destruct (kx_ecdhe kx) eqn:Hecd.
  - (* ECDHE (with or without PSK) *)
    apply andb_prop in Wk. destruct Wk as [Wp Wsig].
    do 7 (apply andb_prop in Wp; destruct Wp as [Wp ?]).
    repeat match goal with Hx : negb _ = true |- _ => apply negb_true_iff in Hx end.
    assert (Hpk : len pk <= 255) by lia.
    assert (Hpkne : is_nil' pk = false) by (destruct pk; [discriminate|reflexivity]).
    (* the ECDHE part as a value of the structured codec *)
    set (sgo := if s =? 0 then None else Some ((h, s), sg)).
    assert (Wst : wwf w_ske_ecdhe ((ct, (cv, pk)), sgo) = true /\
                  exists e, wenc w_ske_ecdhe ((ct, (cv, pk)), sgo) = Some e /\
                    ske_enc (hint, (ct, (cv, (pk, (h, (s, sg)))))) =
                      Some ((match hint with Some hb => be_enc 2 (len hb) ++ hb | None => [] end) ++ e) /\
                    ske_flat hint ((ct, (cv, pk)), sgo) = (hint, (ct, (cv, (pk, (h, (s, sg))))))).
    { unfold w_ske_ecdhe, w_seq, w_bind; cbn [wwf wenc fst snd].
      rewrite (ecdhe_params_enc ct cv pk) by assumption.
      assert (Wpar : wf c_ecdhe_params (ct, (cv, pk)) = true).
      { unfold c_ecdhe_params, c_seq, c_bind, c_check, c_guard, c_opaque, c_vec, c_u, w_rest;
          cbn [wf wwf wenc fst snd]. change (256 ^ N.of_nat 1) with 256. change (256 ^ N.of_nat 2) with 65536.
        repeat match goal with |- _ && _ = true => apply andb_true_intro; split end; try assumption; try lia. }
      rewrite Wpar. unfold ske_enc.
      match goal with Hx : (ct =? 0) = false |- _ => rewrite Hx end. rewrite Hpkne. cbn [orb].
      unfold sgo. destruct (N.eqb_spec s 0) as [Hs|Hs].
      - apply andb_prop in Wsig. destruct Wsig as [Hh Hsg]. apply N.eqb_eq in Hh. subst h s.
        destruct sg; [|discriminate]. cbn [wwf wenc w_opt_end andb negb N.eqb is_nil' orb].
        split; [reflexivity|]. eexists. split; [reflexivity|]. rewrite !app_nil_r.
        split; reflexivity.
      - apply andb_prop in Wsig; destruct Wsig as [Wsig Hsch].
        apply andb_prop in Wsig; destruct Wsig as [Wsig Hswf].
        apply andb_prop in Wsig; destruct Wsig as [Wsig Hsgok].
        apply andb_prop in Wsig; destruct Wsig as [Wsig Hsglen].
        apply andb_prop in Wsig; destruct Wsig as [Wsig Hsgnn].
        apply negb_true_iff in Wsig.
        assert (Hsl : len sg < 65536) by (clear - Hsglen; lia).
        assert (Hscl : sig_scheme_of (h, s) < 65536) by (clear - Hsch; apply N.ltb_lt; exact Hsch).
        assert (Hsgne : is_nil' sg = false) by (destruct sg; [discriminate|reflexivity]).
        cbn [wwf wenc w_opt_end w_lenient]. rewrite (ske_sig_enc h s sg) by exact Hsl.
        rewrite Wsig, Hsgne. cbn [negb andb orb].
        destruct (N.eqb_spec s 0) as [|_]; [contradiction|]. cbn [andb].
        assert (Wsg : wf c_ske_sig ((h, s), sg) = true).
        { unfold c_ske_sig, c_seq, c_bind, c_sigalg, c_map, c_guard, c_opaque, c_vec, c_u, w_rest;
            cbn [wf wwf wenc fst snd]. change (256 ^ N.of_nat 2) with 65536.
          assert (Hin : sig_in_table (sig_scheme_of (h, s)) = true).
          { unfold sig_in_table. unfold sigalg_wf in *. destruct (sig_lookup (sig_scheme_of (h, s))); [reflexivity|discriminate]. }
          rewrite Hin, Hswf, Hsgok. cbn [andb].
          destruct (N.ltb_spec (sig_scheme_of (h, s)) 65536) as [_|Hbad]; [|clear - Hbad Hscl; lia].
          destruct (N.ltb_spec (len sg) 65536) as [_|Hbad]; [|clear - Hbad Hsl; lia]. reflexivity. }
        rewrite Wsg. split.
        { cbn [andb]. destruct (be_enc 2 (sig_scheme_of (h, s)) ++ be_enc 2 (len sg) ++ sg) eqn:Ee; [|reflexivity].
          apply (f_equal (@length N)) in Ee. rewrite !app_length, !be_enc_length in Ee. cbn [length] in Ee. clear - Ee. lia. }
        eexists. split; [reflexivity|]. rewrite <- !app_assoc. split; reflexivity. }
    destruct Wst as [Wst [e [Ee [Eske Eflat]]]]. rewrite Eske.
    eexists. split; [reflexivity|].
    destruct (wsound_ske_ecdhe _ Wst) as [e' [Ee' De]]. rewrite Ee in Ee'. inversion Ee'; subst e'; clear Ee'.
    assert (He4 : 4 <= len e).
    { unfold w_ske_ecdhe, w_seq, w_bind in Ee; cbn [wenc fst snd] in Ee.
      rewrite (ecdhe_params_enc ct cv pk) in Ee by assumption.
      destruct (wenc (w_opt_end (w_lenient c_ske_sig)) sgo) as [e2|]; [|discriminate].
      inversion Ee; subst e. rewrite !len_cons. clear. lia. }
    unfold ske_dec. destruct hint as [hb|].
    + (* identity hint present: PSK + ECDHE *)
      split_andb.
      match goal with Hx : kx_psk kx = true |- _ => rewrite Hx end.
      rewrite <- app_assoc. destruct (be_enc2_split (len hb) (hb ++ e)) as [F2 S2]. rewrite F2, S2.
      rewrite !len_app, len_be_enc.
      assert (Hhb : len hb < 65536)
        by (match goal with Hx : (len hb <? 65536) = true |- _ => clear - Hx; lia end).
      destruct (N.ltb_spec (N.of_nat 2 + (len hb + len e)) 2) as [Hbad|_]; [clear - Hbad; lia|]. rewrite Wz.
      rewrite be_dec_enc by (change (256 ^ N.of_nat 2) with 65536; exact Hhb).
      destruct (N.leb_spec (len hb) (N.of_nat 2 + (len hb + len e) - 2)) as [_|Hbad]; [|clear - Hbad; lia]. cbn [andb].
      rewrite take_app_exact, drop_app_exact.
      destruct (N.eqb_spec kx 2) as [Hk2|_].
      { subst kx. vm_compute in Hecd. discriminate. }
      rewrite Hecd. cbn [negb]. rewrite De. cbn [omap]. rewrite Eflat. reflexivity.
    + (* no hint: ECDHE only *)
      apply negb_true_iff in Wh. rewrite Wh. cbn [app].
      destruct (N.ltb_spec (len e) 2) as [Hbad|_]; [clear - Hbad He4; lia|]. rewrite Wz. rewrite andb_false_r.
      destruct (N.eqb_spec kx 2) as [Hk2|_].
      { subst kx. vm_compute in Hecd. discriminate. }
      rewrite Hecd. cbn [negb]. rewrite De. cbn [omap]. rewrite Eflat. reflexivity.
  - (* PSK only *)
    split_andb.
    repeat match goal with Hx : (_ =? _) = true |- _ => apply N.eqb_eq in Hx end. subst.
    destruct pk; [|discriminate]. destruct sg; [|discriminate].
    destruct hint as [hb|]; [|vm_compute in Wh; discriminate].
    split_andb. unfold ske_enc. cbn [N.eqb orb]. eexists. split; [reflexivity|].
    unfold ske_dec. destruct (be_enc2_split (len hb) hb) as [F2 S2]. rewrite F2, S2.
    rewrite len_app, len_be_enc.
    destruct (N.ltb_spec (N.of_nat 2 + len hb) 2) as [|_]; [lia|]. cbn [N.eqb Pos.eqb].
    rewrite be_dec_enc by (change (256 ^ N.of_nat 2) with 65536; lia).
    destruct (N.leb_spec (len hb) (N.of_nat 2 + len hb - 2)) as [_|]; [|lia].
    change (kx_psk 2) with true. cbn [andb].
    rewrite take_len_all, drop_len_all.
    cbn [is_nil']. reflexivity.
Qed.

(* REFUTED: "re-encoding an accepted input is a fixed point" - a zero-length public key is accepted,
   Marshal then drops the whole ECDHE part, and the result is rejected by Unmarshal *)
Theorem ske_fixpoint_refuted :
  exists b x e, bytes_ok b = true /\ ske_dec 4 b = Some x /\ ske_enc x = Some e /\ ske_dec 4 e = None.
Proof.
  exists [3; 0; 29; 0]. eexists. eexists. split; [reflexivity|].
  split; [vm_compute; reflexivity|]. split; [vm_compute; reflexivity|]. vm_compute. reflexivity.
Qed.

(* REFUTED: "every accepted input re-encodes" - a signature of length zero, or algorithm
   "anonymous" with a hash or a signature, is accepted by Unmarshal and refused by Marshal *)
Theorem ske_reencode_refuted :
  (exists b x, bytes_ok b = true /\ ske_dec 4 b = Some x /\ ske_enc x = None) /\
  (exists b x, bytes_ok b = true /\ ske_dec 4 b = Some x /\ ske_enc x = None /\ fst (snd (snd (snd (snd (snd x))))) = 0).
Proof.
  split.
  - exists [3; 0; 29; 1; 170; 4; 3; 0; 0]. eexists. split; [reflexivity|].
    split; [vm_compute; reflexivity|]. vm_compute. reflexivity.
  - exists [3; 0; 29; 1; 170; 4; 0; 0; 1; 187]. eexists. split; [reflexivity|].
    split; [vm_compute; reflexivity|]. split; [vm_compute; reflexivity|]. reflexivity.
Qed.

(* bytes after the signature are ignored, and a message cut right after the public key is taken
   as an anonymous key exchange: truncation is NOT always rejected *)
Theorem ske_trunc_refuted :
  exists x e k, ske_wf 4 x = true /\ ske_enc x = Some e /\ (k < length e)%nat /\ ske_dec 4 (firstn k e) <> None.
Proof.
  exists (None, (3, (29, ([170], (4, (3, [187])))))). eexists. exists 5%nat.
  split; [vm_compute; reflexivity|]. split; [vm_compute; reflexivity|].
  split; [cbn; lia|]. vm_compute. discriminate.
Qed.

(* NOT REPAIRED (known finding): under ECDHE_PSK a message cut INSIDE its identity hint is accepted.
   The declared hint length (768) exceeds what is left, the decoder then silently re-reads the
   input from offset 0 as ServerECDHParams: 03 | 00 1d | 20 | 32 bytes. *)
Definition ske_long_hint : bytes := [29; 32] ++ repeat 0 (N.to_nat 766).

Theorem ske_hint_trunc_refuted :
  exists x e k, ske_wf 6 x = true /\ fst x = Some ske_long_hint /\ ske_enc x = Some e /\
                (k < 2 + length ske_long_hint)%nat /\ (k < length e)%nat /\
                ske_dec 6 (firstn k e) = Some (None, (3, (29, (repeat 0 (N.to_nat 32), (0, (0, [])))))).
Proof.
  exists (Some ske_long_hint, (3, (29, (repeat 66 (N.to_nat 32), (0, (0, [])))))). eexists. exists 36%nat.
  split; [vm_compute; reflexivity|]. split; [reflexivity|]. split; [reflexivity|].
  split; [vm_compute; lia|]. split; [vm_compute; lia|]. vm_compute. reflexivity.
Qed.

(* NOT REPAIRED (known finding): the ServerKeyExchange encoder writes byte(len(PublicKey)) and
   uint16(len(IdentityHint)) / uint16(len(Signature)) without a check.  A 256-byte public key is
   written behind the length byte 0 and the result is rejected by the decoder; a 65536-byte hint
   is written behind the length 0.  [ske_wf] (the premise of [ske_roundtrip]) excludes both. *)
Theorem ske_enc_wrap_refuted :
  (exists x e, ske_enc x = Some e /\ len (fst (snd (snd (snd x)))) = 256 /\ ske_wf 4 x = false /\ ske_dec 4 e = None) /\
  (exists x e, ske_enc x = Some e /\ fst x = Some (repeat 104 (N.to_nat 65536)) /\ ske_wf 2 x = false /\
               ske_dec 2 e = None).
Proof.
  split.
  - exists (None, (3, (29, (repeat 7 (N.to_nat 256), (0, (0, [])))))). eexists.
    split; [reflexivity|]. split; [vm_compute; reflexivity|]. split; vm_compute; reflexivity.
  - exists (Some (repeat 104 (N.to_nat 65536)), (0, (0, ([], (0, (0, [])))))). eexists.
    split; [reflexivity|]. split; [reflexivity|]. split; vm_compute; reflexivity.
Qed.

(* NOT REPAIRED (known finding): ClientKeyExchange.Marshal picks the layout from the nil-ness of
   the fields, Unmarshal from the key-exchange algorithm, and the identity length is written as
   uint16(len) without a check.  [cke_wf kx] (the premise of the round-trip theorem) excludes
   these values; the encoder does not refuse them. *)
Theorem cke_enc_outside_domain_refuted :
  (* ECDHE_PSK without an identity: encoded without the identity vector, rejected *)
  (exists x e, cke_enc x = Some e /\ fst x = None /\ cke_wf 6 x = false /\ cke_dec 6 e = None) /\
  (* PSK with a public key: the key is encoded and the decoder drops it *)
  (exists x e y, cke_enc x = Some e /\ cke_wf 2 x = false /\ cke_dec 2 e = Some y /\ snd x <> None /\ snd y = None) /\
  (* a 65536-byte identity is written behind the length 0: the decoder returns the empty identity *)
  (exists x e, cke_enc x = Some e /\ fst x = Some (repeat 105 (N.to_nat 65536)) /\ cke_wf 2 x = false /\
               cke_dec 2 e = Some (Some [], None)).
Proof.
  split; [|split].
  - exists (None, Some (repeat 32 (N.to_nat 32))). eexists.
    split; [reflexivity|]. split; [reflexivity|]. split; vm_compute; reflexivity.
  - exists (Some [105; 100], Some (repeat 32 (N.to_nat 32))). eexists. eexists.
    split; [reflexivity|]. split; [vm_compute; reflexivity|]. split; [vm_compute; reflexivity|].
    split; [discriminate|reflexivity].
  - exists (Some (repeat 105 (N.to_nat 65536)), None). eexists.
    split; [reflexivity|]. split; [reflexivity|]. split; vm_compute; reflexivity.
Qed.

(* ------------------------------------------------------------------ CertificateRequest *)

Lemma sound_cr_types : sound c_cr_types.
Proof.
  unfold c_cr_types. apply sound_vec. apply wsound_map.
  - intros y W _. apply filter_id_forallb, W.
  - apply wsound_list; [apply sound_u|apply nonempty_u; lia].
Qed.
Lemma sound_cr_cas : sound c_cr_cas.
Proof. unfold c_cr_cas. ext_auto. Qed.

Lemma list_enc_u1 l : forallb (fun t => t <? 256) l = true -> list_enc (c_u 1) l = Some (flat_map (be_enc 1) l).
Proof.
  induction l as [|x l IH]; cbn [forallb list_enc flat_map]; intro H; [reflexivity|].
  apply andb_prop in H. destruct H as [_ Hl]. rewrite (IH Hl). reflexivity.
Qed.

Lemma flat_be1_length (l : list N) : length (flat_map (be_enc 1) l) = length l.
Proof.
  induction l as [|x l IH]; [reflexivity|]. cbn [flat_map]. rewrite app_length, be_enc_length, IH. reflexivity.
Qed.

Lemma cr_types_enc tys : N.of_nat (length tys) <= 255 -> forallb (fun t => t <? 256) tys = true ->
  enc c_cr_types tys = Some (be_enc 1 (N.of_nat (length tys)) ++ flat_map (be_enc 1) tys).
Proof.
  intros Hl Hb. unfold c_cr_types, c_vec, w_map; cbn [enc wenc w_list]. rewrite (list_enc_u1 _ Hb).
  assert (Hlen : len (flat_map (be_enc 1) tys) = N.of_nat (length tys)).
  { unfold len. rewrite flat_be1_length. reflexivity. }
  rewrite Hlen. change (256 ^ N.of_nat 1) with 256.
  destruct (N.ltb_spec (N.of_nat (length tys)) 256) as [_|]; [reflexivity|lia].
Qed.

Lemma cr_types_wf tys : N.of_nat (length tys) <= 255 -> forallb is_cert_type tys = true ->
  forallb (fun t => t <? 256) tys = true -> wf c_cr_types tys = true.
Proof.
  intros Hl Hc Hb. unfold c_cr_types, c_vec, w_map; cbn [wf wwf wenc w_list]. rewrite Hc. cbn [andb].
  rewrite (list_enc_u1 _ Hb).
  assert (Hw : forallb (wf (c_u 1)) tys = true).
  { clear - Hb. induction tys as [|x l IH]; [reflexivity|]. cbn [forallb] in *. apply andb_prop in Hb.
    destruct Hb as [Hx Hl]. rewrite (IH Hl). unfold c_u; cbn [wf]. change (256 ^ N.of_nat 1) with 256. rewrite Hx. reflexivity. }
  rewrite Hw. cbn [andb].
  assert (Hlen : len (flat_map (be_enc 1) tys) = N.of_nat (length tys)).
  { unfold len. rewrite flat_be1_length. reflexivity. }
  rewrite Hlen. change (256 ^ N.of_nat 1) with 256. destruct (N.ltb_spec (N.of_nat (length tys)) 256); [reflexivity|lia].
Qed.

(* the signature-scheme list of a canonical value decodes back to itself *)
Lemma chunk2_sigs sigs : forallb sigalg_wf sigs = true -> forallb (fun a => sig_scheme_of a <? 65536) sigs = true ->
  filter_map sig_lookup (chunk2 (flat_map (fun a => be_enc 2 (sig_scheme_of a)) sigs)) = sigs /\
  len (flat_map (fun a => be_enc 2 (sig_scheme_of a)) sigs) = N.of_nat (length sigs) * 2.
Proof.
  intros H1 H2. induction sigs as [|a l IH]; cbn [forallb] in *; [split; reflexivity|].
  apply andb_prop in H1. destruct H1 as [Ha Hl]. apply andb_prop in H2. destruct H2 as [Ha2 Hl2].
  destruct (IH Hl Hl2) as [IH1 IH2]. cbn [flat_map]. split.
  - set (n := sig_scheme_of a) in *. assert (Hn : n < 65536) by lia.
    change (be_enc 2 n) with [(n / 256 ^ N.of_nat 1) mod 256; (n / 256 ^ N.of_nat 0) mod 256].
    change (256 ^ N.of_nat 1) with 256. change (256 ^ N.of_nat 0) with 1. cbn [app chunk2 filter_map].
    replace ((n / 256) mod 256 * 256 + (n / 1) mod 256) with n.
    2:{ rewrite N.div_1_r. rewrite (N.mod_small (n / 256) 256) by (apply N.div_lt_upper_bound; lia).
        pose proof (N.div_mod' n 256). lia. }
    unfold sigalg_wf in Ha. fold n in Ha. destruct (sig_lookup n) as [[h s]|] eqn:E; [|discriminate].
    apply andb_prop in Ha. destruct Ha as [E1 E2]. apply N.eqb_eq in E1, E2. destruct a as [h' s']. cbn [fst snd] in *.
    subst. rewrite IH1. reflexivity.
  - rewrite len_app, len_be_enc, IH2. cbn [length]. lia.
Qed.

Lemma cas_enc_len cas : forallb bytes_ok cas = true -> cas_len cas < 65536 ->
  list_enc (c_opaque 2) cas = Some (flat_map (fun ca => be_enc 2 (len ca) ++ ca) cas) /\
  len (flat_map (fun ca => be_enc 2 (len ca) ++ ca) cas) = cas_len cas /\
  forallb (wf (c_opaque 2)) cas = true.
Proof.
  induction cas as [|ca l IH]; cbn [forallb cas_len]; intros Hb Hl; [repeat split; reflexivity|].
  apply andb_prop in Hb. destruct Hb as [Hca Hrest].
  destruct (IH Hrest) as [IH1 [IH2 IH3]]; [lia|].
  assert (Hcl : len ca < 65536) by lia.
  cbn [list_enc flat_map]. rewrite IH1.
  unfold c_opaque, c_vec, w_rest; cbn [enc wenc wf wwf]. change (256 ^ N.of_nat 2) with 65536.
  destruct (N.ltb_spec (len ca) 65536) as [_|]; [|lia].
  split; [reflexivity|]. split.
  - rewrite !len_app, len_be_enc, IH2. lia.
  - fold (c_opaque 2) in IH3. unfold c_opaque, c_vec, w_rest in IH3. rewrite Hca. cbn [andb]. exact IH3.
Qed.

Theorem certreq_roundtrip : wsound w_certreq.
Proof.
  intros [tys [sigs cas]] W. cbn [wwf wenc wdec w_certreq] in *. unfold cr_wf in W. split_andb.
  repeat match goal with Hx : (_ <=? _) = true |- _ => apply N.leb_le in Hx end.
  repeat match goal with Hx : (_ <? _) = true |- _ => apply N.ltb_lt in Hx end.
  unfold cr_enc, cr_enc_gen. destruct (N.ltb_spec 255 (N.of_nat (length tys))) as [|_]; [lia|].
  destruct (N.ltb_spec 65535 (N.of_nat (length sigs) * 2)) as [|_]; [lia|].
  destruct (N.ltb_spec 65535 (cas_len cas)) as [|_]; [lia|]. cbn [negb andb orb].
  eexists. split; [reflexivity|].
  set (es := flat_map (fun a => be_enc 2 (sig_scheme_of a)) sigs).
  set (ec := flat_map (fun ca => be_enc 2 (len ca) ++ ca) cas).
  destruct (chunk2_sigs sigs ltac:(assumption) ltac:(assumption)) as [Hsig Hsl]. fold es in Hsig, Hsl.
  destruct (cas_enc_len cas ltac:(assumption) ltac:(assumption)) as [Hce [Hcl Hcw]]. fold ec in Hce, Hcl.
  unfold cr_dec, cr_dec_gen.
  pose proof (cr_types_enc tys ltac:(lia) ltac:(assumption)) as Ety.
  assert (Wty : wf c_cr_types tys = true) by (apply cr_types_wf; try lia; assumption).
  set (rest := be_enc 2 (N.of_nat (length sigs) * 2) ++ es ++ be_enc 2 (cas_len cas) ++ ec).
  destruct (sound_cr_types tys rest Wty) as [ety [Ety' Dty]].
  assert (Hety : ety = be_enc 1 (N.of_nat (length tys)) ++ flat_map (be_enc 1) tys) by congruence.
  rewrite app_assoc. rewrite <- Hety. fold rest.
  remember (ety ++ rest) as b eqn:Hb.
  assert (Hl5 : 5 <= len b).
  { subst b ety. unfold rest. rewrite !len_app, !len_be_enc. clear. lia. }
  destruct (N.ltb_spec (len b) 5) as [|_]; [lia|].
  rewrite Dty.
  destruct (sound_u 2 (N.of_nat (length sigs) * 2) (es ++ be_enc 2 (cas_len cas) ++ ec)) as [e2 [E2 D2]].
  { unfold c_u; cbn [wf]. change (256 ^ N.of_nat 2) with 65536. apply N.ltb_lt. assumption. }
  assert (He2 : e2 = be_enc 2 (N.of_nat (length sigs) * 2)) by (cbn [enc c_u] in E2; congruence).
  subst e2. unfold rest. rewrite D2.
  rewrite len_app, Hsl.
  destruct (N.ltb_spec (N.of_nat (length sigs) * 2 + len (be_enc 2 (cas_len cas) ++ ec)) (N.of_nat (length sigs) * 2)) as [|_]; [lia|].
  unfold cr_sigs_dec_gen.
  replace ((N.of_nat (length sigs) * 2) mod 2) with 0 by (rewrite N.mod_mul; lia). rewrite N.add_0_r.
  cbn [negb N.eqb andb].
  rewrite len_app, Hsl.
  destruct (N.ltb_spec (N.of_nat (length sigs) * 2 + len (be_enc 2 (cas_len cas) ++ ec)) (N.of_nat (length sigs) * 2)) as [|_]; [lia|].
  rewrite <- Hsl. rewrite take_app_exact, drop_app_exact, Hsig.
  (* authorities *)
  assert (Wca : wf c_cr_cas cas = true).
  { unfold c_cr_cas, c_vec; cbn [wf wwf wenc w_list]. rewrite Hcw, Hce, Hcl. cbn [andb].
    change (256 ^ N.of_nat 2) with 65536. apply N.ltb_lt. assumption. }
  destruct (sound_cr_cas cas [] Wca) as [eca [Eca Dca]].
  assert (Heca : eca = be_enc 2 (cas_len cas) ++ ec).
  { unfold c_cr_cas, c_vec in Eca; cbn [enc wenc w_list] in Eca. rewrite Hce, Hcl in Eca.
    change (256 ^ N.of_nat 2) with 65536 in Eca.
    destruct (N.ltb_spec (cas_len cas) 65536) as [_|]; [|lia]. inversion Eca. reflexivity. }
  rewrite <- Heca. rewrite app_nil_r in Dca. rewrite Dca. reflexivity.
Qed.

(* "bytes beyond a declared length are never consumed": an odd declared length of
   supported_signature_algorithms is refused (6845684), whatever follows *)
Theorem certreq_odd_sigalgs_rejected b tys r1 sl r2 :
  dec c_cr_types b = Some (tys, r1) -> dec (c_u 2) r1 = Some (sl, r2) -> sl mod 2 = 1 -> cr_dec b = None.
Proof.
  intros D1 D2 Hodd. unfold cr_dec, cr_dec_gen. destruct (len b <? 5); [reflexivity|].
  rewrite D1, D2. destruct (len r2 <? sl); [reflexivity|].
  unfold cr_sigs_dec_gen. rewrite Hodd. reflexivity.
Qed.

(* ... and every scheme of an accepted message lies inside the declared vector: the decoder reads
   exactly [take sl] of what follows the length *)
Theorem certreq_sigalgs_within_vector b tys sigs cas :
  cr_dec b = Some (tys, (sigs, cas)) ->
  exists r1 sl r2, dec c_cr_types b = Some (tys, r1) /\ dec (c_u 2) r1 = Some (sl, r2) /\ sl <= len r2 /\
                   sigs = filter_map sig_lookup (chunk2 (take sl r2)).
Proof.
  unfold cr_dec, cr_dec_gen. destruct (len b <? 5); [discriminate|].
  destruct (dec c_cr_types b) as [[tys' r1]|] eqn:D1; [|discriminate].
  destruct (dec (c_u 2) r1) as [[sl r2]|] eqn:D2; [|discriminate].
  destruct (N.ltb_spec (len r2) sl) as [|Hle]; [discriminate|].
  unfold cr_sigs_dec_gen. cbn [negb andb].
  destruct (N.eqb_spec (sl mod 2) 1) as [|Hev]; [discriminate|].
  assert (H0 : sl mod 2 = 0) by (pose proof (N.mod_upper_bound sl 2); lia). rewrite H0, N.add_0_r.
  destruct (len r2 <? sl); [discriminate|].
  destruct (dec c_cr_cas (drop sl r2)) as [[cas' rest]|]; [|discriminate].
  intro E. inversion E; subst. exists r1, sl, r2. split; [reflexivity|]. split; [exact D2|]. split; [exact Hle|reflexivity].
Qed.

(* REFUTED for the decoder as coded before 6845684 (F75): an odd signature-algorithm vector length
   made the decoder read one byte of the following field *)
Theorem certreq_declared_length_as_coded_refuted :
  exists b x, bytes_ok b = true /\ cr_dec_gen true b = Some x /\
    (* declared: ONE byte of algorithms (04); decoded: scheme 0x0400 = that byte plus the first
       byte of the following certificate_authorities length field *)
    b = [0; 0; 1; 4; 0; 0] /\ fst (snd x) = [(4, 0)] /\ cr_dec b = None.
Proof.
  exists [0; 0; 1; 4; 0; 0]. eexists. split; [reflexivity|].
  split; [vm_compute; reflexivity|]. split; [reflexivity|]. split; [reflexivity|]. vm_compute. reflexivity.
Qed.

(* the encoder refuses what its two 16-bit length fields cannot say (1dbb75b) ... *)
Theorem certreq_enc_refuses_oversize tys sigs cas :
  65535 < N.of_nat (length sigs) * 2 \/ 65535 < cas_len cas -> cr_enc (tys, (sigs, cas)) = None.
Proof.
  intro H. unfold cr_enc, cr_enc_gen. destruct (255 <? N.of_nat (length tys)); [reflexivity|].
  cbn [negb andb].
  destruct (N.ltb_spec 65535 (N.of_nat (length sigs) * 2)); [reflexivity|].
  destruct (N.ltb_spec 65535 (cas_len cas)); [reflexivity|]. lia.
Qed.

(* ... so that whatever it emits carries the true lengths of both vectors *)
Theorem certreq_enc_lengths tys sigs cas e :
  cr_enc (tys, (sigs, cas)) = Some e ->
  N.of_nat (length tys) <= 255 /\ N.of_nat (length sigs) * 2 < 65536 /\ cas_len cas < 65536.
Proof.
  unfold cr_enc, cr_enc_gen. destruct (N.ltb_spec 255 (N.of_nat (length tys))); [discriminate|].
  cbn [negb andb].
  destruct (N.ltb_spec 65535 (N.of_nat (length sigs) * 2)); [discriminate|].
  destruct (N.ltb_spec 65535 (cas_len cas)); [discriminate|]. intros _. lia.
Qed.

(* REFUTED for the encoder as coded before 1dbb75b (F76): one authority of 65534 bytes makes the
   vector 65536 bytes long; its length was written as 0 and the decoder read back NO authority *)
Theorem certreq_enc_wrap_as_coded_refuted :
  exists x e, cr_wf (fst x, (fst (snd x), [])) = true /\ cr_enc_gen true x = Some e /\
              cr_dec e = Some (fst x, (fst (snd x), [])) /\ snd (snd x) <> [] /\ cr_enc x = None.
Proof.
  exists ([64], ([(4, 3)], [repeat 170 (N.to_nat 65534)])). eexists.
  split; [vm_compute; reflexivity|]. split; [reflexivity|].
  split; [vm_compute; reflexivity|]. split; [discriminate|]. vm_compute. reflexivity.
Qed.

(* lossy by design: unknown certificate types and signature schemes are dropped *)
Example certreq_lossy :
  cr_dec [2; 1; 7; 0; 4; 4; 3; 255; 255; 0; 0] = Some ([1], ([(4, 3)], [])) /\
  cr_enc ([1], ([(4, 3)], [])) = Some [1; 1; 0; 2; 4; 3; 0; 0].
Proof. vm_compute. split; reflexivity. Qed.
