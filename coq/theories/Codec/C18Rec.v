(* C18 group 1 - models of the record-level codecs of /repo/pkg/protocol (definitions only).
   Each Go Marshal/Unmarshal pair is a combinator term of C18Comb.v or, where the Go decoder is
   not a left-to-right parser (inner plaintext, RRC unknown types, datagram unpacking), a small
   explicit function that follows the Go code line by line. *)
From DtlsV Require Import Lib.Bytes Codec.C18Comb.
Open Scope N_scope.

(* ------------------------------------------------------------------ recordlayer/header.go *)

(* (content type, (major, (minor, (epoch, (sequence number, (connection id, content length)))))) *)
Definition hdr : Type := (N * (N * (N * (N * (N * (bytes * N))))))%type.

Definition h_ct (h : hdr) : N := fst h.
Definition h_maj (h : hdr) : N := fst (snd h).
Definition h_min (h : hdr) : N := fst (snd (snd h)).
Definition h_epoch (h : hdr) : N := fst (snd (snd (snd h))).
Definition h_seq (h : hdr) : N := fst (snd (snd (snd (snd h)))).
Definition h_cid (h : hdr) : bytes := fst (snd (snd (snd (snd (snd h))))).
Definition h_len (h : hdr) : N := snd (snd (snd (snd (snd (snd h))))).
Definition mk_hdr (ct maj min ep sq : N) (cid : bytes) (l : N) : hdr := (ct, (maj, (min, (ep, (sq, (cid, l)))))).

Definition ct_cid : N := 25.

(* Header.Unmarshal: Version1_0 {254,255} or Version1_2 {254,253} *)
Definition ver_ok (h : hdr) : bool := (h_maj h =? 254) && ((h_min h =? 255) || (h_min h =? 253)).
(* Header.Marshal: SequenceNumber > MaxSequenceNumber is an error *)
Definition seq_ok (h : hdr) : bool := h_seq h <=? 281474976710655.

(* the connection id is present exactly when the content type is tls12_cid; its length is the
   length of the ConnectionID slice the caller pre-initialised (the context) *)
Definition c_header_raw (cidlen : nat) : codec hdr :=
  c_bind (c_u 1) (fun ct =>
    c_seq (c_u 1) (c_seq (c_u 1) (c_seq (c_u 2) (c_seq (c_u 6)
      (c_seq (c_bytes (if ct =? ct_cid then cidlen else 0%nat)) (c_u 2)))))).

Definition c_header (cidlen : nat) : codec hdr := c_guard seq_ok ver_ok (c_header_raw cidlen).

(* Go: func (h *Header) Unmarshal(data) - trailing bytes (the record body) are not looked at *)
Definition w_header (cidlen : nat) : wcodec hdr := w_lenient (c_header cidlen).

(* ------------------------------------------------------------------ handshake/header.go *)

(* (type, (length, (message_seq, (fragment_offset, fragment_length)))) *)
Definition hshdr : Type := (N * (N * (N * (N * N))))%type.
Definition c_hs_header : codec hshdr :=
  c_seq (c_u 1) (c_seq (c_u 3) (c_seq (c_u 2) (c_seq (c_u 3) (c_u 3)))).
Definition w_hs_header : wcodec hshdr := w_lenient c_hs_header.

(* ------------------------------------------------------------------ alert, CCS, app data *)

Definition w_alert : wcodec (N * N) := w_exact (c_seq (c_u 1) (c_u 1)).
Definition w_ccs : wcodec unit := w_exact (c_const [1]).
Definition w_appdata : wcodec bytes := w_rest.

(* ------------------------------------------------------------------ ack.go *)

(* record_numbers<0..2^16-1> of (epoch : uint64, sequence_number : uint64); nothing may follow *)
Definition c_recnum : codec (N * N) := c_seq (c_u 8) (c_u 8).
Definition w_ack : wcodec (list (N * N)) := w_exact (c_vec 2 (w_list c_recnum)).

(* ------------------------------------------------------------------ return_routability_check.go *)

Definition zeros8 : bytes := [0; 0; 0; 0; 0; 0; 0; 0].
(* unknown msg_type (> path_drop = 2): whatever follows is ignored and the cookie is zeroed *)
Definition w_rrc_unknown : wcodec bytes :=
  {| wwf ck := bytes_eqb ck zeros8; wenc ck := Some ck; wdec _ := Some zeros8 |}.
Definition w_rrc : wcodec (N * bytes) :=
  w_bind (c_u 1) (fun t => if 2 <? t then w_rrc_unknown else w_exact (c_bytes 8)).

(* ------------------------------------------------------------------ inner_plaintext.go *)

(* (content, real type, number of zero padding bytes); decoded from the end *)
Definition inner : Type := (bytes * N * nat)%type.

Fixpoint strip_zeros (r : bytes) : nat * bytes :=
  match r with
  | 0 :: r' => let '(z, t) := strip_zeros r' in (S z, t)
  | _ => (O, r)
  end.

Definition inner_enc (x : inner) : option bytes :=
  let '(c, t, z) := x in Some (c ++ t :: repeat 0 z).
Definition inner_dec (b : bytes) : option inner :=
  let '(z, r) := strip_zeros (rev b) in
  match r with
  | [] => None
  | t :: c => Some (rev c, t, z)
  end.
Definition inner_wf (x : inner) : bool :=
  let '(c, t, z) := x in bytes_ok c && (t <? 256) && negb (t =? 0).
Definition w_inner : wcodec inner := {| wwf := inner_wf; wenc := inner_enc; wdec := inner_dec |}.

(* ------------------------------------------------------------------ recordlayer.go unpackers *)

Definition hd0 (b : bytes) : N := match b with x :: _ => x | [] => 0 end.

(* header size used by the unpacker: UnpackDatagram never looks at the content type
   ([aware = false]); ContentAwareUnpackDatagram adds cidLength for tls12_cid records *)
Definition unpack_hsize (aware : bool) (cidlen : nat) (b : bytes) : nat :=
  (13 + (if aware && (hd0 b =? ct_cid)%N then cidlen else 0))%nat.

(* declared total length of the record at the head of b *)
Definition unpack_pktlen (aware : bool) (cidlen : nat) (b : bytes) : nat :=
  let hs := unpack_hsize aware cidlen b in
  (hs + N.to_nat (be_dec (firstn 2 (skipn (hs - 2) b))))%nat.

Fixpoint unpack (aware : bool) (cidlen : nat) (fuel : nat) (b : bytes) : option (list bytes) :=
  match b with
  | [] => Some []
  | _ :: _ =>
      match fuel with
      | O => None
      | S fuel' =>
          if (length b <=? unpack_hsize aware cidlen b)%nat then None     (* ErrInvalidPacketLength *)
          else let n := unpack_pktlen aware cidlen b in
               if (length b <? n)%nat then None                            (* ErrInvalidPacketLength *)
               else match unpack aware cidlen fuel' (skipn n b) with
                    | Some rs => Some (firstn n b :: rs)
                    | None => None
                    end
      end
  end.

Definition unpack_datagram (b : bytes) : option (list bytes) := unpack false 0 (length b) b.
Definition content_aware_unpack (cidlen : nat) (b : bytes) : option (list bytes) :=
  unpack true cidlen (length b) b.

(* a record as the unpackers see it: header of the size the unpacker assumes plus exactly the
   declared number of content bytes *)
Definition well_framed (aware : bool) (cidlen : nat) (r : bytes) : Prop :=
  (unpack_hsize aware cidlen r <= length r)%nat /\ length r = unpack_pktlen aware cidlen r.

(* ------------------------------------------------------------------ recordlayer.go RecordLayer *)

Inductive content (H : Type) : Type :=
| CCcs : content H
| CAlert : N * N -> content H
| CHandshake : H -> content H
| CAppData : bytes -> content H
| CAck : list (N * N) -> content H
| CRrc : N * bytes -> content H.
Arguments CCcs {H}. Arguments CAlert {H}. Arguments CHandshake {H}. Arguments CAppData {H}.
Arguments CAck {H}. Arguments CRrc {H}.

Definition content_type {H} (c : content H) : N :=
  match c with
  | CCcs => 20 | CAlert _ => 21 | CHandshake _ => 22 | CAppData _ => 23 | CAck _ => 26 | CRrc _ => 27
  end.

Section Record12.
  Context {H : Type} (hs : wcodec H).

  Definition content_enc (c : content H) : option bytes :=
    match c with
    | CCcs => wenc w_ccs tt
    | CAlert a => wenc w_alert a
    | CHandshake h => wenc hs h
    | CAppData d => wenc w_appdata d
    | CAck l => wenc w_ack l
    | CRrc r => wenc w_rrc r
    end.

  Definition content_wf (c : content H) : bool :=
    match c with
    | CCcs => true
    | CAlert a => wwf w_alert a
    | CHandshake h => wwf hs h
    | CAppData d => wwf w_appdata d
    | CAck l => wwf w_ack l
    | CRrc r => wwf w_rrc r
    end.

  (* the switch of RecordLayer.Unmarshal *)
  Definition content_dec (ct : N) (b : bytes) : option (content H) :=
    if ct =? 20 then omap (fun _ => CCcs) (wdec w_ccs b)
    else if ct =? 21 then omap CAlert (wdec w_alert b)
    else if ct =? 22 then omap CHandshake (wdec hs b)
    else if ct =? 23 then omap CAppData (wdec w_appdata b)
    else if ct =? 26 then omap CAck (wdec w_ack b)
    else if ct =? 27 then omap CRrc (wdec w_rrc b)
    else None.                                                   (* ErrInvalidContentType; includes tls12_cid *)

  (* RecordLayer.Unmarshal: header (of a struct whose ConnectionID has length cidlen), then
     *everything* after the header goes to the content decoder - ContentLen is not consulted.
     The slice start is Header.Size() + len(ConnectionID), i.e. the CID is skipped twice, but a
     non-empty CID only occurs with content type tls12_cid, which the switch rejects first. *)
  Definition record_unmarshal (cidlen : nat) (b : bytes) : option (hdr * content H) :=
    match dec (c_header cidlen) b with
    | Some (h, r) =>
        match content_dec (h_ct h) r with
        | Some c => Some (h, c)
        | None => None
        end
    | None => None
    end.

  (* RecordLayer.Marshal: ContentType := content's type, ContentLen := len(content), refused
     (ErrRecordTooLong, since 9ff70b9) when that does not fit 16 bits.  [wrap = true] is the
     encoder as coded before that commit: ContentLen := uint16(len(content)), i.e. modulo 65536. *)
  Definition record_marshal_gen (wrap : bool) (x : hdr * content H) : option bytes :=
    let '(h, c) := x in
    match content_enc c with
    | Some ce =>
        if negb wrap && (65535 <? len ce) then None
        else
          let h' := mk_hdr (content_type c) (h_maj h) (h_min h) (h_epoch h) (h_seq h) (h_cid h)
                           (len ce mod 65536) in
          match enc (c_header (length (h_cid h))) h' with
          | Some he => Some (he ++ ce)
          | None => None
          end
    | None => None
    end.
  Definition record_marshal : hdr * content H -> option bytes := record_marshal_gen false.

  (* the domain on which the record round-trips as a value *)
  Definition record_wf (x : hdr * content H) : bool :=
    let '(h, c) := x in
    wf (c_header 0) h && (h_ct h =? content_type c) && content_wf c &&
    match content_enc c with Some ce => (h_len h =? len ce) | None => false end.
End Record12.
