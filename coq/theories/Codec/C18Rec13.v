(* C18 group 2 - DTLS 1.3 record layer models: unified header (header_13.go), DTLSPlaintext /
   DTLSCiphertext records and UnpackDatagram13 (recordlayer_13.go).  Definitions only. *)
From DtlsV Require Import Lib.Bytes Codec.C18Comb Codec.C18Rec.
Open Scope N_scope.

(* ------------------------------------------------------------------ unified header *)

(* first byte 0 0 1 C S L E E  <->  (C, S, L, epoch low bits) *)
Definition uflags : Type := (bool * bool * bool * N)%type.
Definition flags_of (ct : N) : uflags := (N.testbit ct 4, N.testbit ct 3, N.testbit ct 2, ct mod 4).
Definition byte_of_flags (f : uflags) : N :=
  let '(c, s, l, e) := f in
  32 + (if c then 16 else 0) + (if s then 8 else 0) + (if l then 4 else 0) + e mod 4.
Definition is_ciphertext_ct (ct : N) : bool := (32 <=? ct) && (ct <=? 63).   (* IsDTLS13Ciphertext *)
Definition flags_wf (f : uflags) : bool := let '(_, _, _, e) := f in e <? 4.

Definition c_flags : codec uflags :=
  c_map flags_of byte_of_flags flags_wf (c_guard (fun _ => true) is_ciphertext_ct (c_u 1)).

(* an absent field that reads as 0 *)
Definition c_zero : codec N := c_map (fun _ => 0) (fun _ => tt) (fun n => n =? 0) (c_const []).

(* wire layout: flags, [cid of the negotiated length], 8- or 16-bit sequence number, [length] *)
Definition uhdr_wire : Type := (uflags * (bytes * (N * N)))%type.
Definition c_uhdr_wire (cidlen : nat) : codec uhdr_wire :=
  c_bind c_flags (fun f =>
    let '(c, s, l, _) := f in
    c_seq (c_bytes (if c then cidlen else 0%nat))
      (c_seq (c_u (if s then 2 else 1)) (if l then c_u 2 else c_zero))).

(* the Go struct: (ConnectionID, (SequenceNumber, (SeqBit, (Length, (LengthBit, EpochLow))))).
   Marshal derives the C bit from len(ConnectionID) > 0, so a header received with the C bit
   and a zero-length negotiated CID re-encodes without it. *)
Definition uhdr : Type := (bytes * (N * (bool * (N * (bool * N)))))%type.
Definition uh_cid (h : uhdr) : bytes := fst h.
Definition uh_seq (h : uhdr) : N := fst (snd h).
Definition uh_sbit (h : uhdr) : bool := fst (snd (snd h)).
Definition uh_len (h : uhdr) : N := fst (snd (snd (snd h))).
Definition uh_lbit (h : uhdr) : bool := fst (snd (snd (snd (snd h)))).
Definition uh_elow (h : uhdr) : N := snd (snd (snd (snd (snd h)))).
Definition mk_uhdr (cid : bytes) (sq : N) (sb : bool) (l : N) (lb : bool) (el : N) : uhdr :=
  (cid, (sq, (sb, (l, (lb, el))))).

Definition is_nil (b : bytes) : bool := match b with [] => true | _ => false end.
Definition uhdr_of_wire (w : uhdr_wire) : uhdr :=
  let '((_, s, l, e), (cid, (sq, ln))) := w in mk_uhdr cid sq s ln l e.
Definition wire_of_uhdr (h : uhdr) : uhdr_wire :=
  ((negb (is_nil (uh_cid h)), uh_sbit h, uh_lbit h, uh_elow h), (uh_cid h, (uh_seq h, uh_len h))).

(* UnifiedHeader.Marshal: ErrCIDTooBig above 255 bytes *)
Definition uh_cid_ok (h : uhdr) : bool := (length (uh_cid h) <=? 255)%nat.

Definition c_uhdr (cidlen : nat) : codec uhdr :=
  c_guard uh_cid_ok (fun _ => true)
    (c_map uhdr_of_wire wire_of_uhdr (fun _ => true) (c_uhdr_wire cidlen)).

(* Go: UnifiedHeader.Unmarshal on a struct whose ConnectionID has length cidlen; bytes after the
   header are not looked at *)
Definition w_uhdr (cidlen : nat) : wcodec uhdr := w_lenient (c_uhdr cidlen).

(* size of the header on the wire as computed by unifiedHeaderWireSize(firstByte, cidLength) *)
Definition uh_wire_size (ct : N) (cidlen : nat) : nat :=
  (1 + cidlen + (if N.testbit ct 3 then 2 else 1) + (if N.testbit ct 2 then 2 else 0))%nat.

(* ------------------------------------------------------------------ DTLSCiphertext record *)

Definition ct_len_ok (n : N) : bool := (16 <=? n) && (n <=? 16640).   (* isValidDTLSCiphertextRecordLen *)

Definition crec13 : Type := (uhdr * bytes)%type.

(* CiphertextRecord13.Unmarshal *)
Definition crec13_unmarshal (cidlen : nat) (b : bytes) : option crec13 :=
  match dec (c_uhdr cidlen) b with
  | Some (h, rest) =>
      if uh_lbit h && negb (len rest =? uh_len h) then None            (* ErrInvalidPacketLength *)
      else if negb (ct_len_ok (len rest)) then None
      else Some (h, rest)
  | None => None
  end.

(* CiphertextRecord13.Marshal: always writes a 16-bit sequence number and the length *)
Definition crec13_marshal (x : crec13) : option bytes :=
  let '(h, er) := x in
  if negb (ct_len_ok (len er)) then None
  else
    let h' := mk_uhdr (uh_cid h) (uh_seq h) true (len er) true (uh_elow h) in
    match enc (c_uhdr (length (uh_cid h))) h' with
    | Some he => Some (he ++ er)
    | None => None
    end.

Definition crec13_wf (cidlen : nat) (x : crec13) : bool :=
  let '(h, er) := x in
  wf (c_uhdr cidlen) h && uh_sbit h && uh_lbit h && (uh_len h =? len er) && ct_len_ok (len er) &&
  bytes_ok er.

(* ------------------------------------------------------------------ DTLSPlaintext record *)

Definition is_plain13_ct (ct : N) : bool := (ct =? 21) || (ct =? 22) || (ct =? 26).

Section Plain13.
  Context {H : Type} (hs : wcodec H).

  (* PlaintextRecord13.Unmarshal: legacy header without the version check and without a CID,
     epoch 0 only, declared length at most 2^14 and equal to what follows, three content types *)
  Definition prec13_unmarshal (b : bytes) : option (hdr * content H) :=
    match dec (c_header_raw 0) b with
    | Some (h, rest) =>
        if negb (h_epoch h =? 0) then None                              (* ErrInvalidEpoch *)
        else if 16384 <? h_len h then None                              (* ErrInvalidPacketLength *)
        else if negb (len rest =? h_len h) then None                    (* ErrInvalidPacketLength *)
        else if negb (is_plain13_ct (h_ct h)) then None                 (* ErrInvalidContentType *)
        else match content_dec hs (h_ct h) rest with
             | Some c => Some (mk_hdr (h_ct h) (h_maj h) (h_min h) (h_epoch h) (h_seq h) [] (h_len h), c)
             | None => None
             end
    | None => None
    end.

  (* isPlaintextRecord13LegacyVersionForSend *)
  Definition plain13_version_ok (maj mi ct : N) (ce : bytes) : bool :=
    if (maj =? 254) && (mi =? 253) then true
    else if negb ((maj =? 254) && (mi =? 255)) then false
    else if negb (ct =? 22) then false
    else match dec c_hs_header ce with
         | Some (hh, _) => (fst hh =? 1) && (fst (snd (snd hh)) =? 0)    (* ClientHello, message_seq 0 *)
         | None => false
         end.

  (* PlaintextRecord13.Marshal *)
  Definition prec13_marshal (x : hdr * content H) : option bytes :=
    let '(h, c) := x in
    if negb (h_epoch h =? 0) then None
    else
      let '(maj, mi) := if (h_maj h =? 0) && (h_min h =? 0) then (254, 253) else (h_maj h, h_min h) in
      if negb (is_plain13_ct (content_type c)) then None
      else match content_enc hs c with
           | Some ce =>
               if negb (plain13_version_ok maj mi (content_type c) ce) then None
               else if 16384 <? len ce then None
               else match enc (c_header (length (h_cid h)))
                              (mk_hdr (content_type c) maj mi 0 (h_seq h) (h_cid h) (len ce)) with
                    | Some he => Some (he ++ ce)
                    | None => None
                    end
           | None => None
           end.

  Definition prec13_wf (x : hdr * content H) : bool :=
    let '(h, c) := x in
    wf (c_header_raw 0) h && (h_ct h =? content_type c) && is_plain13_ct (h_ct h) &&
    (h_epoch h =? 0) && (h_maj h =? 254) && (h_min h =? 253) && is_nil (h_cid h) &&
    content_wf hs c &&
    match content_enc hs c with Some ce => (h_len h =? len ce) && (len ce <=? 16384) | None => false end.
End Plain13.

(* ------------------------------------------------------------------ UnpackDatagram13 *)

(* one step on a ciphertext record at the head of b: Some (record, its cid, rest, done) *)
Definition unpack13_cipher (cidlen : nat) (cid_required : bool) (b : bytes) :
  option (bytes * bytes * bytes * bool) :=
  let ct := hd0 b in
  let has_cid := N.testbit ct 4 in
  (* validateCiphertextCIDBit *)
  if (cid_required && (0 <? cidlen)%nat && negb has_cid) || ((cidlen =? 0)%nat && has_cid) then None
  else
    match dec (c_uhdr (if has_cid then cidlen else 0%nat)) b with
    | None => None
    | Some (h, rest) =>
        if negb (uh_lbit h) then
          if ct_len_ok (len rest) then Some (b, uh_cid h, [], true) else None
        else if negb (ct_len_ok (uh_len h)) then None
        else if len rest <? uh_len h then None
        else Some (firstn (length b - length rest + N.to_nat (uh_len h)) b, uh_cid h,
                   drop (uh_len h) rest, false)
    end.

(* result: the records and the bytes that were NOT delivered (non-empty only when the loop
   stopped at a ciphertext record whose connection id differs from the first one's) *)
Fixpoint unpack13 (cidlen : nat) (cid_required enabled : bool) (first : option bytes)
  (fuel : nat) (b : bytes) : option (list bytes * bytes) :=
  match b with
  | [] => Some ([], [])
  | ct :: _ =>
      match fuel with
      | O => None
      | S fuel' =>
          if is_plain13_ct ct then
            if (length b <=? 13)%nat then None
            else let n := unpack_pktlen false 0 b in
                 if (length b <? n)%nat then None
                 else match unpack13 cidlen cid_required enabled first fuel' (skipn n b) with
                      | Some (rs, rest) => Some (firstn n b :: rs, rest)
                      | None => None
                      end
          else if negb enabled || negb (is_ciphertext_ct ct) then None   (* ErrInvalidContentType *)
          else match unpack13_cipher cidlen cid_required b with
               | None => None
               | Some (r, cid, rest, done) =>
                   (* isMismatchedCiphertextCID *)
                   let '(mismatch, first') :=
                     if (cidlen =? 0)%nat then (false, first)
                     else match first with
                          | None => (false, Some cid)
                          | Some c0 => (negb (bytes_eqb c0 cid), first)
                          end in
                   if mismatch then Some ([], b)
                   else if done then Some ([r], [])
                   else match unpack13 cidlen cid_required enabled first' fuel' rest with
                        | Some (rs, rest') => Some (r :: rs, rest')
                        | None => None
                        end
               end
      end
  end.

Definition unpack_datagram13 (cidlen : nat) (cid_required enabled : bool) (b : bytes) :=
  unpack13 cidlen cid_required enabled None (length b) b.
