(* C18 group 2 - theorems about the DTLS 1.3 record layer models of C18Rec13.v. *)
From DtlsV Require Import Lib.Bytes Codec.C18Comb Codec.C18CombSound Codec.C18Rec Codec.C18RecSound
  Codec.C18Rec13.
From Coq Require Import ZifyN ZifyNat ZifyBool.
Open Scope N_scope.

(* ------------------------------------------------------------------ flags byte *)

Lemma small_N_in n bound : n < N.of_nat bound -> In n (map N.of_nat (seq 0 bound)).
Proof.
  intro H. replace n with (N.of_nat (N.to_nat n)) by lia. apply in_map. apply in_seq. lia.
Qed.

Lemma flags_iso_all :
  forallb (fun ct => negb (is_ciphertext_ct ct) ||
                     ((byte_of_flags (flags_of ct) =? ct) && flags_wf (flags_of ct)))
          (map N.of_nat (seq 0 64)) = true.
Proof. vm_compute. reflexivity. Qed.

Lemma flags_iso ct : is_ciphertext_ct ct = true ->
  byte_of_flags (flags_of ct) = ct /\ flags_wf (flags_of ct) = true.
Proof.
  intro Hc. assert (Hlt : ct < N.of_nat 64).
  { unfold is_ciphertext_ct in Hc. apply andb_prop in Hc. destruct Hc as [_ Hc]. lia. }
  pose proof (proj1 (forallb_forall _ _) flags_iso_all ct (small_N_in ct 64 Hlt)) as H.
  cbv beta in H. rewrite Hc in H. cbn [negb orb] in H. apply andb_prop in H. destruct H as [H1 H2].
  apply N.eqb_eq in H1. split; assumption.
Qed.

Lemma flags_of_byte f : flags_wf f = true -> flags_of (byte_of_flags f) = f /\
  is_ciphertext_ct (byte_of_flags f) = true /\ byte_of_flags f < 256.
Proof.
  destruct f as [[[c s] l] e]. unfold flags_wf. intro He.
  assert (Hc : e = 0 \/ e = 1 \/ e = 2 \/ e = 3) by lia.
  destruct Hc as [-> | [-> | [-> | ->]]]; destruct c, s, l; vm_compute; repeat split; reflexivity.
Qed.

Lemma sound_flags : sound c_flags.
Proof.
  unfold c_flags. apply sound_map; [|apply sound_guard, sound_u].
  intros f W _. exact (proj1 (flags_of_byte f W)).
Qed.

Lemma decok_flags : dec_ok c_flags.
Proof.
  unfold c_flags. apply decok_map_iso; [|apply decok_guard; [reflexivity|apply decok_u]].
  intros ct W. unfold c_guard in W; cbn [wf] in W. apply andb_prop in W. destruct W as [_ Hc].
  destruct (flags_iso ct Hc) as [H1 H2]. split; assumption.
Qed.

Lemma trunc_flags : trunc c_flags.
Proof. unfold c_flags. apply trunc_map, trunc_guard, trunc_u. Qed.

Lemma flags_wf_full f : wf c_flags f = true <-> flags_wf f = true.
Proof.
  unfold c_flags, c_map, c_guard; cbn [wf]. split.
  - intro H. apply andb_prop in H. exact (proj1 H).
  - intro H. destruct (flags_of_byte f H) as [_ [Hc Hb]]. rewrite H, Hc.
    unfold c_u; cbn [wf]. change (256 ^ N.of_nat 1) with 256.
    destruct (N.ltb_spec (byte_of_flags f) 256); [reflexivity|lia].
Qed.

(* ------------------------------------------------------------------ c_zero *)

Lemma sound_zero : sound c_zero.
Proof.
  unfold c_zero. apply sound_map; [|apply sound_const].
  intros y W _. apply N.eqb_eq in W. now subst.
Qed.
Lemma decok_zero : dec_ok c_zero.
Proof.
  unfold c_zero. apply decok_map_iso; [|apply decok_const].
  intros [] _. split; reflexivity.
Qed.
Lemma trunc_zero : trunc c_zero.
Proof. unfold c_zero. apply trunc_map, trunc_const. Qed.

(* ------------------------------------------------------------------ unified header *)

Lemma sound_uhdr_wire n : sound (c_uhdr_wire n).
Proof.
  unfold c_uhdr_wire. apply sound_bind; [apply sound_flags|]. intros [[[c s] l] e] _.
  apply sound_seq; [apply sound_bytes|]. apply sound_seq; [apply sound_u|].
  destruct l; [apply sound_u|apply sound_zero].
Qed.
Lemma decok_uhdr_wire n : dec_ok (c_uhdr_wire n).
Proof.
  unfold c_uhdr_wire. apply decok_bind; [apply decok_flags|]. intros [[[c s] l] e] _.
  apply decok_seq; [apply decok_bytes|]. apply decok_seq; [apply decok_u|].
  destruct l; [apply decok_u|apply decok_zero].
Qed.
Lemma trunc_uhdr_wire n : trunc (c_uhdr_wire n).
Proof.
  unfold c_uhdr_wire. apply trunc_bind; [apply sound_flags|apply trunc_flags|]. intros [[[c s] l] e] _.
  apply trunc_seq; [apply sound_bytes|apply trunc_bytes|].
  apply trunc_seq; [apply sound_u|apply trunc_u|]. destruct l; [apply trunc_u|apply trunc_zero].
Qed.

Lemma uhdr_wire_iso h : uhdr_of_wire (wire_of_uhdr h) = h.
Proof. destruct h as [cid [sq [sb [l [lb el]]]]]. reflexivity. Qed.

Definition c_uhdr_mapped (n : nat) : codec uhdr :=
  c_map uhdr_of_wire wire_of_uhdr (fun _ => true) (c_uhdr_wire n).

Lemma sound_uhdr_mapped n : sound (c_uhdr_mapped n).
Proof. apply sound_map; [|apply sound_uhdr_wire]. intros y _ _. apply uhdr_wire_iso. Qed.

(* what the domain of the mapped codec is *)
Lemma uhdr_mapped_wf_spec n cid sq sb l lb el :
  wf (c_uhdr_mapped n) (mk_uhdr cid sq sb l lb el) = true <->
  (cid = [] \/ length cid = n) /\ bytes_ok cid = true /\
  sq < (if sb then 65536 else 256) /\ (if lb then l < 65536 else l = 0) /\ el < 4.
Proof.
  unfold c_uhdr_mapped, c_map; cbn [wf]. unfold wire_of_uhdr, mk_uhdr, uh_cid, uh_seq, uh_sbit, uh_len,
    uh_lbit, uh_elow; cbn [fst snd].
  unfold c_uhdr_wire, c_bind; cbn [wf fst snd]. rewrite andb_true_l.
  split.
  - intro H. apply andb_prop in H. destruct H as [Hf H]. apply flags_wf_full in Hf.
    unfold flags_wf in Hf. unfold c_seq, c_bind in H; cbn [wf fst snd] in H.
    apply andb_prop in H. destruct H as [Hc H]. apply andb_prop in H. destruct H as [Hs Hl].
    unfold c_bytes in Hc; cbn [wf] in Hc. apply andb_prop in Hc. destruct Hc as [Hcl Hcb].
    apply Nat.eqb_eq in Hcl. split.
    { destruct cid; [left; reflexivity|right; exact Hcl]. }
    split; [exact Hcb|]. split.
    { destruct sb; unfold c_u in Hs; cbn [wf] in Hs;
        [change (256 ^ N.of_nat 2) with 65536 in Hs|change (256 ^ N.of_nat 1) with 256 in Hs]; lia. }
    split; [|lia].
    destruct lb.
    + unfold c_u in Hl; cbn [wf] in Hl. change (256 ^ N.of_nat 2) with 65536 in Hl. lia.
    + unfold c_zero, c_map in Hl; cbn [wf] in Hl. apply andb_prop in Hl. destruct Hl as [Hl _]. lia.
  - intros (Hc & Hb & Hs & Hl & He).
    apply andb_true_intro. split.
    { apply flags_wf_full. unfold flags_wf. lia. }
    unfold c_seq, c_bind; cbn [wf fst snd].
    apply andb_true_intro. split.
    { unfold c_bytes; cbn [wf]. rewrite Hb, andb_true_r. apply Nat.eqb_eq.
      destruct cid as [|x cid]; [reflexivity|]. cbn [is_nil negb]. destruct Hc as [Hc|Hc]; [discriminate|exact Hc]. }
    apply andb_true_intro. split.
    { destruct sb; unfold c_u; cbn [wf];
        [change (256 ^ N.of_nat 2) with 65536|change (256 ^ N.of_nat 1) with 256]; lia. }
    destruct lb.
    + unfold c_u; cbn [wf]. change (256 ^ N.of_nat 2) with 65536. lia.
    + unfold c_zero, c_map; cbn [wf]. subst l. reflexivity.
Qed.

(* the encoder never looks at the negotiated CID length *)
Lemma uhdr_enc_indep n m h : enc (c_uhdr_mapped n) h = enc (c_uhdr_mapped m) h.
Proof.
  destruct h as [cid [sq [sb [l [lb el]]]]]. unfold c_uhdr_mapped, c_map; cbn [enc].
  unfold wire_of_uhdr, c_uhdr_wire, c_bind; cbn [enc fst snd]. reflexivity.
Qed.

Lemma uhdr_wire_enc n c s l el cid sq ln :
  enc (c_uhdr_wire n) ((c, s, l, el), (cid, (sq, ln))) =
  Some (be_enc 1 (byte_of_flags (c, s, l, el)) ++ cid ++ be_enc (if s then 2 else 1) sq ++
        (if l then be_enc 2 ln else [])).
Proof. destruct s, l; reflexivity. Qed.

Lemma decok_uhdr_mapped n : dec_ok (c_uhdr_mapped n).
Proof.
  unfold c_uhdr_mapped. apply decok_map; [|apply decok_uhdr_wire].
  intros [[[[c s] l] el] [cid [sq ln]]] e W E. split; [reflexivity|].
  change (uhdr_of_wire (c, s, l, el, (cid, (sq, ln)))) with (mk_uhdr cid sq s ln l el).
  (* the value decoded satisfies the domain conditions *)
  assert (Hspec : wf (c_uhdr_mapped n) (mk_uhdr cid sq s ln l el) = true).
  { apply uhdr_mapped_wf_spec.
    unfold c_uhdr_wire, c_bind in W; cbn [wf fst snd] in W.
    apply andb_prop in W. destruct W as [Hf W]. apply flags_wf_full in Hf. unfold flags_wf in Hf.
    unfold c_seq, c_bind in W; cbn [wf fst snd] in W.
    apply andb_prop in W. destruct W as [Hc W]. apply andb_prop in W. destruct W as [Hs Hl].
    unfold c_bytes in Hc; cbn [wf] in Hc. apply andb_prop in Hc. destruct Hc as [Hcl Hcb].
    apply Nat.eqb_eq in Hcl. split.
    { destruct c; [right; exact Hcl|left; destruct cid; [reflexivity|discriminate]]. }
    split; [exact Hcb|]. split.
    { destruct s; unfold c_u in Hs; cbn [wf] in Hs;
        [change (256 ^ N.of_nat 2) with 65536 in Hs|change (256 ^ N.of_nat 1) with 256 in Hs]; lia. }
    split; [|lia]. destruct l.
    + unfold c_u in Hl; cbn [wf] in Hl. change (256 ^ N.of_nat 2) with 65536 in Hl. lia.
    + unfold c_zero, c_map in Hl; cbn [wf] in Hl. apply andb_prop in Hl. destruct Hl as [Hl _]. lia. }
  unfold c_uhdr_mapped, c_map in Hspec; cbn [wf] in Hspec. split; [exact Hspec|].
  (* same length: only the C bit of the first byte may differ *)
  unfold wire_of_uhdr, mk_uhdr, uh_cid, uh_seq, uh_sbit, uh_len, uh_lbit, uh_elow; cbn [fst snd].
  rewrite uhdr_wire_enc in *.
  apply (f_equal (fun o => match o with Some x => length x | None => 0%nat end)) in E.
  eexists. split; [reflexivity|]. rewrite <- E. rewrite !app_length, !be_enc_length. lia.
Qed.

Lemma trunc_uhdr_mapped n : trunc (c_uhdr_mapped n).
Proof. apply trunc_map, trunc_uhdr_wire. Qed.

Theorem sound_uhdr n : sound (c_uhdr n).
Proof. apply sound_guard, sound_uhdr_mapped. Qed.

Theorem decok_uhdr n : (n <= 255)%nat -> dec_ok (c_uhdr n).
Proof.
  intro Hn. apply decok_guard; [|apply decok_uhdr_mapped].
  intros [cid [sq [sb [l [lb el]]]]] W _.
  change (cid, (sq, (sb, (l, (lb, el))))) with (mk_uhdr cid sq sb l lb el) in W.
  apply uhdr_mapped_wf_spec in W. destruct W as [[->|Hc] _]; unfold uh_cid_ok, uh_cid; cbn [fst length].
  - reflexivity.
  - apply Nat.leb_le. lia.
Qed.

Theorem trunc_uhdr n : trunc (c_uhdr n).
Proof. apply trunc_guard, trunc_uhdr_mapped. Qed.

Lemma uhdr_wf_spec n cid sq sb l lb el :
  wf (c_uhdr n) (mk_uhdr cid sq sb l lb el) = true <->
  (length cid <= 255)%nat /\ (cid = [] \/ length cid = n) /\ bytes_ok cid = true /\
  sq < (if sb then 65536 else 256) /\ (if lb then l < 65536 else l = 0) /\ el < 4.
Proof.
  unfold c_uhdr, c_guard; cbn [wf]. fold (c_uhdr_mapped n). rewrite andb_true_r.
  unfold uh_cid_ok, uh_cid, mk_uhdr; cbn [fst]. split.
  - intro H. apply andb_prop in H. destruct H as [H1 H2].
    apply (uhdr_mapped_wf_spec n cid sq sb l lb el) in H1. apply Nat.leb_le in H2. tauto.
  - intros (H1 & H2). apply andb_true_intro. split.
    + apply (uhdr_mapped_wf_spec n cid sq sb l lb el). exact H2.
    + apply Nat.leb_le. exact H1.
Qed.

Theorem uhdr_roundtrip n : wsound (w_uhdr n).
Proof. apply wsound_lenient, sound_uhdr. Qed.
Theorem uhdr_fixpoint n : (n <= 255)%nat -> wfixpoint (w_uhdr n).
Proof. intro Hn. apply wfixpoint_of; [apply uhdr_roundtrip|apply wdecok_lenient, decok_uhdr, Hn]. Qed.
Theorem uhdr_trunc n : wtrunc (w_uhdr n).
Proof. apply wtrunc_lenient, trunc_uhdr. Qed.
Theorem uhdr_ignores_body n : wlenient (w_uhdr n).
Proof. apply wlenient_lenient, sound_uhdr. Qed.

(* a header received with the C bit although the negotiated CID length is 0 is accepted and
   re-encoded WITHOUT the C bit: the decoder is lossy, the re-encoding canonical *)
Example uhdr_cid_bit_canonicalised :
  wdec (w_uhdr 0) [60; 0; 7; 0; 16] = Some (mk_uhdr [] 7 true 16 true 0) /\
  wenc (w_uhdr 0) (mk_uhdr [] 7 true 16 true 0) = Some [44; 0; 7; 0; 16].
Proof. vm_compute. split; reflexivity. Qed.

(* ------------------------------------------------------------------ DTLSCiphertext *)

Lemma uhdr_enc_indep' n m h : enc (c_uhdr n) h = enc (c_uhdr m) h.
Proof.
  unfold c_uhdr, c_guard; cbn [enc]. fold (c_uhdr_mapped n). fold (c_uhdr_mapped m).
  rewrite (uhdr_enc_indep n m). reflexivity.
Qed.

Theorem crec13_roundtrip n x : crec13_wf n x = true ->
  exists e, crec13_marshal x = Some e /\ crec13_unmarshal n e = Some x.
Proof.
  destruct x as [h er]. unfold crec13_wf. intro W.
  do 5 (apply andb_prop in W; destruct W as [W ?]).
  destruct h as [cid [sq [sb [l [lb el]]]]].
  unfold uh_sbit, uh_lbit, uh_len in *; cbn [fst snd] in *. subst sb lb.
  match goal with Hx : (l =? len er) = true |- _ => apply N.eqb_eq in Hx; subst l end.
  unfold crec13_marshal. match goal with Hx : ct_len_ok _ = true |- _ => rewrite Hx end. cbn [negb].
  unfold uh_cid, uh_seq, uh_elow; cbn [fst snd].
  change (mk_uhdr cid sq true (len er) true el) with (cid, (sq, (true, (len er, (true, el))))).
  rewrite (uhdr_enc_indep' (length cid) n).
  destruct (sound_uhdr n _ er W) as [he [Eh Dh]]. rewrite Eh. exists (he ++ er). split; [reflexivity|].
  unfold crec13_unmarshal. rewrite Dh. unfold uh_lbit, uh_len; cbn [fst snd].
  rewrite N.eqb_refl. cbn [negb andb].
  match goal with Hx : ct_len_ok _ = true |- _ => rewrite Hx end. reflexivity.
Qed.

(* every accepted ciphertext record re-encodes (with 16-bit sequence number and explicit length)
   and the re-encoding is a byte-level fixed point *)
Theorem crec13_fixpoint n b x : (n <= 255)%nat -> bytes_ok b = true -> crec13_unmarshal n b = Some x ->
  exists e x', crec13_marshal x = Some e /\ crec13_unmarshal n e = Some x' /\
               crec13_marshal x' = Some e /\ snd x' = snd x.
Proof.
  intros Hn Hb Hd. unfold crec13_unmarshal in Hd.
  destruct (dec (c_uhdr n) b) as [[h rest]|] eqn:Eh; [|discriminate].
  destruct (uh_lbit h && negb (len rest =? uh_len h)); [discriminate|].
  destruct (ct_len_ok (len rest)) eqn:Hlen; [|discriminate]. cbn [negb] in Hd.
  inversion Hd; subst x; clear Hd.
  destruct (decok_uhdr n Hn _ _ _ Hb Eh) as [Wh [he0 [p [_ [Hbp _]]]]].
  assert (Hrest : bytes_ok rest = true) by (rewrite Hbp in Hb; apply (bytes_ok_app_inv _ _ Hb)).
  destruct h as [cid [sq [sb [l [lb el]]]]].
  change (cid, (sq, (sb, (l, (lb, el))))) with (mk_uhdr cid sq sb l lb el) in Wh.
  apply uhdr_wf_spec in Wh. destruct Wh as (H1 & H2 & H3 & H4 & H5 & H6).
  set (h' := mk_uhdr cid sq true (len rest) true el).
  assert (Wx : crec13_wf n (h', rest) = true).
  { unfold crec13_wf. unfold h', uh_sbit, uh_lbit, uh_len, mk_uhdr; cbn [fst snd].
    rewrite N.eqb_refl, Hlen, Hrest. rewrite !andb_true_r.
    apply (uhdr_wf_spec n cid sq true (len rest) true el).
    unfold ct_len_ok in Hlen. repeat split; try assumption; try lia. destruct sb; lia. }
  destruct (crec13_roundtrip n (h', rest) Wx) as [e [Em Du]].
  exists e, (h', rest). split; [|split; [exact Du|split; [exact Em|reflexivity]]].
  unfold crec13_marshal in *. unfold uh_cid, uh_seq, uh_elow, h', mk_uhdr in *; cbn [fst snd] in *.
  exact Em.
Qed.

(* the explicit length, when present, is honoured exactly; without it the record extends to the
   end of the datagram *)
Theorem crec13_length_honoured n b h er : crec13_unmarshal n b = Some (h, er) ->
  ct_len_ok (len er) = true /\ (uh_lbit h = true -> uh_len h = len er).
Proof.
  unfold crec13_unmarshal. destruct (dec (c_uhdr n) b) as [[h0 rest]|]; [|discriminate].
  destruct (uh_lbit h0) eqn:Hl; cbn [andb].
  - destruct (N.eqb_spec (len rest) (uh_len h0)) as [He|]; [|discriminate]. cbn [negb].
    destruct (ct_len_ok (len rest)) eqn:Hc; [|discriminate]. cbn [negb]. intro H. inversion H; subst.
    split; [exact Hc|]. intros _. symmetry. exact He.
  - destruct (ct_len_ok (len rest)) eqn:Hc; [|discriminate]. cbn [negb]. intro H. inversion H; subst.
    split; [exact Hc|]. rewrite Hl. discriminate.
Qed.

(* ------------------------------------------------------------------ UnpackDatagram13 *)

#[local] Arguments unpack_pktlen : simpl never.
#[local] Arguments unpack_hsize : simpl never.
#[local] Arguments firstn : simpl never.
#[local] Arguments skipn : simpl never.

Lemma unpack13_cipher_split n req b r cid rest done : (n <= 255)%nat -> bytes_ok b = true ->
  unpack13_cipher n req b = Some (r, cid, rest, done) -> r ++ rest = b /\ r <> [].
Proof.
  intros Hn Hb. unfold unpack13_cipher.
  destruct ((req && (0 <? n)%nat && negb (N.testbit (hd0 b) 4)) || ((n =? 0)%nat && N.testbit (hd0 b) 4));
    [discriminate|].
  set (m := if N.testbit (hd0 b) 4 then n else 0%nat).
  assert (Hm : (m <= 255)%nat) by (unfold m; destruct (N.testbit (hd0 b) 4); lia).
  destruct (dec (c_uhdr m) b) as [[h rst]|] eqn:Eh; [|discriminate].
  destruct (decok_uhdr m Hm _ _ _ Hb Eh) as [_ [he [p [Ehe [Hbp Lp]]]]].
  assert (Hpne : p <> []).
  { intro Hp. subst p. cbn [length] in Lp. destruct he; [|cbn in Lp; lia].
    destruct (sound_uhdr m h []) as [e' [E' D']].
    { destruct (decok_uhdr m Hm _ _ _ Hb Eh) as [W _]. exact W. }
    rewrite Ehe in E'. inversion E'; subst e'. cbn [app] in D'.
    unfold c_uhdr, c_guard, c_map, c_uhdr_wire, c_bind, c_flags, c_map, c_guard, c_u in D'; cbn in D'. discriminate. }
  destruct (uh_lbit h); cbn [negb].
  - destruct (ct_len_ok (uh_len h)); [|discriminate]. cbn [negb].
    destruct (N.ltb_spec (len rst) (uh_len h)) as [|Hl]; [discriminate|].
    intro H. inversion H; subst; clear H.
    rewrite app_length. replace (length p + length rst - length rst)%nat with (length p) by lia.
    split.
    + rewrite firstn_app_ge by lia.
      replace (length p + N.to_nat (uh_len h) - length p)%nat with (N.to_nat (uh_len h)) by lia.
      rewrite <- app_assoc. f_equal. apply firstn_skipn.
    + rewrite firstn_app_ge by lia. intro Hx. apply app_eq_nil in Hx. destruct Hx; contradiction.
  - destruct (ct_len_ok (len rst)); [|discriminate]. intro H. inversion H; subst; clear H.
    split; [apply app_nil_r|]. intro Hx. apply app_eq_nil in Hx. destruct Hx; contradiction.
Qed.

(* the returned records are consecutive pieces of the datagram, in order; whatever was not
   returned (only after a connection-id mismatch) is the untouched tail *)
Theorem unpack13_partition n req en : (n <= 255)%nat -> forall fuel first b rs rest,
  bytes_ok b = true -> unpack13 n req en first fuel b = Some (rs, rest) -> concat rs ++ rest = b.
Proof.
  intro Hn. induction fuel as [|fuel IH]; intros first b rs rest Hb H.
  - destruct b; cbn [unpack13] in H; [|discriminate]. inversion H; subst. reflexivity.
  - destruct b as [|ct b0].
    { cbn [unpack13] in H. inversion H; subst. reflexivity. }
    cbn [unpack13] in H. remember (ct :: b0) as b eqn:Hbdef.
    destruct (is_plain13_ct ct).
    + destruct (length b <=? 13)%nat; [discriminate|].
      destruct (length b <? unpack_pktlen false 0 b)%nat; [discriminate|].
      destruct (unpack13 n req en first fuel (skipn (unpack_pktlen false 0 b) b)) as [[rs' rest']|] eqn:E;
        [|discriminate].
      inversion H; subst rs rest; clear H.
      assert (Hs : bytes_ok (skipn (unpack_pktlen false 0 b) b) = true) by apply (bytes_ok_split _ _ Hb).
      rewrite concat_cons, <- app_assoc, (IH _ _ _ _ Hs E). apply firstn_skipn.
    + destruct (negb en || negb (is_ciphertext_ct ct)); [discriminate|].
      destruct (unpack13_cipher n req b) as [[[[r cid] rst] done]|] eqn:Ec; [|discriminate].
      destruct (unpack13_cipher_split _ _ _ _ _ _ _ Hn Hb Ec) as [Hsplit _].
      destruct (if (n =? 0)%nat then (false, first)
                else match first with
                     | Some c0 => (negb (bytes_eqb c0 cid), first)
                     | None => (false, Some cid)
                     end) as [mismatch first'].
      destruct mismatch.
      { inversion H; subst. reflexivity. }
      destruct done.
      { inversion H; subst rs rest; clear H. cbn [concat]. rewrite app_nil_r.
        unfold unpack13_cipher in Ec.
        destruct ((req && (0 <? n)%nat && negb (N.testbit (hd0 b) 4)) || ((n =? 0)%nat && N.testbit (hd0 b) 4));
          [discriminate|].
        destruct (dec (c_uhdr (if N.testbit (hd0 b) 4 then n else 0%nat)) b) as [[h0 r0]|]; [|discriminate].
        destruct (uh_lbit h0); cbn [negb] in Ec.
        - destruct (ct_len_ok (uh_len h0)); [|discriminate]. cbn [negb] in Ec.
          destruct (len r0 <? uh_len h0); discriminate.
        - destruct (ct_len_ok (len r0)); [|discriminate]. inversion Ec; subst. rewrite app_nil_r in Hsplit.
          rewrite app_nil_r. reflexivity. }
      destruct (unpack13 n req en first' fuel rst) as [[rs' rest']|] eqn:E; [|discriminate].
      inversion H; subst rs rest; clear H.
      assert (Hs : bytes_ok rst = true) by (rewrite <- Hsplit in Hb; apply (bytes_ok_app_inv _ _ Hb)).
      rewrite concat_cons, <- app_assoc, (IH _ _ _ _ Hs E). exact Hsplit.
Qed.

(* when connection ids are not in use nothing is ever left undelivered *)
Theorem unpack13_no_cid_total req en : forall fuel first b rs rest,
  unpack13 0 req en first fuel b = Some (rs, rest) -> rest = [].
Proof.
  induction fuel as [|fuel IH]; intros first b rs rest H.
  - destruct b; cbn [unpack13] in H; [|discriminate]. inversion H; subst. reflexivity.
  - destruct b as [|ct b0].
    { cbn [unpack13] in H. inversion H; subst. reflexivity. }
    cbn [unpack13] in H. remember (ct :: b0) as b eqn:Hbdef.
    destruct (is_plain13_ct ct).
    + destruct (length b <=? 13)%nat; [discriminate|].
      destruct (length b <? unpack_pktlen false 0 b)%nat; [discriminate|].
      destruct (unpack13 0 req en first fuel (skipn (unpack_pktlen false 0 b) b)) as [[rs' rest']|] eqn:E;
        [|discriminate].
      inversion H; subst rs rest; clear H. exact (IH _ _ _ _ E).
    + destruct (negb en || negb (is_ciphertext_ct ct)); [discriminate|].
      destruct (unpack13_cipher 0 req b) as [[[[r cid] rst] done]|] eqn:Ec; [|discriminate].
      cbn [Nat.eqb] in H. destruct done.
      { inversion H; subst. reflexivity. }
      destruct (unpack13 0 req en first fuel rst) as [[rs' rest']|] eqn:E; [|discriminate].
      inversion H; subst rs rest; clear H. exact (IH _ _ _ _ E).
Qed.

(* REFUTED (as for UnpackDatagram): a well-framed plaintext record with an empty body is rejected
   when it is the last one - and because of the CID-mismatch stop rule the records RETURNED for
   one datagram can end in such a record, so what UnpackDatagram13 returns is not always accepted
   by UnpackDatagram13 *)
Theorem unpack13_zero_length_last_refuted :
  let z := [26; 254; 253; 0; 0; 0; 0; 0; 0; 0; 0; 0; 0] in
  let r1 := [60; 1; 0; 7; 0; 16] ++ repeat 170 16 in
  let r2 := [60; 2; 0; 8; 0; 16] ++ repeat 187 16 in
  well_framed false 0 z /\
  unpack_datagram13 0 false true z = None /\
  unpack_datagram13 1 true true (r1 ++ z ++ r2) = Some ([r1; z], r2) /\
  unpack_datagram13 1 true true (r1 ++ z) = None.
Proof. unfold well_framed. vm_compute. repeat split; lia. Qed.

(* the CID-mismatch stop rule: with two records carrying different connection ids only the
   first is returned, the second (and everything after it) is dropped without an error *)
Example unpack13_cid_mismatch_stops :
  let r1 := [60; 1; 0; 7; 0; 16] ++ repeat 170 16 in
  let r2 := [60; 2; 0; 8; 0; 16] ++ repeat 187 16 in
  unpack_datagram13 1 true true (r1 ++ r2) = Some ([r1], r2).
Proof. vm_compute. reflexivity. Qed.

(* ------------------------------------------------------------------ DTLSPlaintext *)

(* a decoder that always consumes exactly n bytes *)
Definition consumes {A} (c : codec A) (n : nat) : Prop :=
  forall b a r, dec c b = Some (a, r) -> length b = (n + length r)%nat.

Lemma consumes_u k : consumes (c_u k) k.
Proof.
  intros b a r H. unfold c_u in H; cbn [dec] in H.
  destruct (Nat.ltb_spec (length b) k); [discriminate|]. inversion H; subst. rewrite skipn_length. lia.
Qed.
Lemma consumes_bytes k : consumes (c_bytes k) k.
Proof.
  intros b a r H. unfold c_bytes in H; cbn [dec] in H.
  destruct (Nat.ltb_spec (length b) k); [discriminate|]. inversion H; subst. rewrite skipn_length. lia.
Qed.
Lemma consumes_bind {A B} (c1 : codec A) (c2 : A -> codec B) n1 n2 :
  consumes c1 n1 -> (forall a, consumes (c2 a) n2) -> consumes (c_bind c1 c2) (n1 + n2).
Proof.
  intros H1 H2 b [a x] r H. unfold c_bind in H; cbn [dec] in H.
  destruct (dec c1 b) as [[a' r1]|] eqn:E1; [|discriminate].
  destruct (dec (c2 a') r1) as [[x' r2]|] eqn:E2; [|discriminate].
  inversion H; subst. rewrite (H1 _ _ _ E1), (H2 _ _ _ _ E2). lia.
Qed.

Lemma header_raw0_consumes : consumes (c_header_raw 0) 13.
Proof.
  unfold c_header_raw. change 13%nat with (1 + (1 + (1 + (2 + (6 + (0 + 2))))))%nat.
  apply consumes_bind; [apply consumes_u|]. intro ct. unfold c_seq.
  repeat (apply consumes_bind; [apply consumes_u|intros _]).
  apply consumes_bind; [|intros _; apply consumes_u].
  destruct (ct =? ct_cid); apply consumes_bytes.
Qed.

Section Plain13.
  Context {H : Type} (hs : wcodec H).
  Hypothesis hs_sound : wsound hs.

  (* the declared length is honoured exactly: 13 header bytes plus ContentLen bytes, nothing
     more, nothing less; epoch 0; at most 2^14 bytes of content; three content types *)
  Theorem prec13_length_honoured b h c : prec13_unmarshal hs b = Some (h, c) ->
    len b = 13 + h_len h /\ h_len h <= 16384 /\ h_epoch h = 0 /\ is_plain13_ct (h_ct h) = true /\
    content_type c = h_ct h.
  Proof.
    unfold prec13_unmarshal. destruct (dec (c_header_raw 0) b) as [[h0 rest]|] eqn:Eh; [|discriminate].
    pose proof (header_raw0_consumes _ _ _ Eh) as Hl.
    destruct (N.eqb_spec (h_epoch h0) 0) as [He|]; [|discriminate]. cbn [negb].
    destruct (N.ltb_spec 16384 (h_len h0)) as [|Hle]; [discriminate|].
    destruct (N.eqb_spec (len rest) (h_len h0)) as [Hr|]; [|discriminate]. cbn [negb].
    destruct (is_plain13_ct (h_ct h0)) eqn:Hct; [|discriminate]. cbn [negb].
    destruct (content_dec hs (h_ct h0) rest) as [c0|] eqn:Ec; [|discriminate].
    intro Hx. inversion Hx; subst h c; clear Hx.
    unfold h_len, h_epoch, h_ct, mk_hdr in *; cbn [fst snd] in *.
    split; [unfold len in *; lia|]. split; [exact Hle|]. split; [exact He|]. split; [exact Hct|].
    exact (content_dec_type hs _ _ _ Ec).
  Qed.

  Theorem prec13_roundtrip x : prec13_wf hs x = true ->
    exists e, prec13_marshal hs x = Some e /\ prec13_unmarshal hs e = Some x.
  Proof.
    destruct x as [h c]. unfold prec13_wf. intro W.
    destruct (content_enc hs c) as [ce|] eqn:Ece; [|rewrite andb_false_r in W; discriminate].
    do 8 (apply andb_prop in W; destruct W as [W ?]).
    match goal with Hx : (_ =? len ce) && _ = true |- _ => apply andb_prop in Hx; destruct Hx as [Hlen Hle] end.
    repeat match goal with Hx : (_ =? _) = true |- _ => apply N.eqb_eq in Hx end.
    destruct h as [ct [maj [mi [ep [sq [cid l]]]]]].
    unfold h_ct, h_maj, h_min, h_epoch, h_seq, h_cid, h_len in *; cbn [fst snd] in *. subst.
    destruct cid; [|discriminate].
    destruct (content_roundtrip hs hs_sound c) as [ce' [Ece' Dc]]; [assumption|].
    rewrite Ece in Ece'. inversion Ece'; subst ce'; clear Ece'.
    unfold prec13_marshal. unfold h_epoch, h_maj, h_min, h_seq, h_cid; cbn [fst snd N.eqb negb andb Pos.eqb length].
    match goal with Hx : is_plain13_ct _ = true |- _ => rewrite Hx end. cbn [negb]. rewrite Ece.
    unfold plain13_version_ok. cbn [N.eqb Pos.eqb andb negb].
    destruct (N.ltb_spec 16384 (len ce)) as [|_]; [lia|].
    assert (Wh : wf (c_header 0) (mk_hdr (content_type c) 254 253 0 sq [] (len ce)) = true).
    { unfold c_header, c_guard; cbn [wf]. fold (mk_hdr (content_type c) 254 253 0 sq [] (len ce)) in W. rewrite W.
      rewrite (header_raw_seq_ok 0 _ W). reflexivity. }
    destruct (sound_header 0 _ ce Wh) as [he [Ehe Dhe]]. rewrite Ehe.
    exists (he ++ ce). split; [reflexivity|].
    unfold prec13_unmarshal.
    assert (Dr : dec (c_header_raw 0) (he ++ ce) = Some (mk_hdr (content_type c) 254 253 0 sq [] (len ce), ce)).
    { unfold c_header, c_guard in Dhe; cbn [dec] in Dhe.
      destruct (dec (c_header_raw 0) (he ++ ce)) as [[h1 r1]|]; [|discriminate].
      destruct (ver_ok h1); [|discriminate]. exact Dhe. }
    rewrite Dr. unfold h_epoch, h_len, h_ct, h_maj, h_min, h_seq, mk_hdr; cbn [fst snd N.eqb negb].
    destruct (N.ltb_spec 16384 (len ce)) as [|_]; [lia|]. rewrite N.eqb_refl. cbn [negb].
    match goal with Hx : is_plain13_ct _ = true |- _ => rewrite Hx end. cbn [negb]. rewrite Dc. reflexivity.
  Qed.
End Plain13.
