(* C18 group 1 - theorems about the record-level codec models of C18Rec.v. *)
From DtlsV Require Import Lib.Bytes Codec.C18Comb Codec.C18CombSound Codec.C18Rec.
From Coq Require Import ZifyN ZifyNat ZifyBool.
Open Scope N_scope.

Ltac codec_tac :=
  repeat first
    [ apply sound_seq | apply decok_seq
    | apply sound_u | apply decok_u | apply trunc_u
    | apply sound_bytes | apply decok_bytes | apply trunc_bytes
    | apply sound_const | apply decok_const | apply trunc_const
    | apply trunc_vec
    | apply trunc_seq ].

(* ------------------------------------------------------------------ record header *)

Lemma sound_header_raw n : sound (c_header_raw n).
Proof. unfold c_header_raw. apply sound_bind; [apply sound_u|]. intros ct _. codec_tac. Qed.
Lemma decok_header_raw n : dec_ok (c_header_raw n).
Proof. unfold c_header_raw. apply decok_bind; [apply decok_u|]. intros ct _. codec_tac. Qed.
Lemma trunc_header_raw n : trunc (c_header_raw n).
Proof.
  unfold c_header_raw. apply trunc_bind; [apply sound_u|apply trunc_u|]. intros ct _. codec_tac.
Qed.

Lemma header_raw_seq_ok n h : wf (c_header_raw n) h = true -> seq_ok h = true.
Proof.
  destruct h as [ct [maj [mi [ep [sq [cid l]]]]]].
  unfold c_header_raw, c_seq, c_bind, c_u, seq_ok, h_seq; cbn [wf fst snd].
  intro H. repeat (apply andb_prop in H; destruct H as [? H]).
  change (256 ^ N.of_nat 6) with 281474976710656 in *. lia.
Qed.

Theorem sound_header n : sound (c_header n).
Proof. apply sound_guard, sound_header_raw. Qed.
Theorem decok_header n : dec_ok (c_header n).
Proof.
  apply decok_guard; [|apply decok_header_raw]. intros h W _. exact (header_raw_seq_ok n h W).
Qed.
Theorem trunc_header n : trunc (c_header n).
Proof. apply trunc_guard, trunc_header_raw. Qed.

Theorem header_roundtrip n : wsound (w_header n).
Proof. apply wsound_lenient, sound_header. Qed.
Theorem header_fixpoint n : wfixpoint (w_header n).
Proof. apply wfixpoint_of; [apply header_roundtrip|apply wdecok_lenient, decok_header]. Qed.
Theorem header_trunc n : wtrunc (w_header n).
Proof. apply wtrunc_lenient, trunc_header. Qed.
Theorem header_ignores_body n : wlenient (w_header n).
Proof. apply wlenient_lenient, sound_header. Qed.

(* what [wf] of a header means, spelled out *)
Lemma header_wf_spec n ct maj mi ep sq cid l :
  wf (c_header n) (mk_hdr ct maj mi ep sq cid l) = true <->
  ct < 256 /\ maj = 254 /\ (mi = 255 \/ mi = 253) /\ ep < 65536 /\ sq < 281474976710656 /\
  length cid = (if ct =? ct_cid then n else 0%nat) /\ bytes_ok cid = true /\ l < 65536.
Proof.
  unfold c_header, c_guard, c_header_raw, c_seq, c_bind, c_u, c_bytes, mk_hdr, seq_ok, ver_ok,
    h_seq, h_maj, h_min; cbn [wf fst snd].
  change (256 ^ N.of_nat 1) with 256. change (256 ^ N.of_nat 2) with 65536.
  change (256 ^ N.of_nat 6) with 281474976710656.
  split.
  - intro H. repeat (apply andb_prop in H; destruct H as [H ?]).
    repeat match goal with
           | Hx : _ && _ = true |- _ => apply andb_prop in Hx; destruct Hx
           | Hx : _ || _ = true |- _ => apply orb_prop in Hx
           | Hx : (_ =? _)%nat = true |- _ => apply Nat.eqb_eq in Hx
           end.
    repeat split; try lia; try assumption.
  - intros (H1 & H2 & H3 & H4 & H5 & H6 & H7 & H8). rewrite H6, Nat.eqb_refl, H7.
    repeat (apply andb_true_intro; split); try reflexivity; try lia.
Qed.

(* ------------------------------------------------------------------ handshake header *)

Lemma sound_hs_header : sound c_hs_header.
Proof. unfold c_hs_header. codec_tac. Qed.
Lemma decok_hs_header : dec_ok c_hs_header.
Proof. unfold c_hs_header. codec_tac. Qed.
Lemma trunc_hs_header : trunc c_hs_header.
Proof. unfold c_hs_header. codec_tac. Qed.

Theorem hs_header_roundtrip : wsound w_hs_header.
Proof. apply wsound_lenient, sound_hs_header. Qed.
Theorem hs_header_fixpoint : wfixpoint w_hs_header.
Proof. apply wfixpoint_of; [apply hs_header_roundtrip|apply wdecok_lenient, decok_hs_header]. Qed.
Theorem hs_header_trunc : wtrunc w_hs_header.
Proof. apply wtrunc_lenient, trunc_hs_header. Qed.
Theorem hs_header_ignores_body : wlenient w_hs_header.
Proof. apply wlenient_lenient, sound_hs_header. Qed.

(* ------------------------------------------------------------------ alert, CCS, app data *)

Theorem alert_roundtrip : wsound w_alert.
Proof. apply wsound_exact. codec_tac. Qed.
Lemma alert_decok : wdec_ok w_alert.
Proof. apply wdecok_exact. codec_tac. Qed.
Theorem alert_fixpoint : wfixpoint w_alert.
Proof. apply wfixpoint_of; [apply alert_roundtrip|apply alert_decok]. Qed.
Theorem alert_trunc : wtrunc w_alert.
Proof. apply wtrunc_exact. codec_tac. Qed.
(* exactly two bytes are accepted, nothing else *)
Theorem alert_exact b : wdec w_alert b <> None -> length b = 2%nat.
Proof.
  destruct b as [|x [|y [|z b]]]; cbn; intro H; try reflexivity; try (exfalso; apply H; reflexivity).
Qed.

Theorem ccs_roundtrip : wsound w_ccs.
Proof. apply wsound_exact. codec_tac. Qed.
Lemma ccs_decok : wdec_ok w_ccs.
Proof. apply wdecok_exact. codec_tac. Qed.
Theorem ccs_fixpoint : wfixpoint w_ccs.
Proof. apply wfixpoint_of; [apply ccs_roundtrip|apply ccs_decok]. Qed.
Theorem ccs_trunc : wtrunc w_ccs.
Proof. apply wtrunc_exact. codec_tac. Qed.
Theorem ccs_only_01 b : wdec w_ccs b <> None -> b = [1].
Proof.
  intro H. unfold w_ccs, w_exact, c_const in H; cbn [wdec dec length] in H.
  destruct (bytes_eqb (firstn 1 b) [1]) eqn:E; [|exfalso; apply H; reflexivity].
  apply bytes_eqb_eq in E. destruct b as [|x b]; [discriminate E|].
  cbn [firstn] in E. inversion E; subst x. cbn [skipn] in H.
  destruct b; [reflexivity|exfalso; apply H; reflexivity].
Qed.

Theorem appdata_roundtrip : wsound w_appdata.
Proof. exact wsound_rest. Qed.
Theorem appdata_fixpoint : wfixpoint w_appdata.
Proof. apply wfixpoint_of; [exact wsound_rest|exact wdecok_rest]. Qed.

(* ------------------------------------------------------------------ ACK *)

Lemma sound_recnum : sound c_recnum.
Proof. unfold c_recnum. codec_tac. Qed.
Lemma decok_recnum : dec_ok c_recnum.
Proof. unfold c_recnum. codec_tac. Qed.
Lemma nonempty_recnum : nonempty c_recnum.
Proof. apply nonempty_seq_l, nonempty_u. lia. Qed.

Theorem ack_roundtrip : wsound w_ack.
Proof. apply wsound_exact, sound_vec, wsound_list; [apply sound_recnum|apply nonempty_recnum]. Qed.
Lemma ack_decok : wdec_ok w_ack.
Proof. apply wdecok_exact, decok_vec, wdecok_list, decok_recnum. Qed.
Theorem ack_fixpoint : wfixpoint w_ack.
Proof. apply wfixpoint_of; [apply ack_roundtrip|apply ack_decok]. Qed.
Theorem ack_trunc : wtrunc w_ack.
Proof. apply wtrunc_exact, trunc_vec. Qed.

(* ------------------------------------------------------------------ RRC *)

Lemma wsound_rrc_unknown : wsound w_rrc_unknown.
Proof.
  intros ck W. cbn in *. apply bytes_eqb_eq in W. subst ck. exists zeros8. split; reflexivity.
Qed.
Lemma wdecwf_rrc_unknown : wdec_wf w_rrc_unknown.
Proof. intros b a _ H. cbn in *. inversion H; subst. reflexivity. Qed.

Theorem rrc_roundtrip : wsound w_rrc.
Proof.
  apply wsound_bind; [apply sound_u|]. intros t _.
  destruct (2 <? t); [apply wsound_rrc_unknown|apply wsound_exact, sound_bytes].
Qed.
Lemma rrc_decwf : wdec_wf w_rrc.
Proof.
  apply wdecwf_bind; [apply decok_u|]. intros t _.
  destruct (2 <? t); [apply wdecwf_rrc_unknown|apply wdec_wf_of, wdecok_exact, decok_bytes].
Qed.
Theorem rrc_fixpoint : wfixpoint w_rrc.
Proof. apply wfixpoint_of_wf; [apply rrc_roundtrip|apply rrc_decwf]. Qed.

(* truncation is rejected for the three defined message types ... *)
Theorem rrc_trunc_known : forall t ck e k, wwf w_rrc (t, ck) = true -> t <= 2 ->
  wenc w_rrc (t, ck) = Some e -> (k < length e)%nat -> wdec w_rrc (firstn k e) = None.
Proof.
  intros t ck e k W Ht E Hk. unfold w_rrc, w_bind in *; cbn [wwf wenc wdec fst snd] in *.
  destruct (N.ltb_spec 2 t) as [|_]; [lia|].
  cbn [enc c_u wenc w_exact c_bytes] in E. inversion E; subst e; clear E.
  apply andb_prop in W. destruct W as [W0 W]. cbn [wwf w_exact wf c_bytes] in W.
  apply andb_prop in W. destruct W as [Wl _]. apply Nat.eqb_eq in Wl.
  cbn [length app be_enc] in Hk.
  destruct k as [|k]; [reflexivity|].
  cbn [firstn be_enc app]. cbn [dec c_u length Nat.ltb Nat.leb firstn skipn].
  assert (Hd : be_dec [(t / 1) mod 256] = t).
  { unfold be_dec; cbn [be_dec_acc]. cbn [wf c_u] in W0.
    change (256 ^ N.of_nat 1) with 256 in W0. rewrite N.div_1_r. rewrite N.mod_small; lia. }
  rewrite Hd.
  destruct (N.ltb_spec 2 t) as [|_]; [lia|].
  cbn [wdec w_exact dec c_bytes]. rewrite firstn_length.
  destruct (Nat.ltb_spec (Nat.min k (length ck)) 8) as [_|Hbad]; [reflexivity|lia].
Qed.

(* ... and refuted for unknown ones: every non-empty prefix is accepted *)
Theorem rrc_trunc_refuted : exists x e k,
  wwf w_rrc x = true /\ wenc w_rrc x = Some e /\ (k < length e)%nat /\ wdec w_rrc (firstn k e) <> None.
Proof. exists (3, zeros8), (3 :: zeros8), 1%nat. vm_compute. repeat split; try lia. discriminate. Qed.

(* ------------------------------------------------------------------ inner plaintext *)

Lemma strip_zeros_spec r : forall z s, strip_zeros r = (z, s) ->
  r = repeat 0 z ++ s /\ (match s with 0 :: _ => False | _ => True end).
Proof.
  induction r as [|x r IH]; intros z s H; cbn [strip_zeros] in H.
  - inversion H; subst. split; [reflexivity|exact I].
  - destruct x as [|p].
    + destruct (strip_zeros r) as [z' t] eqn:E. inversion H; subst.
      destruct (IH z' s eq_refl) as [Hr Hs]. split; [|exact Hs]. cbn [repeat app]. now rewrite <- Hr.
    + inversion H; subst. split; [reflexivity|exact I].
Qed.

Lemma strip_zeros_repeat z t c : t <> 0 -> strip_zeros (repeat 0 z ++ t :: c) = (z, t :: c).
Proof.
  intro Ht. induction z as [|z IH]; cbn [repeat app strip_zeros].
  - destruct t; [congruence|reflexivity].
  - rewrite IH. reflexivity.
Qed.

Lemma rev_repeat {A} (x : A) n : rev (repeat x n) = repeat x n.
Proof.
  induction n as [|n IH]; [reflexivity|]. cbn [repeat rev]. rewrite IH.
  clear IH. induction n as [|n IH]; [reflexivity|]. cbn [repeat app]. now rewrite IH.
Qed.

Lemma bytes_ok_rev b : bytes_ok (rev b) = bytes_ok b.
Proof.
  induction b as [|x b IH]; [reflexivity|]. cbn [rev]. rewrite bytes_ok_app, IH.
  unfold bytes_ok. cbn [forallb]. rewrite andb_true_r. apply andb_comm.
Qed.

Theorem inner_roundtrip : wsound w_inner.
Proof.
  intros [[c t] z] W. cbn [wwf wenc wdec w_inner inner_wf inner_enc] in *.
  exists (c ++ t :: repeat 0 z). split; [reflexivity|].
  apply andb_prop in W. destruct W as [_ Ht]. apply negb_true_iff in Ht. apply N.eqb_neq in Ht.
  unfold inner_dec. rewrite rev_app_distr. cbn [rev]. rewrite rev_repeat, <- app_assoc.
  cbn [app]. rewrite strip_zeros_repeat by exact Ht. rewrite rev_involutive. reflexivity.
Qed.

(* the decoder is injective: re-encoding reproduces the input exactly *)
Theorem inner_exact b x : inner_dec b = Some x -> inner_enc x = Some b.
Proof.
  unfold inner_dec. destruct (strip_zeros (rev b)) as [z r] eqn:E.
  destruct r as [|t c]; [discriminate|]. intro H. inversion H; subst x; clear H.
  destruct (strip_zeros_spec _ _ _ E) as [Hr _]. cbn [inner_enc]. f_equal.
  apply (f_equal (@rev N)) in Hr. rewrite rev_involutive in Hr. rewrite Hr.
  rewrite rev_app_distr. cbn [rev]. rewrite rev_repeat, <- app_assoc. reflexivity.
Qed.

Lemma inner_decwf : wdec_wf w_inner.
Proof.
  intros b [[c t] z] Hb H. cbn [wwf wdec w_inner] in *. unfold inner_dec in H.
  destruct (strip_zeros (rev b)) as [z' r] eqn:E. destruct r as [|t' c']; [discriminate|].
  inversion H; subst; clear H. destruct (strip_zeros_spec _ _ _ E) as [Hr Hs].
  rewrite <- bytes_ok_rev in Hb. rewrite Hr in Hb. rewrite bytes_ok_app in Hb.
  apply andb_prop in Hb. destruct Hb as [_ Hb]. unfold bytes_ok in Hb. cbn [forallb] in Hb.
  apply andb_prop in Hb. destruct Hb as [Ht Hc]. unfold inner_wf.
  fold (bytes_ok c') in Hc. rewrite bytes_ok_rev, Hc. unfold byte_ok in Ht. rewrite Ht.
  destruct t; [contradiction|reflexivity].
Qed.

Theorem inner_fixpoint : wfixpoint w_inner.
Proof. apply wfixpoint_of_wf; [apply inner_roundtrip|apply inner_decwf]. Qed.

(* all-zero (or empty) input is rejected *)
Theorem inner_all_zero_rejected z : inner_dec (repeat 0 z) = None.
Proof.
  unfold inner_dec. rewrite rev_repeat.
  assert (H : strip_zeros (repeat 0 z) = (z, [])).
  { induction z as [|z IH]; [reflexivity|]. cbn [repeat strip_zeros]. now rewrite IH. }
  rewrite H. reflexivity.
Qed.

(* ------------------------------------------------------------------ datagram unpacking *)

#[local] Arguments unpack_pktlen : simpl never.
#[local] Arguments unpack_hsize : simpl never.
#[local] Arguments firstn : simpl never.
#[local] Arguments skipn : simpl never.

Lemma hd0_firstn n b : (0 < n)%nat -> hd0 (firstn n b) = hd0 b.
Proof. intro H. destruct n; [lia|]. destruct b; reflexivity. Qed.

Lemma unpack_step_framed aware cid b :
  (unpack_hsize aware cid b < length b)%nat ->
  (unpack_pktlen aware cid b <= length b)%nat ->
  well_framed aware cid (firstn (unpack_pktlen aware cid b) b).
Proof.
  intros Hh Hn. set (n := unpack_pktlen aware cid b).
  assert (Hs : unpack_hsize aware cid (firstn n b) = unpack_hsize aware cid b).
  { unfold unpack_hsize. rewrite hd0_firstn; [reflexivity|]. unfold n, unpack_pktlen, unpack_hsize. lia. }
  assert (Hnh : (unpack_hsize aware cid b <= n)%nat) by (unfold n, unpack_pktlen; lia).
  assert (H13 : (13 <= unpack_hsize aware cid b)%nat) by (unfold unpack_hsize; lia).
  unfold well_framed. rewrite firstn_length, Nat.min_l by exact Hn. split; [rewrite Hs; exact Hnh|].
  unfold unpack_pktlen at 1. rewrite Hs. rewrite skipn_firstn_comm, firstn_firstn.
  rewrite Nat.min_l by lia. reflexivity.
Qed.

(* the records returned exactly partition the datagram, in order, and each one is a header of
   the assumed size followed by exactly the declared number of bytes *)
Theorem unpack_partition aware cid : forall fuel b rs,
  unpack aware cid fuel b = Some rs -> concat rs = b /\ Forall (well_framed aware cid) rs.
Proof.
  induction fuel as [|fuel IH]; intros b rs H.
  - destruct b; cbn [unpack] in H; [|discriminate]. inversion H; subst. split; [reflexivity|constructor].
  - destruct b as [|x b0].
    { cbn [unpack] in H. inversion H; subst. split; [reflexivity|constructor]. }
    cbn [unpack] in H. remember (x :: b0) as b eqn:Hbdef.
    destruct (Nat.leb_spec (length b) (unpack_hsize aware cid b)) as [|Hh]; [discriminate|].
    destruct (Nat.ltb_spec (length b) (unpack_pktlen aware cid b)) as [|Hn]; [discriminate|].
    destruct (unpack aware cid fuel (skipn (unpack_pktlen aware cid b) b)) as [rs'|] eqn:E; [|discriminate].
    inversion H; subst rs; clear H. destruct (IH _ _ E) as [Hc Hf]. split.
    + rewrite concat_cons, Hc. apply firstn_skipn.
    + constructor; [apply unpack_step_framed; assumption|exact Hf].
Qed.

Corollary unpack_datagram_partition b rs :
  unpack_datagram b = Some rs -> concat rs = b /\ Forall (well_framed false 0) rs.
Proof. apply unpack_partition. Qed.
Corollary content_aware_unpack_partition cid b rs :
  content_aware_unpack cid b = Some rs -> concat rs = b /\ Forall (well_framed true cid) rs.
Proof. apply unpack_partition. Qed.

(* every returned record carries at least one content byte ... *)
Lemma unpack_fuel_mono aware cid : forall fuel b rs, unpack aware cid fuel b = Some rs ->
  forall fuel', (fuel <= fuel')%nat -> unpack aware cid fuel' b = Some rs.
Proof.
  induction fuel as [|fuel IH]; intros b rs H fuel' Hf.
  - destruct b; cbn [unpack] in H; [|discriminate]. destruct fuel'; exact H.
  - destruct fuel' as [|fuel']; [lia|]. destruct b as [|x b0]; [exact H|].
    cbn [unpack] in *. remember (x :: b0) as b eqn:Hbdef.
    destruct (length b <=? unpack_hsize aware cid b)%nat; [discriminate|].
    destruct (length b <? unpack_pktlen aware cid b)%nat; [discriminate|].
    destruct (unpack aware cid fuel (skipn (unpack_pktlen aware cid b) b)) as [rs'|] eqn:E; [|discriminate].
    rewrite (IH _ _ E fuel') by lia. exact H.
Qed.

(* the fuel (length of the datagram) never runs out: each step consumes at least 13 bytes *)
Lemma unpack_fuel_irrel aware cid : forall f1 f2 b, (length b <= f1)%nat -> (length b <= f2)%nat ->
  unpack aware cid f1 b = unpack aware cid f2 b.
Proof.
  induction f1 as [|f1 IH]; intros f2 b H1 H2.
  - destruct b; [destruct f2; reflexivity|cbn [length] in H1; lia].
  - destruct b as [|x b0]; [destruct f2; reflexivity|].
    destruct f2 as [|f2]; [cbn [length] in H2; lia|].
    cbn [unpack]. remember (x :: b0) as b eqn:Hbdef.
    destruct (length b <=? unpack_hsize aware cid b)%nat eqn:E1; [reflexivity|].
    destruct (length b <? unpack_pktlen aware cid b)%nat eqn:E2; [reflexivity|].
    assert (Hn : (13 <= unpack_pktlen aware cid b)%nat) by (unfold unpack_pktlen, unpack_hsize; lia).
    assert (Hl : (length (skipn (unpack_pktlen aware cid b) b) < length b)%nat).
    { rewrite skipn_length. subst b. cbn [length]. lia. }
    rewrite (IH f2 (skipn (unpack_pktlen aware cid b) b)) by lia. reflexivity.
Qed.

Lemma unpack_fuel_enough aware cid fuel b : (length b <= fuel)%nat ->
  unpack aware cid fuel b = unpack aware cid (length b) b.
Proof. intro Hf. apply unpack_fuel_irrel; [exact Hf|lia]. Qed.

(* The ideal "a datagram that is a concatenation of well-framed records is accepted" is REFUTED
   by the faithful model: a well-framed record whose declared length is zero is rejected when it
   is the last one in the datagram ([len(buf)-offset <= FixedHeaderSize]) although the same
   record is accepted anywhere else. *)
Definition zero_len_record : bytes := [22; 254; 253; 0; 0; 0; 0; 0; 0; 0; 0; 0; 0].
Definition one_byte_record : bytes := [23; 254; 253; 0; 1; 0; 0; 0; 0; 0; 1; 0; 1; 170].

Theorem unpack_zero_length_last_refuted :
  well_framed false 0 zero_len_record /\
  unpack_datagram zero_len_record = None /\
  content_aware_unpack 0 zero_len_record = None /\
  unpack_datagram (zero_len_record ++ one_byte_record) = Some [zero_len_record; one_byte_record] /\
  unpack_datagram (one_byte_record ++ zero_len_record) = None.
Proof. unfold well_framed. vm_compute. repeat split; lia. Qed.

(* ------------------------------------------------------------------ RecordLayer (DTLS 1.2) *)

Section Record12.
  Context {H : Type} (hs : wcodec H).
  (* what is assumed of the handshake codec plugged into the record (discharged for the real
     handshake envelope in C18HsSound.v): it round-trips on its domain, and whenever a decoded
     handshake re-encodes at all, the re-encoding is a byte-level fixed point *)
  Hypothesis hs_sound : wsound hs.
  Hypothesis hs_refix : forall b x e, bytes_ok b = true -> wdec hs b = Some x -> wenc hs x = Some e ->
    exists x', wdec hs e = Some x' /\ wenc hs x' = Some e.

  Lemma content_roundtrip c : content_wf hs c = true ->
    exists ce, content_enc hs c = Some ce /\ content_dec hs (content_type c) ce = Some c.
  Proof.
    destruct c as [|a|h|d|l|r]; cbn [content_wf content_enc content_type]; intro W;
      unfold content_dec; cbn [N.eqb Pos.eqb].
    - destruct (ccs_roundtrip tt W) as [e [E D]]. exists e. rewrite D. split; [exact E|reflexivity].
    - destruct (alert_roundtrip a W) as [e [E D]]. exists e. rewrite D. split; [exact E|reflexivity].
    - destruct (hs_sound h W) as [e [E D]]. exists e. rewrite D. split; [exact E|reflexivity].
    - destruct (appdata_roundtrip d W) as [e [E D]]. exists e. rewrite D. split; [exact E|reflexivity].
    - destruct (ack_roundtrip l W) as [e [E D]]. exists e. rewrite D. split; [exact E|reflexivity].
    - destruct (rrc_roundtrip r W) as [e [E D]]. exists e. rewrite D. split; [exact E|reflexivity].
  Qed.

  Definition is_hs (c : content H) : bool := match c with CHandshake _ => true | _ => false end.

  Lemma content_dec_type ct b c : content_dec hs ct b = Some c -> content_type c = ct.
  Proof.
    unfold content_dec.
    repeat match goal with
           | |- context [if ?x =? ?y then _ else _] => destruct (N.eqb_spec x y) as [->|]
           end; try discriminate;
      match goal with |- omap _ ?o = _ -> _ => destruct o as [v|]; [|discriminate] end;
      cbn [omap]; intro Hx; inversion Hx; subst c; reflexivity.
  Qed.

  Lemma content_dec_wf ct b c : bytes_ok b = true -> content_dec hs ct b = Some c ->
    is_hs c = false -> content_wf hs c = true.
  Proof.
    intros Hb. unfold content_dec.
    repeat match goal with
           | |- context [if ?x =? ?y then _ else _] => destruct (N.eqb_spec x y) as [->|]
           end; try discriminate;
      match goal with |- omap _ ?o = _ -> _ => destruct o as [v|] eqn:E; [|discriminate] end;
      cbn [omap]; intro Hx; inversion Hx; subst c; clear Hx; cbn [content_wf is_hs]; intro Hh;
      try discriminate.
    - reflexivity.
    - exact (wdec_wf_of _ alert_decok _ _ Hb E).
    - exact (wdec_wf_of _ wdecok_rest _ _ Hb E).
    - exact (wdec_wf_of _ ack_decok _ _ Hb E).
    - exact (rrc_decwf _ _ Hb E).
  Qed.

  (* whenever decoded content re-encodes, the re-encoding is a byte-level fixed point *)
  Lemma content_refix ct b c ce : bytes_ok b = true -> content_dec hs ct b = Some c ->
    content_enc hs c = Some ce ->
    exists c', content_dec hs ct ce = Some c' /\ content_enc hs c' = Some ce /\
               (is_hs c = false -> c' = c).
  Proof.
    intros Hb Hd He. pose proof (content_dec_type _ _ _ Hd) as Ht.
    destruct (is_hs c) eqn:Hh.
    - destruct c; try discriminate. cbn [content_type] in Ht. subst ct.
      unfold content_dec in Hd. cbn [N.eqb Pos.eqb] in Hd.
      destruct (wdec hs b) as [x|] eqn:Ex; [|discriminate]. cbn [omap] in Hd.
      inversion Hd; subst h; clear Hd. cbn [content_enc] in He.
      destruct (hs_refix _ _ _ Hb Ex He) as [x' [Dx' Ex']].
      exists (CHandshake x'). unfold content_dec. cbn [N.eqb Pos.eqb]. rewrite Dx'.
      split; [reflexivity|]. split; [exact Ex'|discriminate].
    - pose proof (content_dec_wf _ _ _ Hb Hd Hh) as W.
      destruct (content_roundtrip c W) as [ce' [E' D']]. rewrite He in E'. inversion E'; subst ce'.
      exists c. rewrite <- Ht. split; [exact D'|]. split; [exact He|reflexivity].
  Qed.

  (* content other than a handshake message always re-encodes *)
  Lemma content_reencodes ct b c : bytes_ok b = true -> content_dec hs ct b = Some c ->
    is_hs c = false -> exists ce, content_enc hs c = Some ce.
  Proof.
    intros Hb Hd Hh. destruct (content_roundtrip c (content_dec_wf _ _ _ Hb Hd Hh)) as [ce [E _]].
    exists ce. exact E.
  Qed.

  (* value-level round trip on the canonical domain (ContentLen and ContentType consistent) *)
  Theorem record_roundtrip x : record_wf hs x = true ->
    exists e, record_marshal hs x = Some e /\ record_unmarshal hs 0 e = Some x.
  Proof.
    destruct x as [h c]. unfold record_wf. intro W.
    apply andb_prop in W. destruct W as [W WL]. apply andb_prop in W. destruct W as [W Wc].
    apply andb_prop in W. destruct W as [Wh Wt]. apply N.eqb_eq in Wt.
    destruct (content_roundtrip c Wc) as [ce [Ec Dc]]. rewrite Ec in WL. apply N.eqb_eq in WL.
    unfold record_marshal, record_marshal_gen. rewrite Ec.
    destruct h as [ct [maj [mi [ep [sq [cid l]]]]]].
    pose proof (proj1 (header_wf_spec 0 ct maj mi ep sq cid l) Wh) as (H1 & H2 & H3 & H4 & H5 & H6 & H7 & H8).
    assert (Hcid : length cid = 0%nat) by (destruct (ct =? ct_cid); exact H6).
    unfold h_maj, h_min, h_epoch, h_seq, h_cid, h_len, h_ct in *; cbn [fst snd] in *.
    rewrite Hcid. subst l.
    destruct (N.ltb_spec 65535 (len ce)) as [Hbad|_]; [clear - Hbad H8; lia|]. cbn [negb andb]. rewrite N.mod_small by exact H8. rewrite <- Wt.
    destruct (sound_header 0 (mk_hdr ct maj mi ep sq cid (len ce)) ce Wh) as [he [Eh Dh]].
    rewrite Eh. exists (he ++ ce). split; [reflexivity|].
    unfold record_unmarshal. rewrite Dh. unfold h_ct, mk_hdr; cbn [fst]. rewrite Wt, Dc. reflexivity.
  Qed.

  (* what decoding a record guarantees about its header *)
  Lemma record_unmarshal_inv n b h c : bytes_ok b = true -> record_unmarshal hs n b = Some (h, c) ->
    exists r, dec (c_header n) b = Some (h, r) /\ content_dec hs (h_ct h) r = Some c /\
              bytes_ok r = true /\ wf (c_header n) h = true /\ h_ct h <> ct_cid /\ h_cid h = [].
  Proof.
    intros Hb Hd. unfold record_unmarshal in Hd.
    destruct (dec (c_header n) b) as [[h0 r]|] eqn:Eh; [|discriminate].
    destruct (content_dec hs (h_ct h0) r) as [c0|] eqn:Ec; [|discriminate].
    inversion Hd; subst h0 c0; clear Hd. exists r.
    destruct (decok_header n _ _ _ Hb Eh) as [Wh [he0 [p [_ [Hbp _]]]]].
    assert (Hr : bytes_ok r = true) by (rewrite Hbp in Hb; apply (bytes_ok_app_inv _ _ Hb)).
    assert (Hct : h_ct h <> ct_cid).
    { intro Hx. rewrite Hx in Ec. unfold content_dec, ct_cid in Ec. cbn [N.eqb Pos.eqb] in Ec. discriminate. }
    repeat split; try assumption.
    destruct h as [ct [maj [mi [ep [sq [cid l]]]]]].
    pose proof (proj1 (header_wf_spec n ct maj mi ep sq cid l) Wh) as (_ & _ & _ & _ & _ & H6 & _).
    unfold h_ct, h_cid in *; cbn [fst snd] in *.
    destruct (N.eqb_spec ct ct_cid); [contradiction|]. destruct cid; [reflexivity|discriminate].
  Qed.

  (* byte-level fixed point for every accepted input whose decoded value re-encodes: the
     re-encoding e decodes again, and that re-encodes to e *)
  Theorem record_fixpoint_bytes n b x e : bytes_ok b = true -> record_unmarshal hs n b = Some x ->
    record_marshal hs x = Some e ->
    exists x', record_unmarshal hs 0 e = Some x' /\ record_marshal hs x' = Some e /\
               (is_hs (snd x) = false -> snd x' = snd x).
  Proof.
    destruct x as [h c]. intros Hb Hd Hm.
    destruct (record_unmarshal_inv _ _ _ _ Hb Hd) as [r (Eh & Ec & Hr & Wh & Hct & Hcid)].
    unfold record_marshal, record_marshal_gen in Hm. destruct (content_enc hs c) as [ce|] eqn:Ece; [|discriminate].
    destruct (N.ltb_spec 65535 (len ce)) as [|Hfit]; [discriminate|]. cbn [negb andb] in Hm.
    destruct (content_refix _ _ _ _ Hr Ec Ece) as [c' (Dc' & Ec' & Hc')].
    pose proof (content_dec_type _ _ _ Ec) as Wt.
    pose proof (content_dec_type _ _ _ Dc') as Wt'.
    destruct h as [ct [maj [mi [ep [sq [cid l]]]]]].
    pose proof (proj1 (header_wf_spec n ct maj mi ep sq cid l) Wh) as (H1 & H2 & H3 & H4 & H5 & H6 & H7 & H8).
    unfold h_ct, h_cid, h_maj, h_min, h_epoch, h_seq in *; cbn [fst snd] in *. subst cid.
    cbn [length] in Hm.
    set (h' := mk_hdr (content_type c) maj mi ep sq [] (len ce mod 65536)) in *.
    assert (Wh' : wf (c_header 0) h' = true).
    { apply header_wf_spec. rewrite Wt. repeat split; try assumption.
      - destruct (ct =? ct_cid); reflexivity.
      - apply N.mod_lt. lia. }
    destruct (sound_header 0 h' ce Wh') as [he [Ehe Dhe]].
    rewrite Ehe in Hm. inversion Hm; subst e; clear Hm.
    exists (h', c'). split; [|split].
    - unfold record_unmarshal. rewrite Dhe. unfold h', h_ct, mk_hdr; cbn [fst]. rewrite Wt, Dc'. reflexivity.
    - unfold record_marshal, record_marshal_gen. rewrite Ec'.
      destruct (N.ltb_spec 65535 (len ce)) as [Hbad|_]; [clear - Hbad Hfit; lia|]. cbn [negb andb].
      unfold h', h_maj, h_min, h_epoch, h_seq, h_cid, mk_hdr; cbn [fst snd length].
      rewrite Wt', <- Wt. fold (mk_hdr (content_type c) maj mi ep sq [] (len ce mod 65536)). fold h'.
      rewrite Ehe. reflexivity.
    - cbn [snd]. exact Hc'.
  Qed.

  (* every accepted record whose content is not a handshake message does re-encode - unless its
     content is longer than the 16-bit length field can say (Unmarshal never looks at ContentLen,
     F35a, so it accepts inputs longer than any record; Marshal refuses them since 9ff70b9) *)
  Theorem record_reencodes n b x : bytes_ok b = true -> record_unmarshal hs n b = Some x ->
    is_hs (snd x) = false ->
    exists ce, content_enc hs (snd x) = Some ce /\
               (len ce <= 65535 -> exists e, record_marshal hs x = Some e).
  Proof.
    destruct x as [h c]. cbn [snd]. intros Hb Hd Hh.
    destruct (record_unmarshal_inv _ _ _ _ Hb Hd) as [r (Eh & Ec & Hr & Wh & Hct & Hcid)].
    destruct (content_reencodes _ _ _ Hr Ec Hh) as [ce Ece].
    exists ce. split; [exact Ece|]. intro Hfit.
    pose proof (content_dec_type _ _ _ Ec) as Wt.
    destruct h as [ct [maj [mi [ep [sq [cid l]]]]]].
    pose proof (proj1 (header_wf_spec n ct maj mi ep sq cid l) Wh) as (H1 & H2 & H3 & H4 & H5 & H6 & H7 & H8).
    unfold h_ct, h_cid in *; cbn [fst snd] in *. subst cid.
    unfold record_marshal, record_marshal_gen. rewrite Ece.
    destruct (N.ltb_spec 65535 (len ce)) as [Hbad|_]; [clear - Hbad Hfit; lia|]. cbn [negb andb].
    unfold h_maj, h_min, h_epoch, h_seq, h_cid; cbn [fst snd length].
    set (h' := mk_hdr (content_type c) maj mi ep sq [] (len ce mod 65536)).
    assert (Wh' : wf (c_header 0) h' = true).
    { apply header_wf_spec. rewrite Wt. repeat split; try assumption.
      - destruct (ct =? ct_cid); reflexivity.
      - apply N.mod_lt. lia. }
    destruct (sound_header 0 h' ce Wh') as [he [Ehe _]]. rewrite Ehe. eexists. reflexivity.
  Qed.

  (* what Marshal emits declares the true length of its content (9ff70b9) *)
  Theorem record_marshal_declares_length h c e : record_marshal hs (h, c) = Some e ->
    exists he ce, e = he ++ ce /\ content_enc hs c = Some ce /\ len ce <= 65535 /\
      enc (c_header (length (h_cid h)))
          (mk_hdr (content_type c) (h_maj h) (h_min h) (h_epoch h) (h_seq h) (h_cid h) (len ce)) = Some he.
  Proof.
    unfold record_marshal, record_marshal_gen. destruct (content_enc hs c) as [ce|]; [|discriminate].
    destruct (N.ltb_spec 65535 (len ce)) as [|Hfit]; [discriminate|]. cbn [negb andb].
    rewrite (N.mod_small (len ce) 65536) by (clear - Hfit; lia).
    destruct (enc (c_header (length (h_cid h))) _) as [he|] eqn:Ehe; [|discriminate].
    intro E. inversion E. exists he, ce. split; [reflexivity|]. split; [reflexivity|].
    split; [exact Hfit|exact Ehe].
  Qed.

  (* REFUTED for the encoder as coded before 9ff70b9 (F77): 65546 bytes of application data were
     written behind a header that declares 10 bytes; the datagram splitter rejects the result *)
  Definition rec_wrap_witness : hdr * content H :=
    (mk_hdr 23 254 253 1 5 [] 0, CAppData (repeat 90 (N.to_nat 65546))).

  Theorem record_marshal_wrap_as_coded_refuted :
    exists e, record_marshal_gen hs true rec_wrap_witness = Some e /\
              firstn 2 (skipn 11 e) = [0; 10] /\ len e = 13 + 65546 /\
              unpack_datagram e = None /\ record_marshal hs rec_wrap_witness = None.
  Proof.
    eexists. split; [reflexivity|].
    split; [vm_compute; reflexivity|]. split; [vm_compute; reflexivity|].
    split; vm_compute; reflexivity.
  Qed.

  (* the other side of F35a + 9ff70b9: an accepted input longer than any record has no re-encoding *)
  Theorem record_oversize_not_reencoded :
    exists b h d, bytes_ok b = true /\ record_unmarshal hs 0 b = Some (h, CAppData d) /\ len d = 65536 /\
                  record_marshal hs (h, CAppData d) = None.
  Proof.
    exists ([23; 254; 253; 0; 1; 0; 0; 0; 0; 0; 5; 0; 0] ++ repeat 90 (N.to_nat 65536)). eexists. eexists.
    split; [vm_compute; reflexivity|]. split; [reflexivity|].
    split; vm_compute; reflexivity.
  Qed.

  (* REFUTED for the faithful model: "lengths declared inside a message are honoured" - the
     declared ContentLen is never consulted, everything after the 13 header bytes is content;
     and at the level of values decode(encode(decode b)) differs from decode b. *)
  Definition rec_len_witness : bytes := [23; 254; 253; 0; 1; 0; 0; 0; 0; 0; 5; 0; 0; 1; 2; 3].

  Theorem record_declared_length_refuted :
    exists b h d, record_unmarshal hs 0 b = Some (h, CAppData d) /\ h_len h = 0 /\ d = [1; 2; 3].
  Proof.
    exists rec_len_witness. eexists. eexists. split; [vm_compute; reflexivity|]. split; reflexivity.
  Qed.

  Theorem record_value_fixpoint_refuted :
    exists b x e, bytes_ok b = true /\ record_unmarshal hs 0 b = Some x /\
                  record_marshal hs x = Some e /\ record_unmarshal hs 0 e <> Some x.
  Proof.
    exists rec_len_witness. eexists. eexists. split; [reflexivity|].
    split; [vm_compute; reflexivity|]. split; [vm_compute; reflexivity|]. vm_compute. discriminate.
  Qed.
End Record12.
