(* C18 - executable comparison functions for the correspondence check: the harness prints, per
   input, what the implementation did (error | field dump + re-encoding); [c18_ok] recomputes
   the same observation from the model and compares (evaluated with vm_compute). *)
From Coq Require Uint63.
From DtlsV Require Import Lib.Bytes Gen.Generated Codec.C18Comb Codec.C18Rec Codec.C18Hs Codec.C18Rec13 Codec.C18Ext Codec.C18Kx Codec.C18Hello Codec.C18Envelope.
Open Scope N_scope.

(* Byte strings are written by the driver as (length, 7-byte big-endian chunks as primitive
   integers): list-of-N literals of this volume take minutes to parse.  Only the harness-facing
   functions use primitive integers; no theorem depends on them. *)
Fixpoint unchunk (k : nat) (l : list Uint63.int) : bytes :=
  match l with
  | [] => []
  | i :: l' =>
      let n := Z.to_N (Uint63.to_Z i) in
      if (k <=? 7)%nat then be_enc k n else be_enc 7 n ++ unchunk (k - 7) l'
  end.
Definition B (k : nat) (l : list Uint63.int) : bytes := unchunk k l.

(* dumps travel as byte strings: a number below 255 is one byte, anything else 255 followed by
   its 8-byte big-endian value *)
Definition ser1 (n : N) : bytes := if n <? 255 then [n] else 255 :: be_enc 8 n.
Definition dump_ser (d : list N) : bytes := flat_map ser1 d.

(* observation: None = rejected; Some (dump of the decoded value, Marshal of it (None = Marshal failed)) *)
Definition obs : Type := option (list N * option bytes).
(* (codec id, context, input, observation on the implementation with the dump serialised) *)
Definition wobs : Type := option (bytes * option bytes).
Definition c18_case : Type := (N * list N * bytes * wobs)%type.
(* flat constructor used by the driver (arguments of concrete types elaborate ~6x faster than
   nested pairs/options): r = 0 rejected, 1 accepted but Marshal failed, 2 accepted + re-encoding *)
Definition K (id : N) (ctx : list N) (n : nat) (i : list Uint63.int) (r : nat)
  (dn : nat) (d : list Uint63.int) (en : nat) (e : list Uint63.int) : c18_case :=
  (id, ctx, B n i,
   match r with
   | O => None
   | 1%nat => Some (B dn d, None)
   | _ => Some (B dn d, Some (B en e))
   end).
Definition obs_ser (o : obs) : wobs :=
  match o with Some (d, r) => Some (dump_ser d, r) | None => None end.

Definition ctxn (ctx : list N) (i : nat) : N := nth i ctx 0.

(* ---- dumps: numbers as they are, byte strings as length :: bytes, lists as count :: elements *)
Definition dump_bytes (b : bytes) : list N := len b :: b.
Definition dump_list {A} (f : A -> list N) (l : list A) : list N :=
  N.of_nat (length l) :: flat_map f l.
Definition dump_obytes (o : option bytes) : list N :=
  match o with Some b => 1 :: dump_bytes b | None => [0] end.

Definition dump_hdr (h : hdr) : list N :=
  [h_ct h; h_maj h; h_min h; h_epoch h; h_seq h] ++ dump_bytes (h_cid h) ++ [h_len h].
Definition dump_hshdr (h : hshdr) : list N := [hh_type h; hh_len h; hh_mseq h; hh_foff h; hh_flen h].
Definition dump_pair (x : N * N) : list N := [fst x; snd x].
Definition dump_one (x : N) : list N := [x].

Definition dump_msg (m : hsmsg) : list N :=
  match m with
  | MHelloVerifyRequest (maj, (mi, ck)) => [maj; mi] ++ dump_bytes ck
  | MFinished vd => dump_bytes vd
  | MServerHelloDone => []
  | MKeyUpdate r => [r]
  | MRequestConnectionID n => [n]
  | MNewConnectionID (cids, u) => dump_list dump_bytes cids ++ [u]
  | MCertificate cs => dump_list dump_bytes cs
  | MCertificateVerify ((h, s), sg) => [h; s] ++ dump_bytes sg
  | MClientKeyExchange (hint, pk) => dump_obytes hint ++ dump_obytes pk
  end.
Definition dump_hs (x : hs) : list N := dump_hshdr (fst x) ++ [msg_type (snd x)] ++ dump_msg (snd x).

Definition dump_content (c : content hs) : list N :=
  content_type c ::
  match c with
  | CCcs => []
  | CAlert a => dump_pair a
  | CHandshake h => dump_hs h
  | CAppData d => dump_bytes d
  | CAck l => dump_list dump_pair l
  | CRrc (t, ck) => t :: ck
  end.

(* ---- running a model codec on an input *)
Definition run_w {A} (w : wcodec A) (dump : A -> list N) (b : bytes) : obs :=
  match wdec w b with
  | Some a => Some (dump a, wenc w a)
  | None => None
  end.

(* is the handshake message in b inside the model?  (only asked when the envelope checks pass) *)
Definition hs_in_model (b : bytes) : bool :=
  match dec c_hs_header b with
  | Some (h, body) =>
      if (len body =? hh_len h) && (hh_len h =? hh_flen h) then msg_modelled (hh_type h) else true
  | None => true
  end.

Definition run_unpack (aware : bool) (cid : nat) (b : bytes) : obs :=
  match unpack aware cid (length b) b with
  | Some rs => Some (dump_list (fun r => [len r]) rs, Some (concat rs))
  | None => None
  end.

Definition run_record (cid : nat) (b : bytes) : obs :=
  match record_unmarshal (w_hs 0) cid b with
  | Some x => Some (dump_hdr (fst x) ++ dump_content (snd x), record_marshal (w_hs 0) x)
  | None => None
  end.

Definition b2n (b : bool) : N := if b then 1 else 0.
Definition dump_uhdr (h : uhdr) : list N :=
  dump_bytes (uh_cid h) ++ [uh_seq h; b2n (uh_sbit h); uh_len h; b2n (uh_lbit h); uh_elow h].

Definition run_crec13 (cid : nat) (b : bytes) : obs :=
  match crec13_unmarshal cid b with
  | Some x => Some (dump_uhdr (fst x) ++ dump_bytes (snd x), crec13_marshal x)
  | None => None
  end.

Definition run_prec13 (b : bytes) : obs :=
  match prec13_unmarshal (w_hs 0) b with
  | Some x => Some (dump_hdr (fst x) ++ dump_content (snd x), prec13_marshal (w_hs 0) x)
  | None => None
  end.

Definition run_unpack13 (cid : nat) (req en : bool) (b : bytes) : obs :=
  match unpack_datagram13 cid req en b with
  | Some (rs, _) => Some (dump_list (fun r => [len r]) rs, Some (concat rs))
  | None => None
  end.

Definition dump_pv (y : pv) : list N :=
  match y with
  | PUnit => []
  | PBytes b => dump_bytes b
  | PN n => [n]
  | PNs l => dump_list dump_one l
  | PBs l => dump_list dump_bytes l
  | PPair p => dump_pair p
  | PPairs l => dump_list dump_pair l
  | PNB x => fst x :: dump_bytes (snd x)
  | PNBs l => dump_list (fun x => fst x :: dump_bytes (snd x)) l
  | PNsB x => dump_list dump_one (fst x) ++ dump_bytes (snd x)
  | PBBs l => dump_list (fun x => dump_bytes (fst x) ++ dump_bytes (snd x)) l
  | PPsk x => dump_list (fun i => dump_bytes (fst i) ++ [snd i]) (fst x) ++ dump_list dump_bytes (snd x)
  end.
Definition dump_exts (l : list extv) : list N := dump_list (fun e => ev_type e :: dump_pv (ev_val e)) l.
Definition dump_random (r : N * bytes) : list N := fst r :: snd r.
Definition dump_ch (x : ch_fixed * list extv) : list N :=
  let '((v, (r, (sid, (ck, (suites, cms))))), exts) := x in
  dump_pair v ++ dump_random r ++ dump_bytes sid ++ dump_bytes ck ++ dump_list dump_one suites ++
  dump_list dump_one cms ++ dump_exts exts.
Definition dump_sh (x : sh_fixed * list extv) : list N :=
  let '((v, (r, (sid, (suite, cm)))), exts) := x in
  dump_pair v ++ dump_random r ++ dump_bytes sid ++ [suite; cm] ++ dump_exts exts.

Definition dump_nst (x : nst) : list N :=
  let '((lt, (aa, (nonce, tk))), exts) := x in [lt; aa] ++ dump_bytes nonce ++ dump_bytes tk ++ dump_exts exts.
Definition dump_ske (x : ske) : list N :=
  let '(hint, (ct, (cv, (pk, (h, (s, sg)))))) := x in
  dump_obytes hint ++ [ct; cv] ++ dump_bytes pk ++ [h; s] ++ dump_bytes sg.
Definition dump_cr (x : certreq) : list N :=
  let '(tys, (sigs, cas)) := x in
  dump_list dump_one tys ++ dump_list dump_pair sigs ++ dump_list dump_bytes cas.

(* the full envelope (C18Envelope.v): header, message tag, fields - as DumpMessage2 prints them *)
Definition dump_msgx (m : hsmsgx) : list N :=
  match m with
  | XBase m => dump_msg m
  | XClientHello x => dump_ch x
  | XServerHello x => dump_sh x
  | XNewSessionTicket x => dump_nst x
  | XEncryptedExtensions x => dump_exts x
  | XServerKeyExchange x => dump_ske x
  | XCertificateRequest x => dump_cr x
  end.
Definition dump_hsx (x : hsx) : list N := dump_hshdr (fst x) ++ [msgx_type (snd x)] ++ dump_msgx (snd x).

(* validatedClientHello / validatedServerHello on a hello decoded from b: the canonical hello *)
Definition run_canon {A} (w : wcodec A) (dump : A -> list N) (b : bytes) : obs :=
  match wdec w b with
  | Some x => match canonicalize w x with
              | Some c => Some (dump c, wenc w c)
              | None => None
              end
  | None => None
  end.

(* None: the input is outside what the model covers (skipped and counted by the driver) *)
Definition run (id : N) (ctx : list N) (b : bytes) : option obs :=
  match id with
  | 1 => Some (run_w (w_header (N.to_nat (ctxn ctx 0))) dump_hdr b)
  | 2 => Some (run_w w_hs_header dump_hshdr b)
  | 3 => Some (run_w w_alert dump_pair b)
  | 4 => Some (run_w w_ccs (fun _ => []) b)
  | 5 => Some (run_w w_appdata dump_bytes b)
  | 6 => Some (run_w w_ack (dump_list dump_pair) b)
  | 7 => Some (run_w w_rrc (fun x => fst x :: snd x) b)
  | 8 => Some (run_w w_inner (fun x => let '(c, t, z) := x in dump_bytes c ++ [t; N.of_nat z]) b)
  | 9 => Some (run_unpack (ctxn ctx 0 =? 1) (N.to_nat (ctxn ctx 1)) b)
  | 10 => if (hd0 b =? 22) && negb (hs_in_model (skipn 13 b)) then None
          else Some (run_record (N.to_nat (ctxn ctx 0)) b)
  | 11 => if hs_in_model b then Some (run_w (w_hs (ctxn ctx 0)) dump_hs b) else None
  | 12 => Some (run_w w_hvr (fun x => dump_msg (MHelloVerifyRequest x)) b)
  | 13 => Some (run_w (w_cke (ctxn ctx 0)) (fun x => dump_msg (MClientKeyExchange x)) b)
  | 14 => Some (run_w w_cert_verify (fun x => dump_msg (MCertificateVerify x)) b)
  | 15 => Some (run_w w_certificate (fun x => dump_msg (MCertificate x)) b)
  | 16 => Some (run_w w_new_cid (fun x => dump_msg (MNewConnectionID x)) b)
  | 17 => Some (run_w w_key_update (fun x => [x]) b)
  | 20 => Some (run_w (w_uhdr (N.to_nat (ctxn ctx 0))) dump_uhdr b)
  | 21 => Some (run_crec13 (N.to_nat (ctxn ctx 0)) b)
  | 22 => if (hd0 b =? 22) && negb (hs_in_model (skipn 13 b)) then None else Some (run_prec13 b)
  | 23 => Some (run_unpack13 (N.to_nat (ctxn ctx 0)) (ctxn ctx 1 =? 1) (ctxn ctx 2 =? 1) b)
  | 101 => Some (run_w w_client_hello dump_ch b)
  | 102 => Some (run_w w_server_hello dump_sh b)
  | 105 => Some (run_w w_new_session_ticket
                   (fun x => let '((lt, (aa, (nonce, tk))), exts) := x in
                             [lt; aa] ++ dump_bytes nonce ++ dump_bytes tk ++ dump_exts exts) b)
  | 106 => Some (run_w w_encrypted_extensions dump_exts b)
  | 107 => Some (run_w w_certificate13
                   (fun x => dump_bytes (fst x) ++
                             dump_list (fun e => dump_bytes (fst e) ++ dump_exts (snd e)) (snd x)) b)
  | 108 => Some (run_w w_cert_request13 (fun x => dump_bytes (fst x) ++ dump_exts (snd x)) b)
  | 103 => Some (run_w (w_ske (ctxn ctx 0))
                   (fun x => let '(hint, (ct, (cv, (pk, (h, (s, sg)))))) := x in
                             dump_obytes hint ++ [ct; cv] ++ dump_bytes pk ++ [h; s] ++ dump_bytes sg) b)
  | 104 => Some (run_w w_certreq
                   (fun x => let '(tys, (sigs, cas)) := x in
                             dump_list dump_one tys ++ dump_list dump_pair sigs ++ dump_list dump_bytes cas) b)
  | 109 => Some (run_w (w_hsx (ctxn ctx 0)) dump_hsx b)
  | 110 => Some (run_canon w_client_hello dump_ch b)
  | 111 => Some (run_canon w_server_hello dump_sh b)
  | 119 => Some (run_w w_ext_list (dump_list (fun x => fst x :: dump_bytes (snd x))) b)
  | 120 => Some (run_w w_connection_id dump_bytes b)
  | 121 => Some (run_w w_sni dump_bytes b)
  | 122 | 131 | 132 | 137 | 143 => Some (run_w w_empty (fun _ => []) b)
  | 123 => Some (run_w w_alpn_offer (dump_list dump_bytes) b)
  | 124 => Some (run_w w_alpn_selection dump_bytes b)
  | 125 => Some (run_w w_srtp_offer (fun x => dump_list dump_one (fst x) ++ dump_bytes (snd x)) b)
  | 126 => Some (run_w w_srtp_selection (fun x => fst x :: dump_bytes (snd x)) b)
  | 127 | 128 | 129 => Some (run_w w_u16_list (dump_list dump_one) b)
  | 130 => Some (run_w w_raw_payload dump_bytes b)
  | 133 => Some (run_w w_renegotiation_info dump_one b)
  | 134 => Some (run_w w_point_formats (dump_list dump_one) b)
  | 135 => Some (run_w w_cert_authorities (dump_list dump_bytes) b)
  | 136 => Some (run_w w_cookie dump_bytes b)
  | 138 => Some (run_w w_max_early_data dump_one b)
  | 139 => Some (run_w w_client_key_share (dump_list (fun x => fst x :: dump_bytes (snd x))) b)
  | 140 => Some (run_w w_server_key_share (fun x => fst x :: dump_bytes (snd x)) b)
  | 141 => Some (run_w w_retry_key_share dump_one b)
  | 142 => Some (run_w w_oid_filters (dump_list (fun x => dump_bytes (fst x) ++ dump_bytes (snd x))) b)
  | 144 => Some (run_w w_offered_psks
                   (fun x => dump_list (fun i => dump_bytes (fst i) ++ [snd i]) (fst x) ++
                             dump_list dump_bytes (snd x)) b)
  | 145 => Some (run_w w_selected_psk dump_one b)
  | 146 => Some (run_w w_psk_modes (dump_list dump_one) b)
  | 147 => Some (run_w w_offered_versions (dump_list dump_pair) b)
  | 148 => Some (run_w w_selected_version dump_pair b)
  | _ => None
  end.

(* ---- comparison *)
Fixpoint nlist_eqb (a b : list N) : bool :=
  match a, b with
  | [], [] => true
  | x :: a', y :: b' => (x =? y) && nlist_eqb a' b'
  | _, _ => false
  end.

Definition obs_eqb (a b : wobs) : bool :=
  match a, b with
  | None, None => true
  | Some (d1, r1), Some (d2, r2) =>
      nlist_eqb d1 d2 &&
      match r1, r2 with
      | None, None => true
      | Some x, Some y => nlist_eqb x y
      | _, _ => false
      end
  | _, _ => false
  end.

Definition c18_ok (c : c18_case) : bool :=
  let '(id, ctx, b, o) := c in
  match run id ctx b with
  | Some o' => obs_eqb o (obs_ser o')
  | None => true
  end.

(* agreement on an input the model covers *)
Definition c18_strict (c : c18_case) : bool :=
  let '(id, ctx, b, o) := c in
  match run id ctx b with
  | Some o' => obs_eqb o (obs_ser o')
  | None => false
  end.

Definition c18_modelled (c : c18_case) : bool :=
  let '(id, ctx, b, o) := c in
  match run id ctx b with Some _ => true | None => false end.

Fixpoint mismatches_from {A} (ok : A -> bool) (i : N) (l : list A) : list N :=
  match l with
  | [] => []
  | c :: l' => if ok c then mismatches_from ok (i + 1) l' else i :: mismatches_from ok (i + 1) l'
  end.
Definition mismatches {A} (ok : A -> bool) (l : list A) : list N := mismatches_from ok 0 l.
