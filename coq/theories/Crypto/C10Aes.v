(* C10 - AES (FIPS 197) encryption, AES-CBC encryption (SP 800-38A), and CCM (RFC 3610 / SP 800-38C),
   written from the standards' text, over byte strings [list N].  The S-box is the table of
   FIPS 197 Figure 7 (generated from its definition: inverse in GF(2^8) followed by the affine map);
   everything is pinned by the known-answer tests at the end (FIPS 197 C.1 / C.3, RFC 3610 #1).
   Only the forward cipher is needed : CCM and CBC encryption. *)
From DtlsV Require Import Lib.Bytes Crypto.C10Layout.
Open Scope N_scope.

Definition sbox_rows : list (list N) :=
  [[99; 124; 119; 123; 242; 107; 111; 197; 48; 1; 103; 43; 254; 215; 171; 118];
   [202; 130; 201; 125; 250; 89; 71; 240; 173; 212; 162; 175; 156; 164; 114; 192];
   [183; 253; 147; 38; 54; 63; 247; 204; 52; 165; 229; 241; 113; 216; 49; 21];
   [4; 199; 35; 195; 24; 150; 5; 154; 7; 18; 128; 226; 235; 39; 178; 117];
   [9; 131; 44; 26; 27; 110; 90; 160; 82; 59; 214; 179; 41; 227; 47; 132];
   [83; 209; 0; 237; 32; 252; 177; 91; 106; 203; 190; 57; 74; 76; 88; 207];
   [208; 239; 170; 251; 67; 77; 51; 133; 69; 249; 2; 127; 80; 60; 159; 168];
   [81; 163; 64; 143; 146; 157; 56; 245; 188; 182; 218; 33; 16; 255; 243; 210];
   [205; 12; 19; 236; 95; 151; 68; 23; 196; 167; 126; 61; 100; 93; 25; 115];
   [96; 129; 79; 220; 34; 42; 144; 136; 70; 238; 184; 20; 222; 94; 11; 219];
   [224; 50; 58; 10; 73; 6; 36; 92; 194; 211; 172; 98; 145; 149; 228; 121];
   [231; 200; 55; 109; 141; 213; 78; 169; 108; 86; 244; 234; 101; 122; 174; 8];
   [186; 120; 37; 46; 28; 166; 180; 198; 232; 221; 116; 31; 75; 189; 139; 138];
   [112; 62; 181; 102; 72; 3; 246; 14; 97; 53; 87; 185; 134; 193; 29; 158];
   [225; 248; 152; 17; 105; 217; 142; 148; 155; 30; 135; 233; 206; 85; 40; 223];
   [140; 161; 137; 13; 191; 230; 66; 104; 65; 153; 45; 15; 176; 84; 187; 22]].

Definition sub_byte (x : N) : N :=
  nth (N.to_nat (N.land x 15)) (nth (N.to_nat (N.shiftr x 4)) sbox_rows []) 0.

(* multiplication by x (i.e. {02}) in GF(2^8) modulo x^8 + x^4 + x^3 + x + 1 *)
Definition xtime (b : N) : N :=
  let d := N.shiftl b 1 in if d <? 256 then d else N.lxor (N.land d 255) 27.

Definition x3 (b : N) : N := N.lxor (xtime b) b.

(* the state is kept as the 16 input bytes in order: s[r,c] = in[r + 4c] (one column = 4 consecutive bytes) *)
Definition sub_bytes (s : bytes) : bytes := map sub_byte s.

Definition shift_rows (s : bytes) : bytes :=
  match s with
  | [s00; s10; s20; s30; s01; s11; s21; s31; s02; s12; s22; s32; s03; s13; s23; s33] =>
    [s00; s11; s22; s33; s01; s12; s23; s30; s02; s13; s20; s31; s03; s10; s21; s32]
  | _ => s
  end.

Definition mix_column (a0 a1 a2 a3 : N) : bytes :=
  [N.lxor (N.lxor (xtime a0) (x3 a1)) (N.lxor a2 a3);
   N.lxor (N.lxor a0 (xtime a1)) (N.lxor (x3 a2) a3);
   N.lxor (N.lxor a0 a1) (N.lxor (xtime a2) (x3 a3));
   N.lxor (N.lxor (x3 a0) a1) (N.lxor a2 (xtime a3))].

Fixpoint mix_columns_n (n : nat) (s : bytes) : bytes :=
  match n, s with
  | S n', a0 :: a1 :: a2 :: a3 :: rest => mix_column a0 a1 a2 a3 ++ mix_columns_n n' rest
  | _, _ => []
  end.
Definition mix_columns (s : bytes) : bytes := mix_columns_n 4 s.

(* ---- key expansion (FIPS 197 section 5.2); words are 4-byte lists ---- *)

Definition sub_word (w : bytes) : bytes := map sub_byte w.
Definition rot_word (w : bytes) : bytes := match w with a :: r => r ++ [a] | [] => [] end.

(* w is kept reversed (most recent word first); [i] is the index of the word being produced *)
Fixpoint expand_words (fuel : nat) (nk i : nat) (rcon : N) (rev_w : list bytes) : list bytes :=
  match fuel with
  | O => rev_w
  | S fuel' =>
    let prev := nth 0 rev_w [] in
    let back := nth (nk - 1) rev_w [] in
    let '(temp, rcon') :=
      if (i mod nk =? 0)%nat then (xor_bytes (sub_word (rot_word prev)) [rcon; 0; 0; 0], xtime rcon)
      else if ((6 <? nk) && (i mod nk =? 4))%nat%bool then (sub_word prev, rcon)
      else (prev, rcon) in
    expand_words fuel' nk (S i) rcon' (xor_bytes back temp :: rev_w)
  end.

Fixpoint chunk4 (n : nat) (l : bytes) : list bytes :=
  match n with
  | O => []
  | S n' => firstn 4 l :: chunk4 n' (skipn 4 l)
  end.

Fixpoint group4 (n : nat) (ws : list bytes) : list bytes :=
  match n, ws with
  | S n', a :: b :: c :: d :: rest => (a ++ b ++ c ++ d) :: group4 n' rest
  | _, _ => []
  end.

(* round keys: Nr + 1 blocks of 16 bytes; Nk = |key|/4, Nr = Nk + 6 *)
Definition key_schedule (key : bytes) : list bytes :=
  let nk := (length key / 4)%nat in
  let nr := (nk + 6)%nat in
  let total := (4 * (nr + 1))%nat in
  let ws := rev (expand_words (total - nk) nk nk 1 (rev (chunk4 nk key))) in
  group4 (nr + 1) ws.

Fixpoint aes_rounds (rks : list bytes) (s : bytes) : bytes :=
  match rks with
  | [] => s
  | [last] => xor_bytes (shift_rows (sub_bytes s)) last
  | rk :: rks' => aes_rounds rks' (xor_bytes (mix_columns (shift_rows (sub_bytes s))) rk)
  end.

Definition aes_encrypt_rk (rks : list bytes) (block : bytes) : bytes :=
  match rks with
  | [] => block
  | rk0 :: rest => aes_rounds rest (xor_bytes block rk0)
  end.

Definition aes_encrypt (key block : bytes) : bytes := aes_encrypt_rk (key_schedule key) block.

(* ---- CBC encryption: C_1 = E(P_1 xor IV), C_j = E(P_j xor C_{j-1}) ---- *)

Fixpoint cbc_blocks (rks : list bytes) (n : nat) (prev pt : bytes) : bytes :=
  match n with
  | O => []
  | S n' => let c := aes_encrypt_rk rks (xor_bytes (firstn 16 pt) prev) in
            c ++ cbc_blocks rks n' c (skipn 16 pt)
  end.

Definition aes_cbc_encrypt (key iv pt : bytes) : bytes :=
  cbc_blocks (key_schedule key) (length pt / 16) iv pt.

(* ---- CCM (RFC 3610 section 2), tag length M, nonce of 15-L bytes ---- *)

Definition pad16 (l : bytes) : bytes := l ++ repeat 0 ((16 - length l mod 16) mod 16).

(* 2.2 authentication *)
Definition ccm_b0 (M : N) (nonce msg adata : bytes) : bytes :=
  let L := 15 - len nonce in
  [64 * (if len adata =? 0 then 0 else 1) + 8 * ((M - 2) / 2) + (L - 1)] ++ nonce ++ be_enc (N.to_nat L) (len msg).

Definition ccm_adata_enc (adata : bytes) : bytes :=
  let l := len adata in
  if l =? 0 then []
  else if l <? 65280 then pad16 (be_enc 2 l ++ adata)
  else if l <? 4294967296 then pad16 ([255; 254] ++ be_enc 4 l ++ adata)
  else pad16 ([255; 255] ++ be_enc 8 l ++ adata).

Fixpoint cbc_mac_blocks (rks : list bytes) (n : nat) (x data : bytes) : bytes :=
  match n with
  | O => x
  | S n' => cbc_mac_blocks rks n' (aes_encrypt_rk rks (xor_bytes x (firstn 16 data))) (skipn 16 data)
  end.

Definition ccm_tag (rks : list bytes) (M : N) (nonce msg adata : bytes) : bytes :=
  let blocks := ccm_b0 M nonce msg adata ++ ccm_adata_enc adata ++ pad16 msg in
  firstn (N.to_nat M) (cbc_mac_blocks rks (length blocks / 16) (repeat 0 16) blocks).

(* 2.3 encryption: A_i = flags(L-1) || nonce || counter i;  S_i = E(K, A_i) *)
Definition ccm_a (nonce : bytes) (i : N) : bytes :=
  let L := 15 - len nonce in [L - 1] ++ nonce ++ be_enc (N.to_nat L) i.

Fixpoint ccm_stream (rks : list bytes) (nonce : bytes) (i : N) (n : nat) : bytes :=
  match n with
  | O => []
  | S n' => aes_encrypt_rk rks (ccm_a nonce i) ++ ccm_stream rks nonce (i + 1) n'
  end.

(* output c || U:  c = m xor S_1 S_2 ...,  U = T xor first-M-bytes(S_0) *)
Definition ccm_seal (key : bytes) (M : N) (nonce msg adata : bytes) : bytes :=
  let rks := key_schedule key in
  let t := ccm_tag rks M nonce msg adata in
  let s0 := aes_encrypt_rk rks (ccm_a nonce 0) in
  xor_bytes msg (ccm_stream rks nonce 1 ((length msg + 15) / 16)) ++ xor_bytes t s0.

(* ---------------- known-answer tests ---------------- *)

Definition seq_bytes (from : N) (n : nat) : bytes := map (fun i => from + N.of_nat i) (seq 0 n).

(* FIPS 197 Appendix C.1: AES-128, key 000102..0f, plaintext 00112233..ff *)
Example aes128_fips197_c1 :
  aes_encrypt (seq_bytes 0 16) (map (fun i => 17 * i) (seq_bytes 0 16)) =
  [105;196;224;216;106;123;4;48;216;205;183;128;112;180;197;90].
Proof. vm_compute. reflexivity. Qed.

(* FIPS 197 Appendix C.3: AES-256, key 000102..1f *)
Example aes256_fips197_c3 :
  aes_encrypt (seq_bytes 0 32) (map (fun i => 17 * i) (seq_bytes 0 16)) =
  [142;162;183;202;81;103;69;191;234;252;73;144;75;73;96;137].
Proof. vm_compute. reflexivity. Qed.

(* RFC 3610 Packet Vector #1: key C0..CF, nonce 00000003 020100A0 A1A2A3A4 A5, 8 header bytes
   00..07 as additional data, message 08..1E, M = 8 *)
Example ccm_rfc3610_vector1 :
  ccm_seal (seq_bytes 192 16) 8 ([0;0;0;3;2;1;0] ++ seq_bytes 160 6) (seq_bytes 8 23) (seq_bytes 0 8) =
  [88;140;151;154;97;198;99;210;240;102;208;194;192;249;137;128;109;95;107;97;218;195;132;
   23;232;209;44;253;249;38;224].
Proof. vm_compute. reflexivity. Qed.

(* SP 800-38A F.2.1 CBC-AES128.Encrypt, first two blocks *)
Example cbc_sp80038a_f21 :
  aes_cbc_encrypt [43;126;21;22;40;174;210;166;171;247;21;136;9;207;79;60] (seq_bytes 0 16)
    [107;193;190;226;46;64;159;150;233;61;126;17;115;147;23;42;
     174;45;138;87;30;3;172;156;158;183;111;172;69;175;142;81] =
  [118;73;171;172;129;25;178;70;206;233;142;155;18;233;25;125;
   80;134;203;155;80;114;25;238;149;219;17;58;145;118;120;178].
Proof. vm_compute. reflexivity. Qed.
