(* C10 - HKDF (RFC 5869), HKDF-Expand-Label with the "dtls13" prefix (RFC 9147 section 5.9,
   RFC 8446 section 7.1), Derive-Secret, and the DTLS 1.3 key schedule, Finished, traffic keys,
   exporter and CertificateVerify input, written from the RFC text (definitions + KATs). *)
From Coq Require Import String Ascii.
From DtlsV Require Import Lib.Bytes Crypto.C10Sha2 Crypto.C10Hmac Crypto.C10Prf.
Open Scope N_scope.

Definition zeros (n : nat) : bytes := repeat 0 n.

(* HKDF-Extract(salt, IKM) -> PRK = HMAC-Hash(salt, IKM); "if not provided, [salt] is set to a
   string of HashLen zeros" *)
Definition hkdf_extract (H : hashfn) (salt ikm : bytes) : bytes :=
  hmac H (match salt with [] => zeros (h_len H) | _ => salt end) ikm.

(* T(0) = empty, T(i) = HMAC-Hash(PRK, T(i-1) | info | i), OKM = first L octets of T(1)|T(2)|... *)
Fixpoint hkdf_blocks (H : hashfn) (prk info t : bytes) (i : N) (k : nat) : bytes :=
  match k with
  | O => []
  | S k' => let t' := hmac H prk (t ++ info ++ [i]) in t' ++ hkdf_blocks H prk info t' (i + 1) k'
  end.

Definition hkdf_expand (H : hashfn) (prk info : bytes) (L : nat) : bytes :=
  firstn L (hkdf_blocks H prk info [] 1 (p_hash_iters H L)).

Definition dtls13_prefix : bytes := ascii_bytes "dtls13".

(* struct { uint16 length = Length; opaque label<6..255> = "dtls13" + Label;
            opaque context<0..255> = Context; } HkdfLabel; *)
Definition hkdf_label (length : N) (label context : bytes) : bytes :=
  be_enc 2 length ++
  be_enc 1 (len (dtls13_prefix ++ label)) ++ (dtls13_prefix ++ label) ++
  be_enc 1 (len context) ++ context.

Definition hkdf_expand_label (H : hashfn) (secret label context : bytes) (L : nat) : bytes :=
  hkdf_expand H secret (hkdf_label (N.of_nat L) label context) L.

(* Derive-Secret(Secret, Label, Messages) =
     HKDF-Expand-Label(Secret, Label, Transcript-Hash(Messages), Hash.length) *)
Definition derive_secret_th (H : hashfn) (secret label transcript_hash : bytes) : bytes :=
  hkdf_expand_label H secret label transcript_hash (h_len H).
Definition derive_secret (H : hashfn) (secret label messages : bytes) : bytes :=
  derive_secret_th H secret label (h_fn H messages).

Definition lbl_c_hs_traffic : bytes := ascii_bytes "c hs traffic".
Definition lbl_s_hs_traffic : bytes := ascii_bytes "s hs traffic".
Definition lbl_c_ap_traffic : bytes := ascii_bytes "c ap traffic".
Definition lbl_s_ap_traffic : bytes := ascii_bytes "s ap traffic".
Definition lbl_exp_master : bytes := ascii_bytes "exp master".
Definition lbl_res_master : bytes := ascii_bytes "res master".
Definition lbl_derived : bytes := ascii_bytes "derived".
Definition lbl_finished : bytes := ascii_bytes "finished".
Definition lbl_traffic_upd : bytes := ascii_bytes "traffic upd".
Definition lbl_key : bytes := ascii_bytes "key".
Definition lbl_iv : bytes := ascii_bytes "iv".
Definition lbl_sn : bytes := ascii_bytes "sn".
Definition lbl_exporter : bytes := ascii_bytes "exporter".

(* RFC 8446 section 7.1 without external PSK:
     Early Secret     = HKDF-Extract(0, 0)
     Handshake Secret = HKDF-Extract(Derive-Secret(Early Secret, "derived", ""), (EC)DHE)
     Master Secret    = HKDF-Extract(Derive-Secret(Handshake Secret, "derived", ""), 0) *)
Definition early_secret (H : hashfn) : bytes := hkdf_extract H [] (zeros (h_len H)).
Definition handshake_secret (H : hashfn) (ecdhe : bytes) : bytes :=
  hkdf_extract H (derive_secret H (early_secret H) lbl_derived []) ecdhe.
Definition master_secret13 (H : hashfn) (hs : bytes) : bytes :=
  hkdf_extract H (derive_secret H hs lbl_derived []) (zeros (h_len H)).

(* [th] is Transcript-Hash(ClientHello..ServerHello) resp. (ClientHello..server Finished) *)
Definition client_hs_traffic H hs th := derive_secret_th H hs lbl_c_hs_traffic th.
Definition server_hs_traffic H hs th := derive_secret_th H hs lbl_s_hs_traffic th.
Definition client_ap_traffic H ms th := derive_secret_th H ms lbl_c_ap_traffic th.
Definition server_ap_traffic H ms th := derive_secret_th H ms lbl_s_ap_traffic th.
Definition exporter_master H ms th := derive_secret_th H ms lbl_exp_master th.
Definition resumption_master H ms th := derive_secret_th H ms lbl_res_master th.

(* application_traffic_secret_N+1 = HKDF-Expand-Label(application_traffic_secret_N, "traffic upd", "", Hash.length) *)
Definition next_traffic_secret (H : hashfn) (cur : bytes) : bytes :=
  hkdf_expand_label H cur lbl_traffic_upd [] (h_len H).

(* finished_key = HKDF-Expand-Label(BaseKey, "finished", "", Hash.length)
   verify_data = HMAC(finished_key, Transcript-Hash(...)) *)
Definition finished_key (H : hashfn) (base_key : bytes) : bytes :=
  hkdf_expand_label H base_key lbl_finished [] (h_len H).
Definition finished_verify_data (H : hashfn) (base_key th : bytes) : bytes :=
  hmac H (finished_key H base_key) th.

(* [sender]_write_key = HKDF-Expand-Label(Secret, "key", "", key_length)
   [sender]_write_iv  = HKDF-Expand-Label(Secret, "iv", "", iv_length)          (iv_length = 12)
   [sender]_sn_key    = HKDF-Expand-Label(Secret, "sn", "", key_length)         (RFC 9147 4.2.3) *)
Definition traffic_key H secret (key_len : nat) := hkdf_expand_label H secret lbl_key [] key_len.
Definition traffic_iv H secret := hkdf_expand_label H secret lbl_iv [] 12.
Definition traffic_sn_key H secret (key_len : nat) := hkdf_expand_label H secret lbl_sn [] key_len.

(* key-update chain (RFC 8446 7.2, RFC 9147 8): application_traffic_secret_n by iteration from
   application_traffic_secret_0; generation n protects the records of epoch 3+n with the keys of secret n *)
Fixpoint traffic_secret_n (H : hashfn) (secret0 : bytes) (n : nat) : bytes :=
  match n with
  | O => secret0
  | S k => next_traffic_secret H (traffic_secret_n H secret0 k)
  end.
Definition generation_keys (H : hashfn) (secret0 : bytes) (n key_len : nat) : list bytes :=
  let s := traffic_secret_n H secret0 n in
  [s; traffic_key H s key_len; traffic_iv H s; traffic_sn_key H s key_len].
(* what an implementation does: it keeps (only) the current secret and steps it at every key update *)
Definition key_update_step (H : hashfn) (cur : bytes) : bytes := next_traffic_secret H cur.

(* RFC 8446 section 7.5:  TLS-Exporter(label, context_value, key_length) =
     HKDF-Expand-Label(Derive-Secret(exporter_master_secret, label, ""), "exporter",
                       Hash(context_value), key_length) *)
Definition exporter13 (H : hashfn) (exp_master label context : bytes) (L : nat) : bytes :=
  hkdf_expand_label H (derive_secret H exp_master label []) lbl_exporter (h_fn H context) L.

(* RFC 8446 section 4.4.3: 64 octets 0x20, the context string, a single 0 byte, the transcript hash *)
Definition certificate_verify_input (is_client : bool) (th : bytes) : bytes :=
  repeat 32 64 ++
  ascii_bytes (if is_client then "TLS 1.3, client CertificateVerify" else "TLS 1.3, server CertificateVerify") ++
  [0] ++ th.

(* ---------------- RFC 5869 known-answer tests (A.1, A.3) ---------------- *)

Definition kat_ikm : bytes := repeat 11 22.
Definition kat_salt : bytes := [0;1;2;3;4;5;6;7;8;9;10;11;12].
Definition kat_info : bytes := [240;241;242;243;244;245;246;247;248;249].

Example hkdf_rfc5869_a1_prk : hkdf_extract H_sha256 kat_salt kat_ikm =
  [7;119;9;54;44;46;50;223;13;220;63;13;196;123;186;99;144;182;199;59;181;15;156;49;34;236;132;74;215;194;179;229].
Proof. vm_compute. reflexivity. Qed.

Example hkdf_rfc5869_a1_okm :
  hkdf_expand H_sha256 (hkdf_extract H_sha256 kat_salt kat_ikm) kat_info 42 =
  [60;178;95;37;250;172;213;122;144;67;79;100;208;54;47;42;45;45;10;144;207;26;90;76;93;176;45;86;236;196;197;191;52;0;114;8;213;184;135;24;88;101].
Proof. vm_compute. reflexivity. Qed.

Example hkdf_rfc5869_a3_prk : hkdf_extract H_sha256 [] kat_ikm =
  [25;239;36;163;44;113;123;22;127;51;169;29;111;100;139;223;150;89;103;118;175;219;99;119;172;67;76;28;41;60;203;4].
Proof. vm_compute. reflexivity. Qed.

Example hkdf_rfc5869_a3_okm : hkdf_expand H_sha256 (hkdf_extract H_sha256 [] kat_ikm) [] 42 =
  [141;164;231;117;165;99;193;143;113;95;128;42;6;60;90;49;184;161;31;92;94;225;135;158;195;69;78;95;60;115;141;45;157;32;19;149;250;164;182;26;150;200].
Proof. vm_compute. reflexivity. Qed.

(* worked layout example: HkdfLabel(16, "key", "") = 00 10 | 09 "dtls13key" | 00 *)
Example hkdf_label_example : hkdf_label 16 lbl_key [] =
  [0;16; 9; 100;116;108;115;49;51; 107;101;121; 0].
Proof. reflexivity. Qed.
