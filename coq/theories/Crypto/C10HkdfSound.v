(* C10 - theorems about the HKDF / DTLS 1.3 schedule spec of C10Hkdf.v *)
From Coq Require Import String Ascii.
From DtlsV Require Import Lib.Bytes Crypto.C10Sha2 Crypto.C10Hmac Crypto.C10Prf Crypto.C10PrfSound
  Crypto.C10Layout Crypto.C10LayoutSound Crypto.C10Hkdf.
From Coq Require Import ZifyN ZifyNat ZifyBool.
Open Scope N_scope.

Lemma hkdf_blocks_length H prk info : hash_wf H ->
  forall k t i, length (hkdf_blocks H prk info t i k) = (k * h_len H)%nat.
Proof.
  intro Hwf. induction k as [|k IH]; intros t i; cbn [hkdf_blocks]; [reflexivity|].
  rewrite app_length, IH, hmac_length by exact Hwf. lia.
Qed.

Theorem hkdf_expand_length H prk info L : hash_wf H -> length (hkdf_expand H prk info L) = L.
Proof.
  intro Hwf. unfold hkdf_expand. rewrite firstn_length, hkdf_blocks_length by exact Hwf.
  destruct Hwf as [Hpos _]. pose proof (p_hash_iters_enough H L Hpos). lia.
Qed.

Corollary hkdf_expand_label_length H secret label ctx L : hash_wf H ->
  length (hkdf_expand_label H secret label ctx L) = L.
Proof. apply hkdf_expand_length. Qed.

(* distinct (length, label, context) => distinct HkdfLabel bytes: every derived secret/key is
   domain separated from every other one by its label *)
Theorem hkdf_label_injective n label ctx n' label' ctx' :
  n < 2 ^ 16 -> n' < 2 ^ 16 ->
  len (dtls13_prefix ++ label) < 256 -> len (dtls13_prefix ++ label') < 256 ->
  len ctx < 256 -> len ctx' < 256 ->
  hkdf_label n label ctx = hkdf_label n' label' ctx' -> n = n' /\ label = label' /\ ctx = ctx'.
Proof.
  intros Hn Hn' Hl Hl' Hc Hc' E. unfold hkdf_label in E.
  apply app_inj_pfx_len in E; [|now rewrite !be_enc_length]. destruct E as [En E].
  apply app_inj_pfx_len in E; [|now rewrite !be_enc_length]. destruct E as [Ell E].
  apply (be_enc_inj 2) in En; [|assumption..].
  apply (be_enc_inj 1) in Ell; [|assumption..].
  apply app_inj_pfx_len in E; [|unfold len in Ell; lia]. destruct E as [Elab E].
  apply app_inv_head in Elab.
  apply app_inj_pfx_len in E; [|now rewrite !be_enc_length]. destruct E as [Ecl Ectx].
  now subst.
Qed.

Corollary hkdf_label_distinct n label ctx n' label' ctx' :
  n < 2 ^ 16 -> n' < 2 ^ 16 ->
  len (dtls13_prefix ++ label) < 256 -> len (dtls13_prefix ++ label') < 256 ->
  len ctx < 256 -> len ctx' < 256 ->
  (n, label, ctx) <> (n', label', ctx') -> hkdf_label n label ctx <> hkdf_label n' label' ctx'.
Proof.
  intros Hn Hn' Hl Hl' Hc Hc' Hne E. apply Hne.
  destruct (hkdf_label_injective _ _ _ _ _ _ Hn Hn' Hl Hl' Hc Hc' E) as (-> & -> & ->). reflexivity.
Qed.

Theorem dtls13_labels :
  dtls13_prefix = [100;116;108;115;49;51] /\
  lbl_c_hs_traffic = [99;32;104;115;32;116;114;97;102;102;105;99] /\
  lbl_s_hs_traffic = [115;32;104;115;32;116;114;97;102;102;105;99] /\
  lbl_c_ap_traffic = [99;32;97;112;32;116;114;97;102;102;105;99] /\
  lbl_s_ap_traffic = [115;32;97;112;32;116;114;97;102;102;105;99] /\
  lbl_exp_master = [101;120;112;32;109;97;115;116;101;114] /\
  lbl_res_master = [114;101;115;32;109;97;115;116;101;114] /\
  lbl_derived = [100;101;114;105;118;101;100] /\
  lbl_finished = [102;105;110;105;115;104;101;100] /\
  lbl_traffic_upd = [116;114;97;102;102;105;99;32;117;112;100] /\
  lbl_key = [107;101;121] /\ lbl_iv = [105;118] /\ lbl_sn = [115;110] /\
  lbl_exporter = [101;120;112;111;114;116;101;114].
Proof. repeat split; reflexivity. Qed.

(* the schedule labels are pairwise distinct, hence (by hkdf_label_distinct) so are their HkdfLabels *)
Theorem dtls13_labels_nodup :
  NoDup [lbl_c_hs_traffic; lbl_s_hs_traffic; lbl_c_ap_traffic; lbl_s_ap_traffic; lbl_exp_master;
         lbl_res_master; lbl_derived; lbl_finished; lbl_traffic_upd; lbl_key; lbl_iv; lbl_sn; lbl_exporter].
Proof.
  repeat (constructor; [cbn; intuition discriminate|]). constructor.
Qed.
