(* C10 - theorems about the HKDF / DTLS 1.3 schedule spec of C10Hkdf.v *)
From Coq Require Import String Ascii.
From DtlsV Require Import Lib.Bytes Crypto.C10Sha2 Crypto.C10Hmac Crypto.C10Prf Crypto.C10PrfSound
  Crypto.C10Layout Crypto.C10LayoutSound Crypto.C10Hkdf.
From Coq Require Import ZifyN ZifyNat ZifyBool.
Open Scope N_scope.

Lemma hkdf_blocks_length H prk info : hash_wf H ->
  forall k t i, length (hkdf_blocks H prk info t i k) = (k * h_len H)%nat.
Proof.
  intro Hwf. induction k as [|k IH]; intros t i; cbn [hkdf_blocks]; [reflexivity|].
  rewrite app_length, IH, hmac_length by exact Hwf. lia.
Qed.

Theorem hkdf_expand_length H prk info L : hash_wf H -> length (hkdf_expand H prk info L) = L.
Proof.
  intro Hwf. unfold hkdf_expand. rewrite firstn_length, hkdf_blocks_length by exact Hwf.
  destruct Hwf as [Hpos _]. pose proof (p_hash_iters_enough H L Hpos). lia.
Qed.

Corollary hkdf_expand_label_length H secret label ctx L : hash_wf H ->
  length (hkdf_expand_label H secret label ctx L) = L.
Proof. apply hkdf_expand_length. Qed.

(* distinct (length, label, context) => distinct HkdfLabel bytes: every derived secret/key is
   domain separated from every other one by its label *)
Theorem hkdf_label_injective n label ctx n' label' ctx' :
  n < 2 ^ 16 -> n' < 2 ^ 16 ->
  len (dtls13_prefix ++ label) < 256 -> len (dtls13_prefix ++ label') < 256 ->
  len ctx < 256 -> len ctx' < 256 ->
  hkdf_label n label ctx = hkdf_label n' label' ctx' -> n = n' /\ label = label' /\ ctx = ctx'.
Proof.
  intros Hn Hn' Hl Hl' Hc Hc' E. unfold hkdf_label in E.
  apply app_inj_pfx_len in E; [|now rewrite !be_enc_length]. destruct E as [En E].
  apply app_inj_pfx_len in E; [|now rewrite !be_enc_length]. destruct E as [Ell E].
  apply (be_enc_inj 2) in En; [|assumption..].
  apply (be_enc_inj 1) in Ell; [|assumption..].
  apply app_inj_pfx_len in E; [|unfold len in Ell; lia]. destruct E as [Elab E].
  apply app_inv_head in Elab.
  apply app_inj_pfx_len in E; [|now rewrite !be_enc_length]. destruct E as [Ecl Ectx].
  now subst.
Qed.

Corollary hkdf_label_distinct n label ctx n' label' ctx' :
  n < 2 ^ 16 -> n' < 2 ^ 16 ->
  len (dtls13_prefix ++ label) < 256 -> len (dtls13_prefix ++ label') < 256 ->
  len ctx < 256 -> len ctx' < 256 ->
  (n, label, ctx) <> (n', label', ctx') -> hkdf_label n label ctx <> hkdf_label n' label' ctx'.
Proof.
  intros Hn Hn' Hl Hl' Hc Hc' Hne E. apply Hne.
  destruct (hkdf_label_injective _ _ _ _ _ _ Hn Hn' Hl Hl' Hc Hc' E) as (-> & -> & ->). reflexivity.
Qed.

Theorem dtls13_labels :
  dtls13_prefix = [100;116;108;115;49;51] /\
  lbl_c_hs_traffic = [99;32;104;115;32;116;114;97;102;102;105;99] /\
  lbl_s_hs_traffic = [115;32;104;115;32;116;114;97;102;102;105;99] /\
  lbl_c_ap_traffic = [99;32;97;112;32;116;114;97;102;102;105;99] /\
  lbl_s_ap_traffic = [115;32;97;112;32;116;114;97;102;102;105;99] /\
  lbl_exp_master = [101;120;112;32;109;97;115;116;101;114] /\
  lbl_res_master = [114;101;115;32;109;97;115;116;101;114] /\
  lbl_derived = [100;101;114;105;118;101;100] /\
  lbl_finished = [102;105;110;105;115;104;101;100] /\
  lbl_traffic_upd = [116;114;97;102;102;105;99;32;117;112;100] /\
  lbl_key = [107;101;121] /\ lbl_iv = [105;118] /\ lbl_sn = [115;110] /\
  lbl_exporter = [101;120;112;111;114;116;101;114].
Proof. repeat split; reflexivity. Qed.

(* the schedule labels are pairwise distinct, hence (by hkdf_label_distinct) so are their HkdfLabels *)
Theorem dtls13_labels_nodup :
  NoDup [lbl_c_hs_traffic; lbl_s_hs_traffic; lbl_c_ap_traffic; lbl_s_ap_traffic; lbl_exp_master;
         lbl_res_master; lbl_derived; lbl_finished; lbl_traffic_upd; lbl_key; lbl_iv; lbl_sn; lbl_exporter].
Proof.
  repeat (constructor; [cbn; intuition discriminate|]). constructor.
Qed.

(* ---------------- key-update chain: application_traffic_secret_n ---------------- *)

(* the chain law, for every n: secret (n+1) = HKDF-Expand-Label(secret n, "traffic upd", "", Hash.length) *)
Theorem traffic_update_chain H secret0 n :
  traffic_secret_n H secret0 (S n) =
  hkdf_expand_label H (traffic_secret_n H secret0 n) lbl_traffic_upd [] (h_len H).
Proof. reflexivity. Qed.

(* an implementation that keeps only the current secret and steps it once per key update holds
   secret n after n updates, whatever n *)
Theorem traffic_secret_n_iter H secret0 n :
  Nat.iter n (key_update_step H) secret0 = traffic_secret_n H secret0 n.
Proof.
  induction n as [|n IH]; [reflexivity|].
  cbn [Nat.iter nat_rect traffic_secret_n]. unfold Nat.iter in IH. rewrite IH. reflexivity.
Qed.

(* continuing from generation n for m more updates is generation n+m: the chain only ever needs the
   current secret, and it needs exactly that one (not an earlier one) *)
Theorem traffic_secret_n_add H secret0 n m :
  traffic_secret_n H (traffic_secret_n H secret0 n) m = traffic_secret_n H secret0 (n + m).
Proof.
  induction m as [|m IH]; [now rewrite Nat.add_0_r|].
  rewrite Nat.add_succ_r. cbn [traffic_secret_n]. now rewrite IH.
Qed.

Theorem traffic_secret_n_length H secret0 n : hash_wf H ->
  length (traffic_secret_n H secret0 (S n)) = h_len H.
Proof. intro Hwf. cbn [traffic_secret_n]. unfold next_traffic_secret. now apply hkdf_expand_label_length. Qed.

(* the record-protection keys of generation n are derived from secret n (and from nothing else) *)
Theorem generation_keys_from_secret H secret0 n kl :
  generation_keys H secret0 n kl =
  [traffic_secret_n H secret0 n;
   hkdf_expand_label H (traffic_secret_n H secret0 n) lbl_key [] kl;
   hkdf_expand_label H (traffic_secret_n H secret0 n) lbl_iv [] 12;
   hkdf_expand_label H (traffic_secret_n H secret0 n) lbl_sn [] kl].
Proof. reflexivity. Qed.

(* generation n+1 is keyed exactly like generation 0 of a connection whose secret 0 is the
   once-updated secret n: key/iv/sn of every generation go through "traffic upd" first *)
Theorem generation_keys_step H secret0 n kl :
  generation_keys H secret0 (S n) kl =
  generation_keys H (next_traffic_secret H (traffic_secret_n H secret0 n)) 0 kl.
Proof. reflexivity. Qed.

Theorem generation_keys_lengths H secret0 n kl : hash_wf H ->
  map (@length N) (generation_keys H secret0 (S n) kl) = [h_len H; kl; 12%nat; kl].
Proof.
  intro Hwf. unfold generation_keys. cbn [map].
  rewrite traffic_secret_n_length by exact Hwf.
  unfold traffic_key, traffic_iv, traffic_sn_key.
  now rewrite !hkdf_expand_label_length by exact Hwf.
Qed.
