(* C10 - HMAC (RFC 2104) over the hash functions of C10Sha2, written from the RFC text:
     HMAC(K, text) = H((K0 xor opad) || H((K0 xor ipad) || text))
   where K0 is K (hashed first when longer than the block size B) padded with zeros to B bytes,
   ipad = 0x36 repeated, opad = 0x5c repeated. *)
From DtlsV Require Import Lib.Bytes Crypto.C10Sha2.
Open Scope N_scope.

Record hashfn := {
  h_block : nat;            (* B: block size in bytes *)
  h_len : nat;              (* L: output size in bytes *)
  h_fn : bytes -> bytes
}.

Definition H_sha256 : hashfn := {| h_block := 64; h_len := 32; h_fn := sha256 |}.
Definition H_sha384 : hashfn := {| h_block := 128; h_len := 48; h_fn := sha384 |}.
Definition H_sha512 : hashfn := {| h_block := 128; h_len := 64; h_fn := sha512 |}.
Definition H_sha1 : hashfn := {| h_block := 64; h_len := 20; h_fn := sha1 |}.

Definition hmac_key0 (H : hashfn) (key : bytes) : bytes :=
  let k := if (h_block H <? length key)%nat then h_fn H key else key in
  k ++ repeat 0 (h_block H - length k).

Definition hmac (H : hashfn) (key text : bytes) : bytes :=
  let k0 := hmac_key0 H key in
  h_fn H (map (N.lxor 92) k0 ++ h_fn H (map (N.lxor 54) k0 ++ text)).

(* ---------------- known-answer tests: RFC 4231 test cases 1, 2 (and 6: key longer than B),
   RFC 2202 test case 1 for HMAC-SHA1 ---------------- *)

(* "Hi There" *)
Definition kat_hi_there : bytes := [72; 105; 32; 84; 104; 101; 114; 101].
(* "Jefe" / "what do ya want for nothing?" *)
Definition kat_jefe : bytes := [74; 101; 102; 101].
Definition kat_what : bytes :=
  [119;104;97;116;32;100;111;32;121;97;32;119;97;110;116;32;102;111;114;32;110;111;116;104;105;110;103;63].
(* "Test Using Larger Than Block-Size Key - Hash Key First" *)
Definition kat_larger : bytes :=
  [84;101;115;116;32;85;115;105;110;103;32;76;97;114;103;101;114;32;84;104;97;110;32;66;108;111;99;107;
   45;83;105;122;101;32;75;101;121;32;45;32;72;97;115;104;32;75;101;121;32;70;105;114;115;116].

Example hmac_sha256_rfc4231_1 : hmac H_sha256 (repeat 11 20) kat_hi_there =
  [176;52;76;97;216;219;56;83;92;168;175;206;175;11;241;43;136;29;194;0;201;131;61;167;
   38;233;55;108;46;50;207;247].
Proof. vm_compute. reflexivity. Qed.

Example hmac_sha256_rfc4231_2 : hmac H_sha256 kat_jefe kat_what =
  [91;220;193;70;191;96;117;78;106;4;36;38;8;149;117;199;90;0;63;8;157;39;57;131;157;236;
   88;185;100;236;56;67].
Proof. vm_compute. reflexivity. Qed.

Example hmac_sha384_rfc4231_1 : hmac H_sha384 (repeat 11 20) kat_hi_there =
  [175;208;57;68;216;72;149;98;107;8;37;244;171;70;144;127;21;249;218;219;228;16;30;198;
   130;170;3;76;124;235;197;156;250;234;158;169;7;110;222;127;74;241;82;232;178;250;156;182].
Proof. vm_compute. reflexivity. Qed.

Example hmac_sha384_rfc4231_2 : hmac H_sha384 kat_jefe kat_what =
  [175;69;210;227;118;72;64;49;97;127;120;210;181;138;107;27;156;126;244;100;245;160;27;
   71;228;46;195;115;99;34;68;94;142;34;64;202;94;105;226;199;139;50;57;236;250;178;22;73].
Proof. vm_compute. reflexivity. Qed.

Example hmac_sha512_rfc4231_2 : hmac H_sha512 kat_jefe kat_what =
  [22;75;122;123;252;248;25;226;227;149;251;231;59;86;224;163;135;189;100;34;46;131;31;
   214;16;39;12;215;234;37;5;84;151;88;191;117;192;90;153;74;109;3;79;101;248;240;230;253;
   202;234;177;163;77;74;107;75;99;110;7;10;56;188;231;55].
Proof. vm_compute. reflexivity. Qed.

Example hmac_sha256_rfc4231_6 : hmac H_sha256 (repeat 170 131) kat_larger =
  [96;228;49;89;30;224;182;127;13;138;38;170;203;245;183;127;142;11;198;33;55;40;197;20;
   5;70;4;15;14;227;127;84].
Proof. vm_compute. reflexivity. Qed.

Example hmac_sha1_rfc2202_1 : hmac H_sha1 (repeat 11 20) kat_hi_there =
  [182;23;49;134;85;5;114;100;226;139;192;182;251;55;140;142;241;70;190;0].
Proof. vm_compute. reflexivity. Qed.

Example hmac_sha1_rfc2202_2 : hmac H_sha1 kat_jefe kat_what =
  [239;252;223;106;229;235;47;162;210;116;22;213;241;132;223;156;37;154;124;121].
Proof. vm_compute. reflexivity. Qed.
