(* C10 - record protection layouts, written from the RFC text (definitions only):
     RFC 5246 6.2.3.3 / RFC 6347 4.1.2.1   AEAD additional data, seq_num = epoch || sequence_number
     RFC 5288 3, RFC 6655 3                AES-GCM / AES-CCM nonce = salt(4) || explicit(8)
     RFC 7905 2                            ChaCha20-Poly1305 nonce = IV xor padded seq_num
     RFC 5246 6.2.3.1 / 6.2.3.2            CBC: MAC then encrypt, explicit IV, padding
     RFC 9146 5.1 / 5.2 / 5.3              connection-ID MAC input and AEAD additional data
     RFC 9147 4 / 4.2.3, RFC 8446 5.3      DTLS 1.3 unified header, nonce, sequence-number mask *)
From DtlsV Require Import Lib.Bytes Crypto.C10Sha2 Crypto.C10Hmac.
Open Scope N_scope.

(* the 64-bit seq_num of DTLS 1.2: 16-bit epoch || 48-bit sequence number *)
Definition seq_num (epoch seq : N) : bytes := be_enc 2 epoch ++ be_enc 6 seq.

Definition ct_tls12_cid : N := 25.

(* additional_data = seq_num + TLSCompressed.type + TLSCompressed.version + TLSCompressed.length *)
Definition aad12 (epoch seq typ ver length : N) : bytes :=
  seq_num epoch seq ++ be_enc 1 typ ++ be_enc 2 ver ++ be_enc 2 length.

Definition seq_num_placeholder : bytes := repeat 255 8.

(* RFC 9146 section 5.3:
   additional_data = seq_num_placeholder + tls12_cid + cid_length + tls12_cid +
                     DTLSCiphertext.version + epoch + sequence_number + cid +
                     length_of_DTLSInnerPlaintext *)
Definition aad12_cid (epoch seq ver : N) (cid : bytes) (length : N) : bytes :=
  seq_num_placeholder ++ be_enc 1 ct_tls12_cid ++ be_enc 1 (len cid) ++ be_enc 1 ct_tls12_cid ++
  be_enc 2 ver ++ be_enc 2 epoch ++ be_enc 6 seq ++ cid ++ be_enc 2 length.

(* what a record's AEAD additional data is, by content type of the record header *)
Definition aad12_for (epoch seq typ ver : N) (cid : bytes) (length : N) : bytes :=
  if typ =? ct_tls12_cid then aad12_cid epoch seq ver cid length else aad12 epoch seq typ ver length.

(* AES-GCM / AES-CCM: nonce = client/server_write_IV (4-byte salt) || nonce_explicit (8 bytes);
   in DTLS the explicit part is the 64-bit seq_num *)
Definition nonce_explicit (epoch seq : N) : bytes := seq_num epoch seq.
Definition nonce_aes (write_iv : bytes) (epoch seq : N) : bytes :=
  firstn 4 write_iv ++ nonce_explicit epoch seq.

(* the general RFC 5288 / RFC 6655 form: the receiver takes nonce_explicit from the record, whatever
   the sender chose (sequence number, counter with a random start, random value) *)
Definition nonce_aes_rx (write_iv explicit : bytes) : bytes := firstn 4 write_iv ++ explicit.

Fixpoint xor_bytes (a b : bytes) : bytes :=
  match a, b with
  | x :: a', y :: b' => N.lxor x y :: xor_bytes a' b'
  | _, _ => []
  end.

(* "The 64-bit record sequence number is serialized as an 8-byte, big-endian value and padded on
   the left with four 0x00 bytes.  The padded sequence number is XORed with the write IV." *)
Definition nonce_chacha (write_iv : bytes) (epoch seq : N) : bytes :=
  xor_bytes write_iv (repeat 0 4 ++ seq_num epoch seq).

(* DTLS 1.3 (RFC 8446 5.3 with the RFC 9147 64-bit record sequence number) *)
Definition nonce13 (write_iv : bytes) (seq64 : N) : bytes :=
  xor_bytes write_iv (repeat 0 4 ++ be_enc 8 seq64).

(* DTLS 1.2 record header: type, version, epoch, sequence_number, [cid], length *)
Definition header12 (typ ver epoch seq : N) (cid : bytes) (length : N) : bytes :=
  be_enc 1 typ ++ be_enc 2 ver ++ be_enc 2 epoch ++ be_enc 6 seq ++ cid ++ be_enc 2 length.

(* AEAD record lengths on the wire *)
Definition aes_aead_record_len (payload_len tag_len : N) : N := 8 + payload_len + tag_len.
Definition chacha_record_len (payload_len : N) : N := payload_len + 16.

(* ---------------- CBC (MAC-then-encrypt, explicit IV) ---------------- *)

(* MAC(MAC_write_key, seq_num + type + version + length + fragment) *)
Definition cbc_mac_input (epoch seq typ ver : N) (fragment : bytes) : bytes :=
  seq_num epoch seq ++ be_enc 1 typ ++ be_enc 2 ver ++ be_enc 2 (len fragment) ++ fragment.
Definition cbc_mac (H : hashfn) (mac_key : bytes) (epoch seq typ ver : N) (fragment : bytes) : bytes :=
  hmac H mac_key (cbc_mac_input epoch seq typ ver fragment).

(* RFC 9146 section 5.1 (block ciphers): the MAC input is
   seq_num_placeholder + tls12_cid + cid_length + tls12_cid + version + epoch + sequence_number +
   cid + length_of_DTLSInnerPlaintext + DTLSInnerPlaintext.content + .real_type + .zeros
   i.e. the header part followed by the serialized DTLSInnerPlaintext, once. *)
Definition cbc_mac_input_cid (epoch seq ver : N) (cid inner : bytes) : bytes :=
  seq_num_placeholder ++ be_enc 1 ct_tls12_cid ++ be_enc 1 (len cid) ++ be_enc 1 ct_tls12_cid ++
  be_enc 2 ver ++ be_enc 2 epoch ++ be_enc 6 seq ++ cid ++ be_enc 2 (len inner) ++ inner.
Definition cbc_mac_cid (H : hashfn) (mac_key : bytes) (epoch seq ver : N) (cid inner : bytes) : bytes :=
  hmac H mac_key (cbc_mac_input_cid epoch seq ver cid inner).

(* padding: "each uint8 in the padding data vector MUST be filled with the padding length value";
   the sender pads to the next multiple of the block length with padding_length in 0..block-1
   (at least the padding_length byte itself) *)
Definition cbc_padding (block : N) (unpadded_len : N) : bytes :=
  let p := block - unpadded_len mod block in
  repeat (p - 1) (N.to_nat p).

(* a receiver must accept any padding length 0..255 that makes the total a block multiple:
   [padlen] padding bytes plus the padding_length byte, all of value [padlen] *)
Definition cbc_plaintext_pad (content mac : bytes) (padlen : N) : bytes :=
  content ++ mac ++ repeat padlen (N.to_nat padlen + 1).

(* plaintext given to the block cipher: content + MAC + padding + padding_length *)
Definition cbc_plaintext (block : N) (content mac : bytes) : bytes :=
  content ++ mac ++ cbc_padding block (len content + len mac).

Definition cbc_record_len (block : N) (content mac : bytes) : N :=
  block + len (cbc_plaintext block content mac).

(* DTLSInnerPlaintext (RFC 9146 section 4 / RFC 9147 section 4): content + real_type + zeros *)
Definition inner_plaintext (content : bytes) (real_type zeros : N) : bytes :=
  content ++ be_enc 1 real_type ++ repeat 0 (N.to_nat zeros).

(* ---------------- DTLS 1.3 unified header and sequence-number encryption ---------------- *)

Definition b2n (b : bool) : N := if b then 1 else 0.

(* first byte 0 0 1 C S L E E;  then cid (if C), 16- or 8-bit sequence number, 16-bit length (if L) *)
Definition unified_header (cid : bytes) (seq_bit len_bit : bool) (epoch_low seq16 length : N) : bytes :=
  [32 + 16 * b2n (negb (len cid =? 0)) + 8 * b2n seq_bit + 4 * b2n len_bit + epoch_low mod 4] ++
  cid ++ (if seq_bit then be_enc 2 seq16 else be_enc 1 seq16) ++
  (if len_bit then be_enc 2 length else []).

(* "The encrypted sequence number is computed by XORing the leading bytes of the mask with the
   on-the-wire representation of the sequence number": 2 bytes for a 16-bit number, else 1 *)
Definition sn_mask_apply (seq_bit : bool) (wire_seq : N) (mask : bytes) : N :=
  if seq_bit then be_dec (xor_bytes (be_enc 2 wire_seq) mask)
  else be_dec (xor_bytes (be_enc 1 wire_seq) mask).

(* the record as sent: header with the low 16 bits of the sequence number, S and L bits set
   (as /repo always sends), additional data = that header in clear, then the sequence number
   bytes of the header are masked *)
Definition aad13 (cid : bytes) (epoch_low seq64 ct_len : N) : bytes :=
  unified_header cid true true epoch_low (seq64 mod 65536) ct_len.
Definition header13_masked (cid : bytes) (epoch_low seq64 ct_len : N) (mask : bytes) : bytes :=
  unified_header cid true true epoch_low (sn_mask_apply true (seq64 mod 65536) mask) ct_len.

(* general header forms a receiver must understand: 16- or 8-bit sequence number, with or without
   the length field *)
Definition wire_seq (seq_bit : bool) (seq64 : N) : N := if seq_bit then seq64 mod 65536 else seq64 mod 256.
Definition aad13_gen (cid : bytes) (seq_bit len_bit : bool) (epoch_low seq64 ct_len : N) : bytes :=
  unified_header cid seq_bit len_bit epoch_low (wire_seq seq_bit seq64) ct_len.
Definition header13_masked_gen (cid : bytes) (seq_bit len_bit : bool) (epoch_low seq64 ct_len : N) (mask : bytes) : bytes :=
  unified_header cid seq_bit len_bit epoch_low (sn_mask_apply seq_bit (wire_seq seq_bit seq64) mask) ct_len.
