(* C10 - theorems about the record-protection layouts of C10Layout.v.
   [aad12_injective], [aad12_cid_injective], [nonce_*_injective] are also used by C05 and C09. *)
From DtlsV Require Import Lib.Bytes Crypto.C10Sha2 Crypto.C10Hmac Crypto.C10PrfSound Crypto.C10Layout.
From Coq Require Import ZifyN ZifyNat ZifyBool.
Open Scope N_scope.

Lemma be_enc_inj k a b : a < 256 ^ N.of_nat k -> b < 256 ^ N.of_nat k -> be_enc k a = be_enc k b -> a = b.
Proof.
  intros Ha Hb E. rewrite <- (be_dec_enc k a Ha), <- (be_dec_enc k b Hb). now rewrite E.
Qed.

Ltac split_app H :=
  let H1 := fresh "Hd" in
  apply app_inj_pfx_len in H; [destruct H as [H1 H] | rewrite ?be_enc_length; reflexivity].

Lemma seq_num_inj e s e' s' :
  e < 2 ^ 16 -> e' < 2 ^ 16 -> s < 2 ^ 48 -> s' < 2 ^ 48 ->
  seq_num e s = seq_num e' s' -> e = e' /\ s = s'.
Proof.
  intros He He' Hs Hs' E. unfold seq_num in E.
  apply app_inj_pfx_len in E; [|now rewrite !be_enc_length]. destruct E as [E1 E2].
  split; eapply be_enc_inj; try eassumption; assumption.
Qed.

(* ---------- additional data ---------- *)

(* equal additional data => equal (epoch, sequence number, type, version, length) *)
Theorem aad12_injective e s t v l e' s' t' v' l' :
  e < 2 ^ 16 -> e' < 2 ^ 16 -> s < 2 ^ 48 -> s' < 2 ^ 48 -> t < 256 -> t' < 256 ->
  v < 2 ^ 16 -> v' < 2 ^ 16 -> l < 2 ^ 16 -> l' < 2 ^ 16 ->
  aad12 e s t v l = aad12 e' s' t' v' l' ->
  e = e' /\ s = s' /\ t = t' /\ v = v' /\ l = l'.
Proof.
  intros He He' Hs Hs' Ht Ht' Hv Hv' Hl Hl' E. unfold aad12 in E.
  apply app_inj_pfx_len in E; [|unfold seq_num; now rewrite !app_length, !be_enc_length].
  destruct E as [E0 E].
  apply app_inj_pfx_len in E; [|now rewrite !be_enc_length]. destruct E as [E1 E].
  apply app_inj_pfx_len in E; [|now rewrite !be_enc_length]. destruct E as [E2 E3].
  destruct (seq_num_inj _ _ _ _ He He' Hs Hs' E0) as [-> ->].
  apply (be_enc_inj 1) in E1; [|assumption..].
  apply (be_enc_inj 2) in E2; [|assumption..].
  apply (be_enc_inj 2) in E3; [|assumption..].
  now subst.
Qed.

Theorem aad12_cid_injective e s v cid l e' s' v' cid' l' :
  e < 2 ^ 16 -> e' < 2 ^ 16 -> s < 2 ^ 48 -> s' < 2 ^ 48 ->
  v < 2 ^ 16 -> v' < 2 ^ 16 -> l < 2 ^ 16 -> l' < 2 ^ 16 -> len cid < 256 -> len cid' < 256 ->
  aad12_cid e s v cid l = aad12_cid e' s' v' cid' l' ->
  e = e' /\ s = s' /\ v = v' /\ cid = cid' /\ l = l'.
Proof.
  intros He He' Hs Hs' Hv Hv' Hl Hl' Hc Hc' E. unfold aad12_cid in E.
  apply app_inv_head in E. apply app_inv_head in E.
  apply app_inj_pfx_len in E; [|now rewrite !be_enc_length]. destruct E as [Ec E].
  apply (be_enc_inj 1) in Ec; [|assumption..].
  apply app_inv_head in E.
  apply app_inj_pfx_len in E; [|now rewrite !be_enc_length]. destruct E as [Ev E].
  apply app_inj_pfx_len in E; [|now rewrite !be_enc_length]. destruct E as [Ee E].
  apply app_inj_pfx_len in E; [|now rewrite !be_enc_length]. destruct E as [Es E].
  apply app_inj_pfx_len in E; [|unfold len in Ec; lia]. destruct E as [Ecid El].
  apply (be_enc_inj 2) in Ev; [|assumption..].
  apply (be_enc_inj 2) in Ee; [|assumption..].
  apply (be_enc_inj 6) in Es; [|assumption..].
  apply (be_enc_inj 2) in El; [|assumption..].
  now subst.
Qed.

(* the two layouts never collide (13 bytes versus 23+|cid| bytes) *)
Theorem aad12_vs_cid_disjoint e s t v l e' s' v' cid l' :
  aad12 e s t v l <> aad12_cid e' s' v' cid l'.
Proof.
  intro E. apply (f_equal (@length N)) in E. unfold aad12, aad12_cid, seq_num, seq_num_placeholder in E.
  repeat rewrite app_length in E. repeat rewrite be_enc_length in E. rewrite repeat_length in E. lia.
Qed.

Theorem aad12_length e s t v l : length (aad12 e s t v l) = 13%nat.
Proof. unfold aad12, seq_num. repeat rewrite app_length. now repeat rewrite be_enc_length. Qed.

(* ---------- nonces ---------- *)

Theorem nonce_aes_injective iv e s e' s' :
  e < 2 ^ 16 -> e' < 2 ^ 16 -> s < 2 ^ 48 -> s' < 2 ^ 48 ->
  nonce_aes iv e s = nonce_aes iv e' s' -> e = e' /\ s = s'.
Proof.
  intros He He' Hs Hs' E. unfold nonce_aes, nonce_explicit in E. apply app_inv_head in E.
  now apply seq_num_inj.
Qed.

Lemma lxor_cancel a b c : N.lxor a b = N.lxor a c -> b = c.
Proof.
  intro E. assert (E' : N.lxor a (N.lxor a b) = N.lxor a (N.lxor a c)) by now rewrite E.
  now rewrite <- !N.lxor_assoc, !N.lxor_nilpotent, !N.lxor_0_l in E'.
Qed.

Lemma xor_bytes_inj a : forall b c, length b = length c -> (length b <= length a)%nat ->
  xor_bytes a b = xor_bytes a c -> b = c.
Proof.
  induction a as [|x a IH]; intros [|y b] [|z c] Hl Hle E; cbn in *; try discriminate; try lia; try reflexivity.
  injection E as E1 E2. apply lxor_cancel in E1. subst z. f_equal. apply IH; [lia | lia | exact E2].
Qed.

Lemma xor_bytes_length a : forall b, length (xor_bytes a b) = Nat.min (length a) (length b).
Proof. induction a as [|x a IH]; intros [|y b]; cbn [xor_bytes length]; try reflexivity. now rewrite IH. Qed.

Theorem nonce_chacha_injective iv e s e' s' :
  length iv = 12%nat -> e < 2 ^ 16 -> e' < 2 ^ 16 -> s < 2 ^ 48 -> s' < 2 ^ 48 ->
  nonce_chacha iv e s = nonce_chacha iv e' s' -> e = e' /\ s = s'.
Proof.
  intros Hiv He He' Hs Hs' E. unfold nonce_chacha in E.
  apply xor_bytes_inj in E.
  - apply app_inv_head in E. now apply seq_num_inj.
  - unfold seq_num. now rewrite !app_length, !be_enc_length.
  - unfold seq_num. rewrite !app_length, !be_enc_length, repeat_length. lia.
Qed.

Theorem nonce13_injective iv s s' :
  length iv = 12%nat -> s < 2 ^ 64 -> s' < 2 ^ 64 -> nonce13 iv s = nonce13 iv s' -> s = s'.
Proof.
  intros Hiv Hs Hs' E. unfold nonce13 in E.
  apply xor_bytes_inj in E.
  - apply app_inv_head in E. now apply (be_enc_inj 8).
  - now rewrite !app_length, !be_enc_length.
  - rewrite !app_length, !be_enc_length, repeat_length. lia.
Qed.

(* distinct (epoch, sequence number) => distinct nonce under one IV *)
Corollary nonce_aes_distinct iv e s e' s' :
  e < 2 ^ 16 -> e' < 2 ^ 16 -> s < 2 ^ 48 -> s' < 2 ^ 48 ->
  (e, s) <> (e', s') -> nonce_aes iv e s <> nonce_aes iv e' s'.
Proof.
  intros He He' Hs Hs' Hne E. apply Hne.
  destruct (nonce_aes_injective iv _ _ _ _ He He' Hs Hs' E) as [-> ->]. reflexivity.
Qed.

Corollary nonce_chacha_distinct iv e s e' s' :
  length iv = 12%nat -> e < 2 ^ 16 -> e' < 2 ^ 16 -> s < 2 ^ 48 -> s' < 2 ^ 48 ->
  (e, s) <> (e', s') -> nonce_chacha iv e s <> nonce_chacha iv e' s'.
Proof.
  intros Hiv He He' Hs Hs' Hne E. apply Hne.
  destruct (nonce_chacha_injective iv _ _ _ _ Hiv He He' Hs Hs' E) as [-> ->]. reflexivity.
Qed.

Corollary nonce13_distinct iv s s' :
  length iv = 12%nat -> s < 2 ^ 64 -> s' < 2 ^ 64 -> s <> s' -> nonce13 iv s <> nonce13 iv s'.
Proof. intros Hiv Hs Hs' Hne E. apply Hne. now apply (nonce13_injective iv). Qed.

Corollary nonce_distinct iv e s e' s' :
  length iv = 12%nat -> e < 2 ^ 16 -> e' < 2 ^ 16 -> s < 2 ^ 48 -> s' < 2 ^ 48 ->
  (e, s) <> (e', s') ->
  nonce_aes iv e s <> nonce_aes iv e' s' /\ nonce_chacha iv e s <> nonce_chacha iv e' s'.
Proof.
  intros Hiv He He' Hs Hs' Hne. split.
  - now apply nonce_aes_distinct.
  - now apply nonce_chacha_distinct.
Qed.

Theorem nonce_lengths iv e s q : length iv = 12%nat ->
  length (nonce_aes iv e s) = 12%nat /\ length (nonce_chacha iv e s) = 12%nat /\
  length (nonce13 iv q) = 12%nat.
Proof.
  intro Hiv. unfold nonce_aes, nonce_chacha, nonce13, nonce_explicit, seq_num.
  rewrite !xor_bytes_length, !app_length, firstn_length, !be_enc_length, repeat_length, Hiv.
  repeat split.
Qed.

(* ---------- CBC ---------- *)

(* RFC 9146 section 5.1: the MAC input of a connection-ID record is the RFC 9146 additional data
   (section 5.3, with length_of_DTLSInnerPlaintext) followed by the serialized DTLSInnerPlaintext,
   exactly once *)
Theorem cbc_mac_input_cid_layout e s v cid inner :
  cbc_mac_input_cid e s v cid inner = aad12_cid e s v cid (len inner) ++ inner /\
  length (cbc_mac_input_cid e s v cid inner) = (23 + length cid + length inner)%nat.
Proof.
  split.
  - unfold cbc_mac_input_cid, aad12_cid. now repeat rewrite <- app_assoc.
  - unfold cbc_mac_input_cid, seq_num_placeholder. repeat rewrite app_length.
    repeat rewrite be_enc_length. rewrite repeat_length. lia.
Qed.

(* the MAC input determines every authenticated field and the whole inner plaintext *)
Theorem cbc_mac_input_cid_injective e s v cid inner e' s' v' cid' inner' :
  e < 2 ^ 16 -> e' < 2 ^ 16 -> s < 2 ^ 48 -> s' < 2 ^ 48 -> v < 2 ^ 16 -> v' < 2 ^ 16 ->
  len cid < 256 -> len cid' < 256 -> len inner < 2 ^ 16 -> len inner' < 2 ^ 16 ->
  cbc_mac_input_cid e s v cid inner = cbc_mac_input_cid e' s' v' cid' inner' ->
  e = e' /\ s = s' /\ v = v' /\ cid = cid' /\ inner = inner'.
Proof.
  intros He He' Hs Hs' Hv Hv' Hc Hc' Hi Hi' E. unfold cbc_mac_input_cid in E.
  apply app_inv_head in E. apply app_inv_head in E.
  apply app_inj_pfx_len in E; [|now rewrite !be_enc_length]. destruct E as [Ec E].
  apply (be_enc_inj 1) in Ec; [|assumption..].
  apply app_inv_head in E.
  apply app_inj_pfx_len in E; [|now rewrite !be_enc_length]. destruct E as [Ev E].
  apply app_inj_pfx_len in E; [|now rewrite !be_enc_length]. destruct E as [Ee E].
  apply app_inj_pfx_len in E; [|now rewrite !be_enc_length]. destruct E as [Es E].
  apply app_inj_pfx_len in E; [|unfold len in Ec; lia]. destruct E as [Ecid E].
  apply app_inj_pfx_len in E; [|now rewrite !be_enc_length]. destruct E as [_ Ein].
  apply (be_enc_inj 2) in Ev; [|assumption..].
  apply (be_enc_inj 2) in Ee; [|assumption..].
  apply (be_enc_inj 6) in Es; [|assumption..].
  now subst.
Qed.

(* lengths of the two MAC inputs over the same fragment: 13 versus 23+|cid| header bytes *)
Lemma cbc_mac_inputs_lengths e s t v frag e' s' v' cid :
  length (cbc_mac_input e s t v frag) = (13 + length frag)%nat /\
  length (cbc_mac_input_cid e' s' v' cid frag) = (23 + length cid + length frag)%nat.
Proof.
  split; [|apply cbc_mac_input_cid_layout].
  unfold cbc_mac_input, seq_num. repeat rewrite app_length. repeat rewrite be_enc_length. lia.
Qed.

(* regression fact (former defect F8, fixed in /repo by "fix: MAC the inner plaintext once in CBC
   records with a connection ID"): appending the inner plaintext a second time changes the MAC
   input whenever the inner plaintext is non-empty.  Not a property theorem. *)
Lemma cbc_mac_input_cid_once e s v cid inner :
  inner <> [] -> cbc_mac_input_cid e s v cid inner ++ inner <> cbc_mac_input_cid e s v cid inner.
Proof.
  intros Hne E. rewrite <- (app_nil_r (cbc_mac_input_cid e s v cid inner)) in E at 2.
  apply app_inv_head in E. contradiction.
Qed.

Lemma cbc_padding_length block n : 0 < block ->
  len (cbc_padding block n) = block - n mod block.
Proof. intro Hb. unfold cbc_padding, len. rewrite repeat_length. lia. Qed.

(* the plaintext handed to the block cipher is a whole number of blocks; 1..block padding bytes,
   each equal to (number of padding bytes - 1) *)
Theorem cbc_plaintext_aligned block content mac : 0 < block ->
  len (cbc_plaintext block content mac) mod block = 0 /\
  1 <= len (cbc_padding block (len content + len mac)) <= block /\
  Forall (fun b => b = len (cbc_padding block (len content + len mac)) - 1)
         (cbc_padding block (len content + len mac)).
Proof.
  intro Hb. unfold cbc_plaintext. rewrite !len_app, cbc_padding_length by exact Hb.
  set (n := len content + len mac).
  pose proof (N.mod_lt n block ltac:(lia)) as Hlt.
  split; [|split].
  - rewrite N.add_assoc. fold n.
    pose proof (N.div_mod' n block) as Hd.
    replace (n + (block - n mod block)) with ((n / block + 1) * block) by nia.
    apply N.mod_mul. lia.
  - lia.
  - unfold cbc_padding. fold n. apply Forall_forall. intros b Hin. apply repeat_spec in Hin.
    rewrite Hin. lia.
Qed.

(* the sender's choice nonce_explicit = epoch || sequence_number is one instance of the general
   receive-side form; a receiver must use the explicit part carried in the record *)
Lemma nonce_aes_is_rx iv e s : nonce_aes iv e s = nonce_aes_rx iv (nonce_explicit e s).
Proof. reflexivity. Qed.

(* under one write IV the nonce determines the explicit part (so distinct explicit values give
   distinct nonces whatever scheme the peer uses to pick them) *)
Theorem nonce_aes_rx_injective iv x x' : nonce_aes_rx iv x = nonce_aes_rx iv x' -> x = x'.
Proof. unfold nonce_aes_rx. apply app_inv_head. Qed.

(* any padding length that completes a block is well-formed for the receiver *)
Theorem cbc_plaintext_pad_length content mac padlen :
  len (cbc_plaintext_pad content mac padlen) = len content + len mac + padlen + 1.
Proof. unfold cbc_plaintext_pad. rewrite !len_app. unfold len. rewrite repeat_length. lia. Qed.

(* ---------- DTLS 1.3 sequence-number encryption ---------- *)

Lemma lxor_byte a b : a < 256 -> b < 256 -> N.lxor a b < 256.
Proof.
  intros Ha Hb. destruct (N.eq_dec (N.lxor a b) 0) as [E|E]; [rewrite E; lia|].
  change 256 with (2 ^ 8). apply N.log2_lt_pow2; [lia|].
  pose proof (N.log2_lxor a b) as Hx.
  assert (La : N.log2 a < 8).
  { destruct (N.eq_dec a 0) as [->|Hz]; [cbn; lia|]. apply N.log2_lt_pow2; [lia | exact Ha]. }
  assert (Lb : N.log2 b < 8).
  { destruct (N.eq_dec b 0) as [->|Hz]; [cbn; lia|]. apply N.log2_lt_pow2; [lia | exact Hb]. }
  lia.
Qed.

Lemma xor_bytes_ok a : forall m, bytes_ok a = true -> bytes_ok m = true -> bytes_ok (xor_bytes a m) = true.
Proof.
  induction a as [|x a IH]; intros [|y m] Ha Hm; cbn [xor_bytes]; try reflexivity.
  unfold bytes_ok in *. cbn [forallb] in *.
  apply andb_prop in Ha. destruct Ha as [Hx Ha]. apply andb_prop in Hm. destruct Hm as [Hy Hm].
  rewrite (IH m Ha Hm), andb_true_r. unfold byte_ok in *.
  apply N.ltb_lt. apply lxor_byte; now apply N.ltb_lt.
Qed.

Lemma xor_bytes_involutive a : forall m, (length a <= length m)%nat -> xor_bytes (xor_bytes a m) m = a.
Proof.
  induction a as [|x a IH]; intros [|y m] Hl; cbn [xor_bytes length] in *; try reflexivity; try lia.
  rewrite IH by lia. f_equal.
  now rewrite N.lxor_assoc, N.lxor_nilpotent, N.lxor_0_r.
Qed.

(* applying the mask twice gives back the sequence-number bits: the receiver recovers what the
   sender put in the header (16-bit and 8-bit forms) *)
Theorem sn_mask_involutive (seq_bit : bool) (x : N) (mask : bytes) :
  bytes_ok mask = true -> (2 <= length mask)%nat -> x < (if seq_bit then 2 ^ 16 else 2 ^ 8) ->
  sn_mask_apply seq_bit (sn_mask_apply seq_bit x mask) mask = x.
Proof.
  intros Hok Hlen Hx.
  assert (Hgen : forall k, (k <= 2)%nat -> x < 256 ^ N.of_nat k ->
            be_dec (xor_bytes (be_enc k (be_dec (xor_bytes (be_enc k x) mask))) mask) = x).
  { intros k Hk Hxk.
    set (y := xor_bytes (be_enc k x) mask).
    assert (Hy : length y = k).
    { unfold y. rewrite xor_bytes_length, be_enc_length. lia. }
    assert (Hyok : bytes_ok y = true) by (apply xor_bytes_ok; [apply be_enc_ok | exact Hok]).
    rewrite <- Hy at 1. rewrite (be_enc_dec y Hyok). unfold y.
    rewrite xor_bytes_involutive by (rewrite be_enc_length; lia).
    now apply be_dec_enc. }
  unfold sn_mask_apply. destruct seq_bit.
  - apply (Hgen 2%nat); [lia | exact Hx].
  - apply (Hgen 1%nat); [lia | exact Hx].
Qed.
