(* C10 - TLS 1.2 key derivation, written from the RFC text (definitions only).
     RFC 5246 section 5   P_hash, PRF
     RFC 5246 section 8.1 master secret           RFC 7627 section 4  extended master secret
     RFC 5246 section 6.3 key expansion + partition
     RFC 5246 section 7.4.9 Finished verify_data  RFC 5705 section 4  exporter
     RFC 4279 section 2   PSK premaster           RFC 5489 section 2  ECDHE_PSK premaster
     RFC 8422 section 5.4 signed ServerKeyExchange parameters *)
From Coq Require Import String Ascii.
From DtlsV Require Import Lib.Bytes Crypto.C10Sha2 Crypto.C10Hmac.
Open Scope N_scope.

Fixpoint ascii_bytes (s : string) : bytes :=
  match s with
  | EmptyString => []
  | String c s' => N_of_ascii c :: ascii_bytes s'
  end.

(* P_hash(secret, seed) = HMAC(secret, A(1) + seed) + HMAC(secret, A(2) + seed) + ...
   A(0) = seed, A(i) = HMAC(secret, A(i-1)); truncated to the requested length *)
Fixpoint p_hash_blocks (H : hashfn) (secret seed a : bytes) (k : nat) : bytes :=
  match k with
  | O => []
  | S k' => let a' := hmac H secret a in
            hmac H secret (a' ++ seed) ++ p_hash_blocks H secret seed a' k'
  end.

Definition p_hash_iters (H : hashfn) (n : nat) : nat := ((n + h_len H - 1) / h_len H)%nat.

Definition p_hash (H : hashfn) (secret seed : bytes) (n : nat) : bytes :=
  firstn n (p_hash_blocks H secret seed seed (p_hash_iters H n)).

(* PRF(secret, label, seed) = P_<hash>(secret, label + seed) *)
Definition prf (H : hashfn) (secret label seed : bytes) (n : nat) : bytes :=
  p_hash H secret (label ++ seed) n.

Definition label_master_secret : bytes := ascii_bytes "master secret".
Definition label_extended_master_secret : bytes := ascii_bytes "extended master secret".
Definition label_key_expansion : bytes := ascii_bytes "key expansion".
Definition label_client_finished : bytes := ascii_bytes "client finished".
Definition label_server_finished : bytes := ascii_bytes "server finished".

(* master_secret = PRF(pre_master_secret, "master secret", ClientHello.random + ServerHello.random)[0..47] *)
Definition master_secret (H : hashfn) (pms client_random server_random : bytes) : bytes :=
  prf H pms label_master_secret (client_random ++ server_random) 48.

(* master_secret = PRF(pre_master_secret, "extended master secret", session_hash)[0..47] *)
Definition extended_master_secret (H : hashfn) (pms session_hash : bytes) : bytes :=
  prf H pms label_extended_master_secret session_hash 48.

(* key_block = PRF(master_secret, "key expansion", server_random + client_random) *)
Definition key_block (H : hashfn) (ms client_random server_random : bytes) (n : nat) : bytes :=
  prf H ms label_key_expansion (server_random ++ client_random) n.

Record keys := {
  k_client_mac : bytes; k_server_mac : bytes;
  k_client_key : bytes; k_server_key : bytes;
  k_client_iv : bytes; k_server_iv : bytes
}.

(* "Then, the key_block is partitioned as follows:
      client_write_MAC_key[mac_key_length]  server_write_MAC_key[mac_key_length]
      client_write_key[enc_key_length]      server_write_key[enc_key_length]
      client_write_IV[fixed_iv_length]      server_write_IV[fixed_iv_length]" *)
Definition partition (mac key iv : nat) (kb : bytes) : keys :=
  let r0 := kb in
  let r1 := skipn mac r0 in
  let r2 := skipn mac r1 in
  let r3 := skipn key r2 in
  let r4 := skipn key r3 in
  let r5 := skipn iv r4 in
  {| k_client_mac := firstn mac r0; k_server_mac := firstn mac r1;
     k_client_key := firstn key r2; k_server_key := firstn key r3;
     k_client_iv := firstn iv r4; k_server_iv := firstn iv r5 |}.

Definition key_block_len (mac key iv : nat) : nat := (2 * mac + 2 * key + 2 * iv)%nat.

Definition encryption_keys (H : hashfn) (ms client_random server_random : bytes) (mac key iv : nat) : keys :=
  partition mac key iv (key_block H ms client_random server_random (key_block_len mac key iv)).

(* verify_data = PRF(master_secret, finished_label, Hash(handshake_messages))[0..11] *)
Definition verify_data (H : hashfn) (ms label handshake_messages : bytes) : bytes :=
  prf H ms label (h_fn H handshake_messages) 12.
Definition verify_data_client H ms hm := verify_data H ms label_client_finished hm.
Definition verify_data_server H ms hm := verify_data H ms label_server_finished hm.

(* RFC 5705: PRF(master_secret, label, client_random + server_random)[length]  (no context), and
   PRF(master_secret, label, client_random + server_random + context_value_length + context_value) *)
Definition exporter (H : hashfn) (ms label client_random server_random : bytes) (n : nat) : bytes :=
  prf H ms label (client_random ++ server_random) n.
Definition exporter_ctx (H : hashfn) (ms label client_random server_random ctx : bytes) (n : nat) : bytes :=
  prf H ms label (client_random ++ server_random ++ be_enc 2 (len ctx) ++ ctx) n.

(* RFC 4279: "if the PSK is N octets long, concatenate a uint16 with the value N, N zero octets,
   a second uint16 with the value N, and the PSK itself" *)
Definition psk_premaster (psk : bytes) : bytes :=
  be_enc 2 (len psk) ++ repeat 0 (length psk) ++ be_enc 2 (len psk) ++ psk.

(* RFC 5489: "concatenate a uint16 containing the length of Z (in octets), Z itself, a uint16
   containing the length of the PSK (in octets), and the PSK itself" *)
Definition ecdhe_psk_premaster (z psk : bytes) : bytes :=
  be_enc 2 (len z) ++ z ++ be_enc 2 (len psk) ++ psk.

(* RFC 8422 section 5.4: the signature covers
   ClientHello.random + ServerHello.random + ServerECDHParams, where
   ServerECDHParams = ECCurveType curve_type(named_curve = 3); NamedCurve(2); opaque point<1..2^8-1> *)
Definition server_ecdh_params (named_curve : N) (public : bytes) : bytes :=
  [3] ++ be_enc 2 named_curve ++ be_enc 1 (len public) ++ public.
Definition value_key_message (client_random server_random : bytes) (named_curve : N) (public : bytes) : bytes :=
  client_random ++ server_random ++ server_ecdh_params named_curve public.

(* hash functions by the small integer code used in the harness case files *)
Definition hash_of_code (c : N) : hashfn :=
  match c with
  | 1 => H_sha1
  | 384 => H_sha384
  | 512 => H_sha512
  | _ => H_sha256
  end.
