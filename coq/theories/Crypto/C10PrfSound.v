(* C10 - well-formedness theorems about the TLS 1.2 derivation spec of C10Prf.v:
   output lengths, the key-block partition, the label constants. *)
From Coq Require Import String Ascii.
From DtlsV Require Import Lib.Bytes Crypto.C10Sha2 Crypto.C10Hmac Crypto.C10Prf.
From Coq Require Import ZifyN ZifyNat ZifyBool.
Open Scope N_scope.

Lemma app_inj_pfx_len {A} (a a' b b' : list A) :
  length a = length a' -> a ++ b = a' ++ b' -> a = a' /\ b = b'.
Proof.
  revert a'; induction a as [|x a IH]; intros [|y a'] Hl E; cbn in Hl; try discriminate.
  - split; [reflexivity | exact E].
  - cbn [app] in E. injection E as Exy E. destruct (IH a' ltac:(lia) E) as [Ea Eb].
    subst. split; reflexivity.
Qed.

(* ---------- digest lengths ---------- *)

Lemma state_bytes_length P (s : state) : length (state_bytes P s) = (8 * sp_wbytes P)%nat.
Proof.
  destruct s as [[[[[[[a b] c] d] e] f] g] h]. unfold state_bytes.
  repeat rewrite app_length. repeat rewrite be_enc_length. lia.
Qed.

Lemma sha256_length l : length (sha256 l) = 32%nat.
Proof. unfold sha256. rewrite state_bytes_length. reflexivity. Qed.

Lemma sha512_length l : length (sha512 l) = 64%nat.
Proof. unfold sha512. rewrite state_bytes_length. reflexivity. Qed.

Lemma sha384_length l : length (sha384 l) = 48%nat.
Proof.
  unfold sha384. rewrite firstn_length, state_bytes_length. reflexivity.
Qed.

Lemma sha1_length l : length (sha1 l) = 20%nat.
Proof.
  unfold sha1. destruct (sha1_blocks _ _ _) as [[[[a b] c] d] e].
  repeat rewrite app_length. repeat rewrite be_enc_length. reflexivity.
Qed.

Definition hash_wf (H : hashfn) : Prop :=
  (0 < h_len H)%nat /\ forall x, length (h_fn H x) = h_len H.

Lemma H_sha256_wf : hash_wf H_sha256.
Proof. split; [cbn; lia | exact sha256_length]. Qed.
Lemma H_sha384_wf : hash_wf H_sha384.
Proof. split; [cbn; lia | exact sha384_length]. Qed.
Lemma H_sha512_wf : hash_wf H_sha512.
Proof. split; [cbn; lia | exact sha512_length]. Qed.
Lemma H_sha1_wf : hash_wf H_sha1.
Proof. split; [cbn; lia | exact sha1_length]. Qed.

Lemma hashes_wf : hash_wf H_sha256 /\ hash_wf H_sha384 /\ hash_wf H_sha512 /\ hash_wf H_sha1.
Proof. exact (conj H_sha256_wf (conj H_sha384_wf (conj H_sha512_wf H_sha1_wf))). Qed.

Lemma hash_of_code_wf c : hash_wf (hash_of_code c).
Proof.
  unfold hash_of_code.
  destruct c as [|p]; [exact H_sha256_wf|].
  repeat (destruct p as [p|p|]; try exact H_sha256_wf; try exact H_sha1_wf;
          try exact H_sha384_wf; try exact H_sha512_wf).
Qed.

Lemma hmac_length H key text : hash_wf H -> length (hmac H key text) = h_len H.
Proof. intros [_ Hl]. unfold hmac. apply Hl. Qed.

(* ---------- P_hash ---------- *)

Lemma p_hash_blocks_length H secret seed : hash_wf H ->
  forall k a, length (p_hash_blocks H secret seed a k) = (k * h_len H)%nat.
Proof.
  intros Hwf. induction k as [|k IH]; intro a; cbn [p_hash_blocks]; [reflexivity|].
  rewrite app_length, IH, hmac_length by exact Hwf. lia.
Qed.

Lemma p_hash_iters_enough H n : (0 < h_len H)%nat -> (n <= p_hash_iters H n * h_len H)%nat.
Proof.
  intro Hpos. unfold p_hash_iters.
  pose proof (Nat.div_mod (n + h_len H - 1) (h_len H) ltac:(lia)) as Hdm.
  pose proof (Nat.mod_upper_bound (n + h_len H - 1) (h_len H) ltac:(lia)) as Hlt.
  nia.
Qed.

(* the number of HMAC iterations is the least that suffices (nothing is computed in vain,
   and "the last bytes of the final iteration are discarded") *)
Lemma p_hash_iters_least H n : (0 < h_len H)%nat -> (0 < n)%nat ->
  ((p_hash_iters H n - 1) * h_len H < n)%nat.
Proof.
  intros Hpos Hn. unfold p_hash_iters.
  pose proof (Nat.div_mod (n + h_len H - 1) (h_len H) ltac:(lia)) as Hdm.
  pose proof (Nat.mod_upper_bound (n + h_len H - 1) (h_len H) ltac:(lia)) as Hlt.
  nia.
Qed.

Theorem phash_length H secret seed n : hash_wf H -> length (p_hash H secret seed n) = n.
Proof.
  intros Hwf. unfold p_hash. rewrite firstn_length, p_hash_blocks_length by exact Hwf.
  destruct Hwf as [Hpos _]. pose proof (p_hash_iters_enough H n Hpos). lia.
Qed.

Corollary prf_length H secret label seed n : hash_wf H -> length (prf H secret label seed n) = n.
Proof. apply phash_length. Qed.

(* P_hash is prefix-stable: asking for fewer bytes yields a prefix (RFC 5705 relies on this
   not being a problem; the key block relies on it being one stream) *)
Lemma p_hash_blocks_prefix H secret seed : forall k j a, (k <= j)%nat ->
  exists rest, p_hash_blocks H secret seed a j = p_hash_blocks H secret seed a k ++ rest.
Proof.
  induction k as [|k IH]; intros j a Hle.
  - exists (p_hash_blocks H secret seed a j). reflexivity.
  - destruct j as [|j]; [lia|]. cbn [p_hash_blocks].
    destruct (IH j (hmac H secret a) ltac:(lia)) as [rest Hr]. exists rest.
    rewrite Hr. now rewrite app_assoc.
Qed.

Theorem phash_prefix H secret seed n m : hash_wf H -> (n <= m)%nat ->
  p_hash H secret seed n = firstn n (p_hash H secret seed m).
Proof.
  intros Hwf Hle. unfold p_hash. rewrite firstn_firstn. replace (Nat.min n m) with n by lia.
  assert (Hk : (p_hash_iters H n <= p_hash_iters H m)%nat).
  { unfold p_hash_iters. apply Nat.div_le_mono; [destruct Hwf; lia | lia]. }
  destruct (p_hash_blocks_prefix H secret seed _ _ seed Hk) as [rest Hr]. rewrite Hr.
  rewrite firstn_app.
  replace (n - length (p_hash_blocks H secret seed seed (p_hash_iters H n)))%nat with 0%nat.
  - cbn [firstn]. now rewrite app_nil_r.
  - rewrite p_hash_blocks_length by exact Hwf. destruct Hwf as [Hpos _].
    pose proof (p_hash_iters_enough H n Hpos). lia.
Qed.

(* ---------- key-block partition ---------- *)

Lemma skipn_skipn' {A} (a b : nat) (l : list A) : skipn a (skipn b l) = skipn (b + a) l.
Proof.
  revert l; induction b as [|b IH]; intro l; [reflexivity|].
  destruct l as [|x l]; cbn [skipn plus]; [now rewrite skipn_nil|]. apply IH.
Qed.

Definition slice (off n : nat) (l : bytes) : bytes := firstn n (skipn off l).

Lemma slice_length off n l : (off + n <= length l)%nat -> length (slice off n l) = n.
Proof. intro Hl. unfold slice. rewrite firstn_length, skipn_length. lia. Qed.

Lemma slice_app off n m l : slice off n l ++ slice (off + n) m l = slice off (n + m) l.
Proof.
  unfold slice. rewrite <- skipn_skipn'.
  set (r := skipn off l). clearbody r. revert r.
  induction n as [|n IH]; intro r; [reflexivity|].
  destruct r as [|x r]; cbn [firstn skipn plus app].
  - now rewrite firstn_nil.
  - f_equal. apply IH.
Qed.

(* The six keys are the six consecutive, pairwise disjoint byte ranges of the key block, in the
   order of RFC 5246 section 6.3, of the requested lengths, and together they are exactly the
   first 2*(mac+key+iv) bytes.  For every mac/key/iv length and every key block long enough. *)
Theorem keyblock_partition (mac key iv : nat) (kb : bytes) :
  (key_block_len mac key iv <= length kb)%nat ->
  let p := partition mac key iv kb in
  k_client_mac p = slice 0 mac kb /\
  k_server_mac p = slice mac mac kb /\
  k_client_key p = slice (2 * mac) key kb /\
  k_server_key p = slice (2 * mac + key) key kb /\
  k_client_iv p = slice (2 * mac + 2 * key) iv kb /\
  k_server_iv p = slice (2 * mac + 2 * key + iv) iv kb /\
  length (k_client_mac p) = mac /\ length (k_server_mac p) = mac /\
  length (k_client_key p) = key /\ length (k_server_key p) = key /\
  length (k_client_iv p) = iv /\ length (k_server_iv p) = iv /\
  k_client_mac p ++ k_server_mac p ++ k_client_key p ++ k_server_key p ++
    k_client_iv p ++ k_server_iv p = firstn (key_block_len mac key iv) kb.
Proof.
  intro Hlen. unfold key_block_len in *. cbv zeta.
  assert (E1 : k_client_mac (partition mac key iv kb) = slice 0 mac kb) by reflexivity.
  assert (E2 : k_server_mac (partition mac key iv kb) = slice mac mac kb) by reflexivity.
  assert (E3 : k_client_key (partition mac key iv kb) = slice (2 * mac) key kb).
  { unfold partition, slice; cbn [k_client_key]. rewrite skipn_skipn'. f_equal. f_equal. lia. }
  assert (E4 : k_server_key (partition mac key iv kb) = slice (2 * mac + key) key kb).
  { unfold partition, slice; cbn [k_server_key]. rewrite !skipn_skipn'. f_equal. f_equal. lia. }
  assert (E5 : k_client_iv (partition mac key iv kb) = slice (2 * mac + 2 * key) iv kb).
  { unfold partition, slice; cbn [k_client_iv]. rewrite !skipn_skipn'. f_equal. f_equal. lia. }
  assert (E6 : k_server_iv (partition mac key iv kb) = slice (2 * mac + 2 * key + iv) iv kb).
  { unfold partition, slice; cbn [k_server_iv]. rewrite !skipn_skipn'. f_equal. f_equal. lia. }
  rewrite E1, E2, E3, E4, E5, E6.
  repeat split; try (apply slice_length; lia).
  assert (S1 : slice 0 mac kb ++ slice mac mac kb = slice 0 (mac + mac) kb)
    by apply (slice_app 0 mac mac kb).
  assert (S2 : slice 0 (mac + mac) kb ++ slice (2 * mac) key kb = slice 0 (mac + mac + key) kb).
  { replace (2 * mac)%nat with (0 + (mac + mac))%nat by lia. apply slice_app. }
  assert (S3 : slice 0 (mac + mac + key) kb ++ slice (2 * mac + key) key kb
               = slice 0 (mac + mac + key + key) kb).
  { replace (2 * mac + key)%nat with (0 + (mac + mac + key))%nat by lia. apply slice_app. }
  assert (S4 : slice 0 (mac + mac + key + key) kb ++ slice (2 * mac + 2 * key) iv kb
               = slice 0 (mac + mac + key + key + iv) kb).
  { replace (2 * mac + 2 * key)%nat with (0 + (mac + mac + key + key))%nat by lia. apply slice_app. }
  assert (S5 : slice 0 (mac + mac + key + key + iv) kb ++ slice (2 * mac + 2 * key + iv) iv kb
               = slice 0 (mac + mac + key + key + iv + iv) kb).
  { replace (2 * mac + 2 * key + iv)%nat with (0 + (mac + mac + key + key + iv))%nat by lia.
    apply slice_app. }
  rewrite app_assoc, S1, app_assoc, S2, app_assoc, S3, app_assoc, S4, S5.
  unfold slice. cbn [skipn]. f_equal. lia.
Qed.

(* applied to the PRF output: the keys partition exactly the whole expansion *)
Corollary encryption_keys_partition H ms cr sr mac key iv : hash_wf H ->
  let p := encryption_keys H ms cr sr mac key iv in
  k_client_mac p ++ k_server_mac p ++ k_client_key p ++ k_server_key p ++
    k_client_iv p ++ k_server_iv p = key_block H ms cr sr (key_block_len mac key iv) /\
  length (k_client_mac p) = mac /\ length (k_server_mac p) = mac /\
  length (k_client_key p) = key /\ length (k_server_key p) = key /\
  length (k_client_iv p) = iv /\ length (k_server_iv p) = iv.
Proof.
  intros Hwf. cbv zeta. unfold encryption_keys.
  set (kb := key_block H ms cr sr (key_block_len mac key iv)).
  assert (Hl : length kb = key_block_len mac key iv) by (apply prf_length; exact Hwf).
  pose proof (keyblock_partition mac key iv kb ltac:(lia)) as Hp. cbv zeta in Hp.
  destruct Hp as (_ & _ & _ & _ & _ & _ & L1 & L2 & L3 & L4 & L5 & L6 & Hcat).
  rewrite Hcat. rewrite <- Hl at 1. rewrite firstn_all. repeat split; assumption.
Qed.

(* ---------- label constants are the RFC's ASCII strings ---------- *)

Theorem tls12_labels :
  label_master_secret = [109;97;115;116;101;114;32;115;101;99;114;101;116] /\
  label_extended_master_secret =
    [101;120;116;101;110;100;101;100;32;109;97;115;116;101;114;32;115;101;99;114;101;116] /\
  label_key_expansion = [107;101;121;32;101;120;112;97;110;115;105;111;110] /\
  label_client_finished = [99;108;105;101;110;116;32;102;105;110;105;115;104;101;100] /\
  label_server_finished = [115;101;114;118;101;114;32;102;105;110;105;115;104;101;100].
Proof. repeat split; reflexivity. Qed.

(* ---------- premaster layouts ---------- *)

Lemma firstn_len_app {A} (a b : list A) : firstn (length a) (a ++ b) = a.
Proof. rewrite firstn_app, Nat.sub_diag, firstn_all. cbn [firstn]. apply app_nil_r. Qed.
Lemma skipn_len_app {A} (a b : list A) : skipn (length a) (a ++ b) = b.
Proof. rewrite skipn_app, Nat.sub_diag, skipn_all. reflexivity. Qed.

Theorem psk_premaster_layout psk :
  length (psk_premaster psk) = (4 + 2 * length psk)%nat /\
  firstn 2 (psk_premaster psk) = be_enc 2 (len psk) /\
  slice 2 (length psk) (psk_premaster psk) = repeat 0 (length psk) /\
  slice (2 + length psk) 2 (psk_premaster psk) = be_enc 2 (len psk) /\
  skipn (4 + length psk) (psk_premaster psk) = psk.
Proof.
  unfold psk_premaster, slice.
  set (L := be_enc 2 (len psk)).
  assert (HL : length L = 2%nat) by apply be_enc_length.
  set (Z := repeat 0 (length psk)).
  assert (HZ : length Z = length psk) by apply repeat_length.
  split; [|split; [|split; [|split]]].
  - repeat rewrite app_length. lia.
  - rewrite <- HL. apply firstn_len_app.
  - rewrite <- HL, skipn_len_app, <- HZ. apply firstn_len_app.
  - replace (2 + length psk)%nat with (length (L ++ Z)) by (rewrite app_length; lia).
    rewrite (app_assoc L Z), skipn_len_app. rewrite <- HL. apply firstn_len_app.
  - replace (4 + length psk)%nat with (length (L ++ Z ++ L)) by (repeat rewrite app_length; lia).
    replace (L ++ Z ++ L ++ psk) with ((L ++ Z ++ L) ++ psk) by (repeat rewrite <- app_assoc; reflexivity).
    apply skipn_len_app.
Qed.

(* the ECDHE_PSK premaster determines (Z, psk) when |Z| < 2^16 *)
Theorem ecdhe_psk_premaster_injective z psk z' psk' :
  len z < 65536 -> len z' < 65536 ->
  ecdhe_psk_premaster z psk = ecdhe_psk_premaster z' psk' -> z = z' /\ psk = psk'.
Proof.
  intros Hz Hz' E. unfold ecdhe_psk_premaster in E.
  assert (E1 : be_enc 2 (len z) = be_enc 2 (len z') /\ z ++ be_enc 2 (len psk) ++ psk = z' ++ be_enc 2 (len psk') ++ psk').
  { apply app_inj_pfx_len; [now rewrite !be_enc_length | exact E]. }
  destruct E1 as [El Er].
  assert (Hlen : len z = len z').
  { rewrite <- (be_dec_enc 2 (len z)) by (cbn; lia). rewrite <- (be_dec_enc 2 (len z')) by (cbn; lia).
    now rewrite El. }
  assert (Hll : length z = length z') by (unfold len in Hlen; lia).
  apply app_inj_pfx_len in Er; [|exact Hll]. destruct Er as [Ez Er]. split; [exact Ez|].
  apply app_inj_pfx_len in Er; [|now rewrite !be_enc_length]. tauto.
Qed.
