(* C10 - whole DTLS 1.2 records computed entirely by the model for the protection modes whose
   primitive is modelled too (AES-CCM: pion's own mode implementation; AES-CBC with HMAC):
   header || explicit nonce / IV || protected fragment.  Definitions only. *)
From DtlsV Require Import Lib.Bytes Crypto.C10Sha2 Crypto.C10Hmac Crypto.C10Layout Crypto.C10Aes.
Open Scope N_scope.

Definition hdr_cid_of (typ : N) (cid : bytes) : bytes := if typ =? ct_tls12_cid then cid else [].

(* RFC 6655 section 3: AEAD record = explicit nonce || CCM(key, salt||explicit, plaintext, additional_data) *)
Definition record12_ccm (key write_iv cid payload : bytes) (e s t v tag : N) : bytes :=
  header12 t v e s (hdr_cid_of t cid) (aes_aead_record_len (len payload) tag) ++
  nonce_explicit e s ++
  ccm_seal key tag (nonce_aes write_iv e s) payload (aad12_for e s t v cid (len payload)).

(* RFC 5246 6.2.3.2: GenericBlockCipher = IV || E(content || MAC || padding || padding_length) *)
Definition record12_cbc_with (mac : bytes) (enc_key iv cid payload : bytes) (e s t v : N) : bytes :=
  header12 t v e s (hdr_cid_of t cid) (cbc_record_len 16 payload mac) ++
  iv ++ aes_cbc_encrypt enc_key iv (cbc_plaintext 16 payload mac).

Definition record12_cbc (H : hashfn) (enc_key mac_key iv payload : bytes) (e s t v : N) : bytes :=
  record12_cbc_with (cbc_mac H mac_key e s t v payload) enc_key iv [] payload e s t v.

(* connection ID, RFC 9146 section 5.1 MAC *)
Definition record12_cbc_cid (H : hashfn) (enc_key mac_key iv cid inner : bytes) (e s v : N) : bytes :=
  record12_cbc_with (cbc_mac_cid H mac_key e s v cid inner) enc_key iv cid inner e s ct_tls12_cid v.

(* ---------------- a passive decoder keyed from the key log ----------------
   Given only (master secret, client random, server random) - what KeyLogWriter and the hello
   messages reveal - the suite id, the sender's role, the record header fields, the plaintext and
   (for CBC) the explicit IV read off the wire, recompute the whole protected record.  Defined for
   the suites whose primitive is modelled (AES-CCM, AES-CBC). *)
From DtlsV Require Import Crypto.C10Prf Crypto.C10Suites.

Definition live_record12 (id : N) (is_client : bool)
    (ms cr sr cid payload explicit_iv : bytes) (e s t v : N) : option (list bytes) :=
  match suite12 id with
  | None => None
  | Some p =>
    let H := hash_of_code (s_prf p) in
    let k := encryption_keys H ms cr sr (s_mac p) (s_key p) (s_iv p) in
    let wk := write_key is_client k in
    match s_kind p with
    | CK_CCM tag => Some [record12_ccm wk (write_iv is_client k) cid payload e s t v tag]
    | CK_CBC mh =>
        let wm := write_mac is_client k in
        let HM := hash_of_code mh in
        let mac := if t =? ct_tls12_cid then cbc_mac_cid HM wm e s v cid payload
                   else cbc_mac HM wm e s t v payload in
        Some [record12_cbc_with mac wk explicit_iv cid payload e s t v]
    | _ => None
    end
  end.

(* ---------------- receive direction: records a conforming PEER may send ----------------
   Built from the key block with the peer's write keys; for AES-GCM/CCM the explicit nonce is a
   free 8-byte value carried in the record (RFC 5288 section 3 / RFC 6655 section 3), for CBC any
   padding length 0..255 is allowed, the inner plaintext of connection-ID / DTLS 1.3 records may
   carry zero padding.  The last two outputs are what the receiver must produce: accepted (1) and
   the plaintext. *)
Definition record12_ccm_rx (key write_iv cid payload explicit : bytes) (e s t v tag : N) : bytes :=
  header12 t v e s (hdr_cid_of t cid) (aes_aead_record_len (len payload) tag) ++ explicit ++
  ccm_seal key tag (nonce_aes_rx write_iv explicit) payload (aad12_for e s t v cid (len payload)).

Definition record12_cbc_rx (mac enc_key iv cid payload : bytes) (padlen e s t v : N) : bytes :=
  let pt := cbc_plaintext_pad payload mac padlen in
  header12 t v e s (hdr_cid_of t cid) (16 + len pt) ++ iv ++ aes_cbc_encrypt enc_key iv pt.

Definition receive12 (id : N) (receiver_is_client : bool) (ms cr sr cid payload explicit : bytes)
    (padlen e s t v : N) : option (list bytes) :=
  match suite12 id with
  | None => None
  | Some p =>
    let H := hash_of_code (s_prf p) in
    let k := encryption_keys H ms cr sr (s_mac p) (s_key p) (s_iv p) in
    let peer := negb receiver_is_client in
    let pk := write_key peer k in
    let piv := write_iv peer k in
    let pl := len payload in
    let hc := hdr_cid_of t cid in
    let verdict := [[1]; payload] in
    match s_kind p with
    | CK_GCM =>
        Some ([pk; piv; nonce_aes_rx piv explicit; aad12_for e s t v cid pl;
               header12 t v e s hc (aes_aead_record_len pl 16)] ++ verdict)
    | CK_CCM tag => Some ([pk; piv; record12_ccm_rx pk piv cid payload explicit e s t v tag] ++ verdict)
    | CK_CHACHA =>
        Some ([pk; piv; nonce_chacha piv e s; aad12_for e s t v cid pl;
               header12 t v e s hc (chacha_record_len pl)] ++ verdict)
    | CK_CBC mh =>
        let pm := write_mac peer k in
        let HM := hash_of_code mh in
        let mac := if t =? ct_tls12_cid then cbc_mac_cid HM pm e s v cid payload
                   else cbc_mac HM pm e s t v payload in
        Some ([pm; pk; record12_cbc_rx mac pk explicit cid payload padlen e s t v] ++ verdict)
    end
  end.

From DtlsV Require Import Crypto.C10Hkdf.

Definition receive13 (id : N) (secret cid plaintext mask : bytes) (seq_bit len_bit : bool)
    (epoch_low seq64 ctype tag_len zeros : N) : option (list bytes) :=
  match suite13 id with
  | None => None
  | Some (hc, kl) =>
    let H := hash_of_code hc in
    let iv := traffic_iv H secret in
    let inner := inner_plaintext plaintext ctype zeros in
    let ctlen := len inner + tag_len in
    Some [traffic_key H secret kl; iv; traffic_sn_key H secret kl;
          nonce13 iv seq64; aad13_gen cid seq_bit len_bit epoch_low seq64 ctlen; inner;
          header13_masked_gen cid seq_bit len_bit epoch_low seq64 ctlen mask; [1]; plaintext]
  end.
