(* C10 - whole DTLS 1.2 records computed entirely by the model for the protection modes whose
   primitive is modelled too (AES-CCM: pion's own mode implementation; AES-CBC with HMAC):
   header || explicit nonce / IV || protected fragment.  Definitions only. *)
From DtlsV Require Import Lib.Bytes Crypto.C10Sha2 Crypto.C10Hmac Crypto.C10Layout Crypto.C10Aes.
Open Scope N_scope.

Definition hdr_cid_of (typ : N) (cid : bytes) : bytes := if typ =? ct_tls12_cid then cid else [].

(* RFC 6655 section 3: AEAD record = explicit nonce || CCM(key, salt||explicit, plaintext, additional_data) *)
Definition record12_ccm (key write_iv cid payload : bytes) (e s t v tag : N) : bytes :=
  header12 t v e s (hdr_cid_of t cid) (aes_aead_record_len (len payload) tag) ++
  nonce_explicit e s ++
  ccm_seal key tag (nonce_aes write_iv e s) payload (aad12_for e s t v cid (len payload)).

(* RFC 5246 6.2.3.2: GenericBlockCipher = IV || E(content || MAC || padding || padding_length) *)
Definition record12_cbc_with (mac : bytes) (enc_key iv cid payload : bytes) (e s t v : N) : bytes :=
  header12 t v e s (hdr_cid_of t cid) (cbc_record_len 16 payload mac) ++
  iv ++ aes_cbc_encrypt enc_key iv (cbc_plaintext 16 payload mac).

Definition record12_cbc (H : hashfn) (enc_key mac_key iv payload : bytes) (e s t v : N) : bytes :=
  record12_cbc_with (cbc_mac H mac_key e s t v payload) enc_key iv [] payload e s t v.

(* connection ID, RFC 9146 section 5.1 MAC *)
Definition record12_cbc_cid (H : hashfn) (enc_key mac_key iv cid inner : bytes) (e s v : N) : bytes :=
  record12_cbc_with (cbc_mac_cid H mac_key e s v cid inner) enc_key iv cid inner e s ct_tls12_cid v.

(* connection ID, MAC input as /repo computes it (F8) *)
Definition record12_cbc_cid_as_coded (H : hashfn) (enc_key mac_key iv cid inner : bytes) (e s v : N) : bytes :=
  record12_cbc_with (cbc_mac_cid_as_coded H mac_key e s v cid inner) enc_key iv cid inner e s ct_tls12_cid v.
