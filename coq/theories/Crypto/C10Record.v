(* C10 - whole DTLS 1.2 records computed entirely by the model for the protection modes whose
   primitive is modelled too (AES-CCM: pion's own mode implementation; AES-CBC with HMAC):
   header || explicit nonce / IV || protected fragment.  Definitions only. *)
From DtlsV Require Import Lib.Bytes Crypto.C10Sha2 Crypto.C10Hmac Crypto.C10Layout Crypto.C10Aes.
Open Scope N_scope.

Definition hdr_cid_of (typ : N) (cid : bytes) : bytes := if typ =? ct_tls12_cid then cid else [].

(* RFC 6655 section 3: AEAD record = explicit nonce || CCM(key, salt||explicit, plaintext, additional_data) *)
Definition record12_ccm (key write_iv cid payload : bytes) (e s t v tag : N) : bytes :=
  header12 t v e s (hdr_cid_of t cid) (aes_aead_record_len (len payload) tag) ++
  nonce_explicit e s ++
  ccm_seal key tag (nonce_aes write_iv e s) payload (aad12_for e s t v cid (len payload)).

(* RFC 5246 6.2.3.2: GenericBlockCipher = IV || E(content || MAC || padding || padding_length) *)
Definition record12_cbc_with (mac : bytes) (enc_key iv cid payload : bytes) (e s t v : N) : bytes :=
  header12 t v e s (hdr_cid_of t cid) (cbc_record_len 16 payload mac) ++
  iv ++ aes_cbc_encrypt enc_key iv (cbc_plaintext 16 payload mac).

Definition record12_cbc (H : hashfn) (enc_key mac_key iv payload : bytes) (e s t v : N) : bytes :=
  record12_cbc_with (cbc_mac H mac_key e s t v payload) enc_key iv [] payload e s t v.

(* connection ID, RFC 9146 section 5.1 MAC *)
Definition record12_cbc_cid (H : hashfn) (enc_key mac_key iv cid inner : bytes) (e s v : N) : bytes :=
  record12_cbc_with (cbc_mac_cid H mac_key e s v cid inner) enc_key iv cid inner e s ct_tls12_cid v.

(* ---------------- a passive decoder keyed from the key log ----------------
   Given only (master secret, client random, server random) - what KeyLogWriter and the hello
   messages reveal - the suite id, the sender's role, the record header fields, the plaintext and
   (for CBC) the explicit IV read off the wire, recompute the whole protected record.  Defined for
   the suites whose primitive is modelled (AES-CCM, AES-CBC). *)
From DtlsV Require Import Crypto.C10Prf Crypto.C10Suites.

Definition live_record12 (id : N) (is_client : bool)
    (ms cr sr cid payload explicit_iv : bytes) (e s t v : N) : option (list bytes) :=
  match suite12 id with
  | None => None
  | Some p =>
    let H := hash_of_code (s_prf p) in
    let k := encryption_keys H ms cr sr (s_mac p) (s_key p) (s_iv p) in
    let wk := write_key is_client k in
    match s_kind p with
    | CK_CCM tag => Some [record12_ccm wk (write_iv is_client k) cid payload e s t v tag]
    | CK_CBC mh =>
        let wm := write_mac is_client k in
        let HM := hash_of_code mh in
        let mac := if t =? ct_tls12_cid then cbc_mac_cid HM wm e s v cid payload
                   else cbc_mac HM wm e s t v payload in
        Some [record12_cbc_with mac wk explicit_iv cid payload e s t v]
    | _ => None
    end
  end.
