(* C10 - executable comparison functions for the correspondence check: every harness observation
   is a generic case (function code, hash code, byte-string inputs, numeric inputs, observed
   byte-string outputs); [case_ok] recomputes the outputs with the independent model and compares
   byte for byte.  Evaluated with vm_compute on the cases emitted by the Go harnesses. *)
From DtlsV Require Import Lib.Bytes Crypto.C10Sha2 Crypto.C10Hmac Crypto.C10Prf Crypto.C10Layout
  Crypto.C10Hkdf.
Open Scope N_scope.

Definition c10_case := (N * N * list bytes * list N * list bytes)%type.

Fixpoint lbytes_eqb (a b : list bytes) : bool :=
  match a, b with
  | [], [] => true
  | x :: a', y :: b' => bytes_eqb x y && lbytes_eqb a' b'
  | _, _ => false
  end.

Definition nn (n : N) : nat := N.to_nat n.

Definition keys_list (k : keys) : list bytes :=
  [k_client_mac k; k_server_mac k; k_client_key k; k_server_key k; k_client_iv k; k_server_iv k].

(* function codes 1..19: TLS 1.2 derivation (C10Prf) *)
Definition expected_prf (fn : N) (H : hashfn) (ins : list bytes) (ns : list N) : option (list bytes) :=
  match fn, ins, ns with
  | 1, [secret; seed], [n] => Some [p_hash H secret seed (nn n)]
  | 2, [pms; cr; sr], [] => Some [master_secret H pms cr sr]
  | 3, [pms; sh], [] => Some [extended_master_secret H pms sh]
  | 4, [ms; cr; sr], [mac; key; iv] => Some (keys_list (encryption_keys H ms cr sr (nn mac) (nn key) (nn iv)))
  | 5, [ms; hm], [] => Some [verify_data_client H ms hm]
  | 6, [ms; hm], [] => Some [verify_data_server H ms hm]
  | 7, [psk], [] => Some [psk_premaster psk]
  | 8, [z; psk], [] => Some [ecdhe_psk_premaster z psk]
  | 9, [ms; label; cr; sr], [n] => Some [exporter H ms label cr sr (nn n)]
  | 10, [cr; sr; pub], [curve] => Some [value_key_message cr sr curve pub]
  | 11, [key; text], [] => Some [hmac H key text]
  | 12, [text], [] => Some [h_fn H text]
  | _, _, _ => None
  end.

(* the connection ID is part of the header only for tls12_cid records *)
Definition hdr_cid (typ : N) (cid : bytes) : bytes := if typ =? ct_tls12_cid then cid else [].

(* function codes 20..39: record protection layouts (C10Layout) *)
Definition expected_layout (fn : N) (H : hashfn) (ins : list bytes) (ns : list N) : option (list bytes) :=
  match fn, ins, ns with
  | 20, [], [e; s; t; v; l] => Some [aad12 e s t v l]
  | 21, [cid], [e; s; v; l] => Some [aad12_cid e s v cid l]
  | 22, [iv; cid], [e; s; t; v; pl; tag] =>
      Some [nonce_aes iv e s; aad12_for e s t v cid pl;
            header12 t v e s (hdr_cid t cid) (aes_aead_record_len pl tag); nonce_explicit e s]
  | 23, [iv; cid], [e; s; t; v; pl] =>
      Some [nonce_chacha iv e s; aad12_for e s t v cid pl;
            header12 t v e s (hdr_cid t cid) (chacha_record_len pl)]
  | 24, [key; payload; _], [e; s; t; v] =>
      let mac := cbc_mac H key e s t v payload in
      Some [cbc_plaintext 16 payload mac; header12 t v e s [] (cbc_record_len 16 payload mac)]
  | 25, [key; payload], [e; s; t; v] => Some [cbc_mac H key e s t v payload]
  | 26, [key; inner; cid], [e; s; v] => Some [cbc_mac_cid H key e s v cid inner]
  | 27, [key; inner; cid], [e; s; v] => Some [cbc_mac_cid_as_coded H key e s v cid inner]
  | 28, [key; inner; cid], [e; s; v] =>
      let mac := cbc_mac_cid H key e s v cid inner in
      Some [cbc_plaintext 16 inner mac; header12 ct_tls12_cid v e s cid (cbc_record_len 16 inner mac)]
  | 29, [key; inner; cid], [e; s; v] =>
      let mac := cbc_mac_cid_as_coded H key e s v cid inner in
      Some [cbc_plaintext 16 inner mac; header12 ct_tls12_cid v e s cid (cbc_record_len 16 inner mac)]
  | 30, [key; inner; cid], [e; s; v] =>
      Some [cbc_mac_input_cid e s v cid inner;
            cbc_plaintext 16 inner (cbc_mac_cid H key e s v cid inner); [1]]
  | _, _, _ => None
  end.

Definition expected (c : c10_case) : option (list bytes) :=
  let '(fn, h, ins, ns, _) := c in
  if fn <? 20 then expected_prf fn (hash_of_code h) ins ns
  else expected_layout fn (hash_of_code h) ins ns.

Definition case_ok (c : c10_case) : bool :=
  let '(_, _, _, _, obs) := c in
  match expected c with
  | Some e => lbytes_eqb e obs
  | None => false
  end.

Fixpoint mismatches_from {A} (ok : A -> bool) (i : N) (l : list A) : list N :=
  match l with
  | [] => []
  | c :: l' => if ok c then mismatches_from ok (i + 1) l' else i :: mismatches_from ok (i + 1) l'
  end.
Definition mismatches {A} (ok : A -> bool) (l : list A) : list N := mismatches_from ok 0 l.
