(* C10 - executable comparison functions for the correspondence check: every harness observation
   is a generic case (function code, hash code, byte-string inputs, numeric inputs, observed
   byte-string outputs); [case_ok] recomputes the outputs with the independent model and compares
   byte for byte.  Evaluated with vm_compute on the cases emitted by the Go harnesses. *)
From DtlsV Require Import Lib.Bytes Crypto.C10Sha2 Crypto.C10Hmac Crypto.C10Prf Crypto.C10Layout
  Crypto.C10Hkdf Crypto.C10Suites Crypto.C10Aes Crypto.C10Record Crypto.C10Transcript.
Open Scope N_scope.

Definition c10_case := (N * N * list bytes * list N * list bytes)%type.

Fixpoint lbytes_eqb (a b : list bytes) : bool :=
  match a, b with
  | [], [] => true
  | x :: a', y :: b' => bytes_eqb x y && lbytes_eqb a' b'
  | _, _ => false
  end.

Definition nn (n : N) : nat := N.to_nat n.
Definition nb (n : N) : bool := negb (n =? 0).

Definition keys_list (k : keys) : list bytes :=
  [k_client_mac k; k_server_mac k; k_client_key k; k_server_key k; k_client_iv k; k_server_iv k].

(* live handshakes: the reassembled message bodies in wire order with (msg_type, message_seq) per body *)
Fixpoint wire_msgs (bodies : list bytes) (ns : list N) : option (list wire_msg) :=
  match bodies, ns with
  | [], [] => Some []
  | b :: bs, t :: s :: ns' => option_map (cons (t, s, b)) (wire_msgs bs ns')
  | _, _ => None
  end.

(* function code 19: PSK premaster secrets of keys too long to be written out in a case file. The key is
   head ++ fill^(n - |head| - |tail|) ++ tail; the premaster secret is compared through its length, its
   first 6 bytes, the 12 bytes from offset n-2 (end of the zero block, second length field, start of the
   key), its last 6 bytes, the sum of all bytes and (on request) its hash *)
Definition lastn (k : nat) (l : bytes) : bytes := skipn (length l - k) l.
Definition long_key (head tail : bytes) (n : nat) (fill : N) : bytes :=
  head ++ repeat fill (n - length head - length tail) ++ tail.
Definition premaster_digest (H : hashfn) (with_hash : bool) (n : nat) (pm : bytes) : list bytes :=
  [be_enc 4 (len pm); firstn 6 pm; firstn 12 (skipn (n - 2) pm); lastn 6 pm; be_enc 8 (fold_left N.add pm 0)]
  ++ (if with_hash then [h_fn H pm] else []).

(* function codes 1..19: TLS 1.2 derivation (C10Prf); 13..18 on the wire-order transcript of a live
   handshake (C10Transcript) *)
Definition expected_prf (fn : N) (H : hashfn) (ins : list bytes) (ns : list N) : option (list bytes) :=
  match fn, ins, ns with
  | 1, [secret; seed], [n] => Some [p_hash H secret seed (nn n)]
  | 2, [pms; cr; sr], [] => Some [master_secret H pms cr sr]
  | 3, [pms; sh], [] => Some [extended_master_secret H pms sh]
  | 4, [ms; cr; sr], [mac; key; iv] => Some (keys_list (encryption_keys H ms cr sr (nn mac) (nn key) (nn iv)))
  | 5, [ms; hm], [] => Some [verify_data_client H ms hm]
  | 6, [ms; hm], [] => Some [verify_data_server H ms hm]
  | 7, [psk], [] => Some [psk_premaster psk]
  | 8, [z; psk], [] => Some [ecdhe_psk_premaster z psk]
  | 9, [ms; label; cr; sr], [n] => Some [exporter H ms label cr sr (nn n)]
  | 10, [cr; sr; pub], [curve] => Some [value_key_message cr sr curve pub]
  | 11, [key; text], [] => Some [hmac H key text]
  | 12, [text], [] => Some [h_fn H text]
  | 13, ms :: bodies, _ => option_map (fun w => [finished_client H ms w]) (wire_msgs bodies ns)
  | 14, ms :: bodies, _ => option_map (fun w => [finished_server H ms w]) (wire_msgs bodies ns)
  | 15, bodies, _ => option_map (fun w => [certificate_verify_input12 w]) (wire_msgs bodies ns)
  | 16, [hint; pub], [curve] => Some [ecdhe_psk_server_key_exchange hint curve pub]
  | 16, [hint], [] => Some [psk_server_key_exchange hint]
  | 18, [wcr; lcr; lsec; sec], [] => Some [[if keylog_line_usable wcr lcr lsec sec then 1 else 0]]
  | 19, [head; tail], [n; fill; wh] =>
      let psk := long_key head tail (nn n) fill in
      Some (premaster_digest H (nb wh) (length psk) (psk_premaster psk))
  | 17, pms :: bodies, _ => option_map (fun w => [extended_master_secret_wire H pms w]) (wire_msgs bodies ns)
  | _, _, _ => None
  end.

(* the connection ID is part of the header only for tls12_cid records *)
Definition hdr_cid (typ : N) (cid : bytes) : bytes := if typ =? ct_tls12_cid then cid else [].

(* function codes 20..39: record protection layouts (C10Layout) *)
Definition expected_layout (fn : N) (H : hashfn) (ins : list bytes) (ns : list N) : option (list bytes) :=
  match fn, ins, ns with
  | 20, [], [e; s; t; v; l] => Some [aad12 e s t v l]
  | 21, [cid], [e; s; v; l] => Some [aad12_cid e s v cid l]
  | 22, [iv; cid], [e; s; t; v; pl; tag] =>
      Some [nonce_aes iv e s; aad12_for e s t v cid pl;
            header12 t v e s (hdr_cid t cid) (aes_aead_record_len pl tag); nonce_explicit e s]
  | 23, [iv; cid], [e; s; t; v; pl] =>
      Some [nonce_chacha iv e s; aad12_for e s t v cid pl;
            header12 t v e s (hdr_cid t cid) (chacha_record_len pl)]
  | 24, [key; payload; _], [e; s; t; v] =>
      let mac := cbc_mac H key e s t v payload in
      Some [cbc_plaintext 16 payload mac; header12 t v e s [] (cbc_record_len 16 payload mac)]
  | 25, [key; payload], [e; s; t; v] => Some [cbc_mac H key e s t v payload]
  | 26, [key; inner; cid], [e; s; v] => Some [cbc_mac_cid H key e s v cid inner]
  | 28, [key; inner; cid], [e; s; v] =>
      let mac := cbc_mac_cid H key e s v cid inner in
      Some [cbc_plaintext 16 inner mac; header12 ct_tls12_cid v e s cid (cbc_record_len 16 inner mac)]
  | 31, [key; nonce; msg; adata], [M] => Some [ccm_seal key M nonce msg adata]
  | 32, [key; iv; cid; payload], [e; s; t; v; tag] => Some [record12_ccm key iv cid payload e s t v tag]
  | 33, [ek; mk; iv; payload], [e; s; t; v] => Some [record12_cbc H ek mk iv payload e s t v]
  | 34, [ek; mk; iv; cid; inner], [e; s; v] => Some [record12_cbc_cid H ek mk iv cid inner e s v]
  | 35, [key; blk], [] => Some [aes_encrypt key blk]
  | 30, [key; inner; cid], [e; s; v] =>
      Some [cbc_mac_input_cid e s v cid inner;
            cbc_plaintext 16 inner (cbc_mac_cid H key e s v cid inner); [1]]
  | _, _, _ => None
  end.


(* function codes 40..69: HKDF and the DTLS 1.3 schedule / record protection (C10Hkdf, C10Layout) *)
Definition expected_13 (fn : N) (H : hashfn) (ins : list bytes) (ns : list N) : option (list bytes) :=
  match fn, ins, ns with
  | 40, [salt; ikm], [] => Some [hkdf_extract H salt ikm]
  | 41, [secret; label; ctx], [L] => Some [hkdf_expand_label H secret label ctx (nn L)]
  | 42, [secret; label; msgs], [] => Some [derive_secret H secret label msgs]
  | 43, [ecdhe; th], [] =>
      let hs := handshake_secret H ecdhe in
      Some [client_hs_traffic H hs th; server_hs_traffic H hs th; master_secret13 H hs]
  | 44, [ms; th], [] => Some [client_ap_traffic H ms th; server_ap_traffic H ms th]
  | 45, [ms; th], [] => Some [exporter_master H ms th]
  | 46, [ms; th], [] => Some [resumption_master H ms th]
  | 47, [cur], [] => Some [next_traffic_secret H cur]
  | 48, [base; th], [] => Some [finished_verify_data H base th]
  | 49, [th], [is_client] => Some [certificate_verify_input (nb is_client) th]
  | 50, [secret], [kl] => Some [traffic_key H secret (nn kl); traffic_iv H secret; traffic_sn_key H secret (nn kl)]
  | 51, [iv], [seq] => Some [nonce13 iv seq]
  | 52, [mask], [sb; wire] => Some [be_enc 2 (sn_mask_apply (nb sb) wire mask)]
  | 53, [secret; cid; plaintext; mask], [id; el; seq; ct; tag] => protect13 id secret cid plaintext mask el seq ct tag
  | 54, [ecdhe], [] => Some [handshake_secret H ecdhe]
  | 55, [hs], [] => Some [master_secret13 H hs]
  | 56, [base], [] => Some [finished_key H base]
  (* 57/58: key-update chain. 57: secret / key / iv / sn of generation g from application_traffic_secret_0
     (in = the key-logged secret 0, n = suite, g); 58: the secret of generation g alone *)
  | 57, [secret0], [id; g] =>
      match suite13 id with
      | Some (hc, kl) => Some (generation_keys (hash_of_code hc) secret0 (nn g) kl)
      | None => None
      end
  | 58, [secret0], [g] => Some [traffic_secret_n H secret0 (nn g)]
  | 61, [exp_master; label], [L] => Some [exporter13 H exp_master label [] (nn L)]
  | 64, [], [group] => option_map (fun s => [be_enc 2 s]) (ecdsa_scheme13 group)
  | 63, [label; cr; sr], [L] => Some [p_hash H [] (label ++ cr ++ sr) (nn L)]
  | _, _, _ => None
  end.

(* function codes 70..79: whole-suite record protection (C10Suites) *)
Definition expected_suite (fn : N) (ins : list bytes) (ns : list N) : option (list bytes) :=
  match fn, ins, ns with
  | 70, [ms; cr; sr; cid; payload], [id; cl; e; s; t; v] => protect12 id (nb cl) ms cr sr cid payload e s t v
  | 71, [ms; cr; sr; cid; payload], [id; cl; e; s; t; v] => protect12 id (nb cl) ms cr sr cid payload e s t v
  | 73, [ms; cr; sr; cid; payload; eiv], [id; cl; e; s; t; v] => live_record12 id (nb cl) ms cr sr cid payload eiv e s t v
  (* 80..82: receive direction (records a conforming peer may send, fed to the real Decrypt/Open) *)
  | 80, [ms; cr; sr; cid; payload; explicit], [id; cl; e; s; t; v; padlen] =>
      receive12 id (nb cl) ms cr sr cid payload explicit padlen e s t v
  | 81, [secret; cid; plaintext; mask], [id; el; seq; ct; tag; sb; lb; zeros] =>
      receive13 id secret cid plaintext mask (nb sb) (nb lb) el seq ct tag zeros
  | 82, _, _ => Some [[0]]   (* negative control: a record with one bit changed must be rejected *)
  | _, _, _ => None
  end.

Definition expected (c : c10_case) : option (list bytes) :=
  let '(fn, h, ins, ns, _) := c in
  if fn <? 20 then expected_prf fn (hash_of_code h) ins ns
  else if fn <? 40 then expected_layout fn (hash_of_code h) ins ns
  else if fn <? 70 then expected_13 fn (hash_of_code h) ins ns
  else expected_suite fn ins ns.

(* function code 63 is a negative monitor: the observed DTLS 1.3 exporter output must NOT be the
   value anyone can compute from the hello randoms (TLS 1.2 P_hash keyed with the empty secret);
   every other code demands equality with the model *)
Definition case_ok (c : c10_case) : bool :=
  let '(fn, _, _, _, obs) := c in
  match expected c with
  | Some e => if fn =? 63 then negb (lbytes_eqb e obs) else lbytes_eqb e obs
  | None => false
  end.

Fixpoint mismatches_from {A} (ok : A -> bool) (i : N) (l : list A) : list N :=
  match l with
  | [] => []
  | c :: l' => if ok c then mismatches_from ok (i + 1) l' else i :: mismatches_from ok (i + 1) l'
  end.
Definition mismatches {A} (ok : A -> bool) (l : list A) : list N := mismatches_from ok 0 l.
