(* C10 - SHA-2 (FIPS 180-4) over byte strings [list N], written from the standard's text.
   Words are [N] with explicit reduction mod 2^32 / 2^64 (N.land with the all-ones mask).
   The round constants are the fractional parts of the cube roots of the first 64/80 primes and the
   initial values those of the square roots (computed from that definition, pinned by the
   known-answer tests below).  SHA-1 (needed for the HMAC-SHA1 record MAC of the CBC_SHA suites)
   is in the same file. *)
From DtlsV Require Import Lib.Bytes.
Open Scope N_scope.

Record sha2_params := {
  sp_mask : N;                 (* 2^w - 1 *)
  sp_w : N;                    (* word size in bits *)
  sp_wbytes : nat;             (* word size in bytes *)
  sp_K : list N;               (* round constants (64 or 80) *)
  sp_S0 : N * N * N;           (* Sigma0: three right-rotations *)
  sp_S1 : N * N * N;           (* Sigma1 *)
  sp_s0 : N * N * N;           (* sigma0: rotr, rotr, shr *)
  sp_s1 : N * N * N            (* sigma1 *)
}.

Section Engine.
  Variable P : sha2_params.

  (* ROTR^n(x) = (x >> n) | (x << w-n) on w-bit words.  Computed on the doubled word
     x||x = (x << w) | x: its bits n .. n+w-1 are exactly ROTR^n(x). *)
  Definition dbl (x : N) : N := N.lor (N.shiftl x (sp_w P)) x.
  Definition rotr (n x : N) : N := N.land (N.shiftr (dbl x) n) (sp_mask P).
  Definition bigsig (r : N * N * N) (x : N) : N :=
    let '(a, b, c) := r in
    let y := dbl x in
    N.land (N.lxor (N.lxor (N.shiftr y a) (N.shiftr y b)) (N.shiftr y c)) (sp_mask P).
  Definition smallsig (r : N * N * N) (x : N) : N :=
    let '(a, b, c) := r in
    let y := dbl x in
    N.lxor (N.land (N.lxor (N.shiftr y a) (N.shiftr y b)) (sp_mask P)) (N.shiftr x c).
  Definition ch (x y z : N) : N := N.lxor (N.land x y) (N.land (N.lxor x (sp_mask P)) z).
  Definition maj (x y z : N) : N := N.lxor (N.lxor (N.land x y) (N.land x z)) (N.land y z).

  Definition state := (N * N * N * N * N * N * N * N)%type.

  Definition round (st : state) (k w : N) : state :=
    let '(a, b, c, d, e, f, g, h) := st in
    let t1 := h + bigsig (sp_S1 P) e + ch e f g + k + w in
    let t2 := bigsig (sp_S0 P) a + maj a b c in
    (N.land (t1 + t2) (sp_mask P), a, b, c, N.land (d + t1) (sp_mask P), e, f, g).

  (* message schedule kept as a sliding window of the last 16 words *)
  Fixpoint rounds (ks : list N) (win : list N) (st : state) : state :=
    match ks with
    | [] => st
    | k :: ks' =>
      match win with
      | [w0; w1; w2; w3; w4; w5; w6; w7; w8; w9; w10; w11; w12; w13; w14; w15] =>
        let wn := N.land (smallsig (sp_s1 P) w14 + w9 + smallsig (sp_s0 P) w1 + w0) (sp_mask P) in
        rounds ks' [w1; w2; w3; w4; w5; w6; w7; w8; w9; w10; w11; w12; w13; w14; w15; wn] (round st k w0)
      | _ => st
      end
    end.

  Definition add_state (s t : state) : state :=
    let '(a, b, c, d, e, f, g, h) := s in
    let '(a', b', c', d', e', f', g', h') := t in
    let m := sp_mask P in
    (N.land (a + a') m, N.land (b + b') m, N.land (c + c') m, N.land (d + d') m,
     N.land (e + e') m, N.land (f + f') m, N.land (g + g') m, N.land (h + h') m).

  (* big-endian word from its bytes (same value as [be_dec], computed with shifts) *)
  Fixpoint word_acc (acc : N) (l : bytes) : N :=
    match l with
    | [] => acc
    | b :: l' => word_acc (N.lor (N.shiftl acc 8) b) l'
    end.

  Fixpoint words (n : nat) (l : bytes) : list N :=
    match n with
    | O => []
    | S n' => word_acc 0 (firstn (sp_wbytes P) l) :: words n' (skipn (sp_wbytes P) l)
    end.

  Definition block_bytes : nat := (16 * sp_wbytes P)%nat.

  Definition compress (st : state) (blk : bytes) : state :=
    add_state st (rounds (sp_K P) (words 16 blk) st).

  Fixpoint blocks (n : nat) (l : bytes) (st : state) : state :=
    match n with
    | O => st
    | S n' => blocks n' (skipn block_bytes l) (compress st (firstn block_bytes l))
    end.

  (* padding: 0x80, zeros, then the bit length on 2 words *)
  Definition pad (l : bytes) : bytes :=
    let bs := N.of_nat block_bytes in
    let lb := N.of_nat (2 * sp_wbytes P) in
    let k := (bs - (len l + 1 + lb) mod bs) mod bs in
    l ++ [128] ++ repeat 0 (N.to_nat k) ++ be_enc (2 * sp_wbytes P) (8 * len l).

  Definition digest_words (iv : state) (l : bytes) : state :=
    let p := pad l in blocks (length p / block_bytes) p iv.

  Definition state_bytes (s : state) : bytes :=
    let '(a, b, c, d, e, f, g, h) := s in
    let e' := be_enc (sp_wbytes P) in
    e' a ++ e' b ++ e' c ++ e' d ++ e' e ++ e' f ++ e' g ++ e' h.
End Engine.

Definition K256 : list N :=
  [ 1116352408; 1899447441; 3049323471; 3921009573;
   961987163; 1508970993; 2453635748; 2870763221;
   3624381080; 310598401; 607225278; 1426881987;
   1925078388; 2162078206; 2614888103; 3248222580;
   3835390401; 4022224774; 264347078; 604807628;
   770255983; 1249150122; 1555081692; 1996064986;
   2554220882; 2821834349; 2952996808; 3210313671;
   3336571891; 3584528711; 113926993; 338241895;
   666307205; 773529912; 1294757372; 1396182291;
   1695183700; 1986661051; 2177026350; 2456956037;
   2730485921; 2820302411; 3259730800; 3345764771;
   3516065817; 3600352804; 4094571909; 275423344;
   430227734; 506948616; 659060556; 883997877;
   958139571; 1322822218; 1537002063; 1747873779;
   1955562222; 2024104815; 2227730452; 2361852424;
   2428436474; 2756734187; 3204031479; 3329325298].
Definition IV256 : state :=
  ( 1779033703, 3144134277, 1013904242, 2773480762,
   1359893119, 2600822924, 528734635, 1541459225).

Definition K512 : list N :=
  [ 4794697086780616226; 8158064640168781261; 13096744586834688815; 16840607885511220156;
   4131703408338449720; 6480981068601479193; 10538285296894168987; 12329834152419229976;
   15566598209576043074; 1334009975649890238; 2608012711638119052; 6128411473006802146;
   8268148722764581231; 9286055187155687089; 11230858885718282805; 13951009754708518548;
   16472876342353939154; 17275323862435702243; 1135362057144423861; 2597628984639134821;
   3308224258029322869; 5365058923640841347; 6679025012923562964; 8573033837759648693;
   10970295158949994411; 12119686244451234320; 12683024718118986047; 13788192230050041572;
   14330467153632333762; 15395433587784984357; 489312712824947311; 1452737877330783856;
   2861767655752347644; 3322285676063803686; 5560940570517711597; 5996557281743188959;
   7280758554555802590; 8532644243296465576; 9350256976987008742; 10552545826968843579;
   11727347734174303076; 12113106623233404929; 14000437183269869457; 14369950271660146224;
   15101387698204529176; 15463397548674623760; 17586052441742319658; 1182934255886127544;
   1847814050463011016; 2177327727835720531; 2830643537854262169; 3796741975233480872;
   4115178125766777443; 5681478168544905931; 6601373596472566643; 7507060721942968483;
   8399075790359081724; 8693463985226723168; 9568029438360202098; 10144078919501101548;
   10430055236837252648; 11840083180663258601; 13761210420658862357; 14299343276471374635;
   14566680578165727644; 15097957966210449927; 16922976911328602910; 17689382322260857208;
   500013540394364858; 748580250866718886; 1242879168328830382; 1977374033974150939;
   2944078676154940804; 3659926193048069267; 4368137639120453308; 4836135668995329356;
   5532061633213252278; 6448918945643986474; 6902733635092675308; 7801388544844847127].
Definition IV512 : state :=
  ( 7640891576956012808, 13503953896175478587, 4354685564936845355, 11912009170470909681,
   5840696475078001361, 11170449401992604703, 2270897969802886507, 6620516959819538809).
Definition IV384 : state :=
  ( 14680500436340154072, 7105036623409894663, 10473403895298186519, 1526699215303891257,
   7436329637833083697, 10282925794625328401, 15784041429090275239, 5167115440072839076).

Definition P256 : sha2_params :=
  {| sp_mask := 4294967295; sp_w := 32; sp_wbytes := 4; sp_K := K256;
     sp_S0 := (2, 13, 22); sp_S1 := (6, 11, 25); sp_s0 := (7, 18, 3); sp_s1 := (17, 19, 10) |}.
Definition P512 : sha2_params :=
  {| sp_mask := 18446744073709551615; sp_w := 64; sp_wbytes := 8; sp_K := K512;
     sp_S0 := (28, 34, 39); sp_S1 := (14, 18, 41); sp_s0 := (1, 8, 7); sp_s1 := (19, 61, 6) |}.

Definition sha256 (l : bytes) : bytes := state_bytes P256 (digest_words P256 IV256 l).
Definition sha512 (l : bytes) : bytes := state_bytes P512 (digest_words P512 IV512 l).
Definition sha384 (l : bytes) : bytes := firstn 48 (state_bytes P512 (digest_words P512 IV384 l)).

(* ---------------- SHA-1 (FIPS 180-4 section 6.1) ---------------- *)

Definition m32 : N := 4294967295.
Definition rotl32 (n x : N) : N := N.lor (N.land (N.shiftl x n) m32) (N.shiftr x (32 - n)).

Definition sha1_f (t : N) (b c d : N) : N :=
  if t <? 20 then N.lxor (N.land b c) (N.land (N.lxor b m32) d)
  else if t <? 40 then N.lxor (N.lxor b c) d
  else if t <? 60 then N.lxor (N.lxor (N.land b c) (N.land b d)) (N.land c d)
  else N.lxor (N.lxor b c) d.
Definition sha1_k (t : N) : N :=
  if t <? 20 then 1518500249 else if t <? 40 then 1859775393
  else if t <? 60 then 2400959708 else 3395469782.

Definition state1 := (N * N * N * N * N)%type.

Fixpoint sha1_rounds (n : nat) (t : N) (win : list N) (st : state1) : state1 :=
  match n with
  | O => st
  | S n' =>
    match win with
    | [w0; w1; w2; w3; w4; w5; w6; w7; w8; w9; w10; w11; w12; w13; w14; w15] =>
      let wn := rotl32 1 (N.lxor (N.lxor (N.lxor w13 w8) w2) w0) in
      let '(a, b, c, d, e) := st in
      let tmp := N.land (rotl32 5 a + sha1_f t b c d + e + sha1_k t + w0) m32 in
      sha1_rounds n' (t + 1) [w1; w2; w3; w4; w5; w6; w7; w8; w9; w10; w11; w12; w13; w14; w15; wn]
                  (tmp, a, rotl32 30 b, c, d)
    | _ => st
    end
  end.

Definition sha1_compress (st : state1) (blk : bytes) : state1 :=
  let '(a, b, c, d, e) := st in
  let '(a', b', c', d', e') := sha1_rounds 80 0 (words P256 16 blk) st in
  (N.land (a + a') m32, N.land (b + b') m32, N.land (c + c') m32, N.land (d + d') m32, N.land (e + e') m32).

Fixpoint sha1_blocks (n : nat) (l : bytes) (st : state1) : state1 :=
  match n with
  | O => st
  | S n' => sha1_blocks n' (skipn 64 l) (sha1_compress st (firstn 64 l))
  end.

Definition sha1 (l : bytes) : bytes :=
  let p := pad P256 l in
  let '(a, b, c, d, e) := sha1_blocks (length p / 64) p (1732584193, 4023233417, 2562383102, 271733878, 3285377520) in
  be_enc 4 a ++ be_enc 4 b ++ be_enc 4 c ++ be_enc 4 d ++ be_enc 4 e.

(* ---------------- known-answer tests ---------------- *)

Definition ascii_abc : bytes := [97; 98; 99].
(* "abcdbcdecdefdefgefghfghighijhijkijkljklmklmnlmnomnopnopq" (448 bits) *)
Definition ascii_448 : bytes :=
  [97;98;99;100; 98;99;100;101; 99;100;101;102; 100;101;102;103; 101;102;103;104; 102;103;104;105;
   103;104;105;106; 104;105;106;107; 105;106;107;108; 106;107;108;109; 107;108;109;110;
   108;109;110;111; 109;110;111;112; 110;111;112;113].

Example sha256_kat_abc : sha256 ascii_abc =
  [186; 120; 22; 191; 143; 1; 207; 234; 65; 65; 64; 222; 93; 174; 34; 35; 176; 3; 97; 163; 150; 23; 122; 156; 180; 16; 255; 97; 242; 0; 21; 173].
Proof. vm_compute. reflexivity. Qed.

Example sha256_kat_448 : sha256 ascii_448 =
  [36; 141; 106; 97; 210; 6; 56; 184; 229; 192; 38; 147; 12; 62; 96; 57; 163; 60; 228; 89; 100; 255; 33; 103; 246; 236; 237; 212; 25; 219; 6; 193].
Proof. vm_compute. reflexivity. Qed.

Example sha256_kat_empty : sha256 [] =
  [227; 176; 196; 66; 152; 252; 28; 20; 154; 251; 244; 200; 153; 111; 185; 36; 39; 174; 65; 228; 100; 155; 147; 76; 164; 149; 153; 27; 120; 82; 184; 85].
Proof. vm_compute. reflexivity. Qed.

Example sha384_kat_abc : sha384 ascii_abc =
  [203; 0; 117; 63; 69; 163; 94; 139; 181; 160; 61; 105; 154; 198; 80; 7; 39; 44; 50; 171; 14; 222; 209; 99; 26; 139; 96; 90; 67; 255; 91; 237; 128; 134; 7; 43; 161; 231; 204; 35; 88; 186; 236; 161; 52; 200; 37; 167].
Proof. vm_compute. reflexivity. Qed.

Example sha512_kat_abc : sha512 ascii_abc =
  [221; 175; 53; 161; 147; 97; 122; 186; 204; 65; 115; 73; 174; 32; 65; 49; 18; 230; 250; 78; 137; 169; 126; 162; 10; 158; 238; 230; 75; 85; 211; 154; 33; 146; 153; 42; 39; 79; 193; 168; 54; 186; 60; 35; 163; 254; 235; 189; 69; 77; 68; 35; 100; 60; 232; 14; 42; 154; 201; 79; 165; 76; 164; 159].
Proof. vm_compute. reflexivity. Qed.

Example sha1_kat_abc : sha1 ascii_abc =
  [169; 153; 62; 54; 71; 6; 129; 106; 186; 62; 37; 113; 120; 80; 194; 108; 156; 208; 216; 157].
Proof. vm_compute. reflexivity. Qed.

Example sha1_kat_448 : sha1 ascii_448 =
  [132; 152; 62; 68; 28; 59; 210; 110; 186; 174; 74; 161; 249; 81; 41; 229; 229; 70; 112; 241].
Proof. vm_compute. reflexivity. Qed.


