(* C10 - per cipher suite parameters, written from the suites' defining RFCs (IANA code points):
   PRF hash, mac_key_length, enc_key_length, fixed_iv_length, and the record protection kind.
     RFC 5289 (ECDHE AES-GCM, SHA-256/384)      RFC 5487 (PSK AES-GCM / CBC-SHA256)
     RFC 8422 / 4492 (ECDHE AES-CBC-SHA)        RFC 5489 (ECDHE_PSK AES-CBC-SHA256)
     RFC 6655 (PSK AES-CCM), RFC 7251 (ECDHE_ECDSA AES-CCM)     RFC 7905 (ChaCha20-Poly1305)
   and for TLS 1.3 (RFC 8446 B.4): hash and key length.
   For the CBC suites fixed_iv_length is 0 in TLS 1.2 (RFC 5246 6.3: the write IVs "are only
   generated for implicit nonce techniques"); /repo asks the PRF for 16 more bytes per side which it
   never uses - by C10_phash_prefix this does not change the MAC and encryption keys. *)
From DtlsV Require Import Lib.Bytes Crypto.C10Sha2 Crypto.C10Hmac Crypto.C10Prf Crypto.C10Layout
  Crypto.C10Hkdf.
Open Scope N_scope.

Inductive cipher_kind :=
| CK_GCM                      (* AES-GCM, 16-byte tag, 8-byte explicit nonce *)
| CK_CCM (tag : N)            (* AES-CCM, tag 16 or 8, 8-byte explicit nonce *)
| CK_CHACHA                   (* ChaCha20-Poly1305, no explicit nonce *)
| CK_CBC (mac_hash : N).      (* AES-CBC with HMAC; hash code 1 = SHA-1, 256 = SHA-256 *)

Record suite12_params := {
  s_prf : N;         (* hash code of the PRF *)
  s_mac : nat; s_key : nat; s_iv : nat;
  s_kind : cipher_kind
}.

Definition mk12 prf mac key iv kind : option suite12_params :=
  Some {| s_prf := prf; s_mac := mac; s_key := key; s_iv := iv; s_kind := kind |}.

Definition suite12 (id : N) : option suite12_params :=
  match id with
  | 49195 (* C02B ECDHE_ECDSA_WITH_AES_128_GCM_SHA256 *)
  | 49199 (* C02F ECDHE_RSA_WITH_AES_128_GCM_SHA256 *)
  | 168   (* 00A8 PSK_WITH_AES_128_GCM_SHA256 *)       => mk12 256 0 16 4 CK_GCM
  | 49196 (* C02C ECDHE_ECDSA_WITH_AES_256_GCM_SHA384 *)
  | 49200 (* C030 ECDHE_RSA_WITH_AES_256_GCM_SHA384 *) => mk12 384 0 32 4 CK_GCM
  | 49324 (* C0AC ECDHE_ECDSA_WITH_AES_128_CCM *)
  | 49316 (* C0A4 PSK_WITH_AES_128_CCM *)              => mk12 256 0 16 4 (CK_CCM 16)
  | 49326 (* C0AE ECDHE_ECDSA_WITH_AES_128_CCM_8 *)
  | 49320 (* C0A8 PSK_WITH_AES_128_CCM_8 *)            => mk12 256 0 16 4 (CK_CCM 8)
  | 49321 (* C0A9 PSK_WITH_AES_256_CCM_8 *)            => mk12 256 0 32 4 (CK_CCM 8)
  | 52392 (* CCA8 ECDHE_RSA_WITH_CHACHA20_POLY1305_SHA256 *)
  | 52393 (* CCA9 ECDHE_ECDSA_WITH_CHACHA20_POLY1305_SHA256 *)
  | 52395 (* CCAB PSK_WITH_CHACHA20_POLY1305_SHA256 *) => mk12 256 0 32 12 CK_CHACHA
  | 49162 (* C00A ECDHE_ECDSA_WITH_AES_256_CBC_SHA *)
  | 49172 (* C014 ECDHE_RSA_WITH_AES_256_CBC_SHA *)    => mk12 256 20 32 0 (CK_CBC 1)
  | 174   (* 00AE PSK_WITH_AES_128_CBC_SHA256 *)
  | 49207 (* C037 ECDHE_PSK_WITH_AES_128_CBC_SHA256 *) => mk12 256 32 16 0 (CK_CBC 256)
  | _ => None
  end.

(* TLS 1.3: (hash code, key length) *)
Definition suite13 (id : N) : option (N * nat) :=
  match id with
  | 4865 (* 1301 TLS_AES_128_GCM_SHA256 *) => Some (256, 16%nat)
  | 4866 (* 1302 TLS_AES_256_GCM_SHA384 *) => Some (384, 32%nat)
  | 4867 (* 1303 TLS_CHACHA20_POLY1305_SHA256 *) => Some (256, 32%nat)
  | _ => None
  end.

(* the keys a side writes with: client_write_* for the client, server_write_* for the server *)
Definition write_mac (is_client : bool) (k : keys) := if is_client then k_client_mac k else k_server_mac k.
Definition write_key (is_client : bool) (k : keys) := if is_client then k_client_key k else k_server_key k.
Definition write_iv (is_client : bool) (k : keys) := if is_client then k_client_iv k else k_server_iv k.

(* what a DTLS 1.2 sender puts on the wire for one record, up to the AEAD / block-cipher primitive:
   the keys it uses, the nonce and additional data (or the CBC plaintext), and the record header *)
Definition protect12 (id : N) (is_client : bool) (ms cr sr cid payload : bytes)
    (e s t v : N) : option (list bytes) :=
  match suite12 id with
  | None => None
  | Some p =>
    let H := hash_of_code (s_prf p) in
    let k := encryption_keys H ms cr sr (s_mac p) (s_key p) (s_iv p) in
    let wk := write_key is_client k in
    let wiv := write_iv is_client k in
    let pl := len payload in
    let hc := if t =? ct_tls12_cid then cid else [] in
    match s_kind p with
    | CK_GCM =>
        Some [wk; wiv; nonce_aes wiv e s; aad12_for e s t v cid pl;
              header12 t v e s hc (aes_aead_record_len pl 16); nonce_explicit e s]
    | CK_CCM tag =>
        Some [wk; wiv; nonce_aes wiv e s; aad12_for e s t v cid pl;
              header12 t v e s hc (aes_aead_record_len pl tag); nonce_explicit e s]
    | CK_CHACHA =>
        Some [wk; wiv; nonce_chacha wiv e s; aad12_for e s t v cid pl;
              header12 t v e s hc (chacha_record_len pl)]
    | CK_CBC mh =>
        let wm := write_mac is_client k in
        let HM := hash_of_code mh in
        let mac := if t =? ct_tls12_cid then cbc_mac_cid HM wm e s v cid payload
                   else cbc_mac HM wm e s t v payload in
        Some [wm; wk; cbc_plaintext 16 payload mac; header12 t v e s hc (cbc_record_len 16 payload mac)]
    end
  end.

(* DTLS 1.3 sender: traffic keys from the traffic secret, nonce, additional data, inner plaintext,
   and the header with the encrypted sequence number (mask = first bytes of the cipher-specific
   mask computed from sn_key and the ciphertext sample, supplied by the primitive oracle) *)
Definition protect13 (id : N) (secret cid plaintext mask : bytes) (epoch_low seq64 ctype tag_len : N)
    : option (list bytes) :=
  match suite13 id with
  | None => None
  | Some (hc, kl) =>
    let H := hash_of_code hc in
    let iv := traffic_iv H secret in
    let inner := inner_plaintext plaintext ctype 0 in
    let ctlen := len inner + tag_len in
    Some [traffic_key H secret kl; iv; traffic_sn_key H secret kl;
          nonce13 iv seq64; aad13 cid epoch_low seq64 ctlen; inner;
          header13_masked cid epoch_low seq64 ctlen mask]
  end.
