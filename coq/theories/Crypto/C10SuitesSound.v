(* C10 - theorems about the per-suite parameter table (C10Suites.v) *)
From DtlsV Require Import Lib.Bytes Gen.Generated Crypto.C10Sha2 Crypto.C10Hmac Crypto.C10Prf Crypto.C10PrfSound
  Crypto.C10Layout Crypto.C10Hkdf Crypto.C10Suites.
From Coq Require Import ZifyN ZifyNat ZifyBool.
Open Scope N_scope.

Definition is_some {A} (o : option A) : bool := match o with Some _ => true | None => false end.

Definition suite_known (s : N * N * N * bool) : bool :=
  let '(id, _, _, is13) := s in if is13 then is_some (suite13 id) else is_some (suite12 id).

(* every cipher suite registered in the current tree (regenerated list g_suites) has an entry in
   the model's RFC table, of the right protocol generation *)
Theorem suites_cover_generated : forall s, In s g_suites -> suite_known s = true.
Proof. apply forallb_forall. vm_compute. reflexivity. Qed.

Lemma slice_firstn off n m (l : bytes) : (off + n <= m)%nat -> slice off n (firstn m l) = slice off n l.
Proof.
  intro Hle. unfold slice. revert off n m Hle. induction l as [|x l IH]; intros off n m Hle.
  - now rewrite firstn_nil.
  - destruct m as [|m].
    + assert (off = 0%nat) by lia. assert (n = 0%nat) by lia. subst. reflexivity.
    + destruct off as [|off]; cbn [firstn skipn].
      * destruct n as [|n]; [reflexivity|]. cbn [firstn]. f_equal.
        specialize (IH 0%nat n m ltac:(lia)). cbn [skipn] in IH. exact IH.
      * apply IH. lia.
Qed.

(* The MAC and encryption keys do not depend on how many IV bytes are requested after them:
   asking the PRF for 2*16 extra bytes (as /repo does for the CBC suites, where TLS 1.2 has
   fixed_iv_length = 0) yields the same four keys. *)
Theorem encryption_keys_iv_irrelevant H ms cr sr mac key iv iv' : hash_wf H ->
  let p := encryption_keys H ms cr sr mac key iv in
  let p' := encryption_keys H ms cr sr mac key iv' in
  k_client_mac p = k_client_mac p' /\ k_server_mac p = k_server_mac p' /\
  k_client_key p = k_client_key p' /\ k_server_key p = k_server_key p'.
Proof.
  intro Hwf. cbv zeta.
  assert (Hgen : forall i,
    let q := encryption_keys H ms cr sr mac key i in
    let q0 := encryption_keys H ms cr sr mac key 0 in
    k_client_mac q = k_client_mac q0 /\ k_server_mac q = k_server_mac q0 /\
    k_client_key q = k_client_key q0 /\ k_server_key q = k_server_key q0).
  { intro i. cbv zeta. unfold encryption_keys, key_block, prf.
    set (seed := label_key_expansion ++ sr ++ cr).
    set (kb := p_hash H ms seed (key_block_len mac key i)).
    set (kb0 := p_hash H ms seed (key_block_len mac key 0)).
    assert (Hl : length kb = key_block_len mac key i) by (apply phash_length; exact Hwf).
    assert (Hl0 : length kb0 = key_block_len mac key 0) by (apply phash_length; exact Hwf).
    assert (Hpre : kb0 = firstn (key_block_len mac key 0) kb).
    { apply phash_prefix; [exact Hwf | unfold key_block_len; lia]. }
    pose proof (keyblock_partition mac key i kb ltac:(lia)) as Hp. cbv zeta in Hp.
    pose proof (keyblock_partition mac key 0 kb0 ltac:(lia)) as Hp0. cbv zeta in Hp0.
    destruct Hp as (E1 & E2 & E3 & E4 & _). destruct Hp0 as (F1 & F2 & F3 & F4 & _).
    rewrite E1, E2, E3, E4, F1, F2, F3, F4. rewrite Hpre. unfold key_block_len.
    repeat split; symmetry; apply slice_firstn; lia. }
  destruct (Hgen iv) as (A1 & A2 & A3 & A4). destruct (Hgen iv') as (B1 & B2 & B3 & B4).
  repeat split; congruence.
Qed.
