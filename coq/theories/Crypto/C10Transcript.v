(* C10 - DTLS 1.2 handshake_messages as seen on the wire, written from the RFC text (definitions only).
     RFC 6347 section 4.2.6  "in order to remove sensitivity to handshake message fragmentation, the
                             Finished MAC MUST be computed as if each handshake message had been sent as
                             a single fragment" (12-byte DTLS handshake header, fragment_offset = 0,
                             fragment_length = length)
     RFC 6347 section 4.2.1  "the initial ClientHello and HelloVerifyRequest are not included in the
                             calculation of the handshake_messages (for the CertificateVerify message)
                             and verify_data (for the Finished message)"
     RFC 5246 section 7.4.9  handshake_messages = "all of the data from all messages in this handshake
                             (not including any HelloRequest messages) up to, but not including, this
                             message ... the concatenation of all the Handshake structures ... exchanged
                             thus far", i.e. in the order they were sent
     RFC 5246 section 7.4.8  CertificateVerify signs handshake_messages up to, not including, itself
     RFC 7627 section 3/4    session_hash = Hash(handshake_messages) through ClientKeyExchange
   The input is the list of reassembled handshake messages in the order their first fragment appeared
   on the wire (both directions interleaved), as a passive observer sees them. *)
From DtlsV Require Import Lib.Bytes Crypto.C10Sha2 Crypto.C10Hmac Crypto.C10Prf.
Open Scope N_scope.

(* (msg_type, message_seq, body) *)
Definition wire_msg := (N * N * bytes)%type.

Definition wm_type (m : wire_msg) : N := fst (fst m).
Definition wm_seq (m : wire_msg) : N := snd (fst m).
Definition wm_body (m : wire_msg) : bytes := snd m.

Definition ht_hello_verify_request : N := 3.
Definition is_hvr (m : wire_msg) : bool := wm_type m =? ht_hello_verify_request.

(* msg_type(1) length(3) message_seq(2) fragment_offset(3) = 0 fragment_length(3) = length, body *)
Definition hs_unfragmented (m : wire_msg) : bytes :=
  [wm_type m] ++ be_enc 3 (len (wm_body m)) ++ be_enc 2 (wm_seq m) ++ be_enc 3 0 ++
  be_enc 3 (len (wm_body m)) ++ wm_body m.

(* the messages that count: a HelloVerifyRequest discards itself and every message before it (only
   initial ClientHellos can precede it) *)
Definition counted_step (acc : list wire_msg) (m : wire_msg) : list wire_msg :=
  if is_hvr m then [] else acc ++ [m].
Definition counted (wire : list wire_msg) : list wire_msg := fold_left counted_step wire [].

Definition handshake_messages (wire : list wire_msg) : bytes :=
  concat (map hs_unfragmented (counted wire)).

(* [wire] = every message that preceded the Finished on the wire (for the second Finished of a handshake
   this includes the first one, type 20 with its 12-byte verify_data as body) *)
Definition finished_client (H : hashfn) (ms : bytes) (wire : list wire_msg) : bytes :=
  verify_data_client H ms (handshake_messages wire).
Definition finished_server (H : hashfn) (ms : bytes) (wire : list wire_msg) : bytes :=
  verify_data_server H ms (handshake_messages wire).

(* [wire] = every message that preceded the CertificateVerify *)
Definition certificate_verify_input12 (wire : list wire_msg) : bytes := handshake_messages wire.

(* [wire] = every message through ClientKeyExchange *)
Definition session_hash (H : hashfn) (wire : list wire_msg) : bytes := h_fn H (handshake_messages wire).
Definition extended_master_secret_wire (H : hashfn) (pms : bytes) (wire : list wire_msg) : bytes :=
  extended_master_secret H pms (session_hash H wire).

(* ---------------- other wire-level facts of a handshake judged by the live legs ---------------- *)

(* NSS key log line "<label> <ClientHello.random> <secret>": a passive decoder looks the secret up under
   the ClientHello.random it saw on the wire, so a line is usable iff its second column is that random
   and its third column is the secret the records are protected with *)
Definition keylog_line_usable (wire_client_random line_random line_secret secret : bytes) : bool :=
  bytes_eqb line_random wire_client_random && bytes_eqb line_secret secret.

(* RFC 4279 section 2: ServerKeyExchange = opaque psk_identity_hint<0..2^16-1>;
   RFC 5489 section 2: ... followed by ServerECDHParams params (the length field is always present) *)
Definition psk_server_key_exchange (hint : bytes) : bytes := be_enc 2 (len hint) ++ hint.
Definition ecdhe_psk_server_key_exchange (hint : bytes) (named_curve : N) (public : bytes) : bytes :=
  psk_server_key_exchange hint ++ server_ecdh_params named_curve public.

(* RFC 8446 section 4.2.3: in (D)TLS 1.3 an ECDSA SignatureScheme names the curve of the key:
   ecdsa_secp256r1_sha256(0x0403), ecdsa_secp384r1_sha384(0x0503), ecdsa_secp521r1_sha512(0x0603);
   argument: the NamedGroup of the certificate key (secp256r1 23, secp384r1 24, secp521r1 25) *)
Definition ecdsa_scheme13 (group : N) : option N :=
  match group with
  | 23 => Some 1027
  | 24 => Some 1283
  | 25 => Some 1539
  | _ => None
  end.
