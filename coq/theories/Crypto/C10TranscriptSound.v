(* C10 - theorems about the wire-order handshake_messages of C10Transcript.v: header layout, the
   HelloVerifyRequest rule, and injectivity (the hashed byte string determines the sequence of
   messages, in particular their ORDER: two different orders of the same messages are hashed to
   different inputs). *)
From DtlsV Require Import Lib.Bytes Crypto.C10Sha2 Crypto.C10Hmac Crypto.C10Prf Crypto.C10PrfSound
  Crypto.C10LayoutSound Crypto.C10Transcript.
From Coq Require Import ZifyN ZifyNat ZifyBool.
Open Scope N_scope.

Theorem hs_unfragmented_layout typ seq body :
  hs_unfragmented (typ, seq, body) =
    [typ] ++ be_enc 3 (len body) ++ be_enc 2 seq ++ [0; 0; 0] ++ be_enc 3 (len body) ++ body /\
  length (hs_unfragmented (typ, seq, body)) = (12 + length body)%nat.
Proof.
  split; [reflexivity|].
  unfold hs_unfragmented, wm_type, wm_seq, wm_body. cbn [fst snd].
  rewrite !app_length, !be_enc_length. cbn [length]. lia.
Qed.

Definition no_hvr (l : list wire_msg) : Prop := forallb (fun m => negb (is_hvr m)) l = true.

Lemma counted_from acc l : no_hvr l -> fold_left counted_step l acc = acc ++ l.
Proof.
  unfold no_hvr. revert acc; induction l as [|m l IH]; intros acc H; cbn [fold_left forallb] in *.
  - now rewrite app_nil_r.
  - apply andb_true_iff in H. destruct H as [Hm Hl]. unfold counted_step at 2.
    destruct (is_hvr m); [discriminate|]. rewrite (IH _ Hl), <- app_assoc. reflexivity.
Qed.

(* without a HelloVerifyRequest every message counts (also the only ClientHello) *)
Theorem counted_no_hvr l : no_hvr l -> counted l = l.
Proof. intro H. unfold counted. now rewrite counted_from. Qed.

(* with one, exactly the messages after it count: the HelloVerifyRequest and everything before it
   (the initial ClientHello) are not part of handshake_messages *)
Theorem counted_after_hvr pre h post :
  is_hvr h = true -> no_hvr post -> counted (pre ++ h :: post) = post.
Proof.
  intros Hh Hp. unfold counted. rewrite fold_left_app. cbn [fold_left].
  unfold counted_step at 2. rewrite Hh. now rewrite counted_from.
Qed.

Definition wm_wf (m : wire_msg) : Prop :=
  wm_type m < 256 /\ wm_seq m < 2 ^ 16 /\ len (wm_body m) < 2 ^ 24.

Lemma hs_unfragmented_inj_app m m' r r' :
  wm_wf m -> wm_wf m' -> hs_unfragmented m ++ r = hs_unfragmented m' ++ r' -> m = m' /\ r = r'.
Proof.
  destruct m as [[t s] b], m' as [[t' s'] b']. unfold wm_wf, hs_unfragmented, wm_type, wm_seq, wm_body.
  cbn [fst snd]. intros (Ht & Hs & Hb) (Ht' & Hs' & Hb') E.
  rewrite <- !app_assoc in E.
  apply app_inj_pfx_len in E; [|reflexivity]. destruct E as [Et E]. injection Et as Et.
  apply app_inj_pfx_len in E; [|now rewrite !be_enc_length]. destruct E as [El E].
  apply app_inj_pfx_len in E; [|now rewrite !be_enc_length]. destruct E as [Es E].
  apply app_inj_pfx_len in E; [|now rewrite !be_enc_length]. destruct E as [_ E].
  apply app_inj_pfx_len in E; [|now rewrite !be_enc_length]. destruct E as [_ E].
  apply (be_enc_inj 3) in El; [|assumption..].
  apply (be_enc_inj 2) in Es; [|assumption..].
  apply app_inj_pfx_len in E; [|unfold len in El; lia]. destruct E as [Eb Er].
  subst. split; reflexivity.
Qed.

Lemma concat_unfragmented_inj l : forall l',
  Forall wm_wf l -> Forall wm_wf l' ->
  concat (map hs_unfragmented l) = concat (map hs_unfragmented l') -> l = l'.
Proof.
  induction l as [|m l IH]; intros [|m' l'] Hl Hl' E; cbn [map concat] in E.
  - reflexivity.
  - exfalso. destruct m' as [[t s] b]. unfold hs_unfragmented in E. cbn in E. discriminate.
  - exfalso. destruct m as [[t s] b]. unfold hs_unfragmented in E. cbn in E. discriminate.
  - inversion Hl as [|? ? Hm Hl0]; subst. inversion Hl' as [|? ? Hm' Hl0']; subst.
    destruct (hs_unfragmented_inj_app _ _ _ _ Hm Hm' E) as [-> E'].
    f_equal. now apply IH.
Qed.

(* the byte string that is hashed determines which messages were hashed and in which order *)
Theorem handshake_messages_injective l l' :
  no_hvr l -> no_hvr l' -> Forall wm_wf l -> Forall wm_wf l' ->
  handshake_messages l = handshake_messages l' -> l = l'.
Proof.
  intros Hn Hn' Hw Hw'. unfold handshake_messages. rewrite !counted_no_hvr by assumption.
  now apply concat_unfragmented_inj.
Qed.

(* in particular: swapping two different adjacent messages changes the hashed bytes *)
Corollary handshake_messages_order_sensitive pre a b post :
  no_hvr (pre ++ a :: b :: post) -> no_hvr (pre ++ b :: a :: post) ->
  Forall wm_wf (pre ++ a :: b :: post) -> Forall wm_wf (pre ++ b :: a :: post) -> a <> b ->
  handshake_messages (pre ++ a :: b :: post) <> handshake_messages (pre ++ b :: a :: post).
Proof.
  intros Hn Hn' Hw Hw' Hab E. apply handshake_messages_injective in E; try assumption.
  apply app_inv_head in E. injection E as E _. contradiction.
Qed.

(* ---------------- key log, PSK ServerKeyExchange, DTLS 1.3 ECDSA schemes ---------------- *)

Theorem keylog_line_usable_spec wcr lcr lsec sec :
  keylog_line_usable wcr lcr lsec sec = true <-> lcr = wcr /\ lsec = sec.
Proof.
  unfold keylog_line_usable. rewrite andb_true_iff, !bytes_eqb_eq. reflexivity.
Qed.

(* no line (or a line under another random) is not usable: what a DTLS 1.3 connection of /repo leaves
   in the key log (known finding: nothing is written) *)
Theorem keylog_absent_refuted wcr sec : wcr <> [] -> keylog_line_usable wcr [] [] sec = false.
Proof.
  intro H. destruct (keylog_line_usable wcr [] [] sec) eqn:E; [|reflexivity].
  apply keylog_line_usable_spec in E. destruct E as [E _]. congruence.
Qed.

(* /repo writes ServerECDHParams alone when no hint is configured (known finding): that is the RFC 5489
   encoding for no hint whatsoever - the two length bytes are missing *)
Theorem ecdhe_psk_ske_without_hint_length_refuted hint curve pub :
  server_ecdh_params curve pub <> ecdhe_psk_server_key_exchange hint curve pub.
Proof.
  intro E. apply (f_equal (@length N)) in E.
  unfold ecdhe_psk_server_key_exchange, psk_server_key_exchange in E.
  rewrite !app_length, be_enc_length in E. lia.
Qed.

Theorem ecdhe_psk_ske_empty_hint curve pub :
  ecdhe_psk_server_key_exchange [] curve pub = [0; 0] ++ server_ecdh_params curve pub.
Proof. reflexivity. Qed.

Lemma ecdsa_scheme13_cases g s :
  ecdsa_scheme13 g = Some s -> (g = 23 /\ s = 1027) \/ (g = 24 /\ s = 1283) \/ (g = 25 /\ s = 1539).
Proof.
  unfold ecdsa_scheme13. intro E. destruct g as [|p]; [discriminate|].
  repeat (destruct p as [p|p|]; cbn in E; try discriminate).
  all: injection E as <-; auto.
Qed.

Theorem ecdsa_scheme13_injective g g' s :
  ecdsa_scheme13 g = Some s -> ecdsa_scheme13 g' = Some s -> g = g'.
Proof.
  intros E E'. apply ecdsa_scheme13_cases in E. apply ecdsa_scheme13_cases in E'.
  destruct E as [[-> ->]|[[-> ->]|[-> ->]]]; destruct E' as [[-> E']|[[-> E']|[-> E']]];
    try reflexivity; discriminate.
Qed.

(* /repo signs with (and accepts) a secp384r1 key under ecdsa_secp256r1_sha256 (known finding) *)
Theorem p384_key_under_scheme_0403_refuted : ecdsa_scheme13 24 <> Some 1027.
Proof. discriminate. Qed.
