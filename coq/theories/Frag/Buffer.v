(* C12 - receiver side: model of internal/fragmentbuffer/fragment_buffer.go
   (FragmentBuffer.Push / pushHandshakeFragments / Pop / AdvanceTo) and of the way
   conn.go bufferHandshakeRecord drives it (Push, then Pop until nil).
   Definitions only; proofs in Frag/BufferSound.v.

   Structural level: a pushed record payload is a list of handshake fragments (Frag/Split.v
   [frag]) possibly followed by unparsable trailing bytes; the byte-level header codecs belong
   to C18.  Go maps are association lists; nothing below depends on their order except through
   lookups (Go map iteration order is only used by AdvanceTo, whose result is order-independent).

   Integer widths: fragmentsLength/handshakeLength are uint32, FragmentOffset+FragmentLength is a
   uint32 sum of two 24-bit values, totalBufferSize/totalFragmentCount are int.  The model uses
   unbounded N; BufferSound.v proves size < max_size (so no uint32 sum wraps) and
   size = sum of stored lengths, count = number of stored fragments (so the truncated
   subtractions below are exact).  currentMessageSequenceNumber is uint16 and `++` wraps. *)
From DtlsV Require Import Lib.Bytes Gen.Generated Frag.Split.
Open Scope N_scope.

(* fragmentBufferMaxSize, fragmentBufferMaxCount, recordlayer.FixedHeaderSize, handshake.HeaderLength
   - regenerated from the tree on every run *)
Definition max_size : N := g_fragment_buffer_max_size.
Definition max_count : N := g_fragment_buffer_max_count.
Definition rec_hdr : N := g_fixed_header_size.
Definition hs_hdr : N := g_handshake_header_length.

(* type fragment: handshake header + data + the record layer header it arrived in (only Epoch is
   ever read back) *)
Record sfrag := mkS { s_frag : frag; s_epoch : N }.
Definition s_off (s : sfrag) : N := f_off (s_frag s).
Definition s_flen (s : sfrag) : N := f_flen (s_frag s).

(* type fragments: fragmentByOffset (newest first), fragmentsLength, handshakeLength *)
Record entry := mkEntry { e_frags : list sfrag; e_sum : N; e_hlen : N }.

Record state := mkSt {
  cache : list (N * entry);   (* map[uint16]*fragments *)
  cur   : N;                  (* currentMessageSequenceNumber *)
  size  : N;                  (* totalBufferSize *)
  count : N                   (* totalFragmentCount *)
}.

Definition init : state := mkSt [] 0 0 0.

(* fragmentByOffset[off] *)
Definition efind (off : N) (l : list sfrag) : option sfrag := find (fun s => s_off s =? off) l.

(* cache[k], delete(cache,k), cache[k] = e *)
Fixpoint clookup (k : N) (c : list (N * entry)) : option entry :=
  match c with
  | [] => None
  | (k', e) :: c' => if k' =? k then Some e else clookup k c'
  end.
Definition cremove (k : N) (c : list (N * entry)) : list (N * entry) :=
  filter (fun p => negb (fst p =? k)) c.
Definition cset (k : N) (e : entry) (c : list (N * entry)) : list (N * entry) :=
  (k, e) :: cremove k c.

(* `FragmentLength == 0 && (Length != 0 || FragmentOffset != 0)`: an empty fragment that is not the
   single fragment of an empty message is skipped (nothing stored, record still a handshake record) *)
Definition skip_empty (f : frag) : bool :=
  (f_flen f =? 0) && (negb (f_len f =? 0) || negb (f_off f =? 0)).

(* one iteration of the loop of pushHandshakeFragments for a fragment that parsed and fits *)
Definition push_frag (ep : N) (acc : state * bool) (f : frag) : state * bool :=
  let (st, retr) := acc in
  if f_seq f <? cur st then (st, true)                      (* isRetransmit = true; continue *)
  else if skip_empty f then (st, retr)                      (* continue *)
  else
    let e := match clookup (f_seq f) (cache st) with
             | Some e => e
             | None => mkEntry [] 0 (f_len f)                (* handshakeLength of the creating fragment *)
             end in
    match efind (f_off f) (e_frags e) with
    | Some _ =>                                              (* offset already present: first writer wins *)
        (mkSt (cset (f_seq f) e (cache st)) (cur st) (size st) (count st), retr)
    | None =>
        (mkSt (cset (f_seq f) (mkEntry (mkS f ep :: e_frags e) (e_sum e + f_flen f) (e_hlen e)) (cache st))
              (cur st) (size st + f_flen f) (count st + 1), retr)
    end.

(* what Push is given *)
Inductive record :=
| RBad (n : N)                                  (* n bytes whose record header does not parse *)
| ROther (n : N)                                (* n bytes, content type <> handshake *)
| RHs (ep : N) (fs : list frag) (tail : N).     (* handshake record (13-byte header, epoch ep): the
                                                   fragments that parse and fit, then [tail] bytes that
                                                   do not (fewer than 12, or a header whose
                                                   fragment_length exceeds what is left); 0 = none *)

Definition frags_size (fs : list frag) : N := fold_right (fun f a => hs_hdr + f_flen f + a) 0 fs.

Definition record_size (r : record) : N :=
  match r with
  | RBad n => n
  | ROther n => n
  | RHs _ fs tail => rec_hdr + frags_size fs + tail
  end.

Definition push_frags (ep : N) (st : state) (fs : list frag) : state * bool :=
  fold_left (push_frag ep) fs (st, false).

(* Push: (state, (isHandshake, isRetransmit, err <> nil)) *)
Definition push (st : state) (r : record) : state * (bool * bool * bool) :=
  if max_size <=? record_size r then (st, (false, false, true))      (* len(buf) >= max: overflow *)
  else
    match r with
    | RBad _ => (st, (false, false, true))                      (* record header does not parse *)
    | ROther _ => (st, (false, false, false))                   (* not a handshake: limits not applied *)
    | RHs ep fs tail =>
        if (max_size <=? size st + record_size r) || (max_count <=? count st)
        then (st, (false, false, true))                         (* ErrFragmentBufferOverflow *)
        else
          let (st', retr) := push_frags ep st fs in
          if tail =? 0 then (st', (true, retr, false))
          else (st', (false, false, true))                      (* fragments before the bad tail stay stored *)
    end.

(* the loop of Pop: `for i := 0; i < len(fragmentByOffset) && targetOffset < handshakeLength; i++` *)
Fixpoint walk (fuel : nat) (target hlen : N) (frs : list sfrag) (acc : bytes) : option bytes :=
  match fuel with
  | O => Some acc
  | S k =>
      if target <? hlen then
        match efind target frs with
        | Some s => walk k (s_off s + s_flen s) hlen frs (acc ++ f_data (s_frag s))
        | None => None
        end
      else Some acc
  end.

(* the message Pop returns: header of the offset-0 fragment with FragmentOffset = 0 and
   FragmentLength = Length, then the body; and the epoch of the offset-0 fragment's record *)
Record popped := mkPop { p_ty : N; p_len : N; p_seq : N; p_body : bytes; p_epoch : N }.

Inductive pop_result :=
| PNone                                  (* return nil, 0 *)
| PPanic                                 (* nil-pointer dereference of fragmentByOffset[0]; kept so that
                                            [pop] mirrors the code line by line - unreachable since
                                            empty fragments are skipped (BufferSound.pop_never_panics) *)
| POk (m : popped) (st' : state).

Definition pop (st : state) : pop_result :=
  match clookup (cur st) (cache st) with
  | None => PNone
  | Some e =>
      if negb (e_sum e =? e_hlen e) then PNone
      else
        match walk (length (e_frags e)) 0 (e_hlen e) (e_frags e) [] with
        | None => PNone
        | Some raw =>
            if negb (e_hlen e =? len raw) then PNone
            else
              match efind 0 (e_frags e) with
              | None => PPanic
              | Some s0 =>
                  POk (mkPop (f_ty (s_frag s0)) (f_len (s_frag s0)) (f_seq (s_frag s0)) raw (s_epoch s0))
                      (mkSt (cremove (cur st) (cache st)) ((cur st + 1) mod 65536)
                            (size st - e_sum e) (count st - N.of_nat (length (e_frags e))))
              end
        end
  end.

Definition dropped_sum (c : list (N * entry)) : N := fold_right (fun p a => e_sum (snd p) + a) 0 c.
Definition dropped_count (c : list (N * entry)) : N :=
  fold_right (fun p a => N.of_nat (length (e_frags (snd p))) + a) 0 c.

(* AdvanceTo *)
Definition advance_to (st : state) (m : N) : state :=
  if m <=? cur st then st
  else
    let gone := filter (fun p => fst p <? m) (cache st) in
    mkSt (filter (fun p => negb (fst p <? m)) (cache st)) m
         (size st - dropped_sum gone) (count st - dropped_count gone).

(* conn.go bufferHandshakeRecord: `for out, epoch := Pop(); out != nil; ...`.
   A successful Pop deletes one cache entry, so |cache|+1 iterations always reach nil
   (BufferSound.drain_done).  Third component: a Pop panicked. *)
Fixpoint pop_all (fuel : nat) (st : state) : state * list popped * bool :=
  match fuel with
  | O => (st, [], false)
  | S k =>
      match pop st with
      | PNone => (st, [], false)
      | PPanic => (st, [], true)
      | POk m st' => let '(st'', ms, p) := pop_all k st' in (st'', m :: ms, p)
      end
  end.

Definition drain (st : state) : state * list popped * bool := pop_all (S (length (cache st))) st.

(* one arriving handshake record as bufferHandshakeRecord handles it: Push; on error or
   "not a handshake" nothing else; otherwise Pop until nil *)
Definition arrive (st : state) (r : record) : state * (bool * bool * bool) * list popped * bool :=
  let '(st1, (ish, retr, err)) := push st r in
  if err || negb ish then (st1, (ish, retr, err), [], false)
  else let '(st2, ms, p) := drain st1 in (st2, (ish, retr, err), ms, p).

(* a whole arrival history: final state, everything popped (in order), "some Pop panicked" *)
Fixpoint run (st : state) (rs : list record) : state * list popped * bool :=
  match rs with
  | [] => (st, [], false)
  | r :: rs' =>
      let '(st1, _, ms, p) := arrive st r in
      let '(st2, ms', p') := run st1 rs' in
      (st2, ms ++ ms', p || p')
  end.

(* the message a complete honest message pops as *)
Definition popped_of (m : hmsg) (ep : N) : popped :=
  mkPop (m_ty m) (len (m_body m)) (m_seq m) (m_body m) ep.
Definition msg_of (p : popped) : hmsg := mkMsg (p_ty p) (p_seq p) (p_body p).
