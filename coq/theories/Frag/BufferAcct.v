(* C12 - accounting of the fixed buffering limits of FragmentBuffer (totalBufferSize /
   totalFragmentCount) under duplication.  Definitions only; proofs in Frag/BufferAcctSound.v.

   [stored_count] / [stored_size] are what the cache really holds, read off the cache alone (not
   through the cached sums e_sum).

   The model of Frag/Buffer.v ([push_frag]) charges a fragment where the code does: inside
   `if _, ok = fragmentByOffset[FragmentOffset]; !ok { ... }`, i.e. only when the fragment is stored.
   [push_frag_b early] is the same loop body with one switch: [early = true] charges
   size/count right after the copy of the fragment data, BEFORE the duplicate-offset check, while
   Pop / AdvanceTo still give back only what is stored.  [early = false] is the code as it is
   (BufferAcctSound.push_frag_b_false / run_b_false). *)
From DtlsV Require Import Lib.Bytes Gen.Generated Frag.Split Frag.Buffer.
Open Scope N_scope.

Definition stored_count (c : list (N * entry)) : N :=
  fold_right (fun p a => N.of_nat (length (e_frags (snd p))) + a) 0 c.
Definition stored_size (c : list (N * entry)) : N :=
  fold_right (fun p a => fold_right (fun s b => s_flen s + b) 0 (e_frags (snd p)) + a) 0 c.

(* "fragment f is already held": an entry for its message_seq with a fragment at its offset *)
Definition held (st : state) (f : frag) : Prop :=
  exists e s, clookup (f_seq f) (cache st) = Some e /\ efind (f_off f) (e_frags e) = Some s.

Definition push_frag_b (early : bool) (ep : N) (acc : state * bool) (f : frag) : state * bool :=
  let (st, retr) := acc in
  if f_seq f <? cur st then (st, true)
  else if skip_empty f then (st, retr)
  else
    let e := match clookup (f_seq f) (cache st) with
             | Some e => e
             | None => mkEntry [] 0 (f_len f)
             end in
    match efind (f_off f) (e_frags e) with
    | Some _ =>
        (mkSt (cset (f_seq f) e (cache st)) (cur st)
              (if early then size st + f_flen f else size st)
              (if early then count st + 1 else count st), retr)
    | None =>
        (mkSt (cset (f_seq f) (mkEntry (mkS f ep :: e_frags e) (e_sum e + f_flen f) (e_hlen e)) (cache st))
              (cur st) (size st + f_flen f) (count st + 1), retr)
    end.

Definition push_frags_b (early : bool) (ep : N) (st : state) (fs : list frag) : state * bool :=
  fold_left (push_frag_b early ep) fs (st, false).

Definition push_b (early : bool) (st : state) (r : record) : state * (bool * bool * bool) :=
  if max_size <=? record_size r then (st, (false, false, true))
  else
    match r with
    | RBad _ => (st, (false, false, true))
    | ROther _ => (st, (false, false, false))
    | RHs ep fs tail =>
        if (max_size <=? size st + record_size r) || (max_count <=? count st)
        then (st, (false, false, true))
        else
          let (st', retr) := push_frags_b early ep st fs in
          if tail =? 0 then (st', (true, retr, false))
          else (st', (false, false, true))
    end.

Definition arrive_b (early : bool) (st : state) (r : record) : state * (bool * bool * bool) * list popped * bool :=
  let '(st1, (ish, retr, err)) := push_b early st r in
  if err || negb ish then (st1, (ish, retr, err), [], false)
  else let '(st2, ms, p) := drain st1 in (st2, (ish, retr, err), ms, p).

Fixpoint run_b (early : bool) (st : state) (rs : list record) : state * list popped * bool :=
  match rs with
  | [] => (st, [], false)
  | r :: rs' =>
      let '(st1, _, ms, p) := arrive_b early st r in
      let '(st2, ms', p') := run_b early st1 rs' in
      (st2, ms ++ ms', p || p')
  end.

(* the witness history: a 2-byte message cut at MTU 1; the datagram with the first fragment is lost
   every time, the second fragment arrives in 1000 transmissions; then the first fragment arrives *)
Definition dup_msg : hmsg := mkMsg 11 0 [7; 9].
Definition dup_first : frag := mkFrag 11 2 0 0 [7].
Definition dup_second : frag := mkFrag 11 2 0 1 [9].
Definition dup_history : list record := repeat (RHs 0 [dup_second] 0) (N.to_nat 1000).
