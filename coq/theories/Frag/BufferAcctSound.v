(* C12 - proofs about the limit accounting of Frag/Buffer.v under duplication (Frag/BufferAcct.v).
   1. accounting_exact: after ANY sequence of Push / Pop / AdvanceTo calls (any payloads),
      count = number of fragments held in the cache and size = sum of their lengths
   2. duplicates are free: a fragment whose (message_seq, offset) is already held changes neither
      size nor count nor anything that is held (single fragment and whole records)
   3. an honest well-formed record is refused only when what is HELD is at a limit
   4. the variant that charges before the duplicate check leaks: concrete witness (_refuted) *)
From DtlsV Require Import Lib.Bytes Gen.Generated Frag.Split Frag.SplitSound Frag.Buffer Frag.BufferSound Frag.BufferAcct.
From Coq Require Import ZifyN ZifyNat ZifyBool.
Open Scope N_scope.

(* ------------------------------------------------------------------ 1. exact accounting *)

Lemma api_step_WF st a : WF st -> WF (api_step st a).
Proof.
  intro H. destruct a as [r| |m]; cbn [api_step].
  - now apply push_WF.
  - destruct (pop st) as [| |p st'] eqn:E; try exact H. now destruct (pop_WF _ _ _ H E).
  - now destruct (advance_to_WF st m H).
Qed.

Lemma api_WF (ops : list api) : forall st, WF st -> WF (fold_left api_step ops st).
Proof. induction ops as [|a ops IH]; intros st H; [exact H|]. cbn [fold_left]. apply IH. now apply api_step_WF. Qed.

Lemma stored_count_tot c : stored_count c = tot ecount c. Proof. reflexivity. Qed.

Lemma stored_size_tot c : NoDup (map fst c) -> (forall k e, clookup k c = Some e -> entry_wf e) ->
  stored_size c = tot e_sum c.
Proof.
  intros Hnd Hent.
  assert (H : forall p, In p c -> e_sum (snd p) = wsum s_flen (e_frags (snd p))).
  { intros [k e] Hin. cbn [snd]. exact (proj1 (Hent k e (In_clookup k e c Hnd Hin))). }
  clear Hnd Hent. unfold stored_size, tot, wsum. induction c as [|p c IH]; [reflexivity|].
  cbn [fold_right]. rewrite IH by (intros q Hq; apply H; now right).
  rewrite (H p) by now left. reflexivity.
Qed.

Lemma WF_exact st : WF st -> count st = stored_count (cache st) /\ size st = stored_size (cache st).
Proof.
  intros (Hnd & Hent & Hsz & Hcn). split; [now rewrite stored_count_tot|].
  now rewrite stored_size_tot.
Qed.

Theorem accounting_exact (ops : list api) :
  let st := fold_left api_step ops init in
  count st = stored_count (cache st) /\ size st = stored_size (cache st).
Proof. cbv zeta. apply WF_exact. apply api_WF. apply WF_init. Qed.

(* the same for arrival histories handled as conn.go bufferHandshakeRecord does *)
Lemma pop_all_WF fuel : forall st, WF st -> WF (fst (fst (pop_all fuel st))).
Proof.
  induction fuel as [|k IH]; intros st H; [exact H|]. cbn [pop_all].
  destruct (pop st) as [| |m st'] eqn:E; try exact H.
  destruct (pop_WF _ _ _ H E) as [H' _]. specialize (IH st' H').
  destruct (pop_all k st') as [[st'' ms] p]. exact IH.
Qed.

Lemma arrive_WF st r : WF st -> WF (fst (fst (fst (arrive st r)))).
Proof.
  intro H. unfold arrive. pose proof (push_WF st r H) as H1.
  destruct (push st r) as [st1 [[ish retr] err]]. cbn [fst] in H1.
  destruct (err || negb ish); [exact H1|].
  pose proof (pop_all_WF (S (length (cache st1))) st1 H1) as H2. unfold drain.
  destruct (pop_all _ st1) as [[st2 ms] p]. exact H2.
Qed.

Lemma run_WF rs : forall st, WF st -> WF (fst (fst (run st rs))).
Proof.
  induction rs as [|r rs IH]; intros st H; [exact H|]. cbn [run].
  pose proof (arrive_WF st r H) as H1. destruct (arrive st r) as [[[st1 res] ms] p]. cbn [fst] in H1.
  specialize (IH st1 H1). destruct (run st1 rs) as [[st2 ms'] p']. exact IH.
Qed.

Theorem accounting_exact_run (rs : list record) :
  let st := fst (fst (run init rs)) in
  count st = stored_count (cache st) /\ size st = stored_size (cache st).
Proof. cbv zeta. apply WF_exact. apply run_WF. apply WF_init. Qed.

(* ------------------------------------------------------------------ 2. duplicates are free *)

Theorem duplicate_fragment_free ep st b f : held st f ->
  let st' := fst (push_frag ep (st, b) f) in
  size st' = size st /\ count st' = count st /\ cur st' = cur st /\
  forall k, clookup k (cache st') = clookup k (cache st).
Proof.
  intros (e & s & Hl & Hf). cbv zeta. unfold push_frag.
  destruct (f_seq f <? cur st); [cbn [fst]; auto|].
  destruct (skip_empty f); [cbn [fst]; auto|].
  rewrite Hl, Hf. cbn [fst size count cur cache]. repeat split.
  intro k. rewrite clookup_cset. destruct (f_seq f =? k) eqn:E; [|reflexivity].
  apply N.eqb_eq in E. subst k. now rewrite Hl.
Qed.

Lemma held_ext st st' f : (forall k, clookup k (cache st') = clookup k (cache st)) -> held st f -> held st' f.
Proof. intros H (e & s & Hl & Hf). exists e, s. now rewrite H. Qed.

Lemma duplicate_frags_free ep fs : forall st b, Forall (held st) fs ->
  let st' := fst (fold_left (push_frag ep) fs (st, b)) in
  size st' = size st /\ count st' = count st /\ cur st' = cur st /\
  forall k, clookup k (cache st') = clookup k (cache st).
Proof.
  induction fs as [|f fs IH]; intros st b Hall; cbv zeta; [cbn; auto|].
  inversion Hall as [|f' fs' Hf Hfs]; subst. cbn [fold_left].
  pose proof (duplicate_fragment_free ep st b f Hf) as H. cbv zeta in H.
  destruct (push_frag ep (st, b) f) as [st1 b1]. cbn [fst] in H. destruct H as (H1 & H2 & H3 & H4).
  assert (Hall1 : Forall (held st1) fs).
  { apply Forall_forall. intros g Hg. apply (held_ext st st1 g H4). rewrite Forall_forall in Hfs. now apply Hfs. }
  specialize (IH st1 b1 Hall1). cbv zeta in IH. destruct IH as (I1 & I2 & I3 & I4).
  repeat split; try congruence. all: try (intro k; now rewrite I4).
Qed.

(* a whole record of duplicates: whatever Push answers, the counters and everything held stay as they are *)
Theorem duplicate_record_free st ep fs tail : Forall (held st) fs ->
  let st' := fst (push st (RHs ep fs tail)) in
  size st' = size st /\ count st' = count st /\ cur st' = cur st /\
  forall k, clookup k (cache st') = clookup k (cache st).
Proof.
  intro Hall. cbv zeta.
  destruct (push_fst_cases st (RHs ep fs tail)) as [->|(ep' & fs' & tail' & Heq & _ & ->)]; [auto|].
  inversion Heq; subst. exact (duplicate_frags_free ep' fs' st false Hall).
Qed.

(* ------------------------------------------------------------------ 3. refusal only at the limits *)

(* a well-formed handshake record (every fragment parses, no trailing bytes) is refused only if what
   is HELD plus the record reaches fragmentBufferMaxSize or the number of HELD fragments is at
   fragmentBufferMaxCount - whatever was pushed, popped or advanced before, duplicates included *)
Theorem refusal_only_at_limits (ops : list api) ep fs :
  let st := fold_left api_step ops init in
  let r := RHs ep fs 0 in
  snd (snd (push st r)) = true ->
  max_size <= stored_size (cache st) + record_size r \/ max_count <= stored_count (cache st).
Proof.
  cbv zeta. destruct (accounting_exact ops) as [Hc Hs]. cbv zeta in Hc, Hs.
  set (st := fold_left api_step ops init) in *. unfold push.
  destruct (max_size <=? record_size (RHs ep fs 0)) eqn:E0; [intros _; left; apply N.leb_le in E0; lia|].
  destruct ((max_size <=? size st + record_size (RHs ep fs 0)) || (max_count <=? count st)) eqn:G.
  - intros _. apply orb_true_iff in G. destruct G as [G|G]; apply N.leb_le in G; [left|right]; lia.
  - destruct (push_frags ep st fs) as [st' retr]. cbn. discriminate.
Qed.

(* ------------------------------------------------------------------ 4. the early-charge variant *)

Lemma push_frag_b_false ep acc f : push_frag_b false ep acc f = push_frag ep acc f.
Proof. reflexivity. Qed.

Lemma push_frags_b_false ep st fs : push_frags_b false ep st fs = push_frags ep st fs.
Proof. reflexivity. Qed.

Lemma push_b_false st r : push_b false st r = push st r.
Proof. reflexivity. Qed.

Lemma arrive_b_false st r : arrive_b false st r = arrive st r.
Proof. reflexivity. Qed.

Theorem run_b_false rs : forall st, run_b false st rs = run st rs.
Proof.
  induction rs as [|r rs IH]; intro st; [reflexivity|]. cbn [run_b run]. rewrite arrive_b_false.
  destruct (arrive st r) as [[[st1 res] ms] p]. now rewrite IH.
Qed.

(* once the (leaked) count is at the limit nothing is stored or delivered any more *)
Lemma count_full_rejects_forever_b early st rs : max_count <= count st -> run_b early st rs = (st, [], false).
Proof.
  intro H. induction rs as [|r rs IH]; [reflexivity|]. cbn [run_b]. unfold arrive_b, push_b.
  destruct (max_size <=? record_size r); [cbn [orb]; now rewrite IH|].
  destruct r as [x|x|ep fs tail]; [cbn [orb]; now rewrite IH|cbn [orb negb]; now rewrite IH|].
  replace (max_count <=? count st) with true by (symmetry; apply N.leb_le; exact H).
  rewrite orb_true_r. cbn [orb]. now rewrite IH.
Qed.

(* witness: every record of the history is an honest fragment of the sender's MTU-1 partition of a
   2-byte message (the second fragment, 1000 times: one stored, 999 plain duplicates).  With the charge
   before the duplicate check the buffer then HOLDS one fragment of one byte, yet refuses the honest
   first fragment, and nothing is ever delivered again, whatever arrives.  The code as it is (early =
   false) delivers the message. *)
Theorem charge_before_duplicate_check_refuted :
  split_msg 1 dup_msg = [dup_first; dup_second] /\
  Forall (fun r => r = RHs 0 [dup_second] 0) dup_history /\
  let st := fst (fst (run_b true init dup_history)) in
  snd (fst (run_b true init dup_history)) = [] /\
  stored_count (cache st) = 1 /\ stored_size (cache st) = 1 /\ count st = 1000 /\
  push_b true st (RHs 0 [dup_first] 0) = (st, (false, false, true)) /\
  (forall rs, run_b true st rs = (st, [], false)) /\
  map strip (snd (fst (run init (dup_history ++ [RHs 0 [dup_first] 0])))) = [hstrip dup_msg].
Proof.
  split; [reflexivity|]. split; [unfold dup_history; apply Forall_forall; intros r Hr; now apply repeat_spec in Hr|].
  cbv zeta.
  assert (E : run_b true init dup_history =
              (mkSt [(0, mkEntry [mkS dup_second 0] 1 2)] 0 1000 1000, [], false)) by (vm_compute; reflexivity).
  rewrite E. cbn [fst snd]. split; [reflexivity|]. split; [reflexivity|]. split; [reflexivity|]. split; [reflexivity|].
  split; [vm_compute; reflexivity|]. split; [|vm_compute; reflexivity].
  intro rs. apply count_full_rejects_forever_b. vm_compute. discriminate.
Qed.
