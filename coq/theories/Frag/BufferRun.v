(* Executable comparison functions used by the C12 correspondence check (cases written by
   checks/c12.py from the Go harness output are evaluated with vm_compute). *)
From DtlsV Require Import Lib.Bytes Gen.Generated Frag.Split Frag.Buffer.
Open Scope N_scope.

(* run-length helper so that long constant stretches stay small in the case files *)
Definition rep (b n : N) : bytes := repeat b (N.to_nat n).

(* handshake.Header.Marshal: type u8, length u24, message_seq u16, fragment_offset u24,
   fragment_length u24 (PutBigEndianUint24 keeps the low 24 bits, as be_enc 3 does) *)
Definition enc_hdr (ty l s off fl : N) : bytes :=
  (ty mod 256) :: be_enc 3 l ++ be_enc 2 s ++ be_enc 3 off ++ be_enc 3 fl.

Definition enc_frag (f : frag) : bytes :=
  enc_hdr (f_ty f) (f_len f) (f_seq f) (f_off f) (f_flen f) ++ f_data f.

(* what Pop returns: `append(rawHeader, rawMessage...)` with FragmentOffset 0, FragmentLength = Length *)
Definition enc_pop (p : popped) : bytes :=
  enc_hdr (p_ty p) (p_len p) (p_seq p) 0 (p_len p) ++ p_body p.

Fixpoint list_eqb {A} (eqb : A -> A -> bool) (a b : list A) : bool :=
  match a, b with
  | [], [] => true
  | x :: a', y :: b' => eqb x y && list_eqb eqb a' b'
  | _, _ => false
  end.

(* ---- sender: (mtu, type, Header.Length, message_seq, body, emitted fragments as bytes) ---- *)
Definition split_case := (N * N * N * N * bytes * list bytes)%type.
Definition split_case_ok (c : split_case) : bool :=
  let '(mtu, ty, l, s, body, out) := c in
  list_eqb bytes_eqb (map enc_frag (split mtu ty l s body)) out.

(* ---- receiver ---- *)
Inductive hop :=
| HArrive (r : record)      (* Push, then - as conn.go does - Pop until nil when err == nil && isHandshake *)
| HAdvance (m : N).         (* AdvanceTo(m) *)

(* observed per op: Push result (isHandshake, isRetransmit, err<>nil), popped (bytes, epoch) list,
   "a Pop panicked", then the private counters after the op: totalBufferSize, totalFragmentCount,
   currentMessageSequenceNumber *)
Definition obs := (bool * bool * bool * list (bytes * N) * bool * N * N * N)%type.
Definition buf_case := list (hop * obs).

Definition pop_eqb (a b : bytes * N) : bool := bytes_eqb (fst a) (fst b) && (snd a =? snd b).

Fixpoint run_ok (st : state) (c : buf_case) : bool :=
  match c with
  | [] => true
  | (HAdvance m, (_, _, _, _, _, sz, cn, cu)) :: c' =>
      let st' := advance_to st m in
      (size st' =? sz) && (count st' =? cn) && (cur st' =? cu) && run_ok st' c'
  | (HArrive r, (ish, retr, err, pops, pn, sz, cn, cu)) :: c' =>
      let '(st', (ish', retr', err'), ms, pn') := arrive st r in
      Bool.eqb ish ish' && Bool.eqb retr retr' && Bool.eqb err err' &&
      list_eqb pop_eqb (map (fun p => (enc_pop p, p_epoch p)) ms) pops &&
      Bool.eqb pn pn' && (size st' =? sz) && (count st' =? cn) && (cur st' =? cu) &&
      run_ok st' c'
  end.

Definition buf_case_ok (c : buf_case) : bool := run_ok init c.

Fixpoint mismatches_from {A} (ok : A -> bool) (i : N) (l : list A) : list N :=
  match l with
  | [] => []
  | c :: l' => if ok c then mismatches_from ok (i + 1) l' else i :: mismatches_from ok (i + 1) l'
  end.
Definition mismatches {A} (ok : A -> bool) (l : list A) : list N := mismatches_from ok 0 l.
