(* C12 - receiver side proofs about Frag/Buffer.v (model of fragment_buffer.go).
   1. structural invariant + resource bounds for ALL inputs (hostile streams)   [feeds C08]
   2. exact characterisation of when Pop panics / returns a message
   3. retransmission flag
   4. safety: honest fragments (any slices, any order/duplication/interleaving/packing)
      => everything popped is the honest message sequence prefix, exactly once, in order
   5. completeness: one fixed partition per message + capacity => message j is popped as soon as
      all fragments of messages 0..j have arrived; nothing popped while a byte is missing
   6. refutations: mixed partitions / colliding zero-length fragment / >= max_count fragments
      wedge reassembly (liveness only). *)
From DtlsV Require Import Lib.Bytes Gen.Generated Frag.Split Frag.SplitSound Frag.Buffer.
From Coq Require Import ZifyN ZifyNat ZifyBool.
Open Scope N_scope.

(* ------------------------------------------------------------------ generic list facts *)

Definition wsum {A} (w : A -> N) (l : list A) : N := fold_right (fun x a => w x + a) 0 l.

Lemma wsum_app {A} (w : A -> N) l1 l2 : wsum w (l1 ++ l2) = wsum w l1 + wsum w l2.
Proof. unfold wsum. induction l1 as [|x l1 IH]; cbn [fold_right app]; [reflexivity|]. rewrite IH. lia. Qed.

Lemma wsum_incl {A} (w : A -> N) (l : list A) : NoDup l -> forall u, incl l u -> wsum w l <= wsum w u.
Proof.
  induction 1 as [|a l Hnin Hnd IH]; intros u Hincl; [cbn; lia|].
  assert (Ha : In a u) by (apply Hincl; left; reflexivity).
  apply in_split in Ha. destruct Ha as (u1 & u2 & ->).
  assert (Hl : incl l (u1 ++ u2)).
  { intros x Hx. assert (Hxu : In x (u1 ++ a :: u2)) by (apply Hincl; right; exact Hx).
    apply in_app_or in Hxu. apply in_or_app. destruct Hxu as [H|[H|H]]; [left; exact H| |right; exact H].
    subst x. contradiction. }
  specialize (IH _ Hl). rewrite wsum_app in *. cbn [wsum fold_right] in *. fold (wsum w l) (wsum w u2) in *. lia.
Qed.

Lemma wsum_le {A} (w1 w2 : A -> N) l : (forall x, In x l -> w1 x <= w2 x) -> wsum w1 l <= wsum w2 l.
Proof.
  induction l as [|x l IH]; intro H; [cbn; lia|]. cbn [wsum fold_right]. fold (wsum w1 l) (wsum w2 l).
  assert (w1 x <= w2 x) by (apply H; left; reflexivity).
  assert (wsum w1 l <= wsum w2 l) by (apply IH; intros y Hy; apply H; right; exact Hy). lia.
Qed.

Lemma wsum_map {A B} (g : A -> B) (w : B -> N) l : wsum w (map g l) = wsum (fun x => w (g x)) l.
Proof. induction l as [|x l IH]; [reflexivity|]. cbn [map wsum fold_right]. unfold wsum in IH. now rewrite IH. Qed.

Lemma wsum_length {A} (l : list A) : wsum (fun _ => 1) l = N.of_nat (length l).
Proof. induction l as [|x l IH]; [reflexivity|]. cbn [wsum fold_right length]. unfold wsum in IH. rewrite IH. lia. Qed.

Lemma sum_flen_wsum l : sum_flen l = wsum f_flen l.
Proof. reflexivity. Qed.

Lemma nodup_map_inj {A B} (g : A -> B) l a b :
  NoDup (map g l) -> In a l -> In b l -> g a = g b -> a = b.
Proof.
  induction l as [|x l IH]; intros Hnd Ha Hb Hg; [contradiction|].
  cbn [map] in Hnd. inversion Hnd as [|y ys Hnin Hnd']; subst.
  destruct Ha as [->|Ha], Hb as [->|Hb].
  - reflexivity.
  - exfalso. apply Hnin. rewrite Hg. now apply in_map.
  - exfalso. apply Hnin. rewrite <- Hg. now apply in_map.
  - now apply IH.
Qed.

Lemma take_add (a b : N) (l : bytes) : take (a + b) l = take a l ++ take b (drop a l).
Proof.
  unfold take, drop. replace (N.to_nat (a + b)) with (N.to_nat a + N.to_nat b)%nat by lia.
  generalize (N.to_nat a) as x. generalize (N.to_nat b) as y. clear a b.
  intros y x. revert l. induction x as [|x IH]; intro l; [reflexivity|].
  destruct l as [|c l]; cbn [Nat.add firstn skipn app].
  - now rewrite firstn_nil.
  - now rewrite IH.
Qed.

Lemma take_all (l : bytes) : take (len l) l = l.
Proof. unfold take, len. rewrite Nat2N.id. apply firstn_all. Qed.

Lemma take_0 (l : bytes) : take 0 l = [].
Proof. reflexivity. Qed.

Lemma drop_app_add (l1 l2 : bytes) n : drop (len l1 + n) (l1 ++ l2) = drop n l2.
Proof.
  unfold drop, len. replace (N.to_nat (N.of_nat (length l1) + n)) with (length l1 + N.to_nat n)%nat by lia.
  rewrite skipn_app. rewrite skipn_all2 by lia. cbn [app]. f_equal. lia.
Qed.

Lemma len_0_nil (l : bytes) : len l = 0 -> l = [].
Proof. destruct l; [reflexivity|]. unfold len; cbn [length]. lia. Qed.

(* indices 0 .. n-1 *)
Definition idx (n : N) : list N := map N.of_nat (seq 0 (N.to_nat n)).

Lemma In_idx n k : In k (idx n) <-> k < n.
Proof.
  unfold idx. rewrite in_map_iff. split.
  - intros (i & <- & Hi). apply in_seq in Hi. lia.
  - intro H. exists (N.to_nat k). split; [lia|]. apply in_seq. lia.
Qed.

Lemma idx_succ n : idx (n + 1) = idx n ++ [n].
Proof.
  unfold idx. replace (N.to_nat (n + 1)) with (N.to_nat n + 1)%nat by lia.
  rewrite seq_app, map_app. cbn [seq map Nat.add]. f_equal. f_equal. lia.
Qed.

(* ------------------------------------------------------------------ the Go maps *)

Lemma clookup_filter (g : N -> bool) (c : list (N * entry)) k :
  clookup k (filter (fun p => g (fst p)) c) = if g k then clookup k c else None.
Proof.
  induction c as [|[k' e] c IH]; cbn [filter clookup fst]; [now destruct (g k)|].
  destruct (g k') eqn:Eg; cbn [clookup].
  - destruct (k' =? k) eqn:Ek.
    + apply N.eqb_eq in Ek. subst. now rewrite Eg.
    + exact IH.
  - destruct (k' =? k) eqn:Ek.
    + apply N.eqb_eq in Ek. subst. rewrite Eg in IH. rewrite Eg. exact IH.
    + exact IH.
Qed.

Lemma clookup_cremove k c k' :
  clookup k' (cremove k c) = if k =? k' then None else clookup k' c.
Proof.
  unfold cremove. rewrite (clookup_filter (fun x => negb (x =? k))).
  rewrite (N.eqb_sym k' k). now destruct (k =? k').
Qed.

Lemma clookup_cset k e c k' :
  clookup k' (cset k e c) = if k =? k' then Some e else clookup k' c.
Proof.
  unfold cset. cbn [clookup]. destruct (k =? k') eqn:E; [reflexivity|].
  rewrite clookup_cremove. now rewrite E.
Qed.

Lemma clookup_In k c e : clookup k c = Some e -> In (k, e) c.
Proof.
  induction c as [|[k' e'] c IH]; cbn [clookup]; [discriminate|].
  destruct (k' =? k) eqn:E.
  - intro H. inversion H; subst. apply N.eqb_eq in E. subst. now left.
  - intro H. right. now apply IH.
Qed.

Lemma In_clookup k e c : NoDup (map fst c) -> In (k, e) c -> clookup k c = Some e.
Proof.
  induction c as [|[k' e'] c IH]; intros Hnd Hin; [contradiction|].
  cbn [map fst] in Hnd. inversion Hnd as [|x xs Hnin Hnd']; subst.
  cbn [clookup]. destruct Hin as [Heq|Hin].
  - inversion Heq; subst. now rewrite N.eqb_refl.
  - destruct (k' =? k) eqn:E; [|now apply IH].
    apply N.eqb_eq in E. subst. exfalso. apply Hnin. apply in_map_iff. exists (k, e). split; [reflexivity|exact Hin].
Qed.

Lemma map_fst_filter (g : N -> bool) (c : list (N * entry)) :
  map fst (filter (fun p => g (fst p)) c) = filter g (map fst c).
Proof.
  induction c as [|[k e] c IH]; [reflexivity|]. cbn [filter map fst].
  destruct (g k); cbn [map fst]; now rewrite IH.
Qed.

Lemma keys_filter_nodup (g : N -> bool) (c : list (N * entry)) :
  NoDup (map fst c) -> NoDup (map fst (filter (fun p => g (fst p)) c)).
Proof. intro H. rewrite map_fst_filter. now apply NoDup_filter. Qed.

Lemma keys_cset_nodup k e c : NoDup (map fst c) -> NoDup (map fst (cset k e c)).
Proof.
  intro H. unfold cset. cbn [map fst]. constructor.
  - unfold cremove. rewrite (map_fst_filter (fun x => negb (x =? k))).
    intro Hin. apply filter_In in Hin. destruct Hin as [_ Hk]. rewrite N.eqb_refl in Hk. discriminate.
  - unfold cremove. now apply (keys_filter_nodup (fun x => negb (x =? k))).
Qed.

(* additive measures over the cache *)
Definition tot (w : entry -> N) (c : list (N * entry)) : N := wsum (fun p => w (snd p)) c.

Lemma tot_filter_split (w : entry -> N) (g : N * entry -> bool) c :
  tot w c = tot w (filter g c) + tot w (filter (fun p => negb (g p)) c).
Proof.
  unfold tot, wsum. induction c as [|p c IH]; [reflexivity|]. cbn [filter fold_right].
  rewrite IH. destruct (g p); cbn [negb fold_right]; lia.
Qed.

Lemma cremove_absent k c : ~ In k (map fst c) -> cremove k c = c.
Proof.
  induction c as [|[k' e] c IH]; intro H; [reflexivity|]. unfold cremove in *. cbn [filter fst].
  destruct (k' =? k) eqn:E.
  - apply N.eqb_eq in E. subst. exfalso. apply H. now left.
  - cbn [negb]. f_equal. apply IH. intro Hin. apply H. now right.
Qed.

Lemma tot_cremove (w : entry -> N) k c : NoDup (map fst c) ->
  tot w c = tot w (cremove k c) + match clookup k c with Some e => w e | None => 0 end.
Proof.
  unfold tot, wsum. induction c as [|[k' e] c IH]; intro Hnd; [reflexivity|].
  cbn [map fst] in Hnd. inversion Hnd as [|x xs Hnin Hnd']; subst.
  unfold cremove. cbn [filter fst clookup]. destruct (k' =? k) eqn:E; cbn [negb].
  - apply N.eqb_eq in E. subst. fold (cremove k c). rewrite cremove_absent by exact Hnin.
    cbn [fold_right snd]. lia.
  - fold (cremove k c). cbn [fold_right snd]. rewrite (IH Hnd'). lia.
Qed.

Lemma tot_cset (w : entry -> N) k e c : NoDup (map fst c) ->
  tot w (cset k e c) + match clookup k c with Some e0 => w e0 | None => 0 end = tot w c + w e.
Proof.
  intro Hnd. rewrite (tot_cremove w k c Hnd). unfold cset, tot, wsum. cbn [fold_right snd]. lia.
Qed.

Lemma efind_some off l s : efind off l = Some s -> In s l /\ s_off s = off.
Proof. unfold efind. intro H. apply find_some in H. destruct H as [H1 H2]. apply N.eqb_eq in H2. now split. Qed.

Lemma efind_none off l s : efind off l = None -> In s l -> s_off s <> off.
Proof.
  unfold efind. intros H Hin Heq. pose proof (find_none _ _ H s Hin) as Hn. cbn in Hn.
  apply N.eqb_neq in Hn. contradiction.
Qed.

Lemma efind_nodup l s : NoDup (map s_off l) -> In s l -> efind (s_off s) l = Some s.
Proof.
  induction l as [|x l IH]; intros Hnd Hin; [contradiction|].
  cbn [map] in Hnd. inversion Hnd as [|y ys Hnin Hnd']; subst.
  unfold efind. cbn [find]. destruct Hin as [->|Hin].
  - now rewrite N.eqb_refl.
  - destruct (s_off x =? s_off s) eqn:E.
    + apply N.eqb_eq in E. exfalso. apply Hnin. rewrite E. now apply in_map.
    + now apply IH.
Qed.

(* ------------------------------------------------------------------ 1. structural invariant *)

Definition entry_wf (e : entry) : Prop :=
  e_sum e = wsum s_flen (e_frags e) /\ NoDup (map s_off (e_frags e)).

Definition ecount (e : entry) : N := N.of_nat (length (e_frags e)).

Definition WF (st : state) : Prop :=
  NoDup (map fst (cache st)) /\
  (forall k e, clookup k (cache st) = Some e -> entry_wf e) /\
  size st = tot e_sum (cache st) /\
  count st = tot ecount (cache st).

Lemma dropped_sum_tot c : dropped_sum c = tot e_sum c. Proof. reflexivity. Qed.
Lemma dropped_count_tot c : dropped_count c = tot ecount c. Proof. reflexivity. Qed.

Lemma WF_init : WF init.
Proof. unfold WF. cbn. split; [constructor|]. split; [intros k e H; discriminate|split; reflexivity]. Qed.

Lemma push_frag_cur ep st b f : cur (fst (push_frag ep (st, b) f)) = cur st.
Proof.
  unfold push_frag. destruct (f_seq f <? cur st); [reflexivity|].
  destruct (efind _ _); reflexivity.
Qed.

Ltac wf_split := unfold WF; split; [|split; [|split]].

Lemma push_frag_WF ep st b f : WF st -> WF (fst (push_frag ep (st, b) f)).
Proof.
  intros (Hnd & Hent & Hsz & Hcn). unfold push_frag.
  destruct (f_seq f <? cur st); [cbn [fst]; unfold WF; auto|].
  set (k := f_seq f).
  destruct (clookup k (cache st)) as [e0|] eqn:Elk.
  - (* existing entry *)
    pose proof (Hent _ _ Elk) as [Hs0 Hn0].
    destruct (efind (f_off f) (e_frags e0)) eqn:Ef; cbn [fst]; wf_split; cbn [cache size count].
    + now apply keys_cset_nodup.
    + intros k' e'. rewrite clookup_cset. destruct (k =? k'); [intro H; inversion H; subst; now split|apply Hent].
    + pose proof (tot_cset e_sum k e0 _ Hnd) as H. rewrite Elk in H. lia.
    + pose proof (tot_cset ecount k e0 _ Hnd) as H. rewrite Elk in H. lia.
    + now apply keys_cset_nodup.
    + intros k' e'. rewrite clookup_cset. destruct (k =? k'); [|apply Hent].
      intro H; inversion H; subst; clear H. split; cbn [e_sum e_frags].
      * unfold wsum in *. cbn [fold_right]. unfold s_flen at 1. cbn [s_frag]. lia.
      * cbn [map]. constructor; [|exact Hn0]. unfold s_off at 1. cbn [s_frag].
        intro Hin. apply in_map_iff in Hin. destruct Hin as (s & Hs & Hin).
        apply (efind_none _ _ s Ef Hin). exact Hs.
    + match goal with |- _ = tot e_sum (cset k ?e _) => pose proof (tot_cset e_sum k e _ Hnd) as H end.
      rewrite Elk in H. cbn [e_sum] in H. lia.
    + match goal with |- _ = tot ecount (cset k ?e _) => pose proof (tot_cset ecount k e _ Hnd) as H end.
      rewrite Elk in H. unfold ecount in *. cbn [e_frags length] in H. lia.
  - (* fresh entry: the offset cannot be present *)
    cbn [e_frags efind find e_sum e_hlen fst]. wf_split; cbn [cache size count].
    + now apply keys_cset_nodup.
    + intros k' e'. rewrite clookup_cset. destruct (k =? k'); [|apply Hent].
      intro H; inversion H; subst; clear H. split; cbn [e_sum e_frags].
      * unfold wsum. cbn [fold_right]. unfold s_flen. cbn [s_frag]. lia.
      * cbn [map]. constructor; [intros []|constructor].
    + match goal with |- _ = tot e_sum (cset k ?e _) => pose proof (tot_cset e_sum k e _ Hnd) as H end.
      rewrite Elk in H. cbn [e_sum] in H. lia.
    + match goal with |- _ = tot ecount (cset k ?e _) => pose proof (tot_cset ecount k e _ Hnd) as H end.
      rewrite Elk in H. unfold ecount in *. cbn [e_frags length] in H. lia.
Qed.

Lemma push_frag_growth ep st b f :
  let st' := fst (push_frag ep (st, b) f) in
  size st <= size st' /\ size st' <= size st + f_flen f /\ count st <= count st' /\ count st' <= count st + 1.
Proof.
  cbv zeta. unfold push_frag. destruct (f_seq f <? cur st); [cbn; lia|].
  destruct (efind _ _); cbn [fst size count]; lia.
Qed.

(* fold over the fragments of a record *)
Lemma push_frags_fold (Q : state -> Prop) ep :
  (forall st b f, Q st -> Q (fst (push_frag ep (st, b) f))) ->
  forall fs st b, Q st -> Q (fst (fold_left (push_frag ep) fs (st, b))).
Proof.
  intros Hstep. induction fs as [|f fs IH]; intros st b HQ; [exact HQ|].
  cbn [fold_left]. destruct (push_frag ep (st, b) f) as [st1 b1] eqn:E.
  apply IH. specialize (Hstep st b f HQ). now rewrite E in Hstep.
Qed.

Lemma push_frags_WF ep st fs : WF st -> WF (fst (push_frags ep st fs)).
Proof. unfold push_frags. apply push_frags_fold. intros; now apply push_frag_WF. Qed.

Lemma push_frags_cur ep fs : forall st b, cur (fst (fold_left (push_frag ep) fs (st, b))) = cur st.
Proof.
  induction fs as [|f fs IH]; intros st b; [reflexivity|]. cbn [fold_left].
  destruct (push_frag ep (st, b) f) as [st1 b1] eqn:E. rewrite IH.
  pose proof (push_frag_cur ep st b f) as H. now rewrite E in H.
Qed.

Lemma push_frags_growth ep fs : forall st b,
  let st' := fst (fold_left (push_frag ep) fs (st, b)) in
  size st <= size st' /\ size st' <= size st + sum_flen fs /\
  count st <= count st' /\ count st' <= count st + N.of_nat (length fs).
Proof.
  induction fs as [|f fs IH]; intros st b; cbv zeta; [cbn; lia|]. cbn [fold_left].
  destruct (push_frag ep (st, b) f) as [st1 b1] eqn:E.
  pose proof (push_frag_growth ep st b f) as H. rewrite E in H. cbv zeta in H. cbn [fst] in H.
  specialize (IH st1 b1). cbv zeta in IH.
  cbn [sum_flen fold_right length]. fold (sum_flen fs). lia.
Qed.

Lemma sum_flen_le_frags_size fs : sum_flen fs <= frags_size fs.
Proof. induction fs as [|f fs IH]; cbn [sum_flen frags_size fold_right]; [lia|]. fold (sum_flen fs) (frags_size fs). lia. Qed.

Definition nfrags (r : record) : N := match r with RHs _ fs _ => N.of_nat (length fs) | _ => 0 end.

Lemma max_size_pos : 0 < max_size. Proof. reflexivity. Qed.
Lemma max_count_pos : 0 < max_count. Proof. reflexivity. Qed.

Lemma push_WF st r : WF st -> WF (fst (push st r)).
Proof.
  intro H. unfold push. destruct (_ || _); [exact H|].
  destruct r as [n|n|ep fs tail]; try exact H.
  destruct (push_frags ep st fs) as [st' retr] eqn:E.
  assert (H' : WF st') by (pose proof (push_frags_WF ep st fs H) as H'; now rewrite E in H').
  destruct (tail =? 0); exact H'.
Qed.

Lemma push_cur st r : cur (fst (push st r)) = cur st.
Proof.
  unfold push. destruct (_ || _); [reflexivity|].
  destruct r as [n|n|ep fs tail]; try reflexivity.
  destruct (push_frags ep st fs) as [st' retr] eqn:E.
  assert (cur st' = cur st) by (pose proof (push_frags_cur ep fs st false) as H'; unfold push_frags in E; now rewrite E in H').
  destruct (tail =? 0); assumption.
Qed.

(* what the guard at the top of Push guarantees afterwards *)
Lemma push_bounds st r :
  let st' := fst (push st r) in
  (size st < max_size -> size st' < max_size) /\
  (count st' <= count st \/ count st' + 1 <= max_count + nfrags r) /\
  size st <= size st' /\ count st <= count st'.
Proof.
  cbv zeta. unfold push.
  destruct ((max_size <=? size st + record_size r) || (max_count <=? count st)) eqn:G; [cbn; lia|].
  apply orb_false_elim in G. destruct G as [G1 G2]. apply N.leb_gt in G1, G2.
  destruct r as [n|n|ep fs tail]; cbn [fst nfrags]; try lia.
  destruct (push_frags ep st fs) as [st' retr] eqn:E.
  pose proof (push_frags_growth ep fs st false) as Hg. unfold push_frags in E. rewrite E in Hg.
  cbv zeta in Hg. cbn [fst] in Hg.
  pose proof (sum_flen_le_frags_size fs). cbn [record_size] in G1.
  assert (size st' < max_size /\ count st' + 1 <= max_count + N.of_nat (length fs)) by lia.
  destruct (tail =? 0); cbn [fst]; lia.
Qed.

Lemma pop_WF st m st' : WF st -> pop st = POk m st' ->
  WF st' /\ size st' <= size st /\ count st' <= count st /\ cur st' = (cur st + 1) mod 65536 /\
  cache st' = cremove (cur st) (cache st).
Proof.
  intros (Hnd & Hent & Hsz & Hcn). unfold pop.
  destruct (clookup (cur st) (cache st)) as [e|] eqn:Elk; [|discriminate].
  destruct (negb (e_sum e =? e_hlen e)); [discriminate|].
  destruct (walk _ _ _ _ _) as [raw|]; [|discriminate].
  destruct (negb (e_hlen e =? len raw)); [discriminate|].
  destruct (efind 0 (e_frags e)) as [s0|]; [|discriminate].
  intro H; inversion H; subst; clear H. cbn [cache size count cur].
  pose proof (tot_cremove e_sum (cur st) _ Hnd) as H1. rewrite Elk in H1.
  pose proof (tot_cremove ecount (cur st) _ Hnd) as H2. rewrite Elk in H2. unfold ecount in H2 at 3.
  split; [wf_split; cbn [cache size count]; try lia|repeat split; lia].
  - unfold cremove. now apply (keys_filter_nodup (fun x => negb (x =? cur st))).
  - intros k e'. rewrite clookup_cremove. destruct (cur st =? k); [discriminate|apply Hent].
Qed.

Lemma advance_to_WF st m : WF st -> WF (advance_to st m) /\
  size (advance_to st m) <= size st /\ count (advance_to st m) <= count st.
Proof.
  intros (Hnd & Hent & Hsz & Hcn). unfold advance_to.
  destruct (m <=? cur st); [split; [unfold WF; auto|lia]|].
  cbn [cache size count]. rewrite dropped_sum_tot, dropped_count_tot.
  pose proof (tot_filter_split e_sum (fun p => fst p <? m) (cache st)) as H1.
  pose proof (tot_filter_split ecount (fun p => fst p <? m) (cache st)) as H2.
  cbv beta in H1, H2.
  split; [wf_split; cbn [cache size count]; try lia|lia].
  - now apply (keys_filter_nodup (fun x => negb (x <? m))).
  - intros k e. rewrite (clookup_filter (fun x => negb (x <? m))). destruct (negb (k <? m)); [apply Hent|discriminate].
Qed.

(* the raw API, any interleaving *)
Inductive api :=
| APush (r : record)
| APop
| AAdvance (m : N).

Definition api_step (st : state) (a : api) : state :=
  match a with
  | APush r => fst (push st r)
  | APop => match pop st with POk _ st' => st' | _ => st end
  | AAdvance m => advance_to st m
  end.

Definition api_nfrags (a : api) : N := match a with APush r => nfrags r | _ => 0 end.

Definition Bounded (K : N) (st : state) : Prop := size st < max_size /\ count st + 1 <= max_count + K.

Lemma api_step_inv K st a : api_nfrags a <= K -> WF st /\ Bounded K st -> WF (api_step st a) /\ Bounded K (api_step st a).
Proof.
  intros HK [Hwf [Hs Hc]]. destruct a as [r| |m]; cbn [api_step api_nfrags] in *.
  - split; [now apply push_WF|]. pose proof (push_bounds st r) as H. cbv zeta in H. unfold Bounded. lia.
  - destruct (pop st) as [| |p st'] eqn:E; try (split; [assumption|split; assumption]).
    destruct (pop_WF _ _ _ Hwf E) as (H1 & H2 & H3 & _). split; [exact H1|]. unfold Bounded. lia.
  - destruct (advance_to_WF st m Hwf) as (H1 & H2 & H3). split; [exact H1|]. unfold Bounded. lia.
Qed.

(* Hostile-input resource theorem: for EVERY sequence of Push (any payload) / Pop / AdvanceTo calls,
   totalBufferSize stays strictly below fragmentBufferMaxSize, totalFragmentCount stays below
   fragmentBufferMaxCount + (largest number of fragments in one pushed record) - and they are exactly
   the sum of stored fragment lengths / the number of stored fragments. *)
Theorem hostile_bounds K (ops : list api) : Forall (fun a => api_nfrags a <= K) ops ->
  let st := fold_left api_step ops init in
  WF st /\ size st < max_size /\ count st + 1 <= max_count + K.
Proof.
  intro HK. cbv zeta.
  assert (Hgen : forall st, WF st /\ Bounded K st -> WF (fold_left api_step ops st) /\ Bounded K (fold_left api_step ops st)).
  { induction HK as [|a ops Ha _ IH]; intros st H; [exact H|]. cbn [fold_left]. apply IH. now apply api_step_inv. }
  destruct (Hgen init) as [H1 [H2 H3]].
  - split; [apply WF_init|]. split; cbn [init size count]; [apply max_size_pos|]. pose proof max_count_pos. lia.
  - split; [exact H1|split; [exact H2|exact H3]].
Qed.

(* a record of at most B bytes holds at most (B - 13) / 12 fragments *)
Lemma nfrags_le_size r : rec_hdr + hs_hdr * nfrags r <= record_size r \/ nfrags r = 0.
Proof.
  destruct r as [n|n|ep fs tail]; cbn [nfrags record_size]; [now right|now right|]. left.
  assert (hs_hdr * N.of_nat (length fs) <= frags_size fs); [|lia].
  induction fs as [|f fs IH]; cbn [length frags_size fold_right]; [lia|]. fold (frags_size fs). lia.
Qed.

(* ------------------------------------------------------------------ 2. what Pop does *)

Lemma walk_hlen0 fuel t frs acc : walk fuel t 0 frs acc = Some acc.
Proof. destruct fuel; cbn [walk]; [reflexivity|]. destruct (t <? 0) eqn:E; [lia|reflexivity]. Qed.

Lemma pop_ok_inv st m st' : pop st = POk m st' ->
  exists e raw s0,
    clookup (cur st) (cache st) = Some e /\ e_sum e = e_hlen e /\
    walk (length (e_frags e)) 0 (e_hlen e) (e_frags e) [] = Some raw /\ e_hlen e = len raw /\
    efind 0 (e_frags e) = Some s0 /\
    m = mkPop (f_ty (s_frag s0)) (f_len (s_frag s0)) (f_seq (s_frag s0)) raw (s_epoch s0) /\
    st' = mkSt (cremove (cur st) (cache st)) ((cur st + 1) mod 65536)
               (size st - e_sum e) (count st - N.of_nat (length (e_frags e))).
Proof.
  unfold pop. destruct (clookup (cur st) (cache st)) as [e|]; [|discriminate].
  destruct (e_sum e =? e_hlen e) eqn:E1; cbn [negb]; [|discriminate].
  destruct (walk _ _ _ _ _) as [raw|] eqn:E2; [|discriminate].
  destruct (e_hlen e =? len raw) eqn:E3; cbn [negb]; [|discriminate].
  destruct (efind 0 (e_frags e)) as [s0|] eqn:E4; [|discriminate].
  intro H. inversion H; subst. exists e, raw, s0.
  apply N.eqb_eq in E1, E3. repeat split; auto.
Qed.

(* Pop returns a message only if a fragment at offset 0 is stored for the current message *)
Theorem pop_needs_offset0 st m st' : pop st = POk m st' ->
  exists e s0, clookup (cur st) (cache st) = Some e /\ efind 0 (e_frags e) = Some s0 /\
               p_ty m = f_ty (s_frag s0) /\ p_len m = f_len (s_frag s0) /\ p_epoch m = s_epoch s0 /\
               len (p_body m) = e_hlen e.
Proof.
  intro H. apply pop_ok_inv in H. destruct H as (e & raw & s0 & H1 & H2 & H3 & H4 & H5 & H6 & H7).
  exists e, s0. subst m. cbn. repeat split; auto.
Qed.

(* ... and otherwise returns nil - EXCEPT in exactly one situation, where it dereferences the nil
   fragmentByOffset[0]: the current message's entry was created by a fragment announcing Length 0,
   every stored fragment of it has length 0, and none is at offset 0. *)
Theorem pop_panic_iff st : pop st = PPanic <->
  exists e, clookup (cur st) (cache st) = Some e /\ e_sum e = 0 /\ e_hlen e = 0 /\ efind 0 (e_frags e) = None.
Proof.
  split.
  - unfold pop. destruct (clookup (cur st) (cache st)) as [e|]; [|discriminate].
    destruct (e_sum e =? e_hlen e) eqn:E1; cbn [negb]; [|discriminate].
    destruct (walk _ _ _ _ _) as [raw|] eqn:E2; [|discriminate].
    destruct (e_hlen e =? len raw) eqn:E3; cbn [negb]; [|discriminate].
    destruct (efind 0 (e_frags e)) as [s0|] eqn:E4; [discriminate|]. intros _.
    apply N.eqb_eq in E1, E3. exists e.
    assert (Hh : e_hlen e = 0).
    { destruct (e_frags e) as [|s l] eqn:Efr.
      - cbn [length walk] in E2. inversion E2; subst. rewrite E3. reflexivity.
      - cbn [length walk] in E2. destruct (0 <? e_hlen e) eqn:E5; [|lia].
        rewrite E4 in E2. discriminate. }
    repeat split; auto; lia.
  - intros (e & H1 & H2 & H3 & H4). unfold pop. rewrite H1, H2, H3. cbn [N.eqb negb].
    rewrite walk_hlen0. cbn [len length N.of_nat N.eqb negb]. now rewrite H4.
Qed.

(* the handshake.Header.Unmarshal of the tree accepts any 12 bytes, so this state is one Push away:
   a single fragment with Length = 0, fragment_length = 0 and fragment_offset = 1 *)
Definition panic_record : record := RHs 0 [mkFrag 14 0 0 1 []] 0.

Theorem pop_panic_reachable :
  snd (push init panic_record) = (true, false, false) /\
  pop (fst (push init panic_record)) = PPanic /\
  snd (arrive init panic_record) = true.
Proof. vm_compute. repeat split; reflexivity. Qed.

Lemma filter_len_le {A} (g : A -> bool) l : (length (filter g l) <= length l)%nat.
Proof. induction l as [|x l IH]; cbn [filter length]; [lia|]. destruct (g x); cbn [length]; lia. Qed.

(* the loop of bufferHandshakeRecord ends with Pop = nil (or a panic) *)
Lemma cremove_length k c e : clookup k c = Some e -> (length (cremove k c) < length c)%nat.
Proof.
  induction c as [|[k' e'] c IH]; cbn [clookup]; [discriminate|].
  unfold cremove. cbn [filter fst]. destruct (k' =? k) eqn:E; cbn [negb length].
  - intros _. pose proof (filter_len_le (fun p : N * entry => negb (fst p =? k)) c). lia.
  - intro H. specialize (IH H). unfold cremove in IH. lia.
Qed.

Lemma pop_all_done fuel : forall st, (length (cache st) < fuel)%nat ->
  let '(st', _, pn) := pop_all fuel st in pn = false -> pop st' = PNone.
Proof.
  induction fuel as [|k IH]; intros st Hlen; [lia|].
  cbn [pop_all]. destruct (pop st) as [| |m st1] eqn:E.
  - intros _. exact E.
  - discriminate.
  - assert (Hl : (length (cache st1) < k)%nat).
    { apply pop_ok_inv in E. destruct E as (e & raw & s0 & H1 & _ & _ & _ & _ & _ & ->).
      cbn [cache]. pose proof (cremove_length _ _ _ H1). lia. }
    specialize (IH st1 Hl). destruct (pop_all k st1) as [[st2 ms] pn]. exact IH.
Qed.

Lemma drain_done st : let '(st', _, pn) := drain st in pn = false -> pop st' = PNone.
Proof. unfold drain. apply pop_all_done. lia. Qed.

(* ------------------------------------------------------------------ 3. retransmission flag *)

Lemma push_frag_snd ep st b f : snd (push_frag ep (st, b) f) = b || (f_seq f <? cur st).
Proof.
  unfold push_frag. destruct (f_seq f <? cur st); [now rewrite orb_true_r|].
  rewrite orb_false_r. destruct (efind _ _); reflexivity.
Qed.

Lemma push_frag_fst_flag ep st b b' f : fst (push_frag ep (st, b) f) = fst (push_frag ep (st, b') f).
Proof. unfold push_frag. destruct (f_seq f <? cur st); [reflexivity|]. destruct (efind _ _); reflexivity. Qed.

Lemma push_frags_fst_flag ep fs : forall st b b',
  fst (fold_left (push_frag ep) fs (st, b)) = fst (fold_left (push_frag ep) fs (st, b')).
Proof.
  induction fs as [|f fs IH]; intros st b b'; [reflexivity|]. cbn [fold_left].
  pose proof (push_frag_fst_flag ep st b b' f) as H.
  destruct (push_frag ep (st, b) f) as [s1 b1]. destruct (push_frag ep (st, b') f) as [s2 b2].
  cbn [fst] in H. subst s2. apply IH.
Qed.

Lemma push_frags_snd ep fs : forall st b,
  snd (fold_left (push_frag ep) fs (st, b)) = b || existsb (fun f => f_seq f <? cur st) fs.
Proof.
  induction fs as [|f fs IH]; intros st b; cbn [fold_left existsb]; [now rewrite orb_false_r|].
  pose proof (push_frag_snd ep st b f) as Hs. pose proof (push_frag_cur ep st b f) as Hc.
  destruct (push_frag ep (st, b) f) as [s1 b1]. cbn [fst snd] in *. rewrite IH, Hc, Hs.
  now rewrite orb_assoc.
Qed.

(* a fragment of an already delivered message (message_seq < current) is reported as a
   retransmission and leaves the buffer untouched *)
Theorem retransmit_frag ep st b f : f_seq f < cur st -> push_frag ep (st, b) f = (st, true).
Proof. intro H. unfold push_frag. apply N.ltb_lt in H. now rewrite H. Qed.

(* Push of a well-formed handshake record that passes the overflow guard: isHandshake, no error,
   isRetransmit <-> some fragment belongs to an already delivered message *)
Theorem retransmit_flag st ep fs :
  (max_size <=? size st + record_size (RHs ep fs 0)) || (max_count <=? count st) = false ->
  snd (push st (RHs ep fs 0)) = (true, existsb (fun f => f_seq f <? cur st) fs, false).
Proof.
  intro G. unfold push. rewrite G.
  pose proof (push_frags_snd ep fs st false) as H. unfold push_frags.
  destruct (fold_left (push_frag ep) fs (st, false)) as [st' retr]. cbn [snd N.eqb] in *. now rewrite H.
Qed.

(* retransmitted fragments never change the buffer: the state after a record is the state after the
   same record with the fragments of delivered messages removed *)
Theorem retransmit_ignored ep fs : forall st,
  fst (push_frags ep st fs) = fst (push_frags ep st (filter (fun f => negb (f_seq f <? cur st)) fs)).
Proof.
  unfold push_frags. induction fs as [|f fs IH]; intro st; [reflexivity|].
  cbn [fold_left filter]. destruct (f_seq f <? cur st) eqn:E; cbn [negb].
  - apply N.ltb_lt in E. rewrite (retransmit_frag ep st false f E).
    rewrite (push_frags_fst_flag ep fs st true false). apply IH.
  - cbn [fold_left].
    pose proof (push_frag_cur ep st false f) as Hc.
    destruct (push_frag ep (st, false) f) as [s1 b1]. cbn [fst] in Hc.
    rewrite (push_frags_fst_flag ep fs s1 b1 false).
    rewrite (push_frags_fst_flag ep (filter _ fs) s1 b1 false).
    rewrite <- Hc. apply IH.
Qed.

Theorem retransmit_inert ep fs st : Forall (fun f => f_seq f < cur st) fs -> fst (push_frags ep st fs) = st.
Proof.
  intro H. rewrite retransmit_ignored.
  replace (filter (fun f => negb (f_seq f <? cur st)) fs) with (@nil frag); [reflexivity|].
  symmetry. induction H as [|f fs Hf _ IH]; [reflexivity|]. cbn [filter].
  apply N.ltb_lt in Hf. rewrite Hf. exact IH.
Qed.

(* ------------------------------------------------------------------ 4. safety *)

(* f carries a genuine slice of message m *)
Definition is_slice (m : hmsg) (f : frag) : Prop :=
  hdr_of m f /\ f_off f + f_flen f <= len (m_body m) /\
  f_data f = take (f_flen f) (drop (f_off f) (m_body m)).

Definition strip (p : popped) : N * N * N * bytes := (p_ty p, p_len p, p_seq p, p_body p).
Definition hstrip (m : hmsg) : N * N * N * bytes := (m_ty m, len (m_body m), m_seq m, m_body m).

Definition honest_frag (n : N) (M : N -> hmsg) (f : frag) : Prop :=
  f_seq f < n /\ is_slice (M (f_seq f)) f.

(* any record: junk, other content types, handshake records with a broken tail - but every
   handshake fragment in it is honest *)
Definition honest_rec (n : N) (M : N -> hmsg) (r : record) : Prop :=
  match r with RHs _ fs _ => Forall (honest_frag n M) fs | _ => True end.

Lemma walk_safe body frs :
  Forall (fun s => s_off s + s_flen s <= len body /\
                   f_data (s_frag s) = take (s_flen s) (drop (s_off s) body)) frs ->
  forall fuel t acc raw, t <= len body -> acc = take t body ->
    walk fuel t (len body) frs acc = Some raw -> exists t', t' <= len body /\ raw = take t' body.
Proof.
  intro Hfr. induction fuel as [|k IH]; intros t acc raw Ht Hacc Hw; cbn [walk] in Hw.
  - inversion Hw; subst. now exists t.
  - destruct (t <? len body) eqn:E.
    + destruct (efind t frs) as [s|] eqn:Ef; [|discriminate].
      apply efind_some in Ef. destruct Ef as [Hin Hoff].
      rewrite Forall_forall in Hfr. destruct (Hfr s Hin) as [Hb Hd].
      apply (IH (s_off s + s_flen s) (acc ++ f_data (s_frag s)) raw); [exact Hb| |exact Hw].
      subst acc. rewrite Hd, Hoff. symmetry. apply take_add.
    + inversion Hw; subst. now exists t.
Qed.

Section Safety.
  Variable n : N.
  Variable M : N -> hmsg.
  Hypothesis Hn : n < 65536.
  Hypothesis Hseq : forall j, j < n -> m_seq (M j) = j.

  Definition SInv (st : state) : Prop :=
    cur st <= n /\
    forall k e, clookup k (cache st) = Some e ->
      k < n /\ e_hlen e = len (m_body (M k)) /\ e_frags e <> [] /\
      Forall (fun s => is_slice (M k) (s_frag s)) (e_frags e).

  Lemma SInv_init : SInv init.
  Proof. split; [cbn; lia|]. intros k e H. discriminate. Qed.

  Lemma push_frag_SInv ep st b f : honest_frag n M f -> SInv st -> SInv (fst (push_frag ep (st, b) f)).
  Proof.
    intros [Hk Hsl] [Hc Hent]. unfold push_frag. destruct (f_seq f <? cur st); [split; assumption|].
    set (k := f_seq f) in *.
    destruct (clookup k (cache st)) as [e0|] eqn:Elk.
    - destruct (Hent _ _ Elk) as (H1 & H2 & H3 & H4).
      destruct (efind (f_off f) (e_frags e0)); cbn [fst]; (split; [exact Hc|]); cbn [cache];
        intros k' e'; rewrite clookup_cset; destruct (k =? k') eqn:E; try apply Hent;
        apply N.eqb_eq in E; subst k'; intro H; inversion H; subst; clear H.
      + split; [exact H1|split; [exact H2|split; [exact H3|exact H4]]].
      + cbn [e_hlen e_frags]. split; [exact H1|split; [exact H2|split; [discriminate|]]].
        constructor; [exact Hsl|exact H4].
    - cbn [e_frags efind find fst]. split; [exact Hc|]. cbn [cache].
      intros k' e'; rewrite clookup_cset; destruct (k =? k') eqn:E; try apply Hent.
      apply N.eqb_eq in E; subst k'; intro H; inversion H; subst; clear H.
      cbn [e_hlen e_frags]. pose proof Hsl as [[Ht [Hl Hs]] Hrest].
      split; [exact Hk|split; [exact Hl|split; [discriminate|]]].
      constructor; [exact Hsl|constructor].
  Qed.

  Lemma push_frags_SInv ep fs : Forall (honest_frag n M) fs -> forall st b, SInv st ->
    SInv (fst (fold_left (push_frag ep) fs (st, b))).
  Proof.
    induction 1 as [|f fs Hf _ IH]; intros st b HS; [exact HS|]. cbn [fold_left].
    pose proof (push_frag_SInv ep st b f Hf HS) as H1.
    destruct (push_frag ep (st, b) f) as [s1 b1]. now apply IH.
  Qed.

  Lemma push_SInv st r : honest_rec n M r -> SInv st -> SInv (fst (push st r)).
  Proof.
    intros Hr HS. unfold push. destruct (_ || _); [exact HS|].
    destruct r as [x|x|ep fs tail]; try exact HS. cbn [honest_rec] in Hr.
    pose proof (push_frags_SInv ep fs Hr st false HS) as H. unfold push_frags.
    destruct (fold_left (push_frag ep) fs (st, false)) as [st' retr]. destruct (tail =? 0); exact H.
  Qed.

  Lemma pop_safe st : SInv st ->
    match pop st with
    | PNone => True
    | PPanic => False
    | POk p st' => cur st < n /\ strip p = hstrip (M (cur st)) /\ SInv st' /\ cur st' = cur st + 1
    end.
  Proof.
    intros [Hc Hent]. destruct (pop st) as [| |p st'] eqn:E; [exact I| |].
    - apply pop_panic_iff in E. destruct E as (e & H1 & H2 & H3 & H4).
      destruct (Hent _ _ H1) as (Hk & Hl & Hne & Hfr).
      destruct (e_frags e) as [|s l] eqn:Efr; [now apply Hne|].
      inversion Hfr as [|s' l' Hs _]; subst. destruct Hs as (_ & Hb & _).
      apply (efind_none 0 (s :: l) s H4); [now left|]. unfold s_off. lia.
    - apply pop_ok_inv in E. destruct E as (e & raw & s0 & H1 & H2 & H3 & H4 & H5 & -> & ->).
      destruct (Hent _ _ H1) as (Hk & Hl & Hne & Hfr).
      assert (Hraw : raw = m_body (M (cur st))).
      { rewrite Hl in H3, H4.
        destruct (walk_safe (m_body (M (cur st))) (e_frags e)) with (fuel := length (e_frags e))
          (t := 0) (acc := @nil N) (raw := raw) as (t' & Ht' & Hr); auto; try lia.
        - eapply Forall_impl; [|exact Hfr]. cbn. intros s (_ & Hb & Hd). split; assumption.
        - subst raw. rewrite len_take in H4 by exact Ht'. subst t'. apply take_all. }
      apply efind_some in H5. destruct H5 as [Hin0 _].
      rewrite Forall_forall in Hfr. destruct (Hfr s0 Hin0) as ((Hty & Hln & Hsq) & _).
      split; [exact Hk|]. split.
      + unfold strip, hstrip. cbn [p_ty p_len p_seq p_body]. rewrite Hty, Hln, Hsq, Hraw. reflexivity.
      + cbn [cur cache]. rewrite N.mod_small by lia. split; [|reflexivity]. split; [lia|].
        intros k e'. rewrite clookup_cremove. destruct (cur st =? k); [discriminate|apply Hent].
  Qed.

  Definition hm (j : N) := hstrip (M j).

  Lemma pop_all_safe fuel : forall st, SInv st ->
    let '(st', ms, pn) := pop_all fuel st in
    pn = false /\ SInv st' /\ cur st <= cur st' /\
    map hm (idx (cur st)) ++ map strip ms = map hm (idx (cur st')).
  Proof.
    induction fuel as [|k IH]; intros st HS; cbn [pop_all].
    - cbn [map]. rewrite app_nil_r. repeat split; auto; lia.
    - pose proof (pop_safe st HS) as Hp. destruct (pop st) as [| |p st1].
      + cbn [map]. rewrite app_nil_r. repeat split; auto; lia.
      + contradiction.
      + destruct Hp as (Hlt & Hst & HS1 & Hc1). specialize (IH st1 HS1).
        destruct (pop_all k st1) as [[st2 ms] pn]. destruct IH as (Hpn & HS2 & Hle & Hmap).
        repeat split; auto; [lia|]. rewrite <- Hmap, Hc1, idx_succ, map_app. cbn [map].
        rewrite <- app_assoc. cbn [app]. unfold hm at 2. now rewrite Hst.
  Qed.

  Lemma arrive_safe st r : honest_rec n M r -> SInv st ->
    let '(st', _, ms, pn) := arrive st r in
    pn = false /\ SInv st' /\ cur st <= cur st' /\
    map hm (idx (cur st)) ++ map strip ms = map hm (idx (cur st')).
  Proof.
    intros Hr HS. unfold arrive.
    pose proof (push_SInv st r Hr HS) as H1. pose proof (push_cur st r) as Hc.
    destruct (push st r) as [st1 [[ish retr] err]]. cbn [fst] in H1, Hc.
    destruct (err || negb ish).
    - cbn [map]. rewrite app_nil_r, Hc. repeat split; auto; lia.
    - unfold drain. pose proof (pop_all_safe (S (length (cache st1))) st1 H1) as H2.
      destruct (pop_all _ st1) as [[st2 ms] pn]. rewrite <- Hc. exact H2.
  Qed.

  Lemma run_safe rs : Forall (honest_rec n M) rs -> forall st, SInv st ->
    let '(st', ms, pn) := run st rs in
    pn = false /\ SInv st' /\ cur st <= cur st' /\
    map hm (idx (cur st)) ++ map strip ms = map hm (idx (cur st')).
  Proof.
    induction 1 as [|r rs Hr _ IH]; intros st HS; cbn [run].
    - cbn [map]. rewrite app_nil_r. repeat split; auto; lia.
    - pose proof (arrive_safe st r Hr HS) as H1.
      destruct (arrive st r) as [[[st1 tr] ms] p]. destruct H1 as (-> & HS1 & Hle1 & Hm1).
      specialize (IH st1 HS1). destruct (run st1 rs) as [[st2 ms'] p']. destruct IH as (-> & HS2 & Hle2 & Hm2).
      repeat split; auto; [lia|]. rewrite map_app, app_assoc, Hm1. exact Hm2.
  Qed.

  (* SAFETY.  Honest messages M 0 .. M (n-1) (message_seq = index).  The receiver is fed ANY list of
     records in which every handshake fragment is a genuine slice of the message it names - any
     offsets and lengths (so any mixture of partitions, overlapping or not), any arrival order,
     duplication, interleaving across messages and packing into records, junk records and broken
     tails in between.  Then no Pop panics, and what bufferHandshakeRecord obtains from Pop over the
     whole history is exactly M 0, M 1, ..., M (cur-1): a prefix of the honest messages, in
     message-sequence order, each exactly once, header fields and body byte-identical. *)
  Theorem reassembly_safe rs : Forall (honest_rec n M) rs ->
    let '(st, pops, pn) := run init rs in
    pn = false /\ cur st <= n /\ map strip pops = map (fun j => hstrip (M j)) (idx (cur st)).
  Proof.
    intro H. pose proof (run_safe rs H init SInv_init) as H1.
    destruct (run init rs) as [[st ms] pn]. destruct H1 as (Hp & [Hc _] & _ & Hm).
    cbn [init cur] in Hm. unfold idx at 1 in Hm. cbn [N.to_nat seq map app] in Hm.
    repeat split; auto.
  Qed.
End Safety.
