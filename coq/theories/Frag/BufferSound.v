(* C12 - receiver side proofs about Frag/Buffer.v (model of fragment_buffer.go).
   1. structural invariant + resource bounds for ALL inputs (hostile streams)   [feeds C08]
   2. when Pop returns a message; Pop never panics (for all hostile histories)
   3. retransmission flag
   4. safety: honest fragments (any slices, any order/duplication/interleaving/packing)
      => everything popped is the honest message sequence prefix, exactly once, in order
   5. completeness: one fixed partition per message + capacity => message j is popped as soon as
      all fragments of messages 0..j have arrived; nothing popped while a byte is missing
   6. liveness boundaries: mixed partitions / >= max_count fragments wedge reassembly (outside the
      premises of 5); empty fragments inside a message are inert; regression corpus. *)
From DtlsV Require Import Lib.Bytes Gen.Generated Frag.Split Frag.SplitSound Frag.Buffer.
From Coq Require Import ZifyN ZifyNat ZifyBool.
Open Scope N_scope.

(* ------------------------------------------------------------------ generic list facts *)

Definition wsum {A} (w : A -> N) (l : list A) : N := fold_right (fun x a => w x + a) 0 l.

Lemma wsum_app {A} (w : A -> N) l1 l2 : wsum w (l1 ++ l2) = wsum w l1 + wsum w l2.
Proof. unfold wsum. induction l1 as [|x l1 IH]; cbn [fold_right app]; [reflexivity|]. rewrite IH. lia. Qed.

Lemma wsum_incl {A} (w : A -> N) (l : list A) : NoDup l -> forall u, incl l u -> wsum w l <= wsum w u.
Proof.
  induction 1 as [|a l Hnin Hnd IH]; intros u Hincl; [cbn; lia|].
  assert (Ha : In a u) by (apply Hincl; left; reflexivity).
  apply in_split in Ha. destruct Ha as (u1 & u2 & ->).
  assert (Hl : incl l (u1 ++ u2)).
  { intros x Hx. assert (Hxu : In x (u1 ++ a :: u2)) by (apply Hincl; right; exact Hx).
    apply in_app_or in Hxu. apply in_or_app. destruct Hxu as [H|[H|H]]; [left; exact H| |right; exact H].
    subst x. contradiction. }
  specialize (IH _ Hl). rewrite wsum_app in *. cbn [wsum fold_right] in *. fold (wsum w l) (wsum w u2) in *. lia.
Qed.

Lemma wsum_le {A} (w1 w2 : A -> N) l : (forall x, In x l -> w1 x <= w2 x) -> wsum w1 l <= wsum w2 l.
Proof.
  induction l as [|x l IH]; intro H; [cbn; lia|]. cbn [wsum fold_right]. fold (wsum w1 l) (wsum w2 l).
  assert (w1 x <= w2 x) by (apply H; left; reflexivity).
  assert (wsum w1 l <= wsum w2 l) by (apply IH; intros y Hy; apply H; right; exact Hy). lia.
Qed.

Lemma wsum_map {A B} (g : A -> B) (w : B -> N) l : wsum w (map g l) = wsum (fun x => w (g x)) l.
Proof. induction l as [|x l IH]; [reflexivity|]. cbn [map wsum fold_right]. unfold wsum in IH. now rewrite IH. Qed.

Lemma wsum_length {A} (l : list A) : wsum (fun _ => 1) l = N.of_nat (length l).
Proof. induction l as [|x l IH]; [reflexivity|]. cbn [wsum fold_right length]. unfold wsum in IH. rewrite IH. lia. Qed.

Lemma sum_flen_wsum l : sum_flen l = wsum f_flen l.
Proof. reflexivity. Qed.

Lemma nodup_map_inj {A B} (g : A -> B) l a b :
  NoDup (map g l) -> In a l -> In b l -> g a = g b -> a = b.
Proof.
  induction l as [|x l IH]; intros Hnd Ha Hb Hg; [contradiction|].
  cbn [map] in Hnd. inversion Hnd as [|y ys Hnin Hnd']; subst.
  destruct Ha as [->|Ha], Hb as [->|Hb].
  - reflexivity.
  - exfalso. apply Hnin. rewrite Hg. now apply in_map.
  - exfalso. apply Hnin. rewrite <- Hg. now apply in_map.
  - now apply IH.
Qed.

Lemma take_add (a b : N) (l : bytes) : take (a + b) l = take a l ++ take b (drop a l).
Proof.
  unfold take, drop. replace (N.to_nat (a + b)) with (N.to_nat a + N.to_nat b)%nat by lia.
  generalize (N.to_nat a) as x. generalize (N.to_nat b) as y. clear a b.
  intros y x. revert l. induction x as [|x IH]; intro l; [reflexivity|].
  destruct l as [|c l]; cbn [Nat.add firstn skipn app].
  - now rewrite firstn_nil.
  - now rewrite IH.
Qed.

Lemma take_all (l : bytes) : take (len l) l = l.
Proof. unfold take, len. rewrite Nat2N.id. apply firstn_all. Qed.

Lemma take_0 (l : bytes) : take 0 l = [].
Proof. reflexivity. Qed.

Lemma drop_app_add (l1 l2 : bytes) n : drop (len l1 + n) (l1 ++ l2) = drop n l2.
Proof.
  unfold drop, len. replace (N.to_nat (N.of_nat (length l1) + n)) with (length l1 + N.to_nat n)%nat by lia.
  rewrite skipn_app. rewrite skipn_all2 by lia. cbn [app]. f_equal. lia.
Qed.

Lemma len_0_nil (l : bytes) : len l = 0 -> l = [].
Proof. destruct l; [reflexivity|]. unfold len; cbn [length]. lia. Qed.

(* indices 0 .. n-1 *)
Definition idx (n : N) : list N := map N.of_nat (seq 0 (N.to_nat n)).

Lemma In_idx n k : In k (idx n) <-> k < n.
Proof.
  unfold idx. rewrite in_map_iff. split.
  - intros (i & <- & Hi). apply in_seq in Hi. lia.
  - intro H. exists (N.to_nat k). split; [lia|]. apply in_seq. lia.
Qed.

Lemma idx_succ n : idx (n + 1) = idx n ++ [n].
Proof.
  unfold idx. replace (N.to_nat (n + 1)) with (N.to_nat n + 1)%nat by lia.
  rewrite seq_app, map_app. cbn [seq map Nat.add]. f_equal. f_equal. lia.
Qed.

(* ------------------------------------------------------------------ the Go maps *)

Lemma clookup_filter (g : N -> bool) (c : list (N * entry)) k :
  clookup k (filter (fun p => g (fst p)) c) = if g k then clookup k c else None.
Proof.
  induction c as [|[k' e] c IH]; cbn [filter clookup fst]; [now destruct (g k)|].
  destruct (g k') eqn:Eg; cbn [clookup].
  - destruct (k' =? k) eqn:Ek.
    + apply N.eqb_eq in Ek. subst. now rewrite Eg.
    + exact IH.
  - destruct (k' =? k) eqn:Ek.
    + apply N.eqb_eq in Ek. subst. rewrite Eg in IH. rewrite Eg. exact IH.
    + exact IH.
Qed.

Lemma clookup_cremove k c k' :
  clookup k' (cremove k c) = if k =? k' then None else clookup k' c.
Proof.
  unfold cremove. rewrite (clookup_filter (fun x => negb (x =? k))).
  rewrite (N.eqb_sym k' k). now destruct (k =? k').
Qed.

Lemma clookup_cset k e c k' :
  clookup k' (cset k e c) = if k =? k' then Some e else clookup k' c.
Proof.
  unfold cset. cbn [clookup]. destruct (k =? k') eqn:E; [reflexivity|].
  rewrite clookup_cremove. now rewrite E.
Qed.

Lemma clookup_In k c e : clookup k c = Some e -> In (k, e) c.
Proof.
  induction c as [|[k' e'] c IH]; cbn [clookup]; [discriminate|].
  destruct (k' =? k) eqn:E.
  - intro H. inversion H; subst. apply N.eqb_eq in E. subst. now left.
  - intro H. right. now apply IH.
Qed.

Lemma In_clookup k e c : NoDup (map fst c) -> In (k, e) c -> clookup k c = Some e.
Proof.
  induction c as [|[k' e'] c IH]; intros Hnd Hin; [contradiction|].
  cbn [map fst] in Hnd. inversion Hnd as [|x xs Hnin Hnd']; subst.
  cbn [clookup]. destruct Hin as [Heq|Hin].
  - inversion Heq; subst. now rewrite N.eqb_refl.
  - destruct (k' =? k) eqn:E; [|now apply IH].
    apply N.eqb_eq in E. subst. exfalso. apply Hnin. apply in_map_iff. exists (k, e). split; [reflexivity|exact Hin].
Qed.

Lemma map_fst_filter (g : N -> bool) (c : list (N * entry)) :
  map fst (filter (fun p => g (fst p)) c) = filter g (map fst c).
Proof.
  induction c as [|[k e] c IH]; [reflexivity|]. cbn [filter map fst].
  destruct (g k); cbn [map fst]; now rewrite IH.
Qed.

Lemma keys_filter_nodup (g : N -> bool) (c : list (N * entry)) :
  NoDup (map fst c) -> NoDup (map fst (filter (fun p => g (fst p)) c)).
Proof. intro H. rewrite map_fst_filter. now apply NoDup_filter. Qed.

Lemma keys_cset_nodup k e c : NoDup (map fst c) -> NoDup (map fst (cset k e c)).
Proof.
  intro H. unfold cset. cbn [map fst]. constructor.
  - unfold cremove. rewrite (map_fst_filter (fun x => negb (x =? k))).
    intro Hin. apply filter_In in Hin. destruct Hin as [_ Hk]. rewrite N.eqb_refl in Hk. discriminate.
  - unfold cremove. now apply (keys_filter_nodup (fun x => negb (x =? k))).
Qed.

(* additive measures over the cache *)
Definition tot (w : entry -> N) (c : list (N * entry)) : N := wsum (fun p => w (snd p)) c.

Lemma tot_filter_split (w : entry -> N) (g : N * entry -> bool) c :
  tot w c = tot w (filter g c) + tot w (filter (fun p => negb (g p)) c).
Proof.
  unfold tot, wsum. induction c as [|p c IH]; [reflexivity|]. cbn [filter fold_right].
  rewrite IH. destruct (g p); cbn [negb fold_right]; lia.
Qed.

Lemma cremove_absent k c : ~ In k (map fst c) -> cremove k c = c.
Proof.
  induction c as [|[k' e] c IH]; intro H; [reflexivity|]. unfold cremove in *. cbn [filter fst].
  destruct (k' =? k) eqn:E.
  - apply N.eqb_eq in E. subst. exfalso. apply H. now left.
  - cbn [negb]. f_equal. apply IH. intro Hin. apply H. now right.
Qed.

Lemma tot_cremove (w : entry -> N) k c : NoDup (map fst c) ->
  tot w c = tot w (cremove k c) + match clookup k c with Some e => w e | None => 0 end.
Proof.
  unfold tot, wsum. induction c as [|[k' e] c IH]; intro Hnd; [reflexivity|].
  cbn [map fst] in Hnd. inversion Hnd as [|x xs Hnin Hnd']; subst.
  unfold cremove. cbn [filter fst clookup]. destruct (k' =? k) eqn:E; cbn [negb].
  - apply N.eqb_eq in E. subst. fold (cremove k c). rewrite cremove_absent by exact Hnin.
    cbn [fold_right snd]. lia.
  - fold (cremove k c). cbn [fold_right snd]. rewrite (IH Hnd'). lia.
Qed.

Lemma tot_cset (w : entry -> N) k e c : NoDup (map fst c) ->
  tot w (cset k e c) + match clookup k c with Some e0 => w e0 | None => 0 end = tot w c + w e.
Proof.
  intro Hnd. rewrite (tot_cremove w k c Hnd). unfold cset, tot, wsum. cbn [fold_right snd]. lia.
Qed.

Lemma efind_some off l s : efind off l = Some s -> In s l /\ s_off s = off.
Proof. unfold efind. intro H. apply find_some in H. destruct H as [H1 H2]. apply N.eqb_eq in H2. now split. Qed.

Lemma efind_none off l s : efind off l = None -> In s l -> s_off s <> off.
Proof.
  unfold efind. intros H Hin Heq. pose proof (find_none _ _ H s Hin) as Hn. cbn in Hn.
  apply N.eqb_neq in Hn. contradiction.
Qed.

Lemma efind_nodup l s : NoDup (map s_off l) -> In s l -> efind (s_off s) l = Some s.
Proof.
  induction l as [|x l IH]; intros Hnd Hin; [contradiction|].
  cbn [map] in Hnd. inversion Hnd as [|y ys Hnin Hnd']; subst.
  unfold efind. cbn [find]. destruct Hin as [->|Hin].
  - now rewrite N.eqb_refl.
  - destruct (s_off x =? s_off s) eqn:E.
    + apply N.eqb_eq in E. exfalso. apply Hnin. rewrite E. now apply in_map.
    + now apply IH.
Qed.

(* ------------------------------------------------------------------ 1. structural invariant *)

Definition entry_wf (e : entry) : Prop :=
  e_sum e = wsum s_flen (e_frags e) /\ NoDup (map s_off (e_frags e)).

Definition ecount (e : entry) : N := N.of_nat (length (e_frags e)).

Definition WF (st : state) : Prop :=
  NoDup (map fst (cache st)) /\
  (forall k e, clookup k (cache st) = Some e -> entry_wf e) /\
  size st = tot e_sum (cache st) /\
  count st = tot ecount (cache st).

Lemma dropped_sum_tot c : dropped_sum c = tot e_sum c. Proof. reflexivity. Qed.
Lemma dropped_count_tot c : dropped_count c = tot ecount c. Proof. reflexivity. Qed.

Lemma WF_init : WF init.
Proof. unfold WF. cbn. split; [constructor|]. split; [intros k e H; discriminate|split; reflexivity]. Qed.

Lemma push_frag_cur ep st b f : cur (fst (push_frag ep (st, b) f)) = cur st.
Proof.
  unfold push_frag. destruct (f_seq f <? cur st); [reflexivity|].
  destruct (skip_empty f); [reflexivity|].
  destruct (efind _ _); reflexivity.
Qed.

Ltac wf_split := unfold WF; split; [|split; [|split]].

Lemma push_frag_WF ep st b f : WF st -> WF (fst (push_frag ep (st, b) f)).
Proof.
  intros (Hnd & Hent & Hsz & Hcn). unfold push_frag.
  destruct (f_seq f <? cur st); [cbn [fst]; unfold WF; auto|].
  destruct (skip_empty f); [cbn [fst]; unfold WF; auto|].
  set (k := f_seq f).
  destruct (clookup k (cache st)) as [e0|] eqn:Elk.
  - (* existing entry *)
    pose proof (Hent _ _ Elk) as [Hs0 Hn0].
    destruct (efind (f_off f) (e_frags e0)) eqn:Ef; cbn [fst]; wf_split; cbn [cache size count].
    + now apply keys_cset_nodup.
    + intros k' e'. rewrite clookup_cset. destruct (k =? k'); [intro H; inversion H; subst; now split|apply Hent].
    + pose proof (tot_cset e_sum k e0 _ Hnd) as H. rewrite Elk in H. lia.
    + pose proof (tot_cset ecount k e0 _ Hnd) as H. rewrite Elk in H. lia.
    + now apply keys_cset_nodup.
    + intros k' e'. rewrite clookup_cset. destruct (k =? k'); [|apply Hent].
      intro H; inversion H; subst; clear H. split; cbn [e_sum e_frags].
      * unfold wsum in *. cbn [fold_right]. unfold s_flen at 1. cbn [s_frag]. lia.
      * cbn [map]. constructor; [|exact Hn0]. unfold s_off at 1. cbn [s_frag].
        intro Hin. apply in_map_iff in Hin. destruct Hin as (s & Hs & Hin).
        apply (efind_none _ _ s Ef Hin). exact Hs.
    + match goal with |- _ = tot e_sum (cset k ?e _) => pose proof (tot_cset e_sum k e _ Hnd) as H end.
      rewrite Elk in H. cbn [e_sum] in H. lia.
    + match goal with |- _ = tot ecount (cset k ?e _) => pose proof (tot_cset ecount k e _ Hnd) as H end.
      rewrite Elk in H. unfold ecount in *. cbn [e_frags length] in H. lia.
  - (* fresh entry: the offset cannot be present *)
    cbn [e_frags efind find e_sum e_hlen fst]. wf_split; cbn [cache size count].
    + now apply keys_cset_nodup.
    + intros k' e'. rewrite clookup_cset. destruct (k =? k'); [|apply Hent].
      intro H; inversion H; subst; clear H. split; cbn [e_sum e_frags].
      * unfold wsum. cbn [fold_right]. unfold s_flen. cbn [s_frag]. lia.
      * cbn [map]. constructor; [intros []|constructor].
    + match goal with |- _ = tot e_sum (cset k ?e _) => pose proof (tot_cset e_sum k e _ Hnd) as H end.
      rewrite Elk in H. cbn [e_sum] in H. lia.
    + match goal with |- _ = tot ecount (cset k ?e _) => pose proof (tot_cset ecount k e _ Hnd) as H end.
      rewrite Elk in H. unfold ecount in *. cbn [e_frags length] in H. lia.
Qed.

Lemma push_frag_growth ep st b f :
  let st' := fst (push_frag ep (st, b) f) in
  size st <= size st' /\ size st' <= size st + f_flen f /\ count st <= count st' /\ count st' <= count st + 1.
Proof.
  cbv zeta. unfold push_frag. destruct (f_seq f <? cur st); [cbn; lia|].
  destruct (skip_empty f); [cbn; lia|].
  destruct (efind _ _); cbn [fst size count]; lia.
Qed.

(* fold over the fragments of a record *)
Lemma push_frags_fold (Q : state -> Prop) ep :
  (forall st b f, Q st -> Q (fst (push_frag ep (st, b) f))) ->
  forall fs st b, Q st -> Q (fst (fold_left (push_frag ep) fs (st, b))).
Proof.
  intros Hstep. induction fs as [|f fs IH]; intros st b HQ; [exact HQ|].
  cbn [fold_left]. destruct (push_frag ep (st, b) f) as [st1 b1] eqn:E.
  apply IH. specialize (Hstep st b f HQ). now rewrite E in Hstep.
Qed.

Lemma push_frags_WF ep st fs : WF st -> WF (fst (push_frags ep st fs)).
Proof. unfold push_frags. apply push_frags_fold. intros; now apply push_frag_WF. Qed.

Lemma push_frags_cur ep fs : forall st b, cur (fst (fold_left (push_frag ep) fs (st, b))) = cur st.
Proof.
  induction fs as [|f fs IH]; intros st b; [reflexivity|]. cbn [fold_left].
  destruct (push_frag ep (st, b) f) as [st1 b1] eqn:E. rewrite IH.
  pose proof (push_frag_cur ep st b f) as H. now rewrite E in H.
Qed.

Lemma push_frags_growth ep fs : forall st b,
  let st' := fst (fold_left (push_frag ep) fs (st, b)) in
  size st <= size st' /\ size st' <= size st + sum_flen fs /\
  count st <= count st' /\ count st' <= count st + N.of_nat (length fs).
Proof.
  induction fs as [|f fs IH]; intros st b; cbv zeta; [cbn; lia|]. cbn [fold_left].
  destruct (push_frag ep (st, b) f) as [st1 b1] eqn:E.
  pose proof (push_frag_growth ep st b f) as H. rewrite E in H. cbv zeta in H. cbn [fst] in H.
  specialize (IH st1 b1). cbv zeta in IH.
  cbn [sum_flen fold_right length]. fold (sum_flen fs). lia.
Qed.

Lemma sum_flen_le_frags_size fs : sum_flen fs <= frags_size fs.
Proof. induction fs as [|f fs IH]; cbn [sum_flen frags_size fold_right]; [lia|]. fold (sum_flen fs) (frags_size fs). lia. Qed.

Definition nfrags (r : record) : N := match r with RHs _ fs _ => N.of_nat (length fs) | _ => 0 end.

Lemma max_size_pos : 0 < max_size. Proof. reflexivity. Qed.
Lemma max_count_pos : 0 < max_count. Proof. reflexivity. Qed.

(* Push either leaves the state alone or - for a handshake record that passes both limit checks -
   runs the fragment loop *)
Lemma push_fst_cases st r :
  fst (push st r) = st \/
  exists ep fs tail, r = RHs ep fs tail /\
    (max_size <=? size st + record_size r) || (max_count <=? count st) = false /\
    fst (push st r) = fst (push_frags ep st fs).
Proof.
  unfold push. destruct (max_size <=? record_size r); [now left|].
  destruct r as [n|n|ep fs tail]; [now left|now left|].
  destruct (_ || _) eqn:G; [now left|]. right. exists ep, fs, tail. split; [reflexivity|]. split; [reflexivity|].
  destruct (push_frags ep st fs) as [st' retr]. destruct (tail =? 0); reflexivity.
Qed.

Lemma push_WF st r : WF st -> WF (fst (push st r)).
Proof.
  intro H. destruct (push_fst_cases st r) as [->|(ep & fs & tail & _ & _ & ->)]; [exact H|].
  now apply push_frags_WF.
Qed.

Lemma push_cur st r : cur (fst (push st r)) = cur st.
Proof.
  destruct (push_fst_cases st r) as [->|(ep & fs & tail & _ & _ & ->)]; [reflexivity|].
  apply (push_frags_cur ep fs st false).
Qed.

(* what the guard at the top of Push guarantees afterwards *)
Lemma push_bounds st r :
  let st' := fst (push st r) in
  (size st < max_size -> size st' < max_size) /\
  (count st' <= count st \/ count st' + 1 <= max_count + nfrags r) /\
  size st <= size st' /\ count st <= count st'.
Proof.
  cbv zeta. destruct (push_fst_cases st r) as [->|(ep & fs & tail & -> & G & ->)]; [lia|].
  apply orb_false_elim in G. destruct G as [G1 G2]. apply N.leb_gt in G1, G2.
  pose proof (push_frags_growth ep fs st false) as Hg. cbv zeta in Hg. fold (push_frags ep st fs) in Hg.
  pose proof (sum_flen_le_frags_size fs). cbn [record_size nfrags] in *. lia.
Qed.

Lemma pop_WF st m st' : WF st -> pop st = POk m st' ->
  WF st' /\ size st' <= size st /\ count st' <= count st /\ cur st' = (cur st + 1) mod 65536 /\
  cache st' = cremove (cur st) (cache st).
Proof.
  intros (Hnd & Hent & Hsz & Hcn). unfold pop.
  destruct (clookup (cur st) (cache st)) as [e|] eqn:Elk; [|discriminate].
  destruct (negb (e_sum e =? e_hlen e)); [discriminate|].
  destruct (walk _ _ _ _ _) as [raw|]; [|discriminate].
  destruct (negb (e_hlen e =? len raw)); [discriminate|].
  destruct (efind 0 (e_frags e)) as [s0|]; [|discriminate].
  intro H; inversion H; subst; clear H. cbn [cache size count cur].
  pose proof (tot_cremove e_sum (cur st) _ Hnd) as H1. rewrite Elk in H1.
  pose proof (tot_cremove ecount (cur st) _ Hnd) as H2. rewrite Elk in H2. unfold ecount in H2 at 3.
  split; [wf_split; cbn [cache size count]; try lia|repeat split; lia].
  - unfold cremove. now apply (keys_filter_nodup (fun x => negb (x =? cur st))).
  - intros k e'. rewrite clookup_cremove. destruct (cur st =? k); [discriminate|apply Hent].
Qed.

Lemma advance_to_WF st m : WF st -> WF (advance_to st m) /\
  size (advance_to st m) <= size st /\ count (advance_to st m) <= count st.
Proof.
  intros (Hnd & Hent & Hsz & Hcn). unfold advance_to.
  destruct (m <=? cur st); [split; [unfold WF; auto|lia]|].
  cbn [cache size count]. rewrite dropped_sum_tot, dropped_count_tot.
  pose proof (tot_filter_split e_sum (fun p => fst p <? m) (cache st)) as H1.
  pose proof (tot_filter_split ecount (fun p => fst p <? m) (cache st)) as H2.
  cbv beta in H1, H2.
  split; [wf_split; cbn [cache size count]; try lia|lia].
  - now apply (keys_filter_nodup (fun x => negb (x <? m))).
  - intros k e. rewrite (clookup_filter (fun x => negb (x <? m))). destruct (negb (k <? m)); [apply Hent|discriminate].
Qed.

(* the raw API, any interleaving *)
Inductive api :=
| APush (r : record)
| APop
| AAdvance (m : N).

Definition api_step (st : state) (a : api) : state :=
  match a with
  | APush r => fst (push st r)
  | APop => match pop st with POk _ st' => st' | _ => st end
  | AAdvance m => advance_to st m
  end.

Definition api_nfrags (a : api) : N := match a with APush r => nfrags r | _ => 0 end.

Definition Bounded (K : N) (st : state) : Prop := size st < max_size /\ count st + 1 <= max_count + K.

Lemma api_step_inv K st a : api_nfrags a <= K -> WF st /\ Bounded K st -> WF (api_step st a) /\ Bounded K (api_step st a).
Proof.
  intros HK [Hwf [Hs Hc]]. destruct a as [r| |m]; cbn [api_step api_nfrags] in *.
  - split; [now apply push_WF|]. pose proof (push_bounds st r) as H. cbv zeta in H. unfold Bounded. lia.
  - destruct (pop st) as [| |p st'] eqn:E; try (split; [assumption|split; assumption]).
    destruct (pop_WF _ _ _ Hwf E) as (H1 & H2 & H3 & _). split; [exact H1|]. unfold Bounded. lia.
  - destruct (advance_to_WF st m Hwf) as (H1 & H2 & H3). split; [exact H1|]. unfold Bounded. lia.
Qed.

(* Hostile-input resource theorem: for EVERY sequence of Push (any payload) / Pop / AdvanceTo calls,
   totalBufferSize stays strictly below fragmentBufferMaxSize, totalFragmentCount stays below
   fragmentBufferMaxCount + (largest number of fragments in one pushed record) - and they are exactly
   the sum of stored fragment lengths / the number of stored fragments. *)
Theorem hostile_bounds K (ops : list api) : Forall (fun a => api_nfrags a <= K) ops ->
  let st := fold_left api_step ops init in
  WF st /\ size st < max_size /\ count st + 1 <= max_count + K.
Proof.
  intro HK. cbv zeta.
  assert (Hgen : forall st, WF st /\ Bounded K st -> WF (fold_left api_step ops st) /\ Bounded K (fold_left api_step ops st)).
  { induction HK as [|a ops Ha _ IH]; intros st H; [exact H|]. cbn [fold_left]. apply IH. now apply api_step_inv. }
  destruct (Hgen init) as [H1 [H2 H3]].
  - split; [apply WF_init|]. split; cbn [init size count]; [apply max_size_pos|]. pose proof max_count_pos. lia.
  - split; [exact H1|split; [exact H2|exact H3]].
Qed.

(* a record of at most B bytes holds at most (B - 13) / 12 fragments *)
Lemma nfrags_le_size r : rec_hdr + hs_hdr * nfrags r <= record_size r \/ nfrags r = 0.
Proof.
  destruct r as [n|n|ep fs tail]; cbn [nfrags record_size]; [now right|now right|]. left.
  assert (hs_hdr * N.of_nat (length fs) <= frags_size fs); [|lia].
  induction fs as [|f fs IH]; cbn [length frags_size fold_right]; [lia|]. fold (frags_size fs). lia.
Qed.

(* ------------------------------------------------------------------ 2. what Pop does *)

Lemma walk_hlen0 fuel t frs acc : walk fuel t 0 frs acc = Some acc.
Proof. destruct fuel; cbn [walk]; [reflexivity|]. destruct (t <? 0) eqn:E; [lia|reflexivity]. Qed.

Lemma pop_ok_inv st m st' : pop st = POk m st' ->
  exists e raw s0,
    clookup (cur st) (cache st) = Some e /\ e_sum e = e_hlen e /\
    walk (length (e_frags e)) 0 (e_hlen e) (e_frags e) [] = Some raw /\ e_hlen e = len raw /\
    efind 0 (e_frags e) = Some s0 /\
    m = mkPop (f_ty (s_frag s0)) (f_len (s_frag s0)) (f_seq (s_frag s0)) raw (s_epoch s0) /\
    st' = mkSt (cremove (cur st) (cache st)) ((cur st + 1) mod 65536)
               (size st - e_sum e) (count st - N.of_nat (length (e_frags e))).
Proof.
  unfold pop. destruct (clookup (cur st) (cache st)) as [e|]; [|discriminate].
  destruct (e_sum e =? e_hlen e) eqn:E1; cbn [negb]; [|discriminate].
  destruct (walk _ _ _ _ _) as [raw|] eqn:E2; [|discriminate].
  destruct (e_hlen e =? len raw) eqn:E3; cbn [negb]; [|discriminate].
  destruct (efind 0 (e_frags e)) as [s0|] eqn:E4; [|discriminate].
  intro H. inversion H; subst. exists e, raw, s0.
  apply N.eqb_eq in E1, E3. repeat split; auto.
Qed.

(* Pop returns a message only if a fragment at offset 0 is stored for the current message *)
Theorem pop_needs_offset0 st m st' : pop st = POk m st' ->
  exists e s0, clookup (cur st) (cache st) = Some e /\ efind 0 (e_frags e) = Some s0 /\
               p_ty m = f_ty (s_frag s0) /\ p_len m = f_len (s_frag s0) /\ p_epoch m = s_epoch s0 /\
               len (p_body m) = e_hlen e.
Proof.
  intro H. apply pop_ok_inv in H. destruct H as (e & raw & s0 & H1 & H2 & H3 & H4 & H5 & H6 & H7).
  exists e, s0. subst m. cbn. repeat split; auto.
Qed.

(* ... and otherwise returns nil - EXCEPT in exactly one situation, where it dereferences the nil
   fragmentByOffset[0]: the current message's entry was created by a fragment announcing Length 0,
   every stored fragment of it has length 0, and none is at offset 0. *)
Theorem pop_panic_iff st : pop st = PPanic <->
  exists e, clookup (cur st) (cache st) = Some e /\ e_sum e = 0 /\ e_hlen e = 0 /\ efind 0 (e_frags e) = None.
Proof.
  split.
  - unfold pop. destruct (clookup (cur st) (cache st)) as [e|]; [|discriminate].
    destruct (e_sum e =? e_hlen e) eqn:E1; cbn [negb]; [|discriminate].
    destruct (walk _ _ _ _ _) as [raw|] eqn:E2; [|discriminate].
    destruct (e_hlen e =? len raw) eqn:E3; cbn [negb]; [|discriminate].
    destruct (efind 0 (e_frags e)) as [s0|] eqn:E4; [discriminate|]. intros _.
    apply N.eqb_eq in E1, E3. exists e.
    assert (Hh : e_hlen e = 0).
    { destruct (e_frags e) as [|s l] eqn:Efr.
      - cbn [length walk] in E2. inversion E2; subst. rewrite E3. reflexivity.
      - cbn [length walk] in E2. destruct (0 <? e_hlen e) eqn:E5; [|lia].
        rewrite E4 in E2. discriminate. }
    repeat split; auto; lia.
  - intros (e & H1 & H2 & H3 & H4). unfold pop. rewrite H1, H2, H3. cbn [N.eqb negb].
    rewrite walk_hlen0. cbn [len length N.of_nat N.eqb negb]. now rewrite H4.
Qed.

(* ... and that situation is unreachable: pushHandshakeFragments skips every empty fragment that is not
   the fragment of an empty message at offset 0, so a stored empty fragment is at offset 0. *)
Definition NP (st : state) : Prop :=
  forall k e, clookup k (cache st) = Some e ->
    e_frags e <> [] /\ Forall (fun s => s_flen s = 0 -> s_off s = 0) (e_frags e).

Lemma wsum_zero {A} (w : A -> N) l : wsum w l = 0 -> Forall (fun x => w x = 0) l.
Proof.
  unfold wsum. induction l as [|x l IH]; intro H; [constructor|]. cbn [fold_right] in H.
  constructor; [lia|apply IH; lia].
Qed.

Lemma NP_init : NP init.
Proof. intros k e H. discriminate. Qed.

Lemma NP_no_panic st : WF st -> NP st -> pop st <> PPanic.
Proof.
  intros (_ & Hent & _) HNP Hp. apply pop_panic_iff in Hp. destruct Hp as (e & Hl & Hs & Hh & Hf).
  destruct (HNP _ _ Hl) as [Hne Hz]. destruct (Hent _ _ Hl) as [Hsum _].
  rewrite Hs in Hsum. symmetry in Hsum. apply wsum_zero in Hsum.
  destruct (e_frags e) as [|s l]; [now apply Hne|].
  inversion Hsum as [|? ? Hs0 _]; inversion Hz as [|? ? Hz0 _]; subst.
  apply (efind_none 0 (s :: l) s Hf); [now left|]. now apply Hz0.
Qed.

Lemma skip_empty_false_off f : skip_empty f = false -> f_flen f = 0 -> f_off f = 0.
Proof.
  unfold skip_empty. intros H Hz. rewrite Hz in H. cbn [N.eqb andb] in H.
  apply orb_false_elim in H. destruct H as [_ H]. apply negb_false_iff, N.eqb_eq in H. exact H.
Qed.

Lemma push_frag_NP ep st b f : NP st -> NP (fst (push_frag ep (st, b) f)).
Proof.
  intro HNP. unfold push_frag. destruct (f_seq f <? cur st); [exact HNP|].
  destruct (skip_empty f) eqn:Hsk; [exact HNP|].
  set (k := f_seq f).
  assert (Hnew : s_flen (mkS f ep) = 0 -> s_off (mkS f ep) = 0)
    by (unfold s_flen, s_off; cbn [s_frag]; now apply skip_empty_false_off).
  destruct (clookup k (cache st)) as [e0|] eqn:Elk.
  - destruct (HNP _ _ Elk) as [Hne Hz].
    destruct (efind (f_off f) (e_frags e0)); cbn [fst]; intros k' e'; cbn [cache]; rewrite clookup_cset;
      (destruct (k =? k'); [|apply HNP]); intro H; inversion H; subst; clear H.
    + now split.
    + cbn [e_frags]. split; [discriminate|]. constructor; assumption.
  - cbn [e_frags efind find fst]. intros k' e'. cbn [cache]. rewrite clookup_cset.
    destruct (k =? k'); [|apply HNP]. intro H; inversion H; subst; clear H.
    cbn [e_frags]. split; [discriminate|]. constructor; [assumption|constructor].
Qed.

Lemma push_NP st r : NP st -> NP (fst (push st r)).
Proof.
  intro H. destruct (push_fst_cases st r) as [->|(ep & fs & tail & _ & _ & ->)]; [exact H|].
  apply (push_frags_fold NP ep (fun st b f => push_frag_NP ep st b f) fs st false H).
Qed.

Lemma pop_NP st m st' : WF st -> NP st -> pop st = POk m st' -> NP st'.
Proof.
  intros Hwf HNP Hp. destruct (pop_WF _ _ _ Hwf Hp) as (_ & _ & _ & _ & Hc).
  intros k e. rewrite Hc, clookup_cremove. destruct (cur st =? k); [discriminate|apply HNP].
Qed.

Lemma advance_to_NP st m : NP st -> NP (advance_to st m).
Proof.
  intro H. unfold advance_to. destruct (m <=? cur st); [exact H|].
  intros k e. cbn [cache]. rewrite (clookup_filter (fun x => negb (x <? m))).
  destruct (negb (k <? m)); [apply H|discriminate].
Qed.

(* Pop never panics: after ANY sequence of Push (any payload) / Pop / AdvanceTo calls *)
Theorem pop_never_panics (ops : list api) : pop (fold_left api_step ops init) <> PPanic.
Proof.
  assert (Hgen : forall st, WF st /\ NP st -> WF (fold_left api_step ops st) /\ NP (fold_left api_step ops st)).
  { induction ops as [|a ops IH]; intros st H; [exact H|]. cbn [fold_left]. apply IH.
    destruct H as [Hwf Hnp]. destruct a as [r| |m]; cbn [api_step].
    - split; [now apply push_WF|now apply push_NP].
    - destruct (pop st) as [| |p st'] eqn:E; try (split; assumption).
      split; [now destruct (pop_WF _ _ _ Hwf E)|now apply (pop_NP st p st')].
    - split; [now destruct (advance_to_WF st m Hwf)|now apply advance_to_NP]. }
  destruct (Hgen init (conj WF_init NP_init)) as [H1 H2]. now apply NP_no_panic.
Qed.

Lemma filter_len_le {A} (g : A -> bool) l : (length (filter g l) <= length l)%nat.
Proof. induction l as [|x l IH]; cbn [filter length]; [lia|]. destruct (g x); cbn [length]; lia. Qed.

(* the loop of bufferHandshakeRecord ends with Pop = nil (or a panic) *)
Lemma cremove_length k c e : clookup k c = Some e -> (length (cremove k c) < length c)%nat.
Proof.
  induction c as [|[k' e'] c IH]; cbn [clookup]; [discriminate|].
  unfold cremove. cbn [filter fst]. destruct (k' =? k) eqn:E; cbn [negb length].
  - intros _. pose proof (filter_len_le (fun p : N * entry => negb (fst p =? k)) c). lia.
  - intro H. specialize (IH H). unfold cremove in IH. lia.
Qed.

Lemma pop_all_done fuel : forall st, (length (cache st) < fuel)%nat ->
  let '(st', _, pn) := pop_all fuel st in pn = false -> pop st' = PNone.
Proof.
  induction fuel as [|k IH]; intros st Hlen; [lia|].
  cbn [pop_all]. destruct (pop st) as [| |m st1] eqn:E.
  - intros _. exact E.
  - discriminate.
  - assert (Hl : (length (cache st1) < k)%nat).
    { apply pop_ok_inv in E. destruct E as (e & raw & s0 & H1 & _ & _ & _ & _ & _ & ->).
      cbn [cache]. pose proof (cremove_length _ _ _ H1). lia. }
    specialize (IH st1 Hl). destruct (pop_all k st1) as [[st2 ms] pn]. exact IH.
Qed.

Lemma drain_done st : let '(st', _, pn) := drain st in pn = false -> pop st' = PNone.
Proof. unfold drain. apply pop_all_done. lia. Qed.

(* ------------------------------------------------------------------ 3. retransmission flag *)

Lemma push_frag_snd ep st b f : snd (push_frag ep (st, b) f) = b || (f_seq f <? cur st).
Proof.
  unfold push_frag. destruct (f_seq f <? cur st); [now rewrite orb_true_r|].
  rewrite orb_false_r. destruct (skip_empty f); [reflexivity|]. destruct (efind _ _); reflexivity.
Qed.

Lemma push_frag_fst_flag ep st b b' f : fst (push_frag ep (st, b) f) = fst (push_frag ep (st, b') f).
Proof.
  unfold push_frag. destruct (f_seq f <? cur st); [reflexivity|].
  destruct (skip_empty f); [reflexivity|]. destruct (efind _ _); reflexivity.
Qed.

Lemma push_frags_fst_flag ep fs : forall st b b',
  fst (fold_left (push_frag ep) fs (st, b)) = fst (fold_left (push_frag ep) fs (st, b')).
Proof.
  induction fs as [|f fs IH]; intros st b b'; [reflexivity|]. cbn [fold_left].
  pose proof (push_frag_fst_flag ep st b b' f) as H.
  destruct (push_frag ep (st, b) f) as [s1 b1]. destruct (push_frag ep (st, b') f) as [s2 b2].
  cbn [fst] in H. subst s2. apply IH.
Qed.

Lemma push_frags_snd ep fs : forall st b,
  snd (fold_left (push_frag ep) fs (st, b)) = b || existsb (fun f => f_seq f <? cur st) fs.
Proof.
  induction fs as [|f fs IH]; intros st b; cbn [fold_left existsb]; [now rewrite orb_false_r|].
  pose proof (push_frag_snd ep st b f) as Hs. pose proof (push_frag_cur ep st b f) as Hc.
  destruct (push_frag ep (st, b) f) as [s1 b1]. cbn [fst snd] in *. rewrite IH, Hc, Hs.
  now rewrite orb_assoc.
Qed.

(* a fragment of an already delivered message (message_seq < current) is reported as a
   retransmission and leaves the buffer untouched *)
Theorem retransmit_frag ep st b f : f_seq f < cur st -> push_frag ep (st, b) f = (st, true).
Proof. intro H. unfold push_frag. apply N.ltb_lt in H. now rewrite H. Qed.

(* Push of a well-formed handshake record that passes the overflow guard: isHandshake, no error,
   isRetransmit <-> some fragment belongs to an already delivered message *)
Theorem retransmit_flag st ep fs :
  (max_size <=? size st + record_size (RHs ep fs 0)) || (max_count <=? count st) = false ->
  snd (push st (RHs ep fs 0)) = (true, existsb (fun f => f_seq f <? cur st) fs, false).
Proof.
  intro G. unfold push. rewrite G.
  replace (max_size <=? record_size (RHs ep fs 0)) with false
    by (symmetry; apply orb_false_elim in G; destruct G as [G _]; apply N.leb_gt in G; apply N.leb_gt; lia).
  pose proof (push_frags_snd ep fs st false) as H. unfold push_frags.
  destruct (fold_left (push_frag ep) fs (st, false)) as [st' retr]. cbn [snd N.eqb] in *. now rewrite H.
Qed.

(* retransmitted fragments never change the buffer: the state after a record is the state after the
   same record with the fragments of delivered messages removed *)
Theorem retransmit_ignored ep fs : forall st,
  fst (push_frags ep st fs) = fst (push_frags ep st (filter (fun f => negb (f_seq f <? cur st)) fs)).
Proof.
  unfold push_frags. induction fs as [|f fs IH]; intro st; [reflexivity|].
  cbn [fold_left filter]. destruct (f_seq f <? cur st) eqn:E; cbn [negb].
  - apply N.ltb_lt in E. rewrite (retransmit_frag ep st false f E).
    rewrite (push_frags_fst_flag ep fs st true false). apply IH.
  - cbn [fold_left].
    pose proof (push_frag_cur ep st false f) as Hc.
    destruct (push_frag ep (st, false) f) as [s1 b1]. cbn [fst] in Hc.
    rewrite (push_frags_fst_flag ep fs s1 b1 false).
    rewrite (push_frags_fst_flag ep (filter _ fs) s1 b1 false).
    rewrite <- Hc. apply IH.
Qed.

Theorem retransmit_inert ep fs st : Forall (fun f => f_seq f < cur st) fs -> fst (push_frags ep st fs) = st.
Proof.
  intro H. rewrite retransmit_ignored.
  replace (filter (fun f => negb (f_seq f <? cur st)) fs) with (@nil frag); [reflexivity|].
  symmetry. induction H as [|f fs Hf _ IH]; [reflexivity|]. cbn [filter].
  apply N.ltb_lt in Hf. rewrite Hf. exact IH.
Qed.

(* ------------------------------------------------------------------ 4. safety *)

(* f carries a genuine slice of message m *)
Definition is_slice (m : hmsg) (f : frag) : Prop :=
  hdr_of m f /\ f_off f + f_flen f <= len (m_body m) /\
  f_data f = take (f_flen f) (drop (f_off f) (m_body m)).

Definition strip (p : popped) : N * N * N * bytes := (p_ty p, p_len p, p_seq p, p_body p).
Definition hstrip (m : hmsg) : N * N * N * bytes := (m_ty m, len (m_body m), m_seq m, m_body m).

Definition honest_frag (n : N) (M : N -> hmsg) (f : frag) : Prop :=
  f_seq f < n /\ is_slice (M (f_seq f)) f.

(* any record: junk, other content types, handshake records with a broken tail - but every
   handshake fragment in it is honest *)
Definition honest_rec (n : N) (M : N -> hmsg) (r : record) : Prop :=
  match r with RHs _ fs _ => Forall (honest_frag n M) fs | _ => True end.

Lemma walk_safe body frs :
  Forall (fun s => s_off s + s_flen s <= len body /\
                   f_data (s_frag s) = take (s_flen s) (drop (s_off s) body)) frs ->
  forall fuel t acc raw, t <= len body -> acc = take t body ->
    walk fuel t (len body) frs acc = Some raw -> exists t', t' <= len body /\ raw = take t' body.
Proof.
  intro Hfr. induction fuel as [|k IH]; intros t acc raw Ht Hacc Hw; cbn [walk] in Hw.
  - inversion Hw; subst. now exists t.
  - destruct (t <? len body) eqn:E.
    + destruct (efind t frs) as [s|] eqn:Ef; [|discriminate].
      apply efind_some in Ef. destruct Ef as [Hin Hoff].
      rewrite Forall_forall in Hfr. destruct (Hfr s Hin) as [Hb Hd].
      apply (IH (s_off s + s_flen s) (acc ++ f_data (s_frag s)) raw); [exact Hb| |exact Hw].
      subst acc. rewrite Hd, Hoff. symmetry. apply take_add.
    + inversion Hw; subst. now exists t.
Qed.

Section Safety.
  Variable n : N.
  Variable M : N -> hmsg.
  Hypothesis Hn : n < 65536.
  Hypothesis Hseq : forall j, j < n -> m_seq (M j) = j.

  Definition SInv (st : state) : Prop :=
    cur st <= n /\
    forall k e, clookup k (cache st) = Some e ->
      k < n /\ e_hlen e = len (m_body (M k)) /\ e_frags e <> [] /\
      Forall (fun s => is_slice (M k) (s_frag s)) (e_frags e).

  Lemma SInv_init : SInv init.
  Proof. split; [cbn; lia|]. intros k e H. discriminate. Qed.

  Lemma push_frag_SInv ep st b f : honest_frag n M f -> SInv st -> SInv (fst (push_frag ep (st, b) f)).
  Proof.
    intros [Hk Hsl] [Hc Hent]. unfold push_frag. destruct (f_seq f <? cur st); [split; assumption|].
    destruct (skip_empty f); [split; assumption|].
    set (k := f_seq f) in *.
    destruct (clookup k (cache st)) as [e0|] eqn:Elk.
    - destruct (Hent _ _ Elk) as (H1 & H2 & H3 & H4).
      destruct (efind (f_off f) (e_frags e0)); cbn [fst]; (split; [exact Hc|]); cbn [cache];
        intros k' e'; rewrite clookup_cset; destruct (k =? k') eqn:E; try apply Hent;
        apply N.eqb_eq in E; subst k'; intro H; inversion H; subst; clear H.
      + split; [exact H1|split; [exact H2|split; [exact H3|exact H4]]].
      + cbn [e_hlen e_frags]. split; [exact H1|split; [exact H2|split; [discriminate|]]].
        constructor; [exact Hsl|exact H4].
    - cbn [e_frags efind find fst]. split; [exact Hc|]. cbn [cache].
      intros k' e'; rewrite clookup_cset; destruct (k =? k') eqn:E; try apply Hent.
      apply N.eqb_eq in E; subst k'; intro H; inversion H; subst; clear H.
      cbn [e_hlen e_frags]. pose proof Hsl as [[Ht [Hl Hs]] Hrest].
      split; [exact Hk|split; [exact Hl|split; [discriminate|]]].
      constructor; [exact Hsl|constructor].
  Qed.

  Lemma push_frags_SInv ep fs : Forall (honest_frag n M) fs -> forall st b, SInv st ->
    SInv (fst (fold_left (push_frag ep) fs (st, b))).
  Proof.
    induction 1 as [|f fs Hf _ IH]; intros st b HS; [exact HS|]. cbn [fold_left].
    pose proof (push_frag_SInv ep st b f Hf HS) as H1.
    destruct (push_frag ep (st, b) f) as [s1 b1]. now apply IH.
  Qed.

  Lemma push_SInv st r : honest_rec n M r -> SInv st -> SInv (fst (push st r)).
  Proof.
    intros Hr HS. destruct (push_fst_cases st r) as [->|(ep & fs & tail & -> & _ & ->)]; [exact HS|].
    cbn [honest_rec] in Hr. apply (push_frags_SInv ep fs Hr st false HS).
  Qed.

  Lemma pop_safe st : SInv st ->
    match pop st with
    | PNone => True
    | PPanic => False
    | POk p st' => cur st < n /\ strip p = hstrip (M (cur st)) /\ SInv st' /\ cur st' = cur st + 1
    end.
  Proof.
    intros [Hc Hent]. destruct (pop st) as [| |p st'] eqn:E; [exact I| |].
    - apply pop_panic_iff in E. destruct E as (e & H1 & H2 & H3 & H4).
      destruct (Hent _ _ H1) as (Hk & Hl & Hne & Hfr).
      destruct (e_frags e) as [|s l] eqn:Efr; [now apply Hne|].
      inversion Hfr as [|s' l' Hs _]; subst. destruct Hs as (_ & Hb & _).
      apply (efind_none 0 (s :: l) s H4); [now left|]. unfold s_off. lia.
    - apply pop_ok_inv in E. destruct E as (e & raw & s0 & H1 & H2 & H3 & H4 & H5 & -> & ->).
      destruct (Hent _ _ H1) as (Hk & Hl & Hne & Hfr).
      assert (Hraw : raw = m_body (M (cur st))).
      { rewrite Hl in H3, H4.
        destruct (walk_safe (m_body (M (cur st))) (e_frags e)) with (fuel := length (e_frags e))
          (t := 0) (acc := @nil N) (raw := raw) as (t' & Ht' & Hr); auto; try lia.
        - eapply Forall_impl; [|exact Hfr]. cbn. intros s (_ & Hb & Hd). split; assumption.
        - subst raw. rewrite len_take in H4 by exact Ht'. subst t'. apply take_all. }
      apply efind_some in H5. destruct H5 as [Hin0 _].
      rewrite Forall_forall in Hfr. destruct (Hfr s0 Hin0) as ((Hty & Hln & Hsq) & _).
      split; [exact Hk|]. split.
      + unfold strip, hstrip. cbn [p_ty p_len p_seq p_body]. rewrite Hty, Hln, Hsq, Hraw. reflexivity.
      + cbn [cur cache]. rewrite N.mod_small by lia. split; [|reflexivity]. split; [cbn [cur]; lia|].
        cbn [cache]. intros k e'. rewrite clookup_cremove. destruct (cur st =? k); [discriminate|apply Hent].
  Qed.

  Definition hm (j : N) := hstrip (M j).

  Ltac safe4 := split; [reflexivity|split; [assumption|split; [lia|]]].

  Lemma pop_all_safe fuel : forall st, SInv st ->
    let '(st', ms, pn) := pop_all fuel st in
    pn = false /\ SInv st' /\ cur st <= cur st' /\
    map hm (idx (cur st)) ++ map strip ms = map hm (idx (cur st')).
  Proof.
    induction fuel as [|k IH]; intros st HS; cbn [pop_all].
    - safe4. cbn [map]. now rewrite app_nil_r.
    - pose proof (pop_safe st HS) as Hp. destruct (pop st) as [| |p st1].
      + safe4. cbn [map]. now rewrite app_nil_r.
      + contradiction.
      + destruct Hp as (Hlt & Hst & HS1 & Hc1). specialize (IH st1 HS1).
        destruct (pop_all k st1) as [[st2 ms] pn]. destruct IH as (Hpn & HS2 & Hle & Hmap).
        subst pn. safe4. rewrite <- Hmap, Hc1, idx_succ, map_app. cbn [map].
        rewrite <- app_assoc. cbn [app]. unfold hm at 2. now rewrite Hst.
  Qed.

  Lemma arrive_safe st r : honest_rec n M r -> SInv st ->
    let '(st', _, ms, pn) := arrive st r in
    pn = false /\ SInv st' /\ cur st <= cur st' /\
    map hm (idx (cur st)) ++ map strip ms = map hm (idx (cur st')).
  Proof.
    intros Hr HS. unfold arrive.
    pose proof (push_SInv st r Hr HS) as H1. pose proof (push_cur st r) as Hc.
    destruct (push st r) as [st1 [[ish retr] err]]. cbn [fst] in H1, Hc.
    destruct (err || negb ish).
    - safe4. cbn [map]. now rewrite app_nil_r, Hc.
    - unfold drain. pose proof (pop_all_safe (S (length (cache st1))) st1 H1) as H2.
      destruct (pop_all _ st1) as [[st2 ms] pn]. rewrite <- Hc. exact H2.
  Qed.

  Lemma run_safe rs : Forall (honest_rec n M) rs -> forall st, SInv st ->
    let '(st', ms, pn) := run st rs in
    pn = false /\ SInv st' /\ cur st <= cur st' /\
    map hm (idx (cur st)) ++ map strip ms = map hm (idx (cur st')).
  Proof.
    induction 1 as [|r rs Hr _ IH]; intros st HS; cbn [run].
    - safe4. cbn [map]. now rewrite app_nil_r.
    - pose proof (arrive_safe st r Hr HS) as H1.
      destruct (arrive st r) as [[[st1 tr] ms] p]. destruct H1 as (-> & HS1 & Hle1 & Hm1).
      specialize (IH st1 HS1). destruct (run st1 rs) as [[st2 ms'] p']. destruct IH as (-> & HS2 & Hle2 & Hm2).
      safe4. rewrite map_app, app_assoc, Hm1. exact Hm2.
  Qed.

  (* SAFETY.  Honest messages M 0 .. M (n-1) (message_seq = index).  The receiver is fed ANY list of
     records in which every handshake fragment is a genuine slice of the message it names - any
     offsets and lengths (so any mixture of partitions, overlapping or not), any arrival order,
     duplication, interleaving across messages and packing into records, junk records and broken
     tails in between.  Then no Pop panics, and what bufferHandshakeRecord obtains from Pop over the
     whole history is exactly M 0, M 1, ..., M (cur-1): a prefix of the honest messages, in
     message-sequence order, each exactly once, header fields and body byte-identical. *)
  Theorem reassembly_safe rs : Forall (honest_rec n M) rs ->
    let '(st, pops, pn) := run init rs in
    pn = false /\ cur st <= n /\ map strip pops = map (fun j => hstrip (M j)) (idx (cur st)).
  Proof.
    intro H. pose proof (run_safe rs H init SInv_init) as H1.
    destruct (run init rs) as [[st ms] pn]. destruct H1 as (Hp & [Hc _] & _ & Hm).
    cbn [init cur] in Hm. unfold idx at 1 in Hm. cbn [N.to_nat seq map app] in Hm.
    split; [exact Hp|split; [exact Hc|exact Hm]].
  Qed.
End Safety.

(* ------------------------------------------------------------------ 5. completeness *)

Lemma frag_eq_dec (a b : frag) : {a = b} + {a <> b}.
Proof. decide equality; try apply N.eq_dec. apply (list_eq_dec N.eq_dec). Qed.

Lemma contiguous_slice : forall Pl off, contiguous off Pl -> forall f, In f Pl ->
  off <= f_off f /\ f_off f + f_flen f <= off + len (cat_data Pl) /\
  f_data f = take (f_flen f) (drop (f_off f - off) (cat_data Pl)).
Proof.
  induction Pl as [|g Pl IH]; intros off Hc f Hin; [contradiction|].
  cbn [contiguous] in Hc. destruct Hc as [Hoff Hc].
  unfold cat_data. cbn [map concat]. fold (cat_data Pl). destruct Hin as [<-|Hin].
  - rewrite Hoff. split; [lia|]. split; [rewrite len_app; unfold f_flen; lia|].
    replace (off - off) with 0 by lia. unfold drop. cbn [N.to_nat skipn]. unfold f_flen.
    symmetry. apply take_app_exact.
  - destruct (IH _ Hc f Hin) as (H1 & H2 & H3). split; [lia|].
    split; [rewrite len_app; unfold f_flen in *; lia|].
    replace (f_off f - off) with (len (f_data g) + (f_off f - (off + f_flen g))) by (unfold f_flen in *; lia).
    rewrite drop_app_add. exact H3.
Qed.

(* what the receiver effectively sees of a partition: no fragment it would skip, and no two
   fragments at one offset *)
Definition strict_part (m : hmsg) (P : list frag) : Prop :=
  P <> [] /\ Forall (hdr_of m) P /\ contiguous 0 P /\ cat_data P = m_body m /\
  NoDup (map f_off P) /\ Forall (fun f => skip_empty f = false) P.

Lemma good_part_slice m Pl f : good_part m Pl -> In f Pl -> is_slice m f.
Proof.
  intros (Hne & Hh & Hc & Hcat) Hin. rewrite Forall_forall in Hh.
  destruct (contiguous_slice Pl 0 Hc f Hin) as (_ & H2 & H3). rewrite Hcat in *.
  split; [now apply Hh|]. split; [lia|]. now rewrite N.sub_0_r in H3.
Qed.

Lemma good_part_sum m Pl : good_part m Pl -> sum_flen Pl = len (m_body m).
Proof. intros (_ & _ & _ & Hcat). now rewrite sum_flen_cat, Hcat. Qed.

Lemma strict_good m Pl : strict_part m Pl -> good_part m Pl.
Proof. intros (H1 & H2 & H3 & H4 & _). repeat split; assumption. Qed.

Lemma good_part_first m Pl : good_part m Pl -> exists f0, In f0 Pl /\ f_off f0 = 0.
Proof.
  intros (Hne & _ & Hc & _). destruct Pl as [|f0 Pl]; [contradiction|].
  exists f0. split; [now left|]. now destruct Hc.
Qed.

(* a stored superset of one duplicate-free contiguous partition walks to the whole body *)
Lemma walk_complete L frs : NoDup (map s_off frs) ->
  forall S t acc fuel, contiguous t S -> t + sum_flen S = L ->
    incl S (map s_frag frs) -> (length S <= fuel)%nat ->
    walk fuel t L frs acc = Some (acc ++ cat_data S).
Proof.
  intros Hnd. induction S as [|f S IH]; intros t acc fuel Hc Hsum Hincl Hfuel.
  - cbn [sum_flen fold_right] in Hsum. unfold cat_data. cbn [map concat]. rewrite app_nil_r.
    destruct fuel; cbn [walk]; [reflexivity|]. destruct (t <? L) eqn:E; [lia|reflexivity].
  - cbn [contiguous] in Hc. destruct Hc as [Hoff Hc].
    cbn [sum_flen fold_right] in Hsum. fold (sum_flen S) in Hsum.
    destruct (t <? L) eqn:E.
    + destruct fuel as [|k]; [cbn [length] in Hfuel; lia|]. cbn [walk]. rewrite E.
      assert (Hin : In f (map s_frag frs)) by (apply Hincl; now left).
      apply in_map_iff in Hin. destruct Hin as (s & Hs & Hin).
      assert (Hso : s_off s = t) by (unfold s_off; now rewrite Hs).
      rewrite <- Hso. rewrite (efind_nodup frs s Hnd Hin).
      unfold s_flen. rewrite Hs, Hso.
      rewrite (IH (t + f_flen f) (acc ++ f_data f) k); [| | | |]; try assumption; try lia.
      * unfold cat_data. cbn [map concat]. now rewrite app_assoc.
      * intros x Hx. apply Hincl. now right.
      * cbn [length] in Hfuel. lia.
    + assert (Hz : sum_flen (f :: S) = 0) by (cbn [sum_flen fold_right]; fold (sum_flen S); lia).
      rewrite sum_flen_cat in Hz. apply len_0_nil in Hz. rewrite Hz, app_nil_r.
      destruct fuel; cbn [walk]; [reflexivity|]. now rewrite E.
Qed.

(* if the stored fragments sum to the whole of a duplicate-free partition they contain every
   non-empty fragment of it *)
Lemma sum_full (l Pk : list frag) : NoDup l -> incl l Pk -> sum_flen l = sum_flen Pk ->
  forall f, In f Pk -> 0 < f_flen f -> In f l.
Proof.
  intros Hnd Hincl Hsum f Hin Hpos. destruct (In_dec frag_eq_dec f l) as [H|Hnin]; [exact H|exfalso].
  apply in_split in Hin. destruct Hin as (P1 & P2 & ->).
  assert (Hl : incl l (P1 ++ P2)).
  { intros x Hx. pose proof (Hincl x Hx) as Hxp. apply in_app_or in Hxp. apply in_or_app.
    destruct Hxp as [H|[H|H]]; [now left| |now right]. subst x. contradiction. }
  pose proof (wsum_incl f_flen l Hnd _ Hl) as Hle.
  change (wsum f_flen l = wsum f_flen (P1 ++ f :: P2)) in Hsum.
  rewrite wsum_app in Hsum, Hle. unfold wsum in *. cbn [fold_right] in Hsum. lia.
Qed.

Section Complete.
  Variable n : N.
  Variable M : N -> hmsg.
  Variable P : N -> list frag.
  Hypothesis Hn : n < 65536.
  Hypothesis HM : forall j, j < n -> m_seq (M j) = j /\ strict_part (M j) (P j).

  (* a fragment of THE partition of the message it names, or a genuine but empty slice of it that
     the receiver skips *)
  Definition part_frag (f : frag) : Prop :=
    f_seq f < n /\ (In f (P (f_seq f)) \/ (skip_empty f = true /\ is_slice (M (f_seq f)) f)).
  (* a well-formed handshake record of such fragments *)
  Definition part_rec (r : record) : Prop :=
    match r with RHs _ fs tail => tail = 0 /\ Forall part_frag fs | _ => False end.
  Definition rec_frags (r : record) : list frag := match r with RHs _ fs _ => fs | _ => [] end.
  Definition arrived (rs : list record) : list frag := flat_map rec_frags rs.

  (* capacity the whole handshake direction needs: all body bytes / all fragments *)
  Definition cap_bytes : N := wsum (fun j => sum_flen (P j)) (idx n).
  Definition cap_frags : N := wsum (fun j => N.of_nat (length (P j))) (idx n).

  Lemma Hseq' : forall j, j < n -> m_seq (M j) = j.
  Proof. intros j Hj. now destruct (HM j Hj). Qed.

  Lemma part_frag_honest f : part_frag f -> honest_frag n M f.
  Proof.
    intros [Hk [Hin|[_ Hsl]]]; (split; [exact Hk|]); [|exact Hsl].
    destruct (HM _ Hk) as [_ Hg]. apply (good_part_slice _ (P (f_seq f))); [now apply strict_good|exact Hin].
  Qed.

  Lemma part_noskip k f : k < n -> In f (P k) -> skip_empty f = false.
  Proof.
    intros Hk Hin. destruct (HM k Hk) as [_ (_ & _ & _ & _ & _ & Hns)]. rewrite Forall_forall in Hns. now apply Hns.
  Qed.

  Lemma part_frag_seq k f : k < n -> In f (P k) -> f_seq f = k.
  Proof.
    intros Hk Hin. destruct (HM k Hk) as [Hs Hg]. apply (good_part_slice _ _ f (strict_good _ _ Hg)) in Hin.
    destruct Hin as ((_ & _ & Hq) & _). now rewrite Hq.
  Qed.

  Lemma part_rec_honest r : part_rec r -> honest_rec n M r.
  Proof.
    destruct r as [x|x|ep fs tail]; cbn; try contradiction. intros [_ H].
    eapply Forall_impl; [|exact H]. apply part_frag_honest.
  Qed.

  Definition stored_of (e : entry) : list frag := map s_frag (e_frags e).

  Definition LInv (Arr : frag -> Prop) (st : state) : Prop :=
    WF st /\ SInv n M st /\
    (forall k e, clookup k (cache st) = Some e ->
       cur st <= k /\ incl (stored_of e) (P k) /\ (forall f, In f (stored_of e) -> Arr f)) /\
    (forall f, Arr f -> In f (P (f_seq f)) -> cur st <= f_seq f ->
       exists e, clookup (f_seq f) (cache st) = Some e /\ In f (stored_of e)) /\
    (forall j f, j < cur st -> In f (P j) -> 0 < f_flen f -> Arr f).

  Lemma LInv_equiv (A A' : frag -> Prop) st : (forall f, A f <-> A' f) -> LInv A st -> LInv A' st.
  Proof.
    intros Heq (H1 & H2 & H3 & H4 & H5). split; [exact H1|split; [exact H2|split; [|split]]].
    - intros k e Hl. destruct (H3 k e Hl) as (Ha & Hb & Hc). split; [exact Ha|split; [exact Hb|]].
      intros f Hf. apply Heq. now apply Hc.
    - intros f Hf. apply H4. now apply Heq.
    - intros j f Hj Hin Hp. apply Heq. now apply (H5 j).
  Qed.

  Lemma LInv_init : LInv (fun _ => False) init.
  Proof.
    split; [apply WF_init|split; [apply (SInv_init n M Hn Hseq')|split; [|split]]].
    - intros k e H. discriminate.
    - intros f [].
    - intros j f Hj. cbn in Hj. lia.
  Qed.

  Lemma stored_nodup e : entry_wf e -> NoDup (stored_of e).
  Proof.
    intros [_ Hnd]. unfold stored_of. apply (NoDup_map_inv f_off).
    rewrite map_map. exact Hnd.
  Qed.

  Lemma stored_sum e : entry_wf e -> e_sum e = sum_flen (stored_of e).
  Proof. intros [Hs _]. rewrite Hs. unfold stored_of. rewrite sum_flen_wsum, wsum_map. reflexivity. Qed.

  Lemma LInv_capacity Arr st : LInv Arr st -> size st <= cap_bytes /\ count st <= cap_frags.
  Proof.
    intros ((Hnd & Hent & Hsz & Hcn) & (_ & HS) & H3 & _).
    assert (Hkey : forall p, In p (cache st) -> clookup (fst p) (cache st) = Some (snd p)).
    { intros [k e] Hin. now apply In_clookup. }
    assert (Hkeys : incl (map fst (cache st)) (idx n)).
    { intros k Hk. apply in_map_iff in Hk. destruct Hk as (p & <- & Hp). apply In_idx.
      now destruct (HS _ _ (Hkey p Hp)). }
    split.
    - rewrite Hsz. unfold tot.
      transitivity (wsum (fun p : N * entry => sum_flen (P (fst p))) (cache st)).
      + apply wsum_le. intros p Hp. pose proof (Hkey p Hp) as Hl.
        destruct (H3 _ _ Hl) as (_ & Hincl & _).
        rewrite (stored_sum _ (Hent _ _ Hl)). rewrite !sum_flen_wsum.
        apply wsum_incl; [apply stored_nodup; now apply (Hent _ _ Hl)|exact Hincl].
      + rewrite <- (wsum_map fst (fun j => sum_flen (P j))). apply wsum_incl; assumption.
    - rewrite Hcn. unfold tot.
      transitivity (wsum (fun p : N * entry => N.of_nat (length (P (fst p)))) (cache st)).
      + apply wsum_le. intros p Hp. pose proof (Hkey p Hp) as Hl.
        destruct (H3 _ _ Hl) as (_ & Hincl & _). unfold ecount.
        replace (length (e_frags (snd p))) with (length (stored_of (snd p))) by (unfold stored_of; apply map_length).
        pose proof (NoDup_incl_length (stored_nodup _ (Hent _ _ Hl)) Hincl). lia.
      + rewrite <- (wsum_map fst (fun j => N.of_nat (length (P j)))). apply wsum_incl; assumption.
  Qed.

  Lemma push_frag_LInv ep Arr st b f : part_frag f -> LInv Arr st ->
    LInv (fun x => x = f \/ Arr x) (fst (push_frag ep (st, b) f)).
  Proof.
    intros Hpf (Hwf & HS & H3 & H4 & H5).
    pose proof (push_frag_WF ep st b f Hwf) as Hwf'.
    pose proof (push_frag_SInv n M ep st b f (part_frag_honest f Hpf) HS) as HS'.
    pose proof (push_frag_cur ep st b f) as Hcur.
    split; [exact Hwf'|split; [exact HS'|]]. clear Hwf' HS'.
    destruct Hpf as [Hk Hin].
    revert Hcur. unfold push_frag. destruct (f_seq f <? cur st) eqn:Elt; cbn [fst]; intros _.
    { (* retransmission: nothing changes *)
      split; [|split].
      - intros k e Hl. destruct (H3 k e Hl) as (Ha & Hb & Hc). split; [exact Ha|split; [exact Hb|]].
        intros x Hx. right. now apply Hc.
      - intros x [->|Hx] Hxp Hc; [lia|now apply H4].
      - intros j x Hj Hx Hp. right. now apply (H5 j). }
    destruct (skip_empty f) eqn:Hsk; cbn [fst].
    { (* skipped empty fragment: nothing changes, and it is not a fragment of the partition *)
      split; [|split].
      - intros k e Hl. destruct (H3 k e Hl) as (Ha & Hb & Hc). split; [exact Ha|split; [exact Hb|]].
        intros x Hx. right. now apply Hc.
      - intros x [->|Hx] Hxp Hc; [|now apply H4].
        rewrite (part_noskip _ _ Hk Hxp) in Hsk. discriminate.
      - intros j x Hj Hx Hp. right. now apply (H5 j). }
    destruct Hin as [Hin|[Hsk' _]]; [|discriminate].
    set (k := f_seq f) in *.
    assert (Hck : cur st <= k) by lia.
    destruct (clookup k (cache st)) as [e0|] eqn:Elk.
    - destruct (H3 _ _ Elk) as (_ & Hincl0 & Harr0).
      destruct (efind (f_off f) (e_frags e0)) as [s|] eqn:Ef; cbn [fst cache cur]; (split; [|split]).
      + intros k' e'. rewrite clookup_cset. destruct (k =? k') eqn:E.
        * apply N.eqb_eq in E. subst k'. intro H; inversion H; subst e'; clear H.
          split; [exact Hck|split; [exact Hincl0|]]. intros x Hx. right. now apply Harr0.
        * intro Hl. destruct (H3 _ _ Hl) as (Ha & Hb & Hc). split; [exact Ha|split; [exact Hb|]].
          intros x Hx. right. now apply Hc.
      + (* the offset is already taken - by f itself, since one partition has one fragment per offset *)
        apply efind_some in Ef. destruct Ef as [Hsin Hsoff].
        assert (Hsf : s_frag s = f).
        { destruct (HM k Hk) as [_ (_ & _ & _ & _ & Hndp & _)].
          apply (nodup_map_inj f_off (P k)); auto. apply Hincl0. unfold stored_of. now apply in_map. }
        intros x [->|Hx] Hxp Hc.
        * exists e0. rewrite clookup_cset, N.eqb_refl. split; [reflexivity|].
          unfold stored_of. rewrite <- Hsf. now apply in_map.
        * destruct (H4 x Hx Hxp Hc) as (e & Hl & Hi). rewrite clookup_cset.
          destruct (k =? f_seq x) eqn:E; [|now exists e].
          apply N.eqb_eq in E. rewrite <- E in Hl. rewrite Elk in Hl. inversion Hl; subst e. now exists e0.
      + intros j x Hj Hx Hp. right. now apply (H5 j).
      + intros k' e'. rewrite clookup_cset. destruct (k =? k') eqn:E.
        * apply N.eqb_eq in E. subst k'. intro H; inversion H; subst e'; clear H.
          unfold stored_of. cbn [e_frags map s_frag]. fold (stored_of e0).
          split; [exact Hck|split].
          -- intros x [<-|Hx]; [exact Hin|now apply Hincl0].
          -- intros x [<-|Hx]; [now left|right; now apply Harr0].
        * intro Hl. destruct (H3 _ _ Hl) as (Ha & Hb & Hc). split; [exact Ha|split; [exact Hb|]].
          intros x Hx. right. now apply Hc.
      + intros x [->|Hx] Hxp Hc.
        * eexists. rewrite clookup_cset, N.eqb_refl. split; [reflexivity|].
          unfold stored_of. cbn [e_frags map s_frag]. now left.
        * destruct (H4 x Hx Hxp Hc) as (e & Hl & Hi). rewrite clookup_cset.
          destruct (k =? f_seq x) eqn:E; [|now exists e].
          apply N.eqb_eq in E. rewrite <- E in Hl. rewrite Elk in Hl. inversion Hl; subst e.
          eexists. split; [reflexivity|]. unfold stored_of. cbn [e_frags map s_frag]. right. exact Hi.
      + intros j x Hj Hx Hp. right. now apply (H5 j).
    - cbn [e_frags efind find fst cache cur e_sum e_hlen]. split; [|split].
      + intros k' e'. rewrite clookup_cset. destruct (k =? k') eqn:E.
        * apply N.eqb_eq in E. subst k'. intro H; inversion H; subst e'; clear H.
          unfold stored_of. cbn [e_frags map s_frag].
          split; [exact Hck|split].
          -- intros x [<-|[]]. exact Hin.
          -- intros x [<-|[]]. now left.
        * intro Hl. destruct (H3 _ _ Hl) as (Ha & Hb & Hc). split; [exact Ha|split; [exact Hb|]].
          intros x Hx. right. now apply Hc.
      + intros x [->|Hx] Hxp Hc.
        * eexists. rewrite clookup_cset, N.eqb_refl. split; [reflexivity|].
          unfold stored_of. cbn [e_frags map s_frag]. now left.
        * destruct (H4 x Hx Hxp Hc) as (e & Hl & Hi). rewrite clookup_cset.
          destruct (k =? f_seq x) eqn:E; [|now exists e].
          apply N.eqb_eq in E. rewrite <- E in Hl. rewrite Elk in Hl. discriminate.
      + intros j x Hj Hx Hp. right. now apply (H5 j).
  Qed.

  Lemma push_frags_LInv ep fs : Forall part_frag fs -> forall Arr st b, LInv Arr st ->
    LInv (fun x => In x fs \/ Arr x) (fst (fold_left (push_frag ep) fs (st, b))).
  Proof.
    induction 1 as [|f fs Hf _ IH]; intros Arr st b HL.
    - cbn [fold_left fst]. eapply LInv_equiv; [|exact HL]. intro x. cbn [In]. tauto.
    - cbn [fold_left]. pose proof (push_frag_LInv ep Arr st b f Hf HL) as H1.
      destruct (push_frag ep (st, b) f) as [s1 b1]. cbn [fst] in H1.
      specialize (IH _ s1 b1 H1). eapply LInv_equiv; [|exact IH].
      intro x. cbn [In]. split; intro H; [destruct H as [H|[H|H]]|destruct H as [[H|H]|H]]; auto.
  Qed.

  (* the entry of a complete current message pops *)
  Lemma complete_pops Arr st e : LInv Arr st -> clookup (cur st) (cache st) = Some e ->
    incl (P (cur st)) (stored_of e) -> exists p st', pop st = POk p st'.
  Proof.
    intros ((Hnd & Hent & _) & (_ & HS) & H3 & _) Hl Hall.
    destruct (HS _ _ Hl) as (Hk & Hhl & _). destruct (H3 _ _ Hl) as (_ & Hincl & _).
    pose proof (Hent _ _ Hl) as Hwf. pose proof Hwf as [_ Hndo].
    destruct (HM _ Hk) as [_ Hgs]. pose proof Hgs as (Hne & _ & Hc & Hcat & Hndp & _).
    pose proof (strict_good _ _ Hgs) as Hg.
    assert (HndP : NoDup (P (cur st))) by (now apply (NoDup_map_inv f_off)).
    assert (Hsum : e_sum e = e_hlen e).
    { rewrite Hhl, <- (good_part_sum _ _ Hg), (stored_sum _ Hwf). rewrite !sum_flen_wsum.
      apply N.le_antisymm; apply wsum_incl; auto. now apply stored_nodup. }
    assert (Hwalk : walk (length (e_frags e)) 0 (e_hlen e) (e_frags e) [] = Some (m_body (M (cur st)))).
    { rewrite (walk_complete (e_hlen e) (e_frags e) Hndo (P (cur st)) 0 []); auto.
      - cbn [app]. now rewrite Hcat.
      - rewrite Hhl, (good_part_sum _ _ Hg). lia.
      - replace (length (e_frags e)) with (length (stored_of e)) by (unfold stored_of; apply map_length).
        now apply NoDup_incl_length. }
    destruct (good_part_first _ _ Hg) as (f0 & Hf0 & Hoff0).
    assert (Hfind : exists s0, efind 0 (e_frags e) = Some s0).
    { apply Hall in Hf0. unfold stored_of in Hf0. apply in_map_iff in Hf0. destruct Hf0 as (s0 & Hs0 & Hin0).
      exists s0. rewrite <- (efind_nodup _ s0 Hndo Hin0). f_equal. unfold s_off. now rewrite Hs0. }
    destruct Hfind as (s0 & Hfind).
    unfold pop. rewrite Hl, Hsum, N.eqb_refl. cbn [negb]. rewrite Hwalk, Hhl, N.eqb_refl. cbn [negb].
    rewrite Hfind. eauto.
  Qed.

  Lemma pop_LInv Arr st p st' : LInv Arr st -> pop st = POk p st' -> LInv Arr st'.
  Proof.
    intros HL Hpop. pose proof HL as (Hwf & HS & H3 & H4 & H5).
    destruct (pop_WF _ _ _ Hwf Hpop) as (Hwf' & _ & _ & _ & Hcache).
    pose proof (pop_safe n M Hn Hseq' st HS) as Hps. rewrite Hpop in Hps.
    destruct Hps as (Hk & _ & HS' & Hcur).
    split; [exact Hwf'|split; [exact HS'|split; [|split]]].
    - intros k e. rewrite Hcache, clookup_cremove. destruct (cur st =? k) eqn:E; [discriminate|].
      intro Hl. destruct (H3 _ _ Hl) as (Ha & Hb & Hc). split; [lia|split; assumption].
    - intros f Hf Hfp Hc. rewrite Hcache, clookup_cremove.
      destruct (cur st =? f_seq f) eqn:E; [lia|]. apply H4; [exact Hf|exact Hfp|lia].
    - intros j f Hj Hin Hp. rewrite Hcur in Hj.
      destruct (N.eq_dec j (cur st)) as [->|Hne]; [|apply (H5 j); auto; lia].
      (* the message just popped: its stored fragments sum to its length, so they include f *)
      apply pop_ok_inv in Hpop. destruct Hpop as (e & raw & s0 & Hl & Hsum & _).
      destruct Hwf as (_ & Hent & _). destruct HS as (_ & HSe).
      destruct (H3 _ _ Hl) as (_ & Hincl & Harr). destruct (HSe _ _ Hl) as (_ & Hhl & _).
      destruct (HM _ Hk) as [_ Hgs]. pose proof (strict_good _ _ Hgs) as Hg. apply Harr.
      apply (sum_full (stored_of e) (P (cur st))); auto.
      + now apply stored_nodup, (Hent _ _ Hl).
      + rewrite <- (stored_sum _ (Hent _ _ Hl)), Hsum, Hhl. symmetry. now apply (good_part_sum _ _ Hg).
  Qed.

  Lemma pop_all_LInv Arr fuel : forall st, LInv Arr st -> LInv Arr (fst (fst (pop_all fuel st))).
  Proof.
    induction fuel as [|k IH]; intros st HL; [exact HL|]. cbn [pop_all].
    destruct (pop st) as [| |p st1] eqn:E; try exact HL.
    specialize (IH st1 (pop_LInv _ _ _ _ HL E)). destruct (pop_all k st1) as [[st2 ms] pn]. exact IH.
  Qed.

  Definition Quiet (st : state) : Prop := pop st = PNone.

  Lemma arrive_LInv Arr st r : part_rec r -> cap_frags < max_count -> cap_bytes + record_size r < max_size ->
    LInv Arr st ->
    let st' := fst (fst (fst (arrive st r))) in
    LInv (fun x => In x (rec_frags r) \/ Arr x) st' /\ Quiet st'.
  Proof.
    intros Hr Hcf Hcb HL. cbv zeta.
    destruct r as [x|x|ep fs tail]; cbn [part_rec] in Hr; try contradiction. destruct Hr as [-> Hfs].
    destruct (LInv_capacity _ _ HL) as [Hsz Hct].
    unfold arrive, push.
    replace (max_size <=? record_size (RHs ep fs 0)) with false by (symmetry; apply N.leb_gt; lia).
    replace ((max_size <=? size st + record_size (RHs ep fs 0)) || (max_count <=? count st)) with false
      by (symmetry; apply orb_false_intro; apply N.leb_gt; lia).
    pose proof (push_frags_LInv ep fs Hfs Arr st false HL) as H1. unfold push_frags.
    destruct (fold_left (push_frag ep) fs (st, false)) as [st1 retr]. cbn [fst N.eqb orb negb] in *.
    pose proof (pop_all_LInv _ (S (length (cache st1))) st1 H1) as H2.
    pose proof (drain_done st1) as Hd. unfold drain in *.
    destruct H1 as (_ & HS1 & _).
    pose proof (pop_all_safe n M Hn Hseq' (S (length (cache st1))) st1 HS1) as Hsafe.
    destruct (pop_all (S (length (cache st1))) st1) as [[st2 ms] pn]. cbn [fst] in *.
    destruct Hsafe as (-> & _). split; [exact H2|]. now apply Hd.
  Qed.

  Lemma run_LInv rs : cap_frags < max_count ->
    Forall (fun r => part_rec r /\ cap_bytes + record_size r < max_size) rs ->
    forall Arr st, LInv Arr st -> Quiet st ->
    let st' := fst (fst (run st rs)) in
    LInv (fun x => In x (arrived rs) \/ Arr x) st' /\ Quiet st'.
  Proof.
    intros Hcf. induction 1 as [|r rs [Hr Hcb] _ IH]; intros Arr st HL HQ; cbv zeta.
    - cbn [run fst arrived flat_map]. split; [|exact HQ]. eapply LInv_equiv; [|exact HL]. intro x; cbn [In]; tauto.
    - cbn [run]. pose proof (arrive_LInv Arr st r Hr Hcf Hcb HL) as H1. cbv zeta in H1.
      destruct (arrive st r) as [[[st1 tr] ms] p]. cbn [fst] in H1. destruct H1 as [HL1 HQ1].
      specialize (IH _ st1 HL1 HQ1). cbv zeta in IH.
      destruct (run st1 rs) as [[st2 ms'] p']. cbn [fst] in *. destruct IH as [HL2 HQ2].
      split; [|exact HQ2]. eapply LInv_equiv; [|exact HL2].
      intro x. cbn [arrived flat_map]. rewrite in_app_iff. fold (arrived rs). tauto.
  Qed.

  (* COMPLETENESS.  Every message has one fixed partition P j (a good partition: what
     fragmentHandshake emits for any MTU > 0, by SplitSound.split_msg_good_part), the arrival history
     is any list of well-formed handshake records made of fragments of these partitions (any order,
     duplication, interleaving, packing), and the handshake direction fits the buffer limits.  Then
     after the history:
       - message j has been delivered as soon as every fragment of messages 0..j has arrived;
       - a delivered message had every non-empty fragment (every byte) arrived;
       - (with reassembly_safe) what was delivered is M 0 .. M (cur-1), exactly once, in order. *)
  Theorem reassembly_complete rs : cap_frags < max_count ->
    Forall (fun r => part_rec r /\ cap_bytes + record_size r < max_size) rs ->
    let '(st, pops, pn) := run init rs in
    pn = false /\ cur st <= n /\ map strip pops = map (fun j => hstrip (M j)) (idx (cur st)) /\
    (forall j, j < n -> (forall i f, i <= j -> In f (P i) -> In f (arrived rs)) -> j < cur st) /\
    (forall j f, j < cur st -> In f (P j) -> 0 < f_flen f -> In f (arrived rs)).
  Proof.
    intros Hcf Hrs.
    assert (Hhon : Forall (honest_rec n M) rs).
    { eapply Forall_impl; [|exact Hrs]. cbn. intros r [Hr _]. now apply part_rec_honest. }
    pose proof (reassembly_safe n M Hn Hseq' rs Hhon) as Hsafe.
    pose proof (run_LInv rs Hcf Hrs _ init LInv_init eq_refl) as HL. cbv zeta in HL.
    destruct (run init rs) as [[st pops] pn]. cbn [fst] in HL. destruct Hsafe as (Hpn & Hc & Hm).
    destruct HL as [HL HQ]. split; [exact Hpn|split; [exact Hc|split; [exact Hm|split]]].
    - intros j Hj Hall. destruct (N.lt_ge_cases j (cur st)) as [H|Hge]; [exact H|exfalso].
      set (k := cur st) in *. assert (Hk : k < n) by lia.
      destruct (HM k Hk) as [_ Hgs]. destruct (good_part_first _ _ (strict_good _ _ Hgs)) as (f0 & Hf0 & _).
      pose proof HL as (_ & _ & H3 & H4 & _).
      assert (Hst : forall f, In f (P k) -> exists e, clookup k (cache st) = Some e /\ In f (stored_of e)).
      { intros f Hf. rewrite <- (part_frag_seq k f Hk Hf).
        apply H4; [left; apply (Hall k f Hge Hf)|rewrite (part_frag_seq k f Hk Hf); exact Hf|
                   rewrite (part_frag_seq k f Hk Hf); subst k; lia]. }
      destruct (Hst f0 Hf0) as (e & Hl & _).
      destruct (complete_pops _ st e HL Hl) as (p & st' & Hp).
      + intros f Hf. destruct (Hst f Hf) as (e' & Hl' & Hi). fold k in Hl. rewrite Hl in Hl'. now inversion Hl'.
      + unfold Quiet in HQ. rewrite HQ in Hp. discriminate.
    - intros j f Hj Hin Hp. destruct HL as (_ & _ & _ & _ & H5).
      destruct (H5 j f Hj Hin Hp) as [H|[]]. exact H.
  Qed.
End Complete.

(* ------------------------------------------------------------------ 6. refutations (liveness) *)

(* generic "nothing is ever popped again" argument: a predicate that makes Pop return nil and
   survives every Push *)
Lemma run_wedged (W : state -> Prop) :
  (forall st, W st -> pop st = PNone) ->
  (forall st r, W st -> W (fst (push st r))) ->
  forall rs st, W st -> snd (fst (run st rs)) = [] /\ snd (run st rs) = false /\ W (fst (fst (run st rs))).
Proof.
  intros Hpop Hpush. induction rs as [|r rs IH]; intros st HW; [cbn; auto|].
  cbn [run]. unfold arrive. pose proof (Hpush st r HW) as H1.
  destruct (push st r) as [st1 [[ish retr] err]]. cbn [fst] in H1.
  destruct (err || negb ish).
  - specialize (IH st1 H1). destruct (run st1 rs) as [[st2 ms] p]. cbn [fst snd app orb] in *. exact IH.
  - unfold drain. cbn [pop_all]. rewrite (Hpop st1 H1).
    specialize (IH st1 H1). destruct (run st1 rs) as [[st2 ms] p]. cbn [fst snd app orb] in *. exact IH.
Qed.

Lemma push_W_from_frag (W : state -> Prop) :
  (forall ep st b f, W st -> W (fst (push_frag ep (st, b) f))) ->
  forall st r, W st -> W (fst (push st r)).
Proof.
  intros Hf st r HW. destruct (push_fst_cases st r) as [->|(ep & fs & tail & _ & _ & ->)]; [exact HW|].
  apply (push_frags_fold W ep (Hf ep) fs st false HW).
Qed.

(* (a) OVERSHOOT.  Once the stored fragment lengths of the current message sum to more than its
   Length, `fragmentsLength != handshakeLength` holds forever: whatever is pushed afterwards (honest
   or not), nothing is ever popped again. *)
Definition Overshot (st : state) : Prop :=
  exists e, clookup (cur st) (cache st) = Some e /\ e_hlen e < e_sum e.

Lemma overshot_pop st : Overshot st -> pop st = PNone.
Proof.
  intros (e & Hl & Hlt). unfold pop. rewrite Hl.
  destruct (e_sum e =? e_hlen e) eqn:E; [lia|reflexivity].
Qed.

Lemma overshot_push_frag ep st b f : Overshot st -> Overshot (fst (push_frag ep (st, b) f)).
Proof.
  intros (e & Hl & Hlt). unfold Overshot, push_frag. destruct (f_seq f <? cur st); [now exists e|].
  destruct (skip_empty f); [now exists e|].
  destruct (N.eq_dec (f_seq f) (cur st)) as [Heq|Hne].
  - rewrite Heq, Hl. destruct (efind _ _); cbn [fst cache cur]; eexists; rewrite clookup_cset, N.eqb_refl;
      (split; [reflexivity|cbn [e_hlen e_sum]; lia]).
  - destruct (match clookup (f_seq f) (cache st) with Some e1 => e1 | None => _ end) as [fr sm hl].
    cbn [e_frags e_sum e_hlen]. destruct (efind (f_off f) fr); cbn [fst cache cur]; exists e;
      rewrite clookup_cset; (destruct (f_seq f =? cur st) eqn:E; [apply N.eqb_eq in E; contradiction|]); auto.
Qed.

Theorem overshoot_wedges_forever st rs : Overshot st ->
  snd (fst (run st rs)) = [] /\ Overshot (fst (fst (run st rs))).
Proof.
  intro H. destruct (run_wedged Overshot overshot_pop
    (push_W_from_frag Overshot overshot_push_frag) rs st H) as (H1 & _ & H3). now split.
Qed.

(* ... and two different MTU partitions of the same 4-byte message reach that state: fragment (0,2)
   of the MTU-2 partition, fragment (3,1) of the MTU-3 partition, then (2,2) of the MTU-2 partition:
   2 + 1 + 2 = 5 > 4.  All three are genuine slices (reassembly_safe applies: nothing wrong is ever
   delivered) - but the message is never delivered, although every byte has arrived. *)
Definition rp_msg : hmsg := mkMsg 1 0 [1; 2; 3; 4].
Definition rp_history : list record :=
  [RHs 0 [mkFrag 1 4 0 0 [1; 2]] 0; RHs 0 [mkFrag 1 4 0 3 [4]] 0; RHs 0 [mkFrag 1 4 0 2 [3; 4]] 0].

Theorem repartition_wedges_refuted :
  Forall (fun r => Forall (fun f => In f (split_msg 2 rp_msg) \/ In f (split_msg 3 rp_msg)) (rec_frags r)) rp_history /\
  (forall rs, snd (fst (run init (rp_history ++ rs))) = []).
Proof.
  split.
  - vm_compute. repeat constructor; tauto.
  - intro rs.
    assert (Hst : Overshot (fst (fst (run init rp_history)))).
    { vm_compute. eexists. split; [reflexivity|]. vm_compute. reflexivity. }
    assert (Hpre : snd (fst (run init rp_history)) = []) by (vm_compute; reflexivity).
    assert (Happ : forall a b st, snd (fst (run st (a ++ b))) =
                     snd (fst (run st a)) ++ snd (fst (run (fst (fst (run st a))) b))).
    { induction a as [|r a IH]; intros b st; [reflexivity|]. cbn [app run].
      destruct (arrive st r) as [[[st1 tr] ms] p]. specialize (IH b st1).
      destruct (run st1 (a ++ b)) as [[s2 m2] p2]. destruct (run st1 a) as [[s3 m3] p3].
      cbn [fst snd] in *. destruct (run s3 b) as [[s4 m4] p4]. cbn [fst snd] in *.
      rewrite IH. now rewrite app_assoc. }
    rewrite Happ, Hpre. cbn [app]. now destruct (overshoot_wedges_forever _ rs Hst).
Qed.

(* (b) [was a wedge before the fix "ignore empty handshake fragments that cannot belong to a message"]
   An empty fragment that is not the offset-0 fragment of an empty message is inert: the buffer is
   unchanged, only the retransmission flag is computed as for any other fragment. *)
Theorem empty_fragment_inert ep st b f : skip_empty f = true ->
  push_frag ep (st, b) f = (st, b || (f_seq f <? cur st)).
Proof.
  unfold push_frag. intro H. destruct (f_seq f <? cur st); [now rewrite orb_true_r|].
  rewrite H. now rewrite orb_false_r.
Qed.

Corollary zero_fragment_in_message_inert ep st b f :
  f_flen f = 0 -> f_len f <> 0 -> fst (push_frag ep (st, b) f) = st.
Proof.
  intros Hz Hl. rewrite empty_fragment_inert; [reflexivity|].
  unfold skip_empty. rewrite Hz. apply N.eqb_neq in Hl. rewrite Hl. reflexivity.
Qed.

(* regression corpus: the two inputs that failed before the fix *)
Definition zf_partition : list frag := [mkFrag 1 4 0 0 [1; 2]; mkFrag 1 4 0 2 []; mkFrag 1 4 0 2 [3; 4]].
Definition zf_history : list record := map (fun f => RHs 0 [f] 0) zf_partition.
Definition old_panic_record : record := RHs 0 [mkFrag 14 0 0 1 []] 0.

Theorem zero_fragment_regression :
  good_part rp_msg zf_partition /\
  map strip (snd (fst (run init zf_history))) = [hstrip rp_msg] /\ snd (run init zf_history) = false.
Proof.
  split; [|split; vm_compute; reflexivity].
  split; [discriminate|]. split; [repeat constructor|]. split; [vm_compute; auto|reflexivity].
Qed.

Theorem old_panic_input_regression :
  arrive init old_panic_record = (init, (true, false, false), [], false).
Proof. vm_compute. reflexivity. Qed.

(* (c) CAPACITY.  Once totalFragmentCount has reached fragmentBufferMaxCount every Push fails with
   ErrFragmentBufferOverflow and changes nothing; only Pop / AdvanceTo free space.  So a message cut
   into more than max_count fragments can never be reassembled. *)
Definition Full (st : state) : Prop := max_count <= count st /\ pop st = PNone.

(* a full buffer refuses every handshake record; other records are still classified (826a95e) *)
Lemma full_push st r : Full st ->
  fst (push st r) = st /\ (let '(ish, _, err) := snd (push st r) in err || negb ish = true).
Proof.
  intros [H _]. unfold push. destruct (max_size <=? record_size r); [now split|].
  destruct r as [x|x|ep fs tail]; [now split|now split|].
  replace (max_count <=? count st) with true by (symmetry; apply N.leb_le; exact H).
  rewrite orb_true_r. now split.
Qed.

Theorem full_rejects_forever st rs : Full st -> run st rs = (st, [], false).
Proof.
  intro HF. induction rs as [|r rs IH]; [reflexivity|]. cbn [run]. unfold arrive.
  destruct (full_push st r HF) as [H1 H2]. destruct (push st r) as [st1 [[ish retr] err]].
  cbn [fst snd] in H1, H2. subst st1. rewrite H2, IH. reflexivity.
Qed.

Definition cap_msg : hmsg := mkMsg 11 0 (repeat 7 1001).
Definition cap_history : list record := map (fun f => RHs 0 [f] 0) (split_msg 1 cap_msg).

Theorem capacity_wedges_refuted :
  length (split_msg 1 cap_msg) = 1001%nat /\
  snd (fst (run init cap_history)) = [] /\ Full (fst (fst (run init cap_history))).
Proof.
  split; [vm_compute; reflexivity|]. split; [vm_compute; reflexivity|].
  split; [|vm_compute; reflexivity]. vm_compute. intro H. discriminate.
Qed.

(* hostile only: the popped header is the offset-0 fragment's, the body length is the creating
   fragment's Length - they need not agree *)
Theorem hostile_length_mismatch :
  exists rs p, snd (fst (run init rs)) = [p] /\ p_len p <> len (p_body p).
Proof.
  exists [RHs 0 [mkFrag 1 2 0 1 [9]] 0; RHs 0 [mkFrag 1 7 0 0 [8]] 0]. eexists. split; [vm_compute; reflexivity|].
  vm_compute. intro H. discriminate.
Qed.

(* (d) RE-FRAGMENTED RETRANSMISSION (known finding K-C12-1; RFC 6347 4.2.3 / RFC 9147 5.5 ask receivers
   to handle overlapping fragment ranges).  A 200-byte message is first sent in 100-byte fragments and
   only [0,100) arrives; the sender then retransmits the WHOLE message in 150-byte fragments
   ([0,150), [150,200)), as often as it likes, in any packing, under any epoch, with any junk in
   between.  Fragments are keyed by offset and the first writer wins: [0,150) is dropped because
   offset 0 is taken by the shorter fragment, the stored lengths sum to 100 or 150, never 200 -
   the message is never delivered although every byte has arrived (some of them many times). *)
Lemma run_wedged_on (W : state -> Prop) (R : record -> Prop) :
  (forall st, W st -> pop st = PNone) ->
  (forall st r, R r -> W st -> W (fst (push st r))) ->
  forall rs st, Forall R rs -> W st ->
    snd (fst (run st rs)) = [] /\ snd (run st rs) = false /\ W (fst (fst (run st rs))).
Proof.
  intros Hpop Hpush. induction rs as [|r rs IH]; intros st HR HW; [cbn; auto|].
  inversion HR as [|? ? Hr HR']; subst.
  cbn [run]. unfold arrive. pose proof (Hpush st r Hr HW) as H1.
  destruct (push st r) as [st1 [[ish retr] err]]. cbn [fst] in H1.
  destruct (err || negb ish).
  - specialize (IH st1 HR' H1). destruct (run st1 rs) as [[st2 ms] p]. cbn [fst snd app orb] in *. exact IH.
  - unfold drain. cbn [pop_all]. rewrite (Hpop st1 H1).
    specialize (IH st1 HR' H1). destruct (run st1 rs) as [[st2 ms] p]. cbn [fst snd app orb] in *. exact IH.
Qed.

Lemma push_frags_fold_on (Q : state -> Prop) (P : frag -> Prop) ep :
  (forall st b f, P f -> Q st -> Q (fst (push_frag ep (st, b) f))) ->
  forall fs st b, Forall P fs -> Q st -> Q (fst (fold_left (push_frag ep) fs (st, b))).
Proof.
  intros Hstep. induction fs as [|f fs IH]; intros st b HP HQ; [exact HQ|].
  inversion HP as [|? ? Hf HP']; subst.
  cbn [fold_left]. destruct (push_frag ep (st, b) f) as [st1 b1] eqn:E.
  apply IH; [exact HP'|]. specialize (Hstep st b f Hf HQ). now rewrite E in Hstep.
Qed.

Definition rt_msg : hmsg := mkMsg 11 0 (map N.of_nat (seq 1 200)).
(* the one fragment of the first transmission that arrives *)
Definition rt_first : frag := mkFrag 11 200 0 0 (map N.of_nat (seq 1 100)).
(* every fragment of a record belongs to the 150-byte partition of rt_msg (junk records: vacuous) *)
Definition rt_retransmission (r : record) : Prop :=
  Forall (fun f => In f (split_msg 150 rt_msg)) (rec_frags r).

Definition RtStuck (st : state) : Prop :=
  cur st = 0 /\
  exists e, clookup 0 (cache st) = Some e /\ e_hlen e = 200 /\ efind 0 (e_frags e) <> None /\
            ((e_sum e = 100 /\ efind 150 (e_frags e) = None) \/
             (e_sum e = 150 /\ efind 150 (e_frags e) <> None)).

Lemma rt_stuck_pop st : RtStuck st -> pop st = PNone.
Proof.
  intros (Hc & e & Hl & Hh & _ & Hs). unfold pop. rewrite Hc, Hl.
  destruct (e_sum e =? e_hlen e) eqn:E; [|reflexivity]. apply N.eqb_eq in E. lia.
Qed.

Lemma rt_stuck_push_frag ep st b f :
  f_seq f = 0 -> 0 < f_flen f -> (f_off f = 0 \/ (f_off f = 150 /\ f_flen f = 50)) ->
  RtStuck st -> RtStuck (fst (push_frag ep (st, b) f)).
Proof.
  intros Hq Hpos Hoff (Hc & e & Hl & Hh & H0 & Hs). unfold push_frag. rewrite Hq, Hc. cbn [N.ltb N.compare].
  replace (skip_empty f) with false
    by (unfold skip_empty; destruct (f_flen f =? 0) eqn:E; [apply N.eqb_eq in E; lia|reflexivity]).
  rewrite Hl. destruct Hoff as [Ho|[Ho Hfl]]; rewrite Ho.
  - destruct (efind 0 (e_frags e)) as [s0|] eqn:E0; [|contradiction].
    cbn [fst]. split; [reflexivity|]. exists e. cbn [cache]. rewrite clookup_cset. cbn [N.eqb].
    repeat split; try assumption. now rewrite E0.
  - destruct Hs as [[Hs Hn]|[Hs Hn]].
    + rewrite Hn. cbn [fst]. split; [reflexivity|]. eexists. cbn [cache]. rewrite clookup_cset. cbn [N.eqb].
      split; [reflexivity|]. cbn [e_hlen e_frags e_sum]. split; [exact Hh|].
      unfold efind in *. cbn [find].
      replace (s_off (mkS f ep)) with 150 by (symmetry; exact Ho). cbn [N.eqb Pos.eqb].
      split; [exact H0|]. right. split; [lia|discriminate].
    + destruct (efind 150 (e_frags e)) as [s1|] eqn:E1; [|contradiction].
      cbn [fst]. split; [reflexivity|]. exists e. cbn [cache]. rewrite clookup_cset. cbn [N.eqb].
      repeat split; try assumption. right. split; [exact Hs|]. now rewrite E1.
Qed.

Lemma rt_stuck_push st r : rt_retransmission r -> RtStuck st -> RtStuck (fst (push st r)).
Proof.
  intros HR HW. destruct (push_fst_cases st r) as [->|(ep & fs & tail & Hr & _ & ->)]; [exact HW|].
  subst r. unfold rt_retransmission in HR. cbn [rec_frags] in HR. unfold push_frags.
  apply (push_frags_fold_on RtStuck (fun f => In f (split_msg 150 rt_msg)) ep); [|exact HR|exact HW].
  intros st0 b f Hin H. apply rt_stuck_push_frag; [| | |exact H];
    (vm_compute in Hin; destruct Hin as [<-|[<-|[]]]; vm_compute; auto).
Qed.

Theorem refragmented_retransmission_refuted :
  In rt_first (split_msg 100 rt_msg) /\ cat_data (split_msg 150 rt_msg) = m_body rt_msg /\
  (forall rs, Forall rt_retransmission rs -> snd (fst (run init (RHs 0 [rt_first] 0 :: rs))) = []).
Proof.
  split; [vm_compute; auto|]. split; [vm_compute; reflexivity|]. intros rs HR.
  assert (H1 : arrive init (RHs 0 [rt_first] 0) =
               (fst (fst (fst (arrive init (RHs 0 [rt_first] 0)))), (true, false, false), [], false))
    by (vm_compute; reflexivity).
  cbn [run]. rewrite H1.
  assert (HW : RtStuck (fst (fst (fst (arrive init (RHs 0 [rt_first] 0)))))).
  { split; [vm_compute; reflexivity|]. eexists. split; [vm_compute; reflexivity|].
    split; [vm_compute; reflexivity|]. split; [vm_compute; discriminate|]. left. split; vm_compute; reflexivity. }
  destruct (run_wedged_on RtStuck rt_retransmission rt_stuck_pop rt_stuck_push rs _ HR HW) as (Hp & _ & _).
  destruct (run _ rs) as [[st2 ms] p]. cbn [fst snd app] in *. exact Hp.
Qed.

(* (e) EPOCH SPLICE (known finding K-C12-2).  The fragments of one message are not bound to one epoch:
   the cache is keyed by message_seq only and Pop reports the epoch of the offset-0 fragment.  One
   forged fragment in an unprotected epoch-0 record, stored before the genuine (protected, epoch 2)
   fragment with the same offset arrives, takes that offset: the message surfaced as an epoch-2
   message carries the forged bytes.  (C12_reassembly_safe assumes EVERY stored fragment is a genuine
   slice; this is the witness that the premise is needed.) *)
Definition es_msg : hmsg := mkMsg 11 0 [1; 2; 3; 4].
Definition es_forged : frag := mkFrag 11 4 0 2 [238; 238].
Definition es_history : list record :=
  RHs 0 [es_forged] 0 :: map (fun f => RHs 2 [f] 0) (split_msg 2 es_msg).

Theorem epoch_splice_refuted :
  exists p, snd (fst (run init es_history)) = [p] /\ p_epoch p = 2 /\ p_seq p = m_seq es_msg /\
            p_body p <> m_body es_msg /\ p_body p = [1; 2] ++ f_data es_forged.
Proof.
  eexists. split; [vm_compute; reflexivity|]. cbn [p_epoch p_seq p_body].
  repeat split; try reflexivity. vm_compute. discriminate.
Qed.

(* (f) MTU NOT BOUNDED BY THE RECEIVER (known finding K-C12-3).  fragmentHandshake cuts by the configured
   MTU only; the receiving side of the same library reads every datagram into inboundBufferSize
   (8192) bytes.  With MTU 9000 a 9000-byte body is ONE fragment (within the MTU, as C12_split says)
   whose record does not fit the peer's read buffer. *)
Definition jumbo_msg : hmsg := mkMsg 11 0 (repeat 0 (N.to_nat 9000)).

Theorem mtu_exceeds_read_buffer_refuted :
  Forall (fun f => f_flen f <= 9000) (split_msg 9000 jumbo_msg) /\
  exists f, In f (split_msg 9000 jumbo_msg) /\ g_inbound_buffer < rec_hdr + hs_hdr + f_flen f.
Proof.
  split.
  - apply (proj1 (proj2 (proj2 (split_ok 9000 _ _ _ _ eq_refl)))).
  - eexists. split; [vm_compute; left; reflexivity|]. vm_compute. reflexivity.
Qed.

(* (g) MANY MESSAGES AT ONCE.  reassembly_complete bounds bytes and fragments only (and message_seq <
   65536): there is no bound on how many messages are under reassembly at the same time.  Non-vacuity
   witness: ten 10-byte messages cut at MTU 4 arrive LAST MESSAGE FIRST (30 records, ten cache entries
   while message 0 is still missing) - every message is delivered, in order, once. *)
Definition mm_msgs : list hmsg :=
  map (fun j => mkMsg 11 (N.of_nat j) (map (fun i => N.of_nat (10 * j + i)) (seq 0 10))) (seq 0 10).
Definition mm_history : list record :=
  flat_map (fun m => map (fun f => RHs 0 [f] 0) (split_msg 4 m)) (rev mm_msgs).

Theorem many_messages_reverse_delivered :
  length mm_history = 30%nat /\
  map strip (snd (fst (run init mm_history))) = map hstrip mm_msgs /\
  snd (fst (run init (removelast mm_history))) = [] /\
  length (cache (fst (fst (run init (removelast mm_history))))) = 10%nat.
Proof. vm_compute. repeat split; reflexivity. Qed.

(* ------------------------------------------------------------------ list-level restatements *)

Lemma firstn_succ_nth {A} (d : A) : forall l k, (k < length l)%nat -> firstn (S k) l = firstn k l ++ [nth k l d].
Proof.
  induction l as [|x l IH]; intros k Hk; [cbn in Hk; lia|].
  destruct k as [|k]; [reflexivity|]. cbn [length] in Hk.
  change (firstn (S (S k)) (x :: l)) with (x :: firstn (S k) l). rewrite (IH k) by lia. reflexivity.
Qed.

Lemma idx_nth_firstn {A B} (g : A -> B) (l : list A) (d : A) : forall k : nat, (k <= length l)%nat ->
  map (fun j => g (nth (N.to_nat j) l d)) (idx (N.of_nat k)) = firstn k (map g l).
Proof.
  induction k as [|k IH]; intro Hk; [reflexivity|].
  replace (N.of_nat (S k)) with (N.of_nat k + 1) by lia. rewrite idx_succ, map_app, IH by lia.
  cbn [map]. rewrite Nat2N.id.
  rewrite (firstn_succ_nth (g d)) by (rewrite map_length; lia). now rewrite map_nth.
Qed.

(* honest messages given as a list: message j is the j-th element *)
Definition msg_fn (msgs : list hmsg) (j : N) : hmsg := nth (N.to_nat j) msgs (mkMsg 0 0 []).
Definition numbered (msgs : list hmsg) : Prop :=
  forall j, j < N.of_nat (length msgs) -> m_seq (msg_fn msgs j) = j.

Theorem reassembly_safe_list (msgs : list hmsg) (rs : list record) :
  N.of_nat (length msgs) < 65536 -> numbered msgs ->
  Forall (honest_rec (N.of_nat (length msgs)) (msg_fn msgs)) rs ->
  let '(st, pops, pn) := run init rs in
  pn = false /\ (N.to_nat (cur st) <= length msgs)%nat /\
  map strip pops = firstn (N.to_nat (cur st)) (map hstrip msgs).
Proof.
  intros Hn Hnum Hrs. pose proof (reassembly_safe _ _ Hn Hnum rs Hrs) as H.
  destruct (run init rs) as [[st pops] pn]. destruct H as (H1 & H2 & H3).
  split; [exact H1|split; [lia|]]. rewrite H3.
  rewrite <- (idx_nth_firstn hstrip msgs (mkMsg 0 0 []) (N.to_nat (cur st))) by lia.
  rewrite N2Nat.id. reflexivity.
Qed.

(* ---- general partitions (zero-length fragments anywhere, repeated empty fragments): the receiver
   effectively sees [eff]: the non-empty fragments, or the first fragment of an empty message ---- *)
Definition eff (m : hmsg) (Pl : list frag) : list frag :=
  if len (m_body m) =? 0 then firstn 1 Pl else filter (fun f => 0 <? f_flen f) Pl.

Lemma contiguous_filter_pos : forall Pl off, contiguous off Pl ->
  contiguous off (filter (fun f => 0 <? f_flen f) Pl) /\
  cat_data (filter (fun f => 0 <? f_flen f) Pl) = cat_data Pl.
Proof.
  induction Pl as [|g Pl IH]; intros off Hc; [split; [exact I|reflexivity]|].
  cbn [contiguous] in Hc. destruct Hc as [Hoff Hc]. cbn [filter].
  destruct (0 <? f_flen g) eqn:E.
  - destruct (IH _ Hc) as [H1 H2]. split; [cbn [contiguous]; now split|].
    unfold cat_data in *. cbn [map concat]. now rewrite H2.
  - assert (Hz : f_flen g = 0) by lia. rewrite Hz, N.add_0_r in Hc. destruct (IH _ Hc) as [H1 H2].
    split; [exact H1|]. unfold cat_data in *. cbn [map concat]. rewrite H2.
    unfold f_flen in Hz. apply len_0_nil in Hz. now rewrite Hz.
Qed.

Lemma contig_pos_nodup : forall S off, contiguous off S -> Forall (fun f => 0 < f_flen f) S ->
  (forall f, In f S -> off <= f_off f) /\ NoDup (map f_off S).
Proof.
  induction S as [|g S IH]; intros off Hc Hp; [split; [intros f []|constructor]|].
  cbn [contiguous] in Hc. destruct Hc as [Hoff Hc]. inversion Hp as [|? ? Hg Hp']; subst.
  destruct (IH _ Hc Hp') as [H1 H2]. split.
  - intros f [<-|Hf]; [lia|]. specialize (H1 f Hf). lia.
  - cbn [map]. constructor; [|exact H2]. intro Hin. apply in_map_iff in Hin.
    destruct Hin as (f & Hf & Hin). specialize (H1 f Hin). lia.
Qed.

Lemma contiguous_all_empty : forall Pl off, contiguous off Pl -> cat_data Pl = [] ->
  Forall (fun f => f_off f = off /\ f_data f = []) Pl.
Proof.
  induction Pl as [|g Pl IH]; intros off Hc Hcat; [constructor|].
  cbn [contiguous] in Hc. destruct Hc as [Hoff Hc]. unfold cat_data in Hcat. cbn [map concat] in Hcat.
  apply app_eq_nil in Hcat. destruct Hcat as [Hg Hrest]. constructor; [now split|].
  unfold f_flen in Hc. rewrite Hg in Hc. cbn [len length N.of_nat] in Hc. rewrite N.add_0_r in Hc.
  now apply IH.
Qed.

Lemma eff_incl m Pl : incl (eff m Pl) Pl.
Proof.
  unfold eff. destruct (len (m_body m) =? 0); intros f Hf.
  - destruct Pl as [|g Pl]; [contradiction|]. cbn [firstn] in Hf. destruct Hf as [<-|[]]. now left.
  - apply filter_In in Hf. now destruct Hf.
Qed.

Lemma eff_pos m Pl f : good_part m Pl -> In f Pl -> 0 < f_flen f -> In f (eff m Pl).
Proof.
  intros (_ & _ & Hc & Hcat) Hin Hp. unfold eff. destruct (len (m_body m) =? 0) eqn:E.
  - exfalso. apply N.eqb_eq, len_0_nil in E. rewrite E in Hcat.
    pose proof (contiguous_all_empty _ _ Hc Hcat) as Hall. rewrite Forall_forall in Hall.
    destruct (Hall f Hin) as [_ Hd]. unfold f_flen in Hp. rewrite Hd in Hp. cbn in Hp. lia.
  - apply filter_In. split; [exact Hin|]. now apply N.ltb_lt.
Qed.

Lemma eff_cover m Pl f : good_part m Pl -> In f Pl -> In f (eff m Pl) \/ skip_empty f = true.
Proof.
  intros Hg Hin. pose proof Hg as (Hne & Hh & Hc & Hcat).
  destruct (N.eq_dec (f_flen f) 0) as [Hz|Hnz]; [|left; apply (eff_pos m Pl f Hg Hin); lia].
  rewrite Forall_forall in Hh. destruct (Hh f Hin) as (Hty & Hln & Hsq).
  destruct (len (m_body m) =? 0) eqn:E.
  - left. unfold eff. rewrite E. apply N.eqb_eq, len_0_nil in E. rewrite E in Hcat.
    pose proof (contiguous_all_empty _ _ Hc Hcat) as Hall. rewrite Forall_forall in Hall.
    destruct Pl as [|g Pl]; [contradiction|]. cbn [firstn]. left.
    destruct (Hall f Hin) as [Hof Hdf]. destruct (Hall g (or_introl eq_refl)) as [Hog Hdg].
    destruct (Hh g (or_introl eq_refl)) as (Htg & Hlg & Hsg).
    destruct f, g; cbn in *; congruence.
  - right. unfold skip_empty. rewrite Hz, Hln, E. reflexivity.
Qed.

Lemma eff_strict m Pl : good_part m Pl -> strict_part m (eff m Pl).
Proof.
  intros (Hne & Hh & Hc & Hcat). unfold eff. destruct (len (m_body m) =? 0) eqn:E.
  - pose proof E as E'. apply N.eqb_eq, len_0_nil in E'. rewrite E' in Hcat.
    pose proof (contiguous_all_empty _ _ Hc Hcat) as Hall.
    destruct Pl as [|g Pl]; [contradiction|]. cbn [firstn].
    inversion Hall as [|? ? [Hog Hdg] _]; subst. inversion Hh as [|? ? Hhg _]; subst.
    split; [discriminate|]. split; [now constructor|]. split; [cbn; now split|].
    split; [unfold cat_data; cbn [map concat]; now rewrite Hdg, E'|].
    split; [cbn; constructor; [intros []|constructor]|]. constructor; [|constructor].
    destruct Hhg as (_ & Hl & _). unfold skip_empty, f_flen. rewrite Hdg, Hog, Hl, E'. reflexivity.
  - destruct (contiguous_filter_pos _ _ Hc) as [Hc' Hcat'].
    set (F := filter (fun f => 0 <? f_flen f) Pl) in *.
    assert (Hpos : Forall (fun f => 0 < f_flen f) F).
    { apply Forall_forall. intros f Hf. apply filter_In in Hf. destruct Hf as [_ Hf]. now apply N.ltb_lt. }
    split.
    { intro HF. rewrite <- Hcat, <- Hcat', HF in E. cbn in E. discriminate. }
    split; [apply Forall_forall; intros f Hf; apply filter_In in Hf; rewrite Forall_forall in Hh; now apply Hh|].
    split; [exact Hc'|]. split; [now rewrite Hcat'|].
    split; [now destruct (contig_pos_nodup _ _ Hc' Hpos)|].
    eapply Forall_impl; [|exact Hpos]. cbn. intros f Hf. unfold skip_empty.
    replace (f_flen f =? 0) with false by (symmetry; apply N.eqb_neq; lia). reflexivity.
Qed.

Section CompleteGen.
  Variable n : N.
  Variable M : N -> hmsg.
  Variable Q : N -> list frag.
  Hypothesis Hn : n < 65536.
  Hypothesis HQ : forall j, j < n -> m_seq (M j) = j /\ good_part (M j) (Q j).

  Definition gen_frag (f : frag) : Prop := f_seq f < n /\ In f (Q (f_seq f)).
  Definition gen_rec (r : record) : Prop :=
    match r with RHs _ fs tail => tail = 0 /\ Forall gen_frag fs | _ => False end.

  (* COMPLETENESS for arbitrary sender partitions (contiguous cover, zero-length fragments anywhere):
     same statement as reassembly_complete, no side condition on empty fragments. *)
  Theorem reassembly_complete_gen rs : cap_frags n Q < max_count ->
    Forall (fun r => gen_rec r /\ cap_bytes n Q + record_size r < max_size) rs ->
    let '(st, pops, pn) := run init rs in
    pn = false /\ cur st <= n /\ map strip pops = map (fun j => hstrip (M j)) (idx (cur st)) /\
    (forall j, j < n -> (forall i f, i <= j -> In f (Q i) -> In f (arrived rs)) -> j < cur st) /\
    (forall j f, j < cur st -> In f (Q j) -> 0 < f_flen f -> In f (arrived rs)).
  Proof.
    intros Hcf Hrs. set (E := fun j => eff (M j) (Q j)).
    assert (HM : forall j, j < n -> m_seq (M j) = j /\ strict_part (M j) (E j)).
    { intros j Hj. destruct (HQ j Hj) as [H1 H2]. split; [exact H1|now apply eff_strict]. }
    assert (Hcf' : cap_frags n E <= cap_frags n Q).
    { unfold cap_frags. apply wsum_le. intros j _. unfold E, eff. destruct (len (m_body (M j)) =? 0).
      - rewrite firstn_length. lia.
      - pose proof (filter_len_le (fun f => 0 <? f_flen f) (Q j)). lia. }
    assert (Hcb' : cap_bytes n E <= cap_bytes n Q).
    { unfold cap_bytes. apply wsum_le. intros j Hj. apply In_idx in Hj. destruct (HQ j Hj) as [_ Hg].
      unfold E. rewrite (good_part_sum _ _ Hg), (good_part_sum _ _ (strict_good _ _ (eff_strict _ _ Hg))). lia. }
    assert (Hrs' : Forall (fun r => part_rec n M E r /\ cap_bytes n E + record_size r < max_size) rs).
    { eapply Forall_impl; [|exact Hrs]. cbn. intros r [Hr Hb]. split; [|lia].
      destruct r as [x|x|ep fs tail]; cbn in *; try contradiction. destruct Hr as [Ht Hfs]. split; [exact Ht|].
      eapply Forall_impl; [|exact Hfs]. cbn. intros f [Hk Hin]. split; [exact Hk|].
      destruct (HQ _ Hk) as [_ Hg]. destruct (eff_cover _ _ f Hg Hin) as [H|H]; [now left|right].
      split; [exact H|now apply (good_part_slice _ _ f Hg)]. }
    pose proof (reassembly_complete n M E Hn HM rs (N.le_lt_trans _ _ _ Hcf' Hcf) Hrs') as H.
    destruct (run init rs) as [[st pops] pn]. destruct H as (H1 & H2 & H3 & H4 & H5).
    split; [exact H1|split; [exact H2|split; [exact H3|split]]].
    - intros j Hj Hall. apply (H4 j Hj). intros i f Hi Hf. apply (Hall i f Hi). now apply (eff_incl (M i) (Q i)).
    - intros j f Hj Hf Hp. apply (H5 j f Hj); [|exact Hp]. destruct (HQ j ltac:(lia)) as [_ Hg].
      now apply eff_pos.
  Qed.
End CompleteGen.

Theorem reassembly_complete_list (msgs : list hmsg) (Q : N -> list frag) (rs : list record) :
  let n := N.of_nat (length msgs) in
  n < 65536 -> numbered msgs -> (forall j, j < n -> good_part (msg_fn msgs j) (Q j)) ->
  cap_frags n Q < max_count ->
  Forall (fun r => gen_rec n Q r /\ cap_bytes n Q + record_size r < max_size) rs ->
  let '(st, pops, pn) := run init rs in
  pn = false /\
  map strip pops = firstn (N.to_nat (cur st)) (map hstrip msgs) /\
  (forall j, j < n -> (forall i f, i <= j -> In f (Q i) -> In f (arrived rs)) -> j < cur st) /\
  (forall j f, j < cur st -> In f (Q j) -> 0 < f_flen f -> In f (arrived rs)).
Proof.
  cbv zeta. intros Hn Hnum Hgp Hcf Hrs.
  assert (HM : forall j, j < N.of_nat (length msgs) -> m_seq (msg_fn msgs j) = j /\ good_part (msg_fn msgs j) (Q j))
    by (intros j Hj; split; [now apply Hnum|now apply Hgp]).
  pose proof (reassembly_complete_gen _ _ Q Hn HM rs Hcf Hrs) as H.
  destruct (run init rs) as [[st pops] pn]. destruct H as (H1 & H2 & H3 & H4 & H5).
  split; [exact H1|split; [|split; [exact H4|exact H5]]]. rewrite H3.
  rewrite <- (idx_nth_firstn hstrip msgs (mkMsg 0 0 []) (N.to_nat (cur st))) by lia.
  rewrite N2Nat.id. reflexivity.
Qed.

(* the harness driver never sees a panic either: for ANY list of records *)
Lemma pop_all_NP fuel : forall st, WF st -> NP st ->
  let '(st', _, pn) := pop_all fuel st in pn = false /\ WF st' /\ NP st'.
Proof.
  induction fuel as [|k IH]; intros st Hwf Hnp; cbn [pop_all]; [auto|].
  destruct (pop st) as [| |p st1] eqn:E; [auto|exfalso; now apply (NP_no_panic st)|].
  specialize (IH st1 ltac:(now destruct (pop_WF _ _ _ Hwf E)) (pop_NP _ _ _ Hwf Hnp E)).
  destruct (pop_all k st1) as [[st2 ms] pn]. exact IH.
Qed.

Theorem run_never_panics rs : snd (run init rs) = false.
Proof.
  assert (Hgen : forall st, WF st -> NP st -> snd (run st rs) = false).
  { induction rs as [|r rs IH]; intros st Hwf Hnp; [reflexivity|]. cbn [run]. unfold arrive.
    pose proof (push_WF st r Hwf) as H1. pose proof (push_NP st r Hnp) as H2.
    destruct (push st r) as [st1 [[ish retr] err]]. cbn [fst] in H1, H2.
    destruct (err || negb ish).
    - specialize (IH st1 H1 H2). destruct (run st1 rs) as [[s2 m2] p2]. cbn [snd orb] in *. exact IH.
    - unfold drain. pose proof (pop_all_NP (S (length (cache st1))) st1 H1 H2) as H3.
      destruct (pop_all _ st1) as [[st2 ms] pn]. destruct H3 as (-> & H4 & H5).
      specialize (IH st2 H4 H5). destruct (run st2 rs) as [[s3 m3] p3]. cbn [snd orb] in *. exact IH. }
  apply Hgen; [apply WF_init|apply NP_init].
Qed.
