(* C12 - sender side: model of conn.go fragmentHandshake + internal/util/util.go SplitBytes.
   Definitions only; proofs in Frag/SplitSound.v.

   Fragments are modelled structurally (the five header fields + the body bytes the fragment
   carries); the 12-byte header codec (handshake.Header Marshal/Unmarshal) belongs to C18.
   fragment_length is not a separate field: handshake.Header.Marshal is called by
   fragmentHandshake with FragmentLength = len(contentFragment), and the receiver slices
   data = buf[12 : 12+FragmentLength], so on both sides fragment_length = |data|. *)
From DtlsV Require Import Lib.Bytes.
Open Scope N_scope.

Record frag := mkFrag {
  f_ty   : N;      (* handshake.Header.Type            u8  *)
  f_len  : N;      (* handshake.Header.Length          u24 : length of the whole message body *)
  f_seq  : N;      (* handshake.Header.MessageSequence u16 *)
  f_off  : N;      (* handshake.Header.FragmentOffset  u24 *)
  f_data : bytes   (* the body bytes carried; FragmentLength = len f_data *)
}.

Definition f_flen (f : frag) : N := len (f_data f).

(* util.SplitBytes(bytes, splitLen):
     for i := 0; i < numBytes; i += splitLen { j := min(i+splitLen, numBytes); append bytes[i:j] }
   One loop iteration per unit of fuel; fuel = |bytes| suffices when splitLen > 0 (each iteration
   consumes at least one byte).  splitLen = 0 does not terminate in Go (config.go effectiveMTU
   never yields it); the theorems carry the premise 0 < mtu. *)
Fixpoint split_bytes_fuel (fuel : nat) (mtu : N) (b : bytes) : list bytes :=
  match fuel with
  | O => []
  | S k =>
      match b with
      | [] => []
      | _ :: _ => take mtu b :: split_bytes_fuel k mtu (drop mtu b)
      end
  end.

Definition split_bytes (mtu : N) (b : bytes) : list bytes :=
  split_bytes_fuel (length b) mtu b.

(* the loop of fragmentHandshake: one header per content fragment, offset += len(fragment) *)
Fixpoint mk_frags (ty length mseq off : N) (chunks : list bytes) : list frag :=
  match chunks with
  | [] => []
  | c :: cs => mkFrag ty length mseq off c :: mk_frags ty length mseq (off + len c) cs
  end.

(* fragmentHandshake: `if len(contentFragments) == 0 { contentFragments = [][]byte{{}} }` *)
Definition split (mtu ty length mseq : N) (body : bytes) : list frag :=
  let cs := split_bytes mtu body in
  let cs := match cs with [] => [[]] | _ :: _ => cs end in
  mk_frags ty length mseq 0 cs.

(* ---- vocabulary shared with the receiver model ---- *)

Definition sum_flen (l : list frag) : N := fold_right (fun f a => f_flen f + a) 0 l.
Definition cat_data (l : list frag) : bytes := concat (map f_data l).

(* offsets are contiguous starting at [off] *)
Fixpoint contiguous (off : N) (l : list frag) : Prop :=
  match l with
  | [] => True
  | f :: l' => f_off f = off /\ contiguous (off + f_flen f) l'
  end.

(* an honest message: type, message_seq, body; Length = |body| (handshake.Handshake.Marshal sets
   Header.Length = len(msg) before the flight code hands the message to fragmentHandshake) *)
Record hmsg := mkMsg { m_ty : N; m_seq : N; m_body : bytes }.

Definition hdr_of (m : hmsg) (f : frag) : Prop :=
  f_ty f = m_ty m /\ f_len f = len (m_body m) /\ f_seq f = m_seq m.

(* a partition of message m as a sender may emit it: non-empty list, headers repeated,
   offsets contiguous from 0, bodies concatenate to the message body.  Zero-length fragments may
   sit anywhere (the receiver ignores them unless they are the fragment of an empty message). *)
Definition good_part (m : hmsg) (P : list frag) : Prop :=
  P <> [] /\ Forall (hdr_of m) P /\ contiguous 0 P /\ cat_data P = m_body m.

Definition split_msg (mtu : N) (m : hmsg) : list frag :=
  split mtu (m_ty m) (len (m_body m)) (m_seq m) (m_body m).
