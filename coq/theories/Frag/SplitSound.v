(* C12 - sender side proofs: fragmentHandshake + SplitBytes produce a good partition. *)
From DtlsV Require Import Lib.Bytes Frag.Split.
From Coq Require Import ZifyN ZifyNat ZifyBool.
Open Scope N_scope.

(* ---------- SplitBytes ---------- *)

Lemma split_bytes_fuel_ok mtu : 0 < mtu -> forall fuel b, (length b <= fuel)%nat ->
  concat (split_bytes_fuel fuel mtu b) = b /\
  Forall (fun c => 0 < len c /\ len c <= mtu) (split_bytes_fuel fuel mtu b).
Proof.
  intro Hm. induction fuel as [|k IH]; intros b Hb.
  - destruct b; [split; [reflexivity|constructor]|cbn in Hb; lia].
  - cbn [split_bytes_fuel]. destruct b as [|x b']; [split; [reflexivity|constructor]|].
    set (b := x :: b') in *.
    assert (Hd : (length (drop mtu b) <= k)%nat).
    { unfold drop. rewrite skipn_length. subst b. cbn [length] in *. lia. }
    destruct (IH (drop mtu b) Hd) as [Hc Hf]. split.
    + cbn [concat]. rewrite Hc. apply take_drop.
    + constructor; [|exact Hf].
      unfold len, take. rewrite firstn_length. subst b. cbn [length]. lia.
Qed.

Lemma split_bytes_ok mtu b : 0 < mtu ->
  concat (split_bytes mtu b) = b /\
  Forall (fun c => 0 < len c /\ len c <= mtu) (split_bytes mtu b).
Proof. intro Hm. apply split_bytes_fuel_ok; [exact Hm|apply Nat.le_refl]. Qed.

Lemma split_bytes_nil mtu b : 0 < mtu -> split_bytes mtu b = [] -> b = [].
Proof.
  intros Hm H. destruct (split_bytes_ok mtu b Hm) as [Hc _]. rewrite H in Hc. cbn in Hc. now subst.
Qed.

(* ---------- the fragmentHandshake loop ---------- *)

Lemma mk_frags_data ty l s off cs : map f_data (mk_frags ty l s off cs) = cs.
Proof. revert off; induction cs as [|c cs IH]; intro off; cbn [mk_frags map]; [reflexivity|]. now rewrite IH. Qed.

Lemma mk_frags_cat ty l s off cs : cat_data (mk_frags ty l s off cs) = concat cs.
Proof. unfold cat_data. now rewrite mk_frags_data. Qed.

Lemma mk_frags_contiguous ty l s off cs : contiguous off (mk_frags ty l s off cs).
Proof.
  revert off; induction cs as [|c cs IH]; intro off; cbn [mk_frags contiguous]; [exact I|].
  split; [reflexivity|]. unfold f_flen. cbn [f_data]. apply IH.
Qed.

Lemma mk_frags_hdr ty l s off cs :
  Forall (fun f => f_ty f = ty /\ f_len f = l /\ f_seq f = s) (mk_frags ty l s off cs).
Proof.
  revert off; induction cs as [|c cs IH]; intro off; cbn [mk_frags]; constructor; [|apply IH].
  cbn. repeat split.
Qed.

Lemma mk_frags_off_ge ty l s off cs f : In f (mk_frags ty l s off cs) -> off <= f_off f.
Proof.
  revert off; induction cs as [|c cs IH]; intros off Hin; cbn [mk_frags] in Hin; [contradiction|].
  destruct Hin as [<-|Hin]; [cbn; lia|]. apply IH in Hin. lia.
Qed.

Lemma mk_frags_nodup ty l s off cs : Forall (fun c => 0 < len c) cs ->
  NoDup (map f_off (mk_frags ty l s off cs)).
Proof.
  revert off; induction cs as [|c cs IH]; intros off Hpos; cbn [mk_frags map]; [constructor|].
  inversion Hpos as [|c' cs' Hc Hcs]; subst. constructor; [|apply IH; exact Hcs].
  cbn [f_off]. intro Hin. apply in_map_iff in Hin. destruct Hin as [f [Hf Hin]].
  apply mk_frags_off_ge in Hin. lia.
Qed.

Lemma mk_frags_flen ty l s off cs mtu : Forall (fun c => len c <= mtu) cs ->
  Forall (fun f => f_flen f <= mtu) (mk_frags ty l s off cs).
Proof.
  revert off; induction cs as [|c cs IH]; intros off H; cbn [mk_frags]; [constructor|].
  inversion H; subst. constructor; [exact H2|apply IH; assumption].
Qed.

Lemma sum_flen_cat l : sum_flen l = len (cat_data l).
Proof.
  induction l as [|f l IH]; [reflexivity|].
  unfold cat_data in *. cbn [sum_flen fold_right map concat]. rewrite len_app.
  unfold sum_flen in IH. rewrite IH. reflexivity.
Qed.

(* ---------- the theorem about fragmentHandshake ---------- *)

Theorem split_ok mtu ty l s body : 0 < mtu ->
  let fs := split mtu ty l s body in
  fs <> [] /\
  cat_data fs = body /\
  Forall (fun f => f_flen f <= mtu) fs /\
  contiguous 0 fs /\
  Forall (fun f => f_ty f = ty /\ f_len f = l /\ f_seq f = s) fs /\
  NoDup (map f_off fs) /\
  sum_flen fs = len body.
Proof.
  intro Hm. cbv zeta. unfold split.
  destruct (split_bytes_ok mtu body Hm) as [Hc Hf].
  destruct (split_bytes mtu body) as [|c cs] eqn:E.
  - (* empty body: a single empty fragment *)
    assert (body = []) by (apply (split_bytes_nil mtu); assumption). subst body.
    cbn [mk_frags]. repeat split.
    + discriminate.
    + constructor; [|constructor]. unfold f_flen; cbn. lia.
    + constructor; [|constructor]. cbn. repeat split.
    + cbn. constructor; [intros []|constructor].
  - assert (Hnodup : NoDup (map f_off (mk_frags ty l s 0 (c :: cs)))).
    { apply mk_frags_nodup. eapply Forall_impl; [|exact Hf]. cbn. intros a [H _]. exact H. }
    assert (Hcat : cat_data (mk_frags ty l s 0 (c :: cs)) = body) by (rewrite mk_frags_cat; exact Hc).
    repeat split.
    + cbn [mk_frags]. discriminate.
    + exact Hcat.
    + apply mk_frags_flen. eapply Forall_impl; [|exact Hf]. cbn. intros a [_ H]. exact H.
    + apply mk_frags_contiguous.
    + apply mk_frags_hdr.
    + exact Hnodup.
    + rewrite sum_flen_cat, Hcat. reflexivity.
Qed.

Theorem split_msg_good_part mtu m : 0 < mtu -> good_part m (split_msg mtu m).
Proof.
  intro Hm. unfold split_msg.
  destruct (split_ok mtu (m_ty m) (len (m_body m)) (m_seq m) (m_body m) Hm)
    as (Hne & Hcat & _ & Hcont & Hhdr & Hnd & _).
  unfold good_part. repeat split; try assumption.
Qed.

(* number of fragments: one per started mtu-sized chunk, and one for the empty body *)
Lemma split_bytes_fuel_count mtu : 0 < mtu -> forall fuel b, (length b <= fuel)%nat ->
  N.of_nat (length (split_bytes_fuel fuel mtu b)) = (len b + mtu - 1) / mtu.
Proof.
  intro Hm. induction fuel as [|k IH]; intros b Hb.
  - destruct b; [|cbn in Hb; lia]. cbn [split_bytes_fuel length]. unfold len; cbn [length].
    symmetry. apply N.div_small. lia.
  - cbn [split_bytes_fuel]. destruct b as [|x b'].
    + cbn [length]. unfold len; cbn [length]. symmetry. apply N.div_small. lia.
    + set (b := x :: b') in *.
      assert (Hd : (length (drop mtu b) <= k)%nat).
      { unfold drop. rewrite skipn_length. subst b. cbn [length] in *. lia. }
      cbn [length]. rewrite Nat2N.inj_succ, (IH _ Hd), len_drop.
      assert (Hpos : 0 < len b) by (subst b; unfold len; cbn [length]; lia).
      destruct (N.le_gt_cases (len b) mtu) as [Hle|Hgt].
      * replace (len b - mtu) with 0 by lia.
        rewrite (N.div_small (0 + mtu - 1)) by lia.
        assert (H1 : (len b + mtu - 1) / mtu = 1).
        { symmetry. apply N.div_unique with (r := len b - 1); lia. }
        lia.
      * replace (len b + mtu - 1) with ((len b - mtu + mtu - 1) + 1 * mtu) by lia.
        rewrite N.div_add by lia. lia.
Qed.

Theorem split_count mtu ty l s body : 0 < mtu ->
  N.of_nat (length (split mtu ty l s body)) = N.max 1 ((len body + mtu - 1) / mtu).
Proof.
  intro Hm. unfold split.
  pose proof (split_bytes_fuel_count mtu Hm (length body) body (Nat.le_refl _)) as Hc.
  fold (split_bytes mtu body) in Hc.
  assert (Hlen : forall cs, length (mk_frags ty l s 0 cs) = length cs).
  { intro cs. rewrite <- (mk_frags_data ty l s 0 cs) at 2. now rewrite map_length. }
  destruct (split_bytes mtu body) as [|c cs] eqn:E.
  - cbn [mk_frags length] in *. lia.
  - rewrite Hlen. rewrite Hc.
    assert (1 <= (len body + mtu - 1) / mtu); [|lia].
    rewrite <- Hc. cbn [length]. lia.
Qed.
