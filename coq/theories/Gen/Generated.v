(* GENERATED on every run by lib/vlib.py regenerate() from /repo's working tree by executing
   the TestVerifGen* dumpers through go test -overlay. Do not edit. *)
From Coq Require Import List NArith.
Import ListNotations.
Open Scope N_scope.

(* ---- from package . ---- *)
(* ---- from package . ---- *)
Definition g_default_replay_window : N := 64.
Definition g_max_queue : N := 100.
Definition g_inbound_buffer : N := 8192.
Definition g_default_mtu : N := 1200.
Definition g_max_sequence_number : N := 281474976710655.
Definition g_fixed_header_size : N := 13.
Definition g_handshake_header_length : N := 12.
Definition g_eff_window_63 : N := 64.
Definition g_eff_window_64 : N := 64.
Definition g_eff_window_1 : N := 64.
Definition g_eff_window_0 : N := 64.
Definition g_eff_window_100 : N := 128.
Definition g_ct_change_cipher_spec : N := 20.
Definition g_ct_alert : N := 21.
Definition g_ct_handshake : N := 22.
Definition g_ct_application_data : N := 23.
Definition g_ct_connection_id : N := 25.
Definition g_ct_ack : N := 26.
Definition g_ct_rrc : N := 27.
Definition g_alert_warning : N := 1.
Definition g_alert_fatal : N := 2.
Definition g_alert_close_notify : N := 0.
Definition g_epoch13_handshake : N := 2.
Definition g_epoch13_application : N := 3.
Definition g_version12 : N := 65277.
Definition g_version13 : N := 65276.
Definition g_version10 : N := 65279.
Definition g_ht_hello_request : N := 0.
Definition g_ht_client_hello : N := 1.
Definition g_ht_server_hello : N := 2.
Definition g_ht_hello_verify_request : N := 3.
Definition g_ht_certificate : N := 11.
Definition g_ht_server_key_exchange : N := 12.
Definition g_ht_certificate_request : N := 13.
Definition g_ht_server_hello_done : N := 14.
Definition g_ht_certificate_verify : N := 15.
Definition g_ht_client_key_exchange : N := 16.
Definition g_ht_finished : N := 20.
Definition g_flights12 : list (N * bool * bool * bool * bool) :=
  [(0, false, false, false, false); (1, true, true, false, false); (2, true, true, false, false); (3, true, false, false, false); (4, true, true, false, false); (5, true, true, false, false); (6, true, true, false, true); (7, true, true, false, true); (8, true, true, true, false); (9, true, true, true, false); (10, false, false, false, false); (11, false, false, false, false); (12, false, false, false, false)].
Definition g_flight12_0 : N := 1.
Definition g_flight12_1 : N := 2.
Definition g_flight12_2 : N := 3.
Definition g_flight12_3 : N := 4.
Definition g_flight12_4 : N := 5.
Definition g_flight12_4b : N := 6.
Definition g_flight12_5 : N := 7.
Definition g_flight12_5b : N := 8.
Definition g_flight12_6 : N := 9.
Definition g_suites : list (N * N * N * bool) :=
  [(168, 2, 2, false); (174, 2, 2, false); (4865, 3, 0, true); (4866, 3, 0, true); (4867, 3, 0, true); (49162, 1, 4, false); (49172, 1, 4, false); (49195, 1, 4, false); (49196, 1, 4, false); (49199, 1, 4, false); (49200, 1, 4, false); (49207, 2, 6, false); (49316, 2, 2, false); (49320, 2, 2, false); (49321, 2, 2, false); (49324, 1, 4, false); (49326, 1, 4, false); (52392, 1, 4, false); (52393, 1, 4, false); (52395, 2, 2, false)].
Definition g_auth_certificate : N := 1.
Definition g_auth_psk : N := 2.
Definition g_kx_psk : N := 2.
Definition g_kx_ecdhe : N := 4.
(* ---- from package ./internal/fragmentbuffer ---- *)
Definition g_fragment_buffer_max_size : N := 2000000.
Definition g_fragment_buffer_max_count : N := 1000.
(* ---- from package ./pkg/protocol/handshake ---- *)
(* extensionRegistry: (extension type, (handshake context, payload kind)) *)
Definition g_c18_ext_registry : list (N * (N * N)) :=
  [(0, (0, 121)); (0, (1, 122)); (0, (4, 122)); (10, (0, 127)); (10, (4, 127)); (11, (0, 134)); (11, (1, 134)); (13, (0, 128)); (13, (5, 128)); (14, (0, 125)); (14, (1, 126)); (14, (4, 126)); (16, (0, 123)); (16, (1, 124)); (16, (4, 124)); (23, (0, 132)); (23, (1, 132)); (41, (0, 144)); (41, (2, 145)); (42, (0, 137)); (42, (4, 137)); (42, (7, 138)); (43, (0, 147)); (43, (2, 148)); (43, (3, 148)); (44, (0, 136)); (44, (3, 136)); (45, (0, 146)); (47, (0, 135)); (47, (5, 135)); (48, (5, 142)); (49, (0, 143)); (50, (0, 129)); (50, (5, 129)); (51, (0, 139)); (51, (2, 140)); (51, (3, 141)); (54, (0, 120)); (54, (1, 120)); (54, (2, 120)); (61, (0, 131)); (61, (1, 131)); (61, (2, 131)); (65281, (0, 133)); (65281, (1, 133))].
Definition g_c18_ctx_client_hello : N := 0.
Definition g_c18_ctx_server_hello12 : N := 1.
Definition g_c18_ctx_server_hello13 : N := 2.
Definition g_c18_ctx_hello_retry_request : N := 3.
Definition g_c18_ctx_encrypted_extensions : N := 4.
Definition g_c18_ctx_certificate_request : N := 5.
Definition g_c18_ctx_certificate_entry : N := 6.
Definition g_c18_ctx_new_session_ticket : N := 7.
Definition g_c18_hrr_random : list N := [207; 33; 173; 116; 229; 154; 97; 17; 190; 29; 140; 2; 30; 101; 184; 145; 194; 162; 17; 22; 122; 187; 140; 94; 7; 158; 9; 226; 200; 168; 51; 156].
Definition g_c18_sigschemes : list (N * (N * N)) :=
  [(256, (1, 0)); (257, (1, 1)); (259, (1, 3)); (263, (1, 7)); (512, (2, 0)); (513, (2, 1)); (515, (2, 3)); (519, (2, 7)); (768, (3, 0)); (769, (3, 1)); (771, (3, 3)); (775, (3, 7)); (1024, (4, 0)); (1025, (4, 1)); (1027, (4, 3)); (1031, (4, 7)); (1280, (5, 0)); (1281, (5, 1)); (1283, (5, 3)); (1287, (5, 7)); (1536, (6, 0)); (1537, (6, 1)); (1539, (6, 3)); (1543, (6, 7)); (2048, (8, 0)); (2049, (8, 1)); (2051, (8, 3)); (2052, (4, 2052)); (2053, (5, 2053)); (2054, (6, 2054)); (2055, (8, 7)); (2057, (4, 2057)); (2058, (5, 2058)); (2059, (6, 2059))].
Definition g_c18_curve_types : list N := [3].
Definition g_c18_curves : list N := [23; 24; 29; 4588].
Definition g_c18_cert_types : list N := [1; 64].
Definition g_c18_compression_methods : list N := [0].
