(* GENERATED on every run by lib/vlib.py regenerate() from /repo's working tree by executing
   the TestVerifGen* dumpers through go test -overlay. Do not edit. *)
From Coq Require Import List NArith.
Import ListNotations.
Open Scope N_scope.

(* ---- from package . ---- *)
Definition g11_suites : list (N * (N * N * N * bool * bool * bool)) :=
  [(168, (2, 2, 0, true, true, false)); (174, (2, 2, 0, false, true, false)); (4865, (3, 0, 0, true, false, true)); (4866, (3, 0, 0, true, false, true)); (4867, (3, 0, 0, true, false, true)); (49162, (1, 4, 64, true, true, false)); (49172, (1, 4, 1, true, true, false)); (49195, (1, 4, 64, true, true, false)); (49196, (1, 4, 64, true, true, false)); (49199, (1, 4, 1, true, true, false)); (49200, (1, 4, 1, true, true, false)); (49207, (2, 6, 0, true, true, false)); (49316, (2, 2, 0, false, true, false)); (49320, (2, 2, 0, false, true, false)); (49321, (2, 2, 0, false, true, false)); (49324, (1, 4, 64, true, true, false)); (49326, (1, 4, 64, true, true, false)); (52392, (1, 4, 1, true, true, false)); (52393, (1, 4, 64, true, true, false)); (52395, (2, 2, 0, true, true, false))].
Definition g11_default_suites12 : list N := [49195; 49199; 52393; 52392; 49162; 49172; 49196; 49200].
Definition g11_default_suites13 : list N := [4865; 4866; 4867].
Definition g11_default_curves : list N := [4588; 29; 23; 24].
Definition g11_curve_mlkem : N := 4588.
Definition g11_default_sigs : list N := [1027; 1283; 1539; 2055; 2052; 2053; 2054; 1025; 1281; 1537].
Definition g11_sigs : list (N * (bool * list N * list N * bool)) :=
  [(256, (true, [], [], true)); (257, (true, [3], [], true)); (259, (true, [2], [2], true)); (263, (true, [1], [1], true)); (512, (true, [], [], true)); (513, (true, [3], [], true)); (515, (true, [2], [2], true)); (519, (true, [1], [1], true)); (768, (false, [], [], true)); (769, (false, [3], [], true)); (771, (false, [2], [2], true)); (775, (false, [1], [1], true)); (1024, (false, [], [], true)); (1025, (false, [3], [], true)); (1027, (false, [2], [2], true)); (1031, (false, [1], [1], true)); (1280, (false, [], [], true)); (1281, (false, [3], [], true)); (1283, (false, [2], [2], true)); (1287, (false, [1], [1], true)); (1536, (false, [], [], true)); (1537, (false, [3], [], true)); (1539, (false, [2], [2], true)); (1543, (false, [1], [1], true)); (2048, (false, [], [], true)); (2049, (false, [3], [], true)); (2051, (false, [2], [2], true)); (2052, (false, [], [3], true)); (2053, (false, [], [3], true)); (2054, (false, [], [3], true)); (2055, (false, [1], [1], true)); (2057, (false, [], [], true)); (2058, (false, [], [], true)); (2059, (false, [], [], true))].
Definition g11_auth_certificate : N := 1.
Definition g11_auth_psk : N := 2.
Definition g11_auth_anonymous : N := 3.
Definition g11_kx_psk : N := 2.
Definition g11_kx_ecdhe : N := 4.
Definition g11_cert_ecdsa : N := 64.
Definition g11_cert_rsa : N := 1.
Definition g11_ems_request : N := 0.
Definition g11_ems_require : N := 1.
Definition g11_ems_disable : N := 2.
Definition g11_auth_no_client_cert : N := 0.
Definition g11_auth_request_client_cert : N := 1.
Definition g11_auth_require_any : N := 2.
Definition g11_auth_verify_if_given : N := 3.
Definition g11_auth_require_and_verify : N := 4.
Definition g11_alert_handshake_failure : N := 40.
Definition g11_alert_no_certificate : N := 41.
Definition g11_alert_bad_certificate : N := 42.
Definition g11_alert_illegal_parameter : N := 47.
Definition g11_alert_protocol_version : N := 70.
Definition g11_alert_insufficient_security : N := 71.
Definition g11_alert_internal_error : N := 80.
Definition g11_alert_missing_extension : N := 109.
Definition g11_alert_unsupported_extension : N := 110.
Definition g11_alert_certificate_required : N := 116.
Definition g11_alert_no_application_protocol : N := 120.
Definition g11_ext_server_name : N := 0.
Definition g11_ext_supported_groups : N := 10.
Definition g11_ext_point_formats : N := 11.
Definition g11_ext_signature_algorithms : N := 13.
Definition g11_ext_use_srtp : N := 14.
Definition g11_ext_alpn : N := 16.
Definition g11_ext_ems : N := 23.
Definition g11_ext_supported_versions : N := 43.
Definition g11_ext_cookie : N := 44.
Definition g11_ext_signature_algorithms_cert : N := 50.
Definition g11_ext_key_share : N := 51.
Definition g11_ext_connection_id : N := 54.
Definition g11_ext_rrc : N := 61.
Definition g11_ext_renegotiation_info : N := 65281.
Definition g11_version_order : list N := [3; 2].
