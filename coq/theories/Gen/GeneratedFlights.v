(* GENERATED on every run by lib/vlib.py regenerate() from /repo's working tree by executing
   the TestVerifGen* dumpers through go test -overlay. Do not edit. *)
From Coq Require Import List NArith.
From DtlsV Require Import Gen.Generated Hs.Abs12.
Import ListNotations.
Open Scope nat_scope.

(* ---- from package . ---- *)
Definition g_cfg_psk : cfg :=
  {| c_hv := true; c_psk := true; c_resume := false; c_initial := 1000%N; c_backoff := true;
     c_fl := [(2, [[Hs 1 0 0 97 97]]);
              (3, [[Hs 3 0 0 23 23]]);
              (4, [[Hs 1 1 0 117 117]]);
              (5, [[Hs 2 1 0 49 49; Hs 12 2 0 14 14; Hs 14 3 0 0 0]]);
              (7, [[Hs 16 2 0 14 14; CCS; Fin 3]]);
              (9, [[CCS; Fin 4]])] |}.
Definition g_cfg_psk_nohint : cfg :=
  {| c_hv := true; c_psk := true; c_resume := false; c_initial := 1000%N; c_backoff := true;
     c_fl := [(2, [[Hs 1 0 0 97 97]]);
              (3, [[Hs 3 0 0 23 23]]);
              (4, [[Hs 1 1 0 117 117]]);
              (5, [[Hs 2 1 0 49 49; Hs 14 2 0 0 0]]);
              (7, [[Hs 16 2 0 14 14; CCS; Fin 3]]);
              (9, [[CCS; Fin 3]])] |}.
Definition g_cfg_psk_skiphv : cfg :=
  {| c_hv := false; c_psk := true; c_resume := false; c_initial := 1000%N; c_backoff := true;
     c_fl := [(2, [[Hs 1 0 0 97 97]]);
              (5, [[Hs 2 0 0 49 49; Hs 12 1 0 14 14; Hs 14 2 0 0 0]]);
              (7, [[Hs 16 1 0 14 14; CCS; Fin 2]]);
              (9, [[CCS; Fin 3]])] |}.
Definition g_cfg_cert : cfg :=
  {| c_hv := true; c_psk := false; c_resume := false; c_initial := 1000%N; c_backoff := true;
     c_fl := [(2, [[Hs 1 0 0 132 132]]);
              (3, [[Hs 3 0 0 23 23]]);
              (4, [[Hs 1 1 0 152 152]]);
              (5, [[Hs 2 1 0 55 55; Hs 11 2 0 351 351; Hs 12 3 0 104 104; Hs 14 4 0 0 0]]);
              (7, [[Hs 16 2 0 33 33; CCS; Fin 3]]);
              (9, [[CCS; Fin 5]])] |}.
Definition g_cfg_cert_clientauth : cfg :=
  {| c_hv := true; c_psk := false; c_resume := false; c_initial := 1000%N; c_backoff := true;
     c_fl := [(2, [[Hs 1 0 0 132 132]]);
              (3, [[Hs 3 0 0 23 23]]);
              (4, [[Hs 1 1 0 152 152]]);
              (5, [[Hs 2 1 0 55 55; Hs 11 2 0 351 351; Hs 12 3 0 104 104; Hs 13 4 0 50 50; Hs 14 5 0 0 0]]);
              (7, [[Hs 11 2 0 353 353; Hs 16 3 0 33 33; Hs 15 4 0 68 68; CCS; Fin 5]]);
              (9, [[CCS; Fin 6]])] |}.
Definition g_cfg_cert_mtu200 : cfg :=
  {| c_hv := true; c_psk := false; c_resume := false; c_initial := 1000%N; c_backoff := true;
     c_fl := [(2, [[Hs 1 0 0 132 132]]);
              (3, [[Hs 3 0 0 23 23]]);
              (4, [[Hs 1 1 0 152 152]]);
              (5, [[Hs 2 1 0 55 55]; [Hs 11 2 0 200 351]; [Hs 11 2 200 151 351]; [Hs 12 3 0 104 104; Hs 14 4 0 0 0]]);
              (7, [[Hs 16 2 0 33 33; CCS; Fin 3]]);
              (9, [[CCS; Fin 5]])] |}.
Definition g_cfg_cert_clientauth_mtu150 : cfg :=
  {| c_hv := true; c_psk := false; c_resume := false; c_initial := 1000%N; c_backoff := true;
     c_fl := [(2, [[Hs 1 0 0 132 132]]);
              (3, [[Hs 3 0 0 23 23]]);
              (4, [[Hs 1 1 0 150 152]; [Hs 1 1 150 2 152]]);
              (5, [[Hs 2 1 0 55 55]; [Hs 11 2 0 150 351]; [Hs 11 2 150 150 351]; [Hs 11 2 300 51 351]; [Hs 12 3 0 104 104]; [Hs 13 4 0 50 50; Hs 14 5 0 0 0]]);
              (7, [[Hs 11 2 0 150 353]; [Hs 11 2 150 150 353]; [Hs 11 2 300 53 353; Hs 16 3 0 33 33]; [Hs 15 4 0 68 68; CCS]; [Fin 5]]);
              (9, [[CCS; Fin 6]])] |}.
Definition g_cfg_psk_resumed : cfg :=
  {| c_hv := false; c_psk := true; c_resume := true; c_initial := 1000%N; c_backoff := true;
     c_fl := [(2, [[Hs 1 0 0 150 150]]);
              (6, [[Hs 2 0 0 81 81; CCS; Fin 1]]);
              (8, [[CCS; Fin 1]])] |}.
Definition g_cfg_cert_resumed : cfg :=
  {| c_hv := false; c_psk := false; c_resume := true; c_initial := 1000%N; c_backoff := true;
     c_fl := [(2, [[Hs 1 0 0 164 164]]);
              (6, [[Hs 2 0 0 81 81; CCS; Fin 1]]);
              (8, [[CCS; Fin 1]])] |}.
Definition g_cfg_psk_cid_mtu40 : cfg :=
  {| c_hv := true; c_psk := true; c_resume := false; c_initial := 1000%N; c_backoff := true;
     c_fl := [(2, [[Hs 1 0 0 40 110]; [Hs 1 0 40 40 110]; [Hs 1 0 80 30 110]]);
              (3, [[Hs 3 0 0 23 23]]);
              (4, [[Hs 1 1 0 40 130]; [Hs 1 1 40 40 130]; [Hs 1 1 80 40 130]; [Hs 1 1 120 10 130]]);
              (5, [[Hs 2 1 0 40 62]; [Hs 2 1 40 22 62]; [Hs 12 2 0 14 14]; [Hs 14 3 0 0 0]]);
              (7, [[Hs 16 2 0 14 14]; [CCS]; [Fin 3]]);
              (9, [[CCS]; [Fin 4]])] |}.
Definition g_cfg_psk_cid : cfg :=
  {| c_hv := true; c_psk := true; c_resume := false; c_initial := 1000%N; c_backoff := true;
     c_fl := [(2, [[Hs 1 0 0 110 110]]);
              (3, [[Hs 3 0 0 23 23]]);
              (4, [[Hs 1 1 0 130 130]]);
              (5, [[Hs 2 1 0 62 62; Hs 12 2 0 14 14; Hs 14 3 0 0 0]]);
              (7, [[Hs 16 2 0 14 14; CCS; Fin 3]]);
              (9, [[CCS; Fin 4]])] |}.
Definition g_cfg_psk_cid_resumed : cfg :=
  {| c_hv := false; c_psk := true; c_resume := true; c_initial := 1000%N; c_backoff := true;
     c_fl := [(2, [[Hs 1 0 0 163 163]]);
              (6, [[Hs 2 0 0 94 94; CCS; Fin 1]]);
              (8, [[CCS; Fin 1]])] |}.
Definition g_cfg_cert_stores_mtu200 : cfg :=
  {| c_hv := true; c_psk := false; c_resume := false; c_initial := 1000%N; c_backoff := true;
     c_fl := [(2, [[Hs 1 0 0 132 132]]);
              (3, [[Hs 3 0 0 23 23]]);
              (4, [[Hs 1 1 0 152 152]]);
              (5, [[Hs 2 1 0 87 87]; [Hs 11 2 0 200 351]; [Hs 11 2 200 151 351]; [Hs 12 3 0 104 104; Hs 14 4 0 0 0]]);
              (7, [[Hs 16 2 0 33 33; CCS; Fin 3]]);
              (9, [[CCS; Fin 5]])] |}.
Definition g_cfg_psk_stores : cfg :=
  {| c_hv := true; c_psk := true; c_resume := false; c_initial := 1000%N; c_backoff := true;
     c_fl := [(2, [[Hs 1 0 0 118 118]]);
              (3, [[Hs 3 0 0 23 23]]);
              (4, [[Hs 1 1 0 138 138]]);
              (5, [[Hs 2 1 0 81 81; Hs 12 2 0 14 14; Hs 14 3 0 0 0]]);
              (7, [[Hs 16 2 0 14 14; CCS; Fin 3]]);
              (9, [[CCS; Fin 4]])] |}.
Definition g_cfg_names : list cfg := [g_cfg_psk; g_cfg_psk_nohint; g_cfg_psk_skiphv; g_cfg_cert; g_cfg_cert_clientauth; g_cfg_cert_mtu200; g_cfg_cert_clientauth_mtu150; g_cfg_psk_resumed; g_cfg_cert_resumed; g_cfg_psk_cid_mtu40; g_cfg_psk_cid; g_cfg_psk_cid_resumed; g_cfg_cert_stores_mtu200; g_cfg_psk_stores].
