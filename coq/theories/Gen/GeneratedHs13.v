(* GENERATED on every run by lib/vlib.py regenerate() from /repo's working tree by executing
   the TestVerifGen* dumpers through go test -overlay. Do not edit. *)
From Coq Require Import List NArith.
Import ListNotations.
Open Scope N_scope.

(* ---- from package . ---- *)
(* (flight, retransmitted on a timer, last flight sent, last flight received) *)
Definition g13_flags : list (N * bool * bool * bool) := [(1, true, false, false); (2, true, false, false); (3, false, false, false); (4, true, false, false); (5, true, false, true); (6, true, true, false)].
(* variant v13: (MTU, server answers the first ClientHello with a HelloRetryRequest,
   [(flight, [(epoch, type, message_seq, fragment_offset, fragment_length, length, bytes on the wire)])]) *)
Definition g13_v13 : N * bool * list (N * list (N * N * N * N * N * N * N)) :=
  (1200, true,
   [(2, [(0, 1, 0, 0, 1200, 1563, 1225); (0, 1, 0, 1200, 363, 1563, 388)]);
    (3, [(0, 6, 0, 0, 72, 72, 97)]);
    (4, [(0, 1, 1, 0, 1200, 1589, 1225); (0, 1, 1, 1200, 389, 1589, 414)]);
    (5, [(0, 2, 1, 0, 1174, 1174, 1199); (2, 8, 2, 0, 2, 2, 36); (2, 11, 3, 0, 354, 354, 388); (2, 15, 4, 0, 68, 68, 102); (2, 20, 5, 0, 32, 32, 66)]);
    (6, [(2, 20, 2, 0, 32, 32, 66)]);
    (7, [(3, 4, 6, 0, 53, 53, 87)])]).
(* variant v13-hrr: (MTU, server answers the first ClientHello with a HelloRetryRequest,
   [(flight, [(epoch, type, message_seq, fragment_offset, fragment_length, length, bytes on the wire)])]) *)
Definition g13_v13_hrr : N * bool * list (N * list (N * N * N * N * N * N * N)) :=
  (1200, true,
   [(2, [(0, 1, 0, 0, 238, 238, 263)]);
    (3, [(0, 6, 0, 0, 72, 72, 97)]);
    (4, [(0, 1, 1, 0, 264, 264, 289)]);
    (5, [(0, 2, 1, 0, 119, 119, 144); (2, 8, 2, 0, 2, 2, 36); (2, 11, 3, 0, 354, 354, 388); (2, 15, 4, 0, 68, 68, 102); (2, 20, 5, 0, 32, 32, 66)]);
    (6, [(2, 20, 2, 0, 32, 32, 66)]);
    (7, [(3, 4, 6, 0, 53, 53, 87)])]).
(* variant v13-direct: (MTU, server answers the first ClientHello with a HelloRetryRequest,
   [(flight, [(epoch, type, message_seq, fragment_offset, fragment_length, length, bytes on the wire)])]) *)
Definition g13_v13_direct : N * bool * list (N * list (N * N * N * N * N * N * N)) :=
  (1200, false,
   [(2, [(0, 1, 0, 0, 1200, 1563, 1225); (0, 1, 0, 1200, 363, 1563, 388)]);
    (5, [(0, 2, 0, 0, 1174, 1174, 1199); (2, 8, 1, 0, 2, 2, 36); (2, 11, 2, 0, 354, 354, 388); (2, 15, 3, 0, 68, 68, 102); (2, 20, 4, 0, 32, 32, 66)]);
    (6, [(2, 20, 1, 0, 32, 32, 66)]);
    (7, [(3, 4, 5, 0, 53, 53, 87)])]).
(* variant v13-clientauth: (MTU, server answers the first ClientHello with a HelloRetryRequest,
   [(flight, [(epoch, type, message_seq, fragment_offset, fragment_length, length, bytes on the wire)])]) *)
Definition g13_v13_clientauth : N * bool * list (N * list (N * N * N * N * N * N * N)) :=
  (1200, true,
   [(2, [(0, 1, 0, 0, 1200, 1563, 1225); (0, 1, 0, 1200, 363, 1563, 388)]);
    (3, [(0, 6, 0, 0, 72, 72, 97)]);
    (4, [(0, 1, 1, 0, 1200, 1589, 1225); (0, 1, 1, 1200, 389, 1589, 414)]);
    (5, [(0, 2, 1, 0, 1174, 1174, 1199); (2, 8, 2, 0, 2, 2, 36); (2, 13, 3, 0, 58, 58, 92); (2, 11, 4, 0, 354, 354, 388); (2, 15, 5, 0, 68, 68, 102); (2, 20, 6, 0, 32, 32, 66)]);
    (6, [(2, 11, 2, 0, 356, 356, 390); (2, 15, 3, 0, 68, 68, 102); (2, 20, 4, 0, 32, 32, 66)]);
    (7, [(3, 4, 7, 0, 53, 53, 87)])]).
(* variant v13-hrr-clientauth: (MTU, server answers the first ClientHello with a HelloRetryRequest,
   [(flight, [(epoch, type, message_seq, fragment_offset, fragment_length, length, bytes on the wire)])]) *)
Definition g13_v13_hrr_clientauth : N * bool * list (N * list (N * N * N * N * N * N * N)) :=
  (1200, true,
   [(2, [(0, 1, 0, 0, 238, 238, 263)]);
    (3, [(0, 6, 0, 0, 72, 72, 97)]);
    (4, [(0, 1, 1, 0, 264, 264, 289)]);
    (5, [(0, 2, 1, 0, 119, 119, 144); (2, 8, 2, 0, 2, 2, 36); (2, 13, 3, 0, 58, 58, 92); (2, 11, 4, 0, 354, 354, 388); (2, 15, 5, 0, 68, 68, 102); (2, 20, 6, 0, 32, 32, 66)]);
    (6, [(2, 11, 2, 0, 356, 356, 390); (2, 15, 3, 0, 68, 68, 102); (2, 20, 4, 0, 32, 32, 66)]);
    (7, [(3, 4, 7, 0, 53, 53, 87)])]).
(* variant v13-hrr-mtu300: (MTU, server answers the first ClientHello with a HelloRetryRequest,
   [(flight, [(epoch, type, message_seq, fragment_offset, fragment_length, length, bytes on the wire)])]) *)
Definition g13_v13_hrr_mtu300 : N * bool * list (N * list (N * N * N * N * N * N * N)) :=
  (300, true,
   [(2, [(0, 1, 0, 0, 238, 238, 263)]);
    (3, [(0, 6, 0, 0, 72, 72, 97)]);
    (4, [(0, 1, 1, 0, 264, 264, 289)]);
    (5, [(0, 2, 1, 0, 119, 119, 144); (2, 8, 2, 0, 2, 2, 36); (2, 11, 3, 0, 300, 354, 334); (2, 11, 3, 300, 54, 354, 88); (2, 15, 4, 0, 68, 68, 102); (2, 20, 5, 0, 32, 32, 66)]);
    (6, [(2, 20, 2, 0, 32, 32, 66)]);
    (7, [(3, 4, 6, 0, 53, 53, 87)])]).
(* variant v13-mtu300: (MTU, server answers the first ClientHello with a HelloRetryRequest,
   [(flight, [(epoch, type, message_seq, fragment_offset, fragment_length, length, bytes on the wire)])]) *)
Definition g13_v13_mtu300 : N * bool * list (N * list (N * N * N * N * N * N * N)) :=
  (300, true,
   [(2, [(0, 1, 0, 0, 300, 1563, 325); (0, 1, 0, 300, 300, 1563, 325); (0, 1, 0, 600, 300, 1563, 325); (0, 1, 0, 900, 300, 1563, 325); (0, 1, 0, 1200, 300, 1563, 325); (0, 1, 0, 1500, 63, 1563, 88)]);
    (3, [(0, 6, 0, 0, 72, 72, 97)]);
    (4, [(0, 1, 1, 0, 300, 1589, 325); (0, 1, 1, 300, 300, 1589, 325); (0, 1, 1, 600, 300, 1589, 325); (0, 1, 1, 900, 300, 1589, 325); (0, 1, 1, 1200, 300, 1589, 325); (0, 1, 1, 1500, 89, 1589, 114)]);
    (5, [(0, 2, 1, 0, 300, 1174, 325); (0, 2, 1, 300, 300, 1174, 325); (0, 2, 1, 600, 300, 1174, 325); (0, 2, 1, 900, 274, 1174, 299); (2, 8, 2, 0, 2, 2, 36); (2, 11, 3, 0, 300, 354, 334); (2, 11, 3, 300, 54, 354, 88); (2, 15, 4, 0, 68, 68, 102); (2, 20, 5, 0, 32, 32, 66)]);
    (6, [(2, 20, 2, 0, 32, 32, 66)]);
    (7, [(3, 4, 6, 0, 53, 53, 87)])]).
(* variant v13-hrr-clientauth-mtu450: (MTU, server answers the first ClientHello with a HelloRetryRequest,
   [(flight, [(epoch, type, message_seq, fragment_offset, fragment_length, length, bytes on the wire)])]) *)
Definition g13_v13_hrr_clientauth_mtu450 : N * bool * list (N * list (N * N * N * N * N * N * N)) :=
  (450, true,
   [(2, [(0, 1, 0, 0, 238, 238, 263)]);
    (3, [(0, 6, 0, 0, 72, 72, 97)]);
    (4, [(0, 1, 1, 0, 264, 264, 289)]);
    (5, [(0, 2, 1, 0, 119, 119, 144); (2, 8, 2, 0, 2, 2, 36); (2, 13, 3, 0, 58, 58, 92); (2, 11, 4, 0, 354, 354, 388); (2, 15, 5, 0, 68, 68, 102); (2, 20, 6, 0, 32, 32, 66)]);
    (6, [(2, 11, 2, 0, 356, 356, 390); (2, 15, 3, 0, 68, 68, 102); (2, 20, 4, 0, 32, 32, 66)]);
    (7, [(3, 4, 7, 0, 53, 53, 87)])]).
(* variant v13-mtu120: (MTU, server answers the first ClientHello with a HelloRetryRequest,
   [(flight, [(epoch, type, message_seq, fragment_offset, fragment_length, length, bytes on the wire)])]) *)
Definition g13_v13_mtu120 : N * bool * list (N * list (N * N * N * N * N * N * N)) :=
  (120, true,
   [(2, [(0, 1, 0, 0, 120, 1563, 145); (0, 1, 0, 120, 120, 1563, 145); (0, 1, 0, 240, 120, 1563, 145); (0, 1, 0, 360, 120, 1563, 145); (0, 1, 0, 480, 120, 1563, 145); (0, 1, 0, 600, 120, 1563, 145); (0, 1, 0, 720, 120, 1563, 145); (0, 1, 0, 840, 120, 1563, 145); (0, 1, 0, 960, 120, 1563, 145); (0, 1, 0, 1080, 120, 1563, 145); (0, 1, 0, 1200, 120, 1563, 145); (0, 1, 0, 1320, 120, 1563, 145); (0, 1, 0, 1440, 120, 1563, 145); (0, 1, 0, 1560, 3, 1563, 28)]);
    (3, [(0, 6, 0, 0, 72, 72, 97)]);
    (4, [(0, 1, 1, 0, 120, 1589, 145); (0, 1, 1, 120, 120, 1589, 145); (0, 1, 1, 240, 120, 1589, 145); (0, 1, 1, 360, 120, 1589, 145); (0, 1, 1, 480, 120, 1589, 145); (0, 1, 1, 600, 120, 1589, 145); (0, 1, 1, 720, 120, 1589, 145); (0, 1, 1, 840, 120, 1589, 145); (0, 1, 1, 960, 120, 1589, 145); (0, 1, 1, 1080, 120, 1589, 145); (0, 1, 1, 1200, 120, 1589, 145); (0, 1, 1, 1320, 120, 1589, 145); (0, 1, 1, 1440, 120, 1589, 145); (0, 1, 1, 1560, 29, 1589, 54)]);
    (5, [(0, 2, 1, 0, 120, 1174, 145); (0, 2, 1, 120, 120, 1174, 145); (0, 2, 1, 240, 120, 1174, 145); (0, 2, 1, 360, 120, 1174, 145); (0, 2, 1, 480, 120, 1174, 145); (0, 2, 1, 600, 120, 1174, 145); (0, 2, 1, 720, 120, 1174, 145); (0, 2, 1, 840, 120, 1174, 145); (0, 2, 1, 960, 120, 1174, 145); (0, 2, 1, 1080, 94, 1174, 119); (2, 8, 2, 0, 2, 2, 36); (2, 11, 3, 0, 120, 354, 154); (2, 11, 3, 120, 120, 354, 154); (2, 11, 3, 240, 114, 354, 148); (2, 15, 4, 0, 68, 68, 102); (2, 20, 5, 0, 32, 32, 66)]);
    (6, [(2, 20, 2, 0, 32, 32, 66)]);
    (7, [(3, 4, 6, 0, 53, 53, 87)])]).
(* variant v13-ksm: (MTU, server answers the first ClientHello with a HelloRetryRequest,
   [(flight, [(epoch, type, message_seq, fragment_offset, fragment_length, length, bytes on the wire)])]) *)
Definition g13_v13_ksm : N * bool * list (N * list (N * N * N * N * N * N * N)) :=
  (1200, true,
   [(2, [(0, 1, 0, 0, 169, 169, 194)]);
    (3, [(0, 6, 0, 0, 78, 78, 103)]);
    (4, [(0, 1, 1, 0, 228, 228, 253)]);
    (5, [(0, 2, 1, 0, 119, 119, 144); (2, 8, 2, 0, 2, 2, 36); (2, 11, 3, 0, 354, 354, 388); (2, 15, 4, 0, 68, 68, 102); (2, 20, 5, 0, 32, 32, 66)]);
    (6, [(2, 20, 2, 0, 32, 32, 66)]);
    (7, [(3, 4, 6, 0, 53, 53, 87)])]).
(* variant v13-ksm-clientauth: (MTU, server answers the first ClientHello with a HelloRetryRequest,
   [(flight, [(epoch, type, message_seq, fragment_offset, fragment_length, length, bytes on the wire)])]) *)
Definition g13_v13_ksm_clientauth : N * bool * list (N * list (N * N * N * N * N * N * N)) :=
  (1200, true,
   [(2, [(0, 1, 0, 0, 169, 169, 194)]);
    (3, [(0, 6, 0, 0, 78, 78, 103)]);
    (4, [(0, 1, 1, 0, 228, 228, 253)]);
    (5, [(0, 2, 1, 0, 119, 119, 144); (2, 8, 2, 0, 2, 2, 36); (2, 13, 3, 0, 58, 58, 92); (2, 11, 4, 0, 354, 354, 388); (2, 15, 5, 0, 68, 68, 102); (2, 20, 6, 0, 32, 32, 66)]);
    (6, [(2, 11, 2, 0, 356, 356, 390); (2, 15, 3, 0, 68, 68, 102); (2, 20, 4, 0, 32, 32, 66)]);
    (7, [(3, 4, 7, 0, 53, 53, 87)])]).
(* variant v13-dualc: (MTU, server answers the first ClientHello with a HelloRetryRequest,
   [(flight, [(epoch, type, message_seq, fragment_offset, fragment_length, length, bytes on the wire)])]) *)
Definition g13_v13_dualc : N * bool * list (N * list (N * N * N * N * N * N * N)) :=
  (1200, true,
   [(2, [(0, 1, 0, 0, 1200, 1581, 1225); (0, 1, 0, 1200, 381, 1581, 406)]);
    (3, [(0, 6, 0, 0, 72, 72, 97)]);
    (4, [(0, 1, 1, 0, 1200, 1607, 1225); (0, 1, 1, 1200, 407, 1607, 432)]);
    (5, [(0, 2, 1, 0, 1174, 1174, 1199); (2, 8, 2, 0, 2, 2, 36); (2, 11, 3, 0, 354, 354, 388); (2, 15, 4, 0, 68, 68, 102); (2, 20, 5, 0, 32, 32, 66)]);
    (6, [(2, 20, 2, 0, 32, 32, 66)]);
    (7, [(3, 4, 6, 0, 53, 53, 87)])]).
(* variant v13-dualc-direct: (MTU, server answers the first ClientHello with a HelloRetryRequest,
   [(flight, [(epoch, type, message_seq, fragment_offset, fragment_length, length, bytes on the wire)])]) *)
Definition g13_v13_dualc_direct : N * bool * list (N * list (N * N * N * N * N * N * N)) :=
  (1200, false,
   [(2, [(0, 1, 0, 0, 1200, 1581, 1225); (0, 1, 0, 1200, 381, 1581, 406)]);
    (5, [(0, 2, 0, 0, 1174, 1174, 1199); (2, 8, 1, 0, 2, 2, 36); (2, 11, 2, 0, 354, 354, 388); (2, 15, 3, 0, 68, 68, 102); (2, 20, 4, 0, 32, 32, 66)]);
    (6, [(2, 20, 1, 0, 32, 32, 66)]);
    (7, [(3, 4, 5, 0, 53, 53, 87)])]).
Definition g13_all := [g13_v13; g13_v13_hrr; g13_v13_direct; g13_v13_clientauth; g13_v13_hrr_clientauth; g13_v13_hrr_mtu300; g13_v13_mtu300; g13_v13_hrr_clientauth_mtu450; g13_v13_mtu120; g13_v13_ksm; g13_v13_ksm_clientauth; g13_v13_dualc; g13_v13_dualc_direct].
