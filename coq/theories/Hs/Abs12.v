(* Executable model of the DTLS 1.2 handshake machinery of one endpoint:
   conn.go receive path for handshake traffic (future-epoch queue, CCS, fragment buffer,
   transcript cache), the flight parsers of internal/flight/flight12 (what each flight needs in
   the cache, the fallbacks flight2->flight0 and flight1->flight3), and the state machine of
   internal/handshake/fsm12.go + fsm.go (prepare/send/wait/finish, retransmit timer with
   doubling and 60 s cap, reset on non-retransmitted input, per-flight retransmit flag,
   re-send of the last flight from FINISHED).
   Messages are kinds; cryptographic checks are not modelled (honest, unmodified traffic).
   Flight numbering and the per-flight flags come from Gen/Generated.v.  Definitions only. *)
From Coq Require Import List NArith Bool Arith.
From DtlsV Require Import Gen.Generated.
Import ListNotations.
Open Scope nat_scope.

(* handshake types *)
Definition HT_CH := 1.  Definition HT_SH := 2.  Definition HT_HVR := 3.
Definition HT_CERT := 11.  Definition HT_SKE := 12.  Definition HT_CR := 13.  Definition HT_SHD := 14.
Definition HT_CV := 15.  Definition HT_CKE := 16.  Definition HT_FIN := 20.

(* a record on the wire *)
Inductive rec :=
| Hs (ht mseq foff flen tlen : nat)     (* epoch-0 handshake fragment *)
| CCS
| Fin (mseq : nat).                      (* epoch-1 handshake record: the Finished message *)

Definition dgram := list rec.

(* flights, numbered as flight12.Flight *)
Definition F0 := 1. Definition F1 := 2. Definition F2 := 3. Definition F3 := 4. Definition F4 := 5.
Definition F4b := 6. Definition F5 := 7. Definition F5b := 8. Definition F6 := 9.

(* per-flight flags from the regenerated table of the current tree *)
Fixpoint flags_of (f : N) (t : list (N * bool * bool * bool * bool)) : bool * bool * bool * bool :=
  match t with
  | [] => (false, false, false, false)
  | (f', g, r, ls, lr) :: t' => if N.eqb f f' then (g, r, ls, lr) else flags_of f t'
  end.
Definition fl_retransmit (f : nat) : bool := let '(_, r, _, _) := flags_of (N.of_nat f) g_flights12 in r.
Definition fl_last_send (f : nat) : bool := let '(_, _, ls, _) := flags_of (N.of_nat f) g_flights12 in ls.
Definition fl_last_recv (f : nat) : bool := let '(_, _, _, lr) := flags_of (N.of_nat f) g_flights12 in lr.

Record cfg := {
  c_hv : bool;                        (* server answers the first ClientHello with HelloVerifyRequest *)
  c_psk : bool;                       (* PSK key exchange (no certificates) *)
  c_resume : bool;                    (* the client offers a session the server knows *)
  c_initial : N;                      (* initial retransmit interval (ms) *)
  c_backoff : bool;
  c_fl : list (nat * list dgram)      (* what each flight puts on the wire, datagram by datagram *)
}.

Fixpoint fl_lookup (f : nat) (t : list (nat * list dgram)) : list dgram :=
  match t with
  | [] => []
  | (f', d) :: t' => if Nat.eqb f f' then d else fl_lookup f t'
  end.

Inductive fstate := Waiting | Finished.

(* stored fragment: (mseq, ht, foff, flen, tlen, epoch) *)
Definition frag := (nat * nat * nat * nat * nat * nat)%type.

Record ep := {
  e_client : bool;
  e_flight : nat;
  e_fst : fstate;
  e_recvseq : nat;                    (* state.HandshakeRecvSequence *)
  e_fbcur : nat;                      (* FragmentBuffer.currentMessageSequenceNumber *)
  e_frags : list frag;                (* fragments waiting in the buffer *)
  e_cache : list (nat * nat * nat);   (* peer messages in the transcript cache: (mseq, type, epoch) *)
  e_repoch : nat;                     (* remote epoch *)
  e_init : bool;                      (* cipher suite initialised *)
  e_queue : list rec;                 (* encryptedPackets *)
  e_est : bool;                       (* establishment marked *)
  e_interval : N;                     (* current retransmit interval (ms) *)
  e_timer : N                         (* absolute time (ms) at which the wait timer fires *)
}.

Definition upd_rx (e : ep) recvseq fbcur frags cache repoch init queue : ep :=
  {| e_client := e_client e; e_flight := e_flight e; e_fst := e_fst e; e_recvseq := recvseq;
     e_fbcur := fbcur; e_frags := frags; e_cache := cache; e_repoch := repoch; e_init := init;
     e_queue := queue; e_est := e_est e; e_interval := e_interval e; e_timer := e_timer e |}.

Definition upd_fsm (e : ep) flight fst est interval timer : ep :=
  {| e_client := e_client e; e_flight := flight; e_fst := fst; e_recvseq := e_recvseq e;
     e_fbcur := e_fbcur e; e_frags := e_frags e; e_cache := e_cache e; e_repoch := e_repoch e;
     e_init := e_init e; e_queue := e_queue e; e_est := est; e_interval := interval; e_timer := timer |}.

Definition set_recvseq (e : ep) (n : nat) : ep :=
  upd_rx e n (e_fbcur e) (e_frags e) (e_cache e) (e_repoch e) (e_init e) (e_queue e).
Definition set_init (e : ep) : ep :=
  upd_rx e (e_recvseq e) (e_fbcur e) (e_frags e) (e_cache e) (e_repoch e) true (e_queue e).

(* ---------- fragment buffer ---------- *)

Definition fr_mseq (f : frag) : nat := let '(m, _, _, _, _, _) := f in m.

(* AdvanceTo(HandshakeRecvSequence) *)
Definition fb_advance (e : ep) : ep :=
  if Nat.ltb (e_fbcur e) (e_recvseq e)
  then upd_rx e (e_recvseq e) (e_recvseq e)
         (filter (fun f => negb (Nat.ltb (fr_mseq f) (e_recvseq e))) (e_frags e))
         (e_cache e) (e_repoch e) (e_init e) (e_queue e)
  else e.

Definition same_slot (m foff : nat) (f : frag) : bool :=
  let '(m', _, foff', _, _, _) := f in Nat.eqb m m' && Nat.eqb foff foff'.

(* message m is complete in the buffer: lengths of stored fragments add up to the declared
   length and a fragment at offset 0 exists (honest fragments of one partition) *)
Definition sum_flen (m : nat) (fs : list frag) : nat :=
  fold_left (fun acc f => let '(m', _, _, fl, _, _) := f in if Nat.eqb m m' then acc + fl else acc) fs 0.
Definition first_of (m : nat) (fs : list frag) : option frag :=
  find (fun f => Nat.eqb (fr_mseq f) m) fs.

Definition complete (m : nat) (fs : list frag) : option (nat * nat) :=   (* Some (ht, epoch) *)
  match first_of m fs with
  | None => None
  | Some (_, ht, _, _, tl, ep0) =>
      if Nat.eqb (sum_flen m fs) tl && existsb (same_slot m 0) fs then Some (ht, ep0) else None
  end.

Fixpoint pop_all (fuel : nat) (e : ep) : ep :=
  match fuel with
  | O => e
  | S fuel' =>
      match complete (e_fbcur e) (e_frags e) with
      | None => e
      | Some (ht, ep0) =>
          pop_all fuel'
            (upd_rx e (e_recvseq e) (S (e_fbcur e))
               (filter (fun f => negb (Nat.eqb (fr_mseq f) (e_fbcur e))) (e_frags e))
               (e_cache e ++ [(e_fbcur e, ht, ep0)]) (e_repoch e) (e_init e) (e_queue e))
      end
  end.

(* Push one fragment; returns (endpoint, is-retransmission) *)
Definition push (e0 : ep) (f : frag) : ep * bool :=
  let e := fb_advance e0 in
  let '(m, ht, foff, fl, tl, ep0) := f in
  if Nat.ltb m (e_fbcur e) then (e, true)
  else
    let fs := if existsb (same_slot m foff) (e_frags e) then e_frags e else e_frags e ++ [f] in
    let e1 := upd_rx e (e_recvseq e) (e_fbcur e) fs (e_cache e) (e_repoch e) (e_init e) (e_queue e) in
    (pop_all (S (length fs)) e1, false).

(* ---------- records ---------- *)

Definition max_queue := 100.

Definition enqueue (lease : bool) (e : ep) (r : rec) : ep :=
  if lease && Nat.ltb (length (e_queue e)) max_queue
  then upd_rx e (e_recvseq e) (e_fbcur e) (e_frags e) (e_cache e) (e_repoch e) (e_init e) (e_queue e ++ [r])
  else e.

(* returns (endpoint, carried a handshake record that reached the buffer, it was a retransmission) *)
Definition process_record (lease : bool) (e : ep) (r : rec) : ep * bool * bool :=
  match r with
  | Hs ht m foff fl tl => let '(e', retr) := push e (m, ht, foff, fl, tl, 0) in (e', true, retr)
  | CCS =>
      if negb (e_init e) then (enqueue lease e r, false, false)
      else if Nat.eqb (e_repoch e) 0
           then (upd_rx e (e_recvseq e) (e_fbcur e) (e_frags e) (e_cache e) 1 (e_init e) (e_queue e), false, false)
           else (e, false, false)
  | Fin m =>
      if Nat.ltb (e_repoch e) 1 then (enqueue lease e r, false, false)
      else if negb (e_init e) then (enqueue lease e r, false, false)
      else let '(e', retr) := push e (m, HT_FIN, 0, 1, 1, 1) in (e', true, retr)
  end.

Fixpoint process_records (lease : bool) (e : ep) (rs : list rec) : ep * bool * bool :=
  match rs with
  | [] => (e, false, false)
  | r :: rs' =>
      let '(e1, h1, r1) := process_record lease e r in
      let '(e2, h2, r2) := process_records lease e1 rs' in (e2, h1 || h2, r1 || r2)
  end.

(* handleQueuedPackets *)
Definition drain (e : ep) : ep :=
  let q := e_queue e in
  let e0 := upd_rx e (e_recvseq e) (e_fbcur e) (e_frags e) (e_cache e) (e_repoch e) (e_init e) [] in
  let '(e1, _, _) := process_records false e0 q in e1.

(* ---------- flight parsers ---------- *)

Definition has (e : ep) (m ht ep0 : nat) : bool :=
  existsb (fun c => let '(m', ht', ep') := c in Nat.eqb m m' && Nat.eqb ht ht' && Nat.eqb ep0 ep') (e_cache e).

Definition b2n (b : bool) : nat := if b then 1 else 0.

(* result of a parser: the (possibly changed) endpoint and the next flight (0 = not ready) *)
Definition parse_server_hello (c : cfg) (e : ep) : ep * nat :=
  let s := e_recvseq e in
  if c_resume c then
    (* handleResumption *)
    let e1 := drain (set_init e) in
    if has e1 (s + 1) HT_FIN 1 then (e1, F5b) else (e1, 0)
  else if c_psk c then
    let ske := has e (s + 1) HT_SKE 0 in
    let s2 := s + 1 + b2n ske in
    if has e s2 HT_SHD 0 then (set_recvseq e (s2 + 1), F5) else (e, 0)
  else
    let crt := has e (s + 1) HT_CERT 0 in
    let s2 := s + 1 + b2n crt in
    if negb (has e s2 HT_SKE 0) then (e, 0)
    else
      let cr := has e (s2 + 1) HT_CR 0 in
      let s3 := s2 + 1 + b2n cr in
      if has e s3 HT_SHD 0 then (set_recvseq e (s3 + 1), F5) else (e, 0).

Definition parse_f0 (c : cfg) (e : ep) : ep * nat :=
  if has e 0 HT_CH 0 then
    let e1 := set_recvseq e 1 in
    if c_resume c then (set_init e1, F4b)
    else if c_hv c then (e1, F2) else (e1, F4)
  else (e, 0).

Definition parse (c : cfg) (e : ep) : ep * nat :=
  let s := e_recvseq e in
  let f := e_flight e in
  if Nat.eqb f F0 then parse_f0 c e
  else if Nat.eqb f F2 then
    (if has e s HT_CH 0 then (set_recvseq e (s + 1), F4) else parse_f0 c e)
  else if Nat.eqb f F4 then
    (let crt := has e s HT_CERT 0 in
     let s1 := s + b2n crt in
     if negb (has e s1 HT_CKE 0) then (e, 0)
     else
       let cv := has e (s1 + 1) HT_CV 0 in
       if crt && negb cv then (e, 0)
       else
         let nxt := s1 + 1 + b2n cv in
         let e1 := drain (set_init e) in
         if has e1 nxt HT_FIN 1 then (set_recvseq e1 (nxt + 1), F6) else (e1, 0))
  else if Nat.eqb f F4b then
    (if has e s HT_FIN 1 then (e, F4b) else (e, 0))
  else if Nat.eqb f F1 then
    (if has e s HT_SH 0 then parse_server_hello c e
     else if has e s HT_HVR 0 then (set_recvseq e (s + 1), F3) else (e, 0))
  else if Nat.eqb f F3 then
    (if has e s HT_HVR 0 then (set_recvseq e (s + 1), F3)
     else if has e s HT_SH 0 then parse_server_hello c e else (e, 0))
  else if Nat.eqb f F5 then
    (if has e s HT_FIN 1 then (e, F5) else (e, 0))
  else (e, 0).

(* ---------- state machine ---------- *)

Definition cap60 (i : N) : N := if N.ltb 60000 i then 60000%N else i.

(* handleRetransmitTimeout (commits 30fc24e, b6ad085): the interval doubles while it is below the cap and
   never past it; an interval configured at or above the cap is left alone; without backoff it is constant *)
Definition next_interval (backoff : bool) (i : N) : N :=
  if backoff && N.ltb i 60000 then (if N.ltb 30000 i then 60000%N else (2 * i)%N) else i.

(* prepare + send of flight f at time [now] *)
Definition enter (c : cfg) (e : ep) (f : nat) (now : N) : ep * list dgram :=
  (* flight5Generate initialises the cipher suite before the client sends its key exchange *)
  let e1 := if Nat.eqb f F5 then set_init e else e in
  let out := fl_lookup f (c_fl c) in
  if fl_last_send f
  then (upd_fsm e1 f Finished true (e_interval e1) (e_timer e1), out)
  else (upd_fsm e1 f Waiting (e_est e1) (e_interval e1) (now + e_interval e1)%N, out).

(* a datagram carrying handshake data was buffered: the read loop hands the FSM one event *)
Definition on_event (c : cfg) (e : ep) (retr : bool) (now : N) : ep * list dgram :=
  match e_fst e with
  | Waiting =>
      let e1 := if retr then e else upd_fsm e (e_flight e) Waiting (e_est e) (c_initial c) (e_timer e) in
      let '(e2, nxt) := parse c e1 in
      if Nat.eqb nxt 0 then (e2, [])
      else if fl_last_recv nxt && Nat.eqb nxt (e_flight e2)
           then (upd_fsm e2 (e_flight e2) Finished true (e_interval e2) (e_timer e2), [])
           else enter c e2 nxt now
  | Finished =>
      (* fsm12.finish: only the sender of the last flight repeats it, and only for a datagram that repeats
         something the peer sent before (commit 8305f84; before it, for any handshake datagram) *)
      if fl_last_send (e_flight e) && retr
      then (e, fl_lookup (e_flight e) (c_fl c))
      else (e, [])
  end.

Definition on_datagram (c : cfg) (e : ep) (d : dgram) (now : N) : ep * list dgram :=
  let '(e1, hs, retr) := process_records true e d in
  if hs then on_event c e1 retr now else (e1, []).

(* the wait timer fires (at its own deadline) *)
Definition on_timer (c : cfg) (e : ep) : ep * list dgram :=
  match e_fst e with
  | Finished => (e, [])
  | Waiting =>
      if fl_retransmit (e_flight e) then
        let i := next_interval (c_backoff c) (e_interval e) in
        (upd_fsm e (e_flight e) Waiting (e_est e) i (e_timer e + i)%N, fl_lookup (e_flight e) (c_fl c))
      else
        (upd_fsm e (e_flight e) Waiting (e_est e) (e_interval e) (e_timer e + e_interval e)%N, [])
  end.

Definition ep_init (c : cfg) (client : bool) : ep :=
  {| e_client := client; e_flight := if client then F1 else F0; e_fst := Waiting; e_recvseq := 0;
     e_fbcur := 0; e_frags := []; e_cache := []; e_repoch := 0; e_init := false; e_queue := [];
     e_est := false; e_interval := c_initial c; e_timer := c_initial c |}.

(* ---------- two endpoints and the scripted network (timed; used for trace acceptance) ---------- *)

(* emission log entry: (time, datagram) *)
Record sys := {
  s_c : ep; s_s : ep;
  s_cout : list (N * dgram);     (* everything the client emitted, in order *)
  s_sout : list (N * dgram)
}.

Definition stamp (t : N) (ds : list dgram) : list (N * dgram) := map (fun d => (t, d)) ds.

Definition sys_init (c : cfg) : sys :=
  {| s_c := ep_init c true; s_s := ep_init c false;
     s_cout := stamp 0 (fl_lookup F1 (c_fl c)); s_sout := [] |}.

Definition waiting (e : ep) : bool := match e_fst e with Waiting => true | Finished => false end.

(* fire every timer due at or before T, earliest first (ties: client first; the two sides do not
   interact through timers) *)
Fixpoint advance (fuel : nat) (c : cfg) (s : sys) (T : N) : sys :=
  match fuel with
  | O => s
  | S fuel' =>
      (* the timer of a flight that is not retransmitted (HelloVerifyRequest) only re-arms itself:
         it has no observable effect and is skipped *)
      let cd := waiting (s_c s) && fl_retransmit (e_flight (s_c s)) && N.leb (e_timer (s_c s)) T in
      let sd := waiting (s_s s) && fl_retransmit (e_flight (s_s s)) && N.leb (e_timer (s_s s)) T in
      if cd && (negb sd || N.leb (e_timer (s_c s)) (e_timer (s_s s))) then
        let t := e_timer (s_c s) in
        let '(e', out) := on_timer c (s_c s) in
        advance fuel' c {| s_c := e'; s_s := s_s s; s_cout := s_cout s ++ stamp t out; s_sout := s_sout s |} T
      else if sd then
        let t := e_timer (s_s s) in
        let '(e', out) := on_timer c (s_s s) in
        advance fuel' c {| s_c := s_c s; s_s := e'; s_cout := s_cout s; s_sout := s_sout s ++ stamp t out |} T
      else s
  end.

(* a move of the scripted network: at time T deliver the k-th datagram emitted by the client
   (to the server) or by the server (to the client).
   [Redeliver]: the network delivers a datagram it has delivered before (an exact duplicate).  Since
   commit 5206069 unprotected records do not move the replay window, so the epoch-0 records of the
   duplicate are processed again; its epoch-1 record (the Finished) is refused as a replay once the
   receiver can read that epoch (it has then processed the first copy) and is put aside again
   before that, exactly as the first copy was. *)
Inductive move :=
| Deliver (from_client : bool) (k : nat) (T : N)
| Redeliver (from_client : bool) (k : nat) (T : N)
| Inject (to_client : bool) (d : dgram) (T : N).     (* a datagram nobody emitted: anybody can send unprotected records *)

Definition is_fin (r : rec) : bool := match r with Fin _ => true | _ => false end.

Definition duplicate_of (e : ep) (d : dgram) : dgram :=
  if Nat.leb 1 (e_repoch e) && e_init e then filter (fun r => negb (is_fin r)) d else d.

Definition do_inject (c : cfg) (s0 : sys) (tc : bool) (d : dgram) (T : N) : option sys :=
  let s := advance 4096 c s0 T in
  if tc then
    let '(e', out) := on_datagram c (s_c s) d T in
    Some {| s_c := e'; s_s := s_s s; s_cout := s_cout s ++ stamp T out; s_sout := s_sout s |}
  else
    let '(e', out) := on_datagram c (s_s s) d T in
    Some {| s_c := s_c s; s_s := e'; s_cout := s_cout s; s_sout := s_sout s ++ stamp T out |}.

Definition do_move (c : cfg) (s0 : sys) (m : move) : option sys :=
  match m with Inject tc d T => do_inject c s0 tc d T | _ =>
  let '(dup, fc, k, T) := match m with Deliver fc k T => (false, fc, k, T) | Redeliver fc k T => (true, fc, k, T)
                                   | Inject _ _ T => (false, true, 0, T) end in
  let s := advance 4096 c s0 T in
  if fc then
    match nth_error (s_cout s) k with
    | None => None
    | Some (_, d0) =>
        let d := if dup then duplicate_of (s_s s) d0 else d0 in
        let '(e', out) := on_datagram c (s_s s) d T in
        Some {| s_c := s_c s; s_s := e'; s_cout := s_cout s; s_sout := s_sout s ++ stamp T out |}
    end
  else
    match nth_error (s_sout s) k with
    | None => None
    | Some (_, d0) =>
        let d := if dup then duplicate_of (s_c s) d0 else d0 in
        let '(e', out) := on_datagram c (s_c s) d T in
        Some {| s_c := e'; s_s := s_s s; s_cout := s_cout s ++ stamp T out; s_sout := s_sout s |}
    end
  end.

Fixpoint run_moves (c : cfg) (s : sys) (ms : list move) : option sys :=
  match ms with
  | [] => Some s
  | m :: ms' => match do_move c s m with None => None | Some s' => run_moves c s' ms' end
  end.
