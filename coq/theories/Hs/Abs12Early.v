(* C02 - the early-record queue of the DTLS 1.2 receive path (conn.go: Conn.encryptedPackets).
   Definitions only; proofs in Hs/Abs12EarlySound.v.

   A record that cannot be read yet - a record of the next epoch (the Finished) that arrived before
   the peer's ChangeCipherSpec, or a ChangeCipherSpec that arrived before the keys exist - is put
   aside by the socket reader (handleFutureLegacyPacket, queueIfCipherSuiteUninitialized,
   handleChangeCipherSpecRecord: processIncomingPacket with a lease) and replayed by the handshake
   goroutine once the flight parser has installed the keys (handleQueuedPackets: the queue is taken
   ONCE and each record is processed with a nil lease, i.e. a record that is still early is
   discarded and costs the peer a retransmission).  While the drain runs the socket reader is
   parked, so a drain that does not return wedges the endpoint. *)
From Coq Require Import List NArith Bool.
Import ListNotations.
Open Scope N_scope.

Record erec := { r_ccs : bool; r_epoch : N; r_id : N }.

Record est := {
  e_epoch : N;            (* read epoch: number of ChangeCipherSpec applied *)
  e_keys : bool;          (* cipher suite initialised (keys for epoch e_epoch+1 exist) *)
  e_queue : list erec;    (* Conn.encryptedPackets, arrival order *)
  e_out : list erec       (* records handed to the handshake layer, in order *)
}.

Definition with_queue (s : est) (q : list erec) : est :=
  {| e_epoch := e_epoch s; e_keys := e_keys s; e_queue := q; e_out := e_out s |}.

(* a record that cannot be read yet: put back (lease) or discarded (nil lease) *)
Definition putback (requeue : bool) (s : est) (r : erec) : est :=
  if requeue then with_queue s (e_queue s ++ [r]) else s.

(* processIncomingPacket on one record *)
Definition step (requeue : bool) (s : est) (r : erec) : est :=
  if r_ccs r then
    if e_keys s then
      if r_epoch r =? e_epoch s
      then {| e_epoch := e_epoch s + 1; e_keys := e_keys s; e_queue := e_queue s; e_out := e_out s |}
      else s                                        (* a repeated ChangeCipherSpec *)
    else putback requeue s r
  else if e_epoch s <? r_epoch r then putback requeue s r        (* next epoch: early *)
  else if r_epoch r =? e_epoch s
       then {| e_epoch := e_epoch s; e_keys := e_keys s; e_queue := e_queue s; e_out := e_out s ++ [r] |}
       else s.                                                   (* older epoch: dropped *)

(* the socket reader: one record, with a lease; a total function of one step *)
Definition recv (s : est) (r : erec) : est := step true s r.

(* the drain as a machine: state of the endpoint + the batch taken from the queue.
   [loop = false]: the code (queue taken once, nil lease).
   [loop = true]:  the variant that re-enqueues still-early records and goes over the queue again
                   until it is empty. *)
Definition dstate := (est * list erec)%type.

Definition dstart (s : est) : dstate := (with_queue s [], e_queue s).

Definition dstep (loop : bool) (d : dstate) : option dstate :=
  match snd d with
  | r :: rest => Some (step loop (fst d) r, rest)
  | [] => if loop then
            match e_queue (fst d) with
            | [] => None
            | _ :: _ => Some (dstart (fst d))
            end
          else None
  end.

Fixpoint diter (loop : bool) (n : nat) (d : dstate) : option dstate :=
  match n with
  | O => Some d
  | S k => match dstep loop d with Some d' => diter loop k d' | None => None end
  end.

Definition dmeasure (d : dstate) : nat := length (snd d).

(* what the code computes *)
Definition drain (s : est) : est := fold_left (step false) (e_queue s) (with_queue s []).

Definition ccs (e : N) : erec := {| r_ccs := true; r_epoch := e; r_id := 0 |}.
Definition fin (e id : N) : erec := {| r_ccs := false; r_epoch := e; r_id := id |}.

(* witness for the looping variant: keys installed, a Finished of the next epoch queued, its
   ChangeCipherSpec neither queued nor applied *)
Definition wedge_state : est :=
  {| e_epoch := 0; e_keys := true; e_queue := [fin 1 7]; e_out := [] |}.
