(* Proofs about the early-record queue model Hs/Abs12Early.v (C02). *)
From Coq Require Import List NArith Bool Arith Lia ZifyN ZifyNat ZifyBool.
From DtlsV Require Import Hs.Abs12Early.
Import ListNotations.

(* every step of the drain of the code strictly decreases the number of records still to replay *)
Lemma dstep_decreases : forall d d', dstep false d = Some d' -> (dmeasure d' < dmeasure d)%nat.
Proof.
  intros [s b] d' H. unfold dstep in H. cbn [snd fst] in H.
  destruct b as [|r rest]; [discriminate|].
  inversion H; subst. unfold dmeasure. cbn [snd length]. lia.
Qed.

Lemma step_false_queue : forall s r, e_queue (step false s r) = e_queue s.
Proof.
  intros s r. unfold step, putback.
  destruct (r_ccs r); destruct (e_keys s); try destruct (r_epoch r =? e_epoch s)%N;
    try destruct (e_epoch s <? r_epoch r)%N; reflexivity.
Qed.

Lemma fold_step_false_queue : forall b s, e_queue (fold_left (step false) b s) = e_queue s.
Proof.
  induction b as [|r b IH]; intros s; [reflexivity|].
  cbn [fold_left]. rewrite IH. apply step_false_queue.
Qed.

Lemma diter_false_batch : forall b s,
  diter false (length b) (s, b) = Some (fold_left (step false) b s, []).
Proof.
  induction b as [|r b IH]; intros s; [reflexivity|].
  cbn [length diter]. unfold dstep. cbn [snd fst]. apply IH.
Qed.

(* the drain of the code returns after exactly as many steps as there were queued records, with
   the result [drain s], an empty queue (every early record was read, or discarded), whatever the
   records are and whatever order they arrived in *)
Lemma early_queue_terminates : forall s,
  (forall d d', dstep false d = Some d' -> (dmeasure d' < dmeasure d)%nat) /\
  exists d, diter false (length (e_queue s)) (dstart s) = Some d /\
            dstep false d = None /\ fst d = drain s /\ e_queue (fst d) = [].
Proof.
  intros s. split; [exact dstep_decreases|].
  exists (drain s, []). unfold dstart, drain.
  rewrite diter_false_batch. repeat split.
  cbn [fst]. rewrite fold_step_false_queue. reflexivity.
Qed.

(* the reader never waits on the queue: one record, one step, and it only ever appends *)
Lemma reader_total : forall s r,
  recv s r = step true s r /\
  (e_queue (recv s r) = e_queue s \/ e_queue (recv s r) = e_queue s ++ [r]).
Proof.
  intros s r. split; [reflexivity|]. unfold recv, step, putback.
  destruct (r_ccs r); destruct (e_keys s); try destruct (r_epoch r =? e_epoch s)%N;
    try destruct (e_epoch s <? r_epoch r)%N; cbn; auto.
Qed.

(* a Finished queued in front of its ChangeCipherSpec is discarded by the drain, and the peer's
   retransmission (ChangeCipherSpec, Finished in order, through the reader) is read *)
Lemma discarded_then_recovered : forall s id,
  e_keys s = true -> e_queue s = [fin (e_epoch s + 1) id] ->
  drain s = with_queue s [] /\
  e_out (recv (recv (drain s) (ccs (e_epoch s))) (fin (e_epoch s + 1) id))
    = e_out s ++ [fin (e_epoch s + 1) id].
Proof.
  intros s id Hk Hq.
  assert (Hd : drain s = with_queue s []).
  { unfold drain. rewrite Hq. cbn [fold_left]. unfold step, putback.
    cbn [fin r_ccs r_epoch with_queue e_epoch e_keys].
    replace (e_epoch s <? e_epoch s + 1)%N with true by (symmetry; apply N.ltb_lt; lia).
    reflexivity. }
  split; [exact Hd|]. rewrite Hd. unfold recv, step, putback.
  cbn [ccs fin r_ccs r_epoch with_queue e_epoch e_keys e_queue e_out]. rewrite Hk.
  rewrite N.eqb_refl. cbn [e_epoch e_keys e_queue e_out r_ccs r_epoch].
  replace (e_epoch s + 1 <? e_epoch s + 1)%N with false by (symmetry; apply N.ltb_ge; lia).
  rewrite N.eqb_refl. reflexivity.
Qed.

(* a ChangeCipherSpec queued in front of the Finished: the drain reads both *)
Lemma in_order_delivered : forall s id,
  e_keys s = true -> e_queue s = [ccs (e_epoch s); fin (e_epoch s + 1) id] ->
  e_out (drain s) = e_out s ++ [fin (e_epoch s + 1) id] /\ e_epoch (drain s) = (e_epoch s + 1)%N.
Proof.
  intros s id Hk Hq. unfold drain. rewrite Hq. cbn [fold_left]. unfold step, putback.
  cbn [ccs fin r_ccs r_epoch with_queue e_epoch e_keys e_queue e_out]. rewrite Hk.
  rewrite N.eqb_refl. cbn [e_epoch e_keys e_queue e_out r_ccs r_epoch].
  replace (e_epoch s + 1 <? e_epoch s + 1)%N with false by (symmetry; apply N.ltb_ge; lia).
  rewrite N.eqb_refl. split; reflexivity.
Qed.

(* the variant that puts still-early records back and loops until the queue is empty never
   returns on [wedge_state]: no number of steps reaches a state where the drain stops *)
Definition wd0 : dstate := dstart wedge_state.
Definition wd1 : dstate := (wedge_state, []).

Lemma wd0_step : dstep true wd0 = Some wd1.
Proof. reflexivity. Qed.
Lemma wd1_step : dstep true wd1 = Some wd0.
Proof. reflexivity. Qed.

Lemma wedge_cycle : forall n,
  (diter true n wd0 = Some wd0 \/ diter true n wd0 = Some wd1) /\
  (diter true n wd1 = Some wd0 \/ diter true n wd1 = Some wd1).
Proof.
  induction n as [|n [IH0 IH1]].
  - split; [left|right]; reflexivity.
  - split.
    + change (diter true (S n) wd0) with
        (match dstep true wd0 with Some d' => diter true n d' | None => None end).
      rewrite wd0_step. exact IH1.
    + change (diter true (S n) wd1) with
        (match dstep true wd1 with Some d' => diter true n d' | None => None end).
      rewrite wd1_step. exact IH0.
Qed.

Lemma requeue_loop_refuted : exists s,
  forall n, exists d, diter true n (dstart s) = Some d /\ dstep true d <> None.
Proof.
  exists wedge_state. intros n. destruct (wedge_cycle n) as [[H|H] _].
  - exists wd0. split; [exact H|]. rewrite wd0_step. discriminate.
  - exists wd1. split; [exact H|]. rewrite wd1_step. discriminate.
Qed.
