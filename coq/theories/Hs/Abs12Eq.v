(* Boolean equality on model states, with correctness proofs (used for fast set membership in
   the reachability computation of Abs12Live). *)
From Coq Require Import List NArith Bool Arith Lia.
From DtlsV Require Import Gen.Generated Hs.Abs12.
Import ListNotations.
Open Scope nat_scope.

Section ListEq.
  Context {A : Type} (eqb : A -> A -> bool) (eqb_ok : forall a b, eqb a b = true -> a = b).
  Fixpoint leqb (a b : list A) : bool :=
    match a, b with
    | [], [] => true
    | x :: a', y :: b' => eqb x y && leqb a' b'
    | _, _ => false
    end.
  Lemma leqb_ok : forall a b, leqb a b = true -> a = b.
  Proof.
    induction a as [|x a IH]; intros [|y b] H; cbn in H; try discriminate; [reflexivity|].
    apply andb_prop in H. destruct H as [H1 H2]. apply eqb_ok in H1. apply IH in H2. now subst.
  Qed.
End ListEq.

Definition rec_eqb (a b : rec) : bool :=
  match a, b with
  | Hs h1 m1 o1 l1 t1, Hs h2 m2 o2 l2 t2 =>
      Nat.eqb h1 h2 && Nat.eqb m1 m2 && Nat.eqb o1 o2 && Nat.eqb l1 l2 && Nat.eqb t1 t2
  | CCS, CCS => true
  | Fin m1, Fin m2 => Nat.eqb m1 m2
  | _, _ => false
  end.

Ltac beq :=
  repeat match goal with
         | H : _ && _ = true |- _ => apply andb_prop in H; destruct H
         | H : Nat.eqb _ _ = true |- _ => apply Nat.eqb_eq in H
         | H : N.eqb _ _ = true |- _ => apply N.eqb_eq in H
         | H : Bool.eqb _ _ = true |- _ => apply Bool.eqb_prop in H
         end.

Lemma rec_eqb_ok a b : rec_eqb a b = true -> a = b.
Proof. destruct a, b; cbn; intro H; try discriminate; beq; subst; reflexivity. Qed.

Definition frag_eqb (a b : frag) : bool :=
  let '(a1, a2, a3, a4, a5, a6) := a in let '(b1, b2, b3, b4, b5, b6) := b in
  Nat.eqb a1 b1 && Nat.eqb a2 b2 && Nat.eqb a3 b3 && Nat.eqb a4 b4 && Nat.eqb a5 b5 && Nat.eqb a6 b6.
Lemma frag_eqb_ok a b : frag_eqb a b = true -> a = b.
Proof.
  destruct a as [[[[[a1 a2] a3] a4] a5] a6], b as [[[[[b1 b2] b3] b4] b5] b6]. cbn. intro H. beq. subst. reflexivity.
Qed.

Definition cache_eqb (a b : nat * nat * nat) : bool :=
  let '(a1, a2, a3) := a in let '(b1, b2, b3) := b in Nat.eqb a1 b1 && Nat.eqb a2 b2 && Nat.eqb a3 b3.
Lemma cache_eqb_ok a b : cache_eqb a b = true -> a = b.
Proof. destruct a as [[a1 a2] a3], b as [[b1 b2] b3]. cbn. intro H. beq. subst. reflexivity. Qed.

Definition fstate_eqb (a b : fstate) : bool :=
  match a, b with Waiting, Waiting => true | Finished, Finished => true | _, _ => false end.
Lemma fstate_eqb_ok a b : fstate_eqb a b = true -> a = b.
Proof. destruct a, b; cbn; intro H; try discriminate; reflexivity. Qed.

Definition ep_eqb (a b : ep) : bool :=
  Bool.eqb (e_client a) (e_client b) && Nat.eqb (e_flight a) (e_flight b) &&
  fstate_eqb (e_fst a) (e_fst b) && Nat.eqb (e_recvseq a) (e_recvseq b) &&
  Nat.eqb (e_fbcur a) (e_fbcur b) && leqb frag_eqb (e_frags a) (e_frags b) &&
  leqb cache_eqb (e_cache a) (e_cache b) && Nat.eqb (e_repoch a) (e_repoch b) &&
  Bool.eqb (e_init a) (e_init b) && leqb rec_eqb (e_queue a) (e_queue b) &&
  Bool.eqb (e_est a) (e_est b) && N.eqb (e_interval a) (e_interval b) && N.eqb (e_timer a) (e_timer b).

Lemma ep_eqb_ok a b : ep_eqb a b = true -> a = b.
Proof.
  unfold ep_eqb. destruct a, b; cbn.
  intro H. beq.
  repeat match goal with
         | H : leqb frag_eqb _ _ = true |- _ => apply (leqb_ok frag_eqb frag_eqb_ok) in H
         | H : leqb cache_eqb _ _ = true |- _ => apply (leqb_ok cache_eqb cache_eqb_ok) in H
         | H : leqb rec_eqb _ _ = true |- _ => apply (leqb_ok rec_eqb rec_eqb_ok) in H
         | H : fstate_eqb _ _ = true |- _ => apply fstate_eqb_ok in H
         end.
  subst. reflexivity.
Qed.

Lemma bool_eqb_ok (a b : bool) : Bool.eqb a b = true -> a = b.
Proof. apply Bool.eqb_prop. Qed.
