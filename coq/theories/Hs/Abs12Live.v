(* Untimed, adversarial closure of the handshake model (Abs12) and a checker for liveness:
   the network may deliver any datagram that was ever sent, any number of times, in any order,
   and fire either retransmit timer at any moment (this over-approximates every finite pattern of
   loss, duplication, reordering and delay); from EVERY state reachable that way, a bounded number
   of reliable rounds (timer, then everything emitted is delivered in order) completes the
   handshake on both sides.  Definitions and the generic soundness of the checker. *)
From Coq Require Import List NArith Bool Arith Lia.
From DtlsV Require Import Gen.Generated Hs.Abs12 Hs.Abs12Eq.
Import ListNotations.
Open Scope nat_scope.

(* ---------- untimed endpoint: time fields erased ---------- *)

Definition untime (e : ep) : ep := upd_fsm e (e_flight e) (e_fst e) (e_est e) 0%N 0%N.

Record ustate := {
  u_c : ep; u_s : ep;
  u_nc : list bool;      (* which datagrams of the client's universe have been sent *)
  u_ns : list bool
}.

(* the universe of datagrams a side can ever send: the datagrams of its flights, in table order *)
Definition client_flight (f : nat) : bool :=
  Nat.eqb f F1 || Nat.eqb f F3 || Nat.eqb f F5 || Nat.eqb f F5b.

Definition universe (c : cfg) (client : bool) : list (nat * dgram) :=
  flat_map (fun fd => if Bool.eqb (client_flight (fst fd)) client
                      then map (fun d => (fst fd, d)) (snd fd) else []) (c_fl c).

(* mark all datagrams of flight f as sent *)
Definition mark_flight (c : cfg) (client : bool) (f : nat) (n : list bool) : list bool :=
  map (fun p => let '((f', _), b) := p in b || Nat.eqb f f') (combine (universe c client) n).

Definition sent_flight (out : list dgram) (e : ep) : option nat :=
  match out with [] => None | _ => Some (e_flight e) end.

Definition uinit (c : cfg) : ustate :=
  let nc0 := map (fun _ => false) (universe c true) in
  {| u_c := untime (ep_init c true); u_s := untime (ep_init c false);
     u_nc := mark_flight c true F1 nc0; u_ns := map (fun _ => false) (universe c false) |}.

Inductive umove := UDeliverToServer (i : nat) | UDeliverToClient (i : nat) | UTimerC | UTimerS.

Definition after_client (c : cfg) (s : ustate) (r : ep * list dgram) : ustate :=
  let '(e', out) := r in
  {| u_c := untime e'; u_s := u_s s;
     u_nc := match sent_flight out e' with Some f => mark_flight c true f (u_nc s) | None => u_nc s end;
     u_ns := u_ns s |}.

Definition after_server (c : cfg) (s : ustate) (r : ep * list dgram) : ustate :=
  let '(e', out) := r in
  {| u_c := u_c s; u_s := untime e'; u_nc := u_nc s;
     u_ns := match sent_flight out e' with Some f => mark_flight c false f (u_ns s) | None => u_ns s end |}.

(* a move is enabled when the datagram has been sent / the side is waiting *)
Definition ustep (c : cfg) (s : ustate) (m : umove) : option ustate :=
  match m with
  | UDeliverToServer i =>
      match nth_error (universe c true) i, nth_error (u_nc s) i with
      | Some (_, d), Some true => Some (after_server c s (on_datagram c (u_s s) d 0%N))
      | _, _ => None
      end
  | UDeliverToClient i =>
      match nth_error (universe c false) i, nth_error (u_ns s) i with
      | Some (_, d), Some true => Some (after_client c s (on_datagram c (u_c s) d 0%N))
      | _, _ => None
      end
  | UTimerC => if waiting (u_c s) then Some (after_client c s (on_timer c (u_c s))) else None
  | UTimerS => if waiting (u_s s) then Some (after_server c s (on_timer c (u_s s))) else None
  end.

Definition all_moves (c : cfg) : list umove :=
  map UDeliverToServer (seq 0 (length (universe c true))) ++
  map UDeliverToClient (seq 0 (length (universe c false))) ++ [UTimerC; UTimerS].

Inductive Reach (c : cfg) : ustate -> Prop :=
| reach_init : Reach c (uinit c)
| reach_step : forall s m s', Reach c s -> ustep c s m = Some s' -> Reach c s'.

(* ---------- reliable rounds ---------- *)

(* deliver queues of datagrams until quiescence; everything emitted is delivered, in order *)
Fixpoint flush (fuel : nat) (c : cfg) (ec es : ep) (to_s to_c : list dgram) : ep * ep :=
  match fuel with
  | O => (ec, es)
  | S fuel' =>
      match to_s, to_c with
      | d :: to_s', _ =>
          let '(es', out) := on_datagram c es d 0%N in flush fuel' c ec (untime es') to_s' (to_c ++ out)
      | [], d :: to_c' =>
          let '(ec', out) := on_datagram c ec d 0%N in flush fuel' c (untime ec') es out to_c'
      | [], [] => (ec, es)
      end
  end.

Definition round (c : cfg) (p : ep * ep) : ep * ep :=
  let '(ec, es) := p in
  (* the client's timer, then the server's; after each, the network delivers everything *)
  let '(ec1, o1) := if waiting ec then on_timer c ec else (ec, []) in
  let '(ec2, es2) := flush 64 c (untime ec1) es o1 [] in
  let '(es3, o3) := if waiting es2 then on_timer c es2 else (es2, []) in
  flush 64 c ec2 (untime es3) [] o3.

Fixpoint rounds (k : nat) (c : cfg) (p : ep * ep) : ep * ep :=
  match k with O => p | S k' => rounds k' c (round c p) end.

Definition both_est (p : ep * ep) : bool := e_est (fst p) && e_est (snd p).

Definition live_from (K : nat) (c : cfg) (s : ustate) : bool := both_est (rounds K c (u_c s, u_s s)).

(* ---------- equality of states (boolean, proved correct in Abs12Eq) ---------- *)

Definition ustate_eqb (a b : ustate) : bool :=
  ep_eqb (u_c a) (u_c b) && ep_eqb (u_s a) (u_s b) &&
  leqb Bool.eqb (u_nc a) (u_nc b) && leqb Bool.eqb (u_ns a) (u_ns b).

Lemma ustate_eqb_ok a b : ustate_eqb a b = true -> a = b.
Proof.
  unfold ustate_eqb. destruct a, b; cbn. intro H.
  repeat match goal with H : _ && _ = true |- _ => apply andb_prop in H; destruct H end.
  repeat match goal with
         | H : ep_eqb _ _ = true |- _ => apply ep_eqb_ok in H
         | H : leqb Bool.eqb _ _ = true |- _ => apply (leqb_ok Bool.eqb bool_eqb_ok) in H
         end.
  subst. reflexivity.
Qed.

Definition umem (s : ustate) (R : list ustate) : bool := existsb (ustate_eqb s) R.

Lemma umem_In s R : umem s R = true -> In s R.
Proof.
  unfold umem. intro H. apply existsb_exists in H. destruct H as (x & Hx & He).
  apply ustate_eqb_ok in He. now subst.
Qed.

(* ---------- closure computation and the checker ---------- *)

Definition succs (c : cfg) (s : ustate) : list ustate :=
  flat_map (fun m => match ustep c s m with Some s' => [s'] | None => [] end) (all_moves c).

Fixpoint add_new (R : list ustate) (xs : list ustate) (acc : list ustate) : list ustate * list ustate :=
  (* returns (R extended, newly added) *)
  match xs with
  | [] => (R, acc)
  | x :: xs' => if umem x R then add_new R xs' acc else add_new (x :: R) xs' (x :: acc)
  end.

Fixpoint closure (fuel : nat) (c : cfg) (R : list ustate) (frontier : list ustate) : list ustate :=
  match fuel with
  | O => R
  | S fuel' =>
      match frontier with
      | [] => R
      | _ =>
          let '(R', fresh) := add_new R (flat_map (succs c) frontier) [] in
          closure fuel' c R' fresh
      end
  end.

Definition reach_set (fuel : nat) (c : cfg) : list ustate := closure fuel c [uinit c] [uinit c].

Definition closed (c : cfg) (R : list ustate) : bool :=
  umem (uinit c) R && forallb (fun s => forallb (fun s' => umem s' R) (succs c s)) R.

Definition live_check (fuel K : nat) (c : cfg) : bool :=
  let R := reach_set fuel c in
  closed c R && forallb (live_from K c) R.

Lemma succs_complete c s m s' : ustep c s m = Some s' -> In m (all_moves c) -> In s' (succs c s).
Proof.
  intros H Hm. unfold succs. apply in_flat_map. exists m. split; [exact Hm|]. rewrite H. now left.
Qed.

Lemma enabled_in_all_moves c s m s' : ustep c s m = Some s' -> In m (all_moves c).
Proof.
  unfold all_moves. intro H. destruct m as [i | i | | ]; cbn [ustep] in H.
  - apply in_or_app. left. apply in_map. apply in_seq.
    destruct (nth_error (universe c true) i) eqn:E; [|discriminate].
    assert (i < length (universe c true)) by (apply nth_error_Some; congruence). lia.
  - apply in_or_app. right. apply in_or_app. left. apply in_map. apply in_seq.
    destruct (nth_error (universe c false) i) eqn:E; [|discriminate].
    assert (i < length (universe c false)) by (apply nth_error_Some; congruence). lia.
  - apply in_or_app. right. apply in_or_app. right. now left.
  - apply in_or_app. right. apply in_or_app. right. right. now left.
Qed.

Lemma closed_reach c R : closed c R = true -> forall s, Reach c s -> In s R.
Proof.
  unfold closed. intro H. apply andb_prop in H. destruct H as [Hi Hc].
  intros s Hr. induction Hr as [|s m s' Hr IH Hstep].
  - now apply umem_In.
  - rewrite forallb_forall in Hc. specialize (Hc s IH). rewrite forallb_forall in Hc.
    apply umem_In. apply Hc. eapply succs_complete; [exact Hstep|]. eapply enabled_in_all_moves; exact Hstep.
Qed.

(* soundness of the checker: if it says yes, then from EVERY reachable state K reliable rounds
   establish both sides *)
Theorem live_check_sound fuel K c :
  live_check fuel K c = true -> forall s, Reach c s -> live_from K c s = true.
Proof.
  unfold live_check. intro H. apply andb_prop in H. destruct H as [Hc Hl].
  intros s Hr. rewrite forallb_forall in Hl. apply Hl. eapply closed_reach; eauto.
Qed.

(* ---------- safety facts checked over the same closure ---------- *)

(* a HelloVerifyRequest (flight 2) is never (re)sent by a timer; a finished side never sends on a timer *)
Definition timer_silent_ok (c : cfg) (s : ustate) : bool :=
  (negb (Nat.eqb (e_flight (u_s s)) F2) || match snd (on_timer c (u_s s)) with [] => true | _ => false end).

Definition count_true (l : list bool) : nat := length (filter (fun b => b) l).
