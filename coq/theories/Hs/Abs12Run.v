(* Trace acceptance: replay the moves the scripted network performed on the implementation
   through the model and compare what each side emitted (content and virtual time) and whether
   each side reported an established handshake. *)
From Coq Require Import List NArith Bool Arith.
From DtlsV Require Import Gen.Generated Hs.Abs12.
Import ListNotations.
Open Scope nat_scope.

Definition rec_eqb (a b : rec) : bool :=
  match a, b with
  | Hs h1 m1 o1 l1 t1, Hs h2 m2 o2 l2 t2 =>
      Nat.eqb h1 h2 && Nat.eqb m1 m2 && Nat.eqb o1 o2 && Nat.eqb l1 l2 && Nat.eqb t1 t2
  | CCS, CCS => true
  | Fin _, Fin _ => true          (* the message sequence of an encrypted Finished is not visible on the wire *)
  | _, _ => false
  end.

Fixpoint dgram_eqb (a b : dgram) : bool :=
  match a, b with
  | [], [] => true
  | x :: a', y :: b' => rec_eqb x y && dgram_eqb a' b'
  | _, _ => false
  end.

Fixpoint out_eqb (a b : list (N * dgram)) : bool :=
  match a, b with
  | [], [] => true
  | (t1, d1) :: a', (t2, d2) :: b' => N.eqb t1 t2 && dgram_eqb d1 d2 && out_eqb a' b'
  | _, _ => false
  end.

(* case: configuration, moves, end time, observed client emissions, observed server emissions,
   client established, server established *)
Definition c02_case := (cfg * list move * N * list (N * dgram) * list (N * dgram) * bool * bool)%type.

Definition c02_ok (c : c02_case) : bool :=
  let '(cf, ms, tend, oc, os, ce, se) := c in
  match run_moves cf (sys_init cf) ms with
  | None => false
  | Some s =>
      let s' := advance 4096 cf s tend in
      out_eqb (s_cout s') oc && out_eqb (s_sout s') os &&
      Bool.eqb (e_est (s_c s')) ce && Bool.eqb (e_est (s_s s')) se
  end.

(* for diagnosis: what the model emitted *)
Definition c02_model_out (c : c02_case) :=
  let '(cf, ms, tend, oc, os, ce, se) := c in
  match run_moves cf (sys_init cf) ms with
  | None => None
  | Some s => let s' := advance 4096 cf s tend in
              Some (s_cout s', s_sout s', e_est (s_c s'), e_est (s_s s'), e_flight (s_c s'), e_flight (s_s s'))
  end.

Fixpoint mismatches_from {A} (ok : A -> bool) (i : N) (l : list A) : list N :=
  match l with
  | [] => []
  | c :: l' => if ok c then mismatches_from ok (i + 1)%N l' else i :: mismatches_from ok (i + 1)%N l'
  end.
Definition mismatches {A} (ok : A -> bool) (l : list A) : list N := mismatches_from ok 0%N l.

(* the same flight structure under another timer configuration *)
Definition retime (c : cfg) (i : N) (backoff : bool) : cfg :=
  {| c_hv := c_hv c; c_psk := c_psk c; c_resume := c_resume c; c_initial := i; c_backoff := backoff;
     c_fl := c_fl c |}.
