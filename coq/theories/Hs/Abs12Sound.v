(* Proofs about the handshake state-machine model (Abs12): retransmission discipline (C17)
   and the instances of the liveness checker on the regenerated flight structures (C02). *)
From Coq Require Import List NArith Bool Arith Lia.
From Coq Require Import ZifyN ZifyNat ZifyBool.
From DtlsV Require Import Gen.Generated Gen.GeneratedFlights Hs.Abs12 Hs.Abs12Eq Hs.Abs12Live.
Import ListNotations.
Open Scope nat_scope.

(* ---------- the per-flight flags of the current tree ---------- *)

(* HelloVerifyRequest (Flight 2) is the only flight not retransmitted on a timer; the last
   flights are 5b/6 (send) and 4b/5 (receive).  Computed from Gen/Generated.v. *)
Lemma flags_of_tree :
  map fl_retransmit [F0; F1; F2; F3; F4; F4b; F5; F5b; F6] = [true; true; false; true; true; true; true; true; true] /\
  map fl_last_send [F0; F1; F2; F3; F4; F4b; F5; F5b; F6] = [false; false; false; false; false; false; false; true; true] /\
  map fl_last_recv [F0; F1; F2; F3; F4; F4b; F5; F5b; F6] = [false; false; false; false; false; true; true; false; false].
Proof. vm_compute. repeat split; reflexivity. Qed.

Lemma f2_not_retransmitted : fl_retransmit F2 = false.
Proof. vm_compute. reflexivity. Qed.

(* ---------- timers ---------- *)

(* C17: a cookie request is never sent by the retransmission timer *)
Theorem hvr_never_on_timer c e : e_flight e = F2 -> snd (on_timer c e) = [].
Proof.
  intro H. unfold on_timer. destruct (e_fst e); [|reflexivity].
  rewrite H, f2_not_retransmitted. reflexivity.
Qed.

(* C17: after completing, an endpoint sends nothing on a timer *)
Theorem finished_silent_on_timer c e : e_fst e = Finished -> on_timer c e = (e, []).
Proof. intro H. unfold on_timer. now rewrite H. Qed.

(* ... and re-sends only its final flight, only in reaction to a datagram from the peer that carries
   handshake data the peer has sent before (a retransmission - commit 8305f84), and only if it was
   the sender of the last flight of the handshake *)
Theorem finished_resend_rule c e retr now :
  e_fst e = Finished ->
  fst (on_event c e retr now) = e /\
  snd (on_event c e retr now) =
    if fl_last_send (e_flight e) && retr then fl_lookup (e_flight e) (c_fl c) else [].
Proof. intro H. unfold on_event. rewrite H. destruct (fl_last_send (e_flight e) && retr); auto. Qed.

(* a handshake datagram that repeats nothing (a forged fragment with an unused message number) makes
   a completed endpoint send nothing at all *)
Theorem finished_silent_on_new_data c e now :
  e_fst e = Finished -> on_event c e false now = (e, []).
Proof. intro H. unfold on_event. rewrite H, Bool.andb_false_r. reflexivity. Qed.

(* one timer expiry: the interval law of handleRetransmitTimeout, next deadline one interval later,
   flight and state unchanged *)
Theorem timer_step c e :
  e_fst e = Waiting -> fl_retransmit (e_flight e) = true ->
  let e' := fst (on_timer c e) in
  e_interval e' = next_interval (c_backoff c) (e_interval e) /\
  e_timer e' = (e_timer e + e_interval e')%N /\
  e_flight e' = e_flight e /\ e_fst e' = Waiting /\
  snd (on_timer c e) = fl_lookup (e_flight e) (c_fl c).
Proof. intros H1 H2. unfold on_timer. rewrite H1, H2. cbn. auto. Qed.

Fixpoint timeouts (k : nat) (c : cfg) (e : ep) : ep :=
  match k with O => e | S k' => fst (on_timer c (timeouts k' c e)) end.

(* the interval never shrinks, never passes the cap when it started below it, and is left alone when
   it was configured at or above the cap (commits 30fc24e, b6ad085) *)
Lemma next_interval_ge b i : (i <= next_interval b i)%N.
Proof.
  unfold next_interval. destruct b; cbn [andb]; [|lia].
  destruct (N.ltb_spec i 60000); [|lia]. destruct (N.ltb_spec 30000 i); lia.
Qed.

Lemma next_interval_above_cap b i : (60000 <= i)%N -> next_interval b i = i.
Proof.
  intro H. unfold next_interval. destruct b; cbn [andb]; [|reflexivity].
  destruct (N.ltb_spec i 60000); [lia|reflexivity].
Qed.

Lemma next_interval_no_backoff i : next_interval false i = i.
Proof. reflexivity. Qed.

Lemma next_interval_double_min i k : (i <= 60000)%N ->
  next_interval true (N.min (i * 2 ^ N.of_nat k) 60000)%N = N.min (i * 2 ^ N.of_nat (S k)) 60000%N.
Proof.
  intro Hi. replace (N.of_nat (S k)) with (N.succ (N.of_nat k)) by lia. rewrite N.pow_succ_r'.
  unfold next_interval. cbn [andb]. set (p := (2 ^ N.of_nat k)%N).
  destruct (N.leb_spec (i * p) 60000) as [Hle | Hgt].
  - rewrite (N.min_l _ _ Hle).
    destruct (N.ltb_spec (i * p) 60000) as [H | H].
    + destruct (N.ltb_spec 30000 (i * p)) as [H' | H'].
      * rewrite N.min_r by lia. reflexivity.
      * rewrite N.min_l by lia. lia.
    + assert (i * p = 60000)%N by lia. rewrite N.min_r by lia. lia.
  - rewrite N.min_r by lia.
    destruct (N.ltb_spec 60000 60000) as [H | H]; [lia|].
    rewrite N.min_r by lia. reflexivity.
Qed.

(* C17 timer law: in the absence of input the k-th retransmission interval is
   min(I * 2^k, 60 s) with backoff, and constantly I without *)
Theorem interval_law c e k :
  e_fst e = Waiting -> fl_retransmit (e_flight e) = true -> (e_interval e <= 60000)%N ->
  let e' := timeouts k c e in
  e_fst e' = Waiting /\ e_flight e' = e_flight e /\
  e_interval e' = if c_backoff c then N.min (e_interval e * 2 ^ N.of_nat k) 60000%N else e_interval e.
Proof.
  intros Hw Hr Hi. induction k as [|k IH]; cbn [timeouts].
  - repeat split; auto. destruct (c_backoff c); [|reflexivity].
    change (2 ^ N.of_nat 0)%N with 1%N. rewrite N.mul_1_r, N.min_l by lia. reflexivity.
  - destruct IH as (H1 & H2 & H3).
    assert (Hr' : fl_retransmit (e_flight (timeouts k c e)) = true) by now rewrite H2.
    destruct (timer_step c (timeouts k c e) H1 Hr') as (Ha & _ & Hc & Hd & _).
    split; [exact Hd|]. split; [now rewrite Hc|].
    rewrite Ha, H3. destruct (c_backoff c).
    + now apply next_interval_double_min.
    + reflexivity.
Qed.

(* ... and for ANY configured interval, also one above the cap or so large that twice its value does
   not fit the machine type: the interval never decreases and is constant when backoff is disabled
   or the configured value is at or above the cap *)
Theorem interval_law_any c e k :
  e_fst e = Waiting -> fl_retransmit (e_flight e) = true ->
  let e' := timeouts k c e in
  (e_interval e <= e_interval e')%N /\
  (c_backoff c = false \/ (60000 <= e_interval e)%N -> e_interval e' = e_interval e).
Proof.
  intros Hw Hr. cbn zeta.
  assert (G : forall k, e_fst (timeouts k c e) = Waiting /\ e_flight (timeouts k c e) = e_flight e /\
                        (e_interval e <= e_interval (timeouts k c e))%N /\
                        (c_backoff c = false \/ (60000 <= e_interval e)%N ->
                         e_interval (timeouts k c e) = e_interval e)).
  { induction k0 as [|k0 IH]; cbn [timeouts]; [repeat split; auto; lia|].
    destruct IH as (H1 & H2 & H3 & H4).
    assert (Hr' : fl_retransmit (e_flight (timeouts k0 c e)) = true) by now rewrite H2.
    destruct (timer_step c (timeouts k0 c e) H1 Hr') as (Ha & _ & Hc & Hd & _).
    split; [exact Hd|]. split; [now rewrite Hc|]. rewrite Ha. split.
    - eapply N.le_trans; [exact H3 | apply next_interval_ge].
    - intros [Hb | Hcap].
      + rewrite Hb, next_interval_no_backoff. apply H4. now left.
      + rewrite next_interval_above_cap; [apply H4; now right|]. rewrite (H4 (or_intror Hcap)). exact Hcap. }
  destruct (G k) as (_ & _ & H3 & H4). split; assumption.
Qed.

(* ---------- the rx part of the state never touches the timer fields ---------- *)

Definition same_fsm (a b : ep) : Prop :=
  e_client a = e_client b /\ e_flight a = e_flight b /\ e_fst a = e_fst b /\ e_est a = e_est b /\
  e_interval a = e_interval b /\ e_timer a = e_timer b.

Lemma same_fsm_refl a : same_fsm a a. Proof. unfold same_fsm; auto 10. Qed.
Lemma same_fsm_trans a b c : same_fsm a b -> same_fsm b c -> same_fsm a c.
Proof. unfold same_fsm. intros (?&?&?&?&?&?) (?&?&?&?&?&?). repeat split; congruence. Qed.
Lemma same_fsm_upd_rx e a b c d f g h : same_fsm e (upd_rx e a b c d f g h).
Proof. unfold same_fsm, upd_rx; cbn; auto 10. Qed.

Lemma same_fsm_pop_all fuel : forall e, same_fsm e (pop_all fuel e).
Proof.
  induction fuel as [|fuel IH]; intro e; cbn [pop_all]; [apply same_fsm_refl|].
  destruct (complete (e_fbcur e) (e_frags e)) as [[ht ep0]|]; [|apply same_fsm_refl].
  eapply same_fsm_trans; [apply same_fsm_upd_rx | apply IH].
Qed.

Lemma same_fsm_fb_advance e : same_fsm e (fb_advance e).
Proof. unfold fb_advance. destruct (Nat.ltb _ _); [apply same_fsm_upd_rx | apply same_fsm_refl]. Qed.

Lemma same_fsm_push e f : same_fsm e (fst (push e f)).
Proof.
  unfold push. destruct f as [[[[[m ht] foff] fl] tl] ep0].
  destruct (Nat.ltb m (e_fbcur (fb_advance e))); cbn [fst]; [apply same_fsm_fb_advance|].
  eapply same_fsm_trans; [apply same_fsm_fb_advance|].
  eapply same_fsm_trans; [apply same_fsm_upd_rx | apply same_fsm_pop_all].
Qed.

Lemma same_fsm_enqueue l e r : same_fsm e (enqueue l e r).
Proof. unfold enqueue. destruct (_ && _); [apply same_fsm_upd_rx | apply same_fsm_refl]. Qed.

Lemma same_fsm_process_record l e r : same_fsm e (fst (fst (process_record l e r))).
Proof.
  destruct r as [ht m foff fl tl | | m]; cbn [process_record].
  - pose proof (same_fsm_push e (m, ht, foff, fl, tl, 0)) as H.
    destruct (push e (m, ht, foff, fl, tl, 0)) as [e' retr]. exact H.
  - destruct (negb (e_init e)); cbn [fst]; [apply same_fsm_enqueue|].
    destruct (Nat.eqb (e_repoch e) 0); cbn [fst]; [apply same_fsm_upd_rx | apply same_fsm_refl].
  - destruct (Nat.ltb (e_repoch e) 1); cbn [fst]; [apply same_fsm_enqueue|].
    destruct (negb (e_init e)); cbn [fst]; [apply same_fsm_enqueue|].
    pose proof (same_fsm_push e (m, HT_FIN, 0, 1, 1, 1)) as H.
    destruct (push e (m, HT_FIN, 0, 1, 1, 1)) as [e' retr]. exact H.
Qed.

Lemma same_fsm_process_records l rs : forall e, same_fsm e (fst (fst (process_records l e rs))).
Proof.
  induction rs as [|r rs IH]; intro e; cbn [process_records]; [apply same_fsm_refl|].
  pose proof (same_fsm_process_record l e r) as H1.
  destruct (process_record l e r) as [[e1 h1] r1]. cbn [fst] in H1.
  pose proof (IH e1) as H2. destruct (process_records l e1 rs) as [[e2 h2] r2]. cbn [fst] in *.
  eapply same_fsm_trans; eauto.
Qed.

Lemma same_fsm_drain e : same_fsm e (drain e).
Proof.
  unfold drain.
  pose proof (same_fsm_process_records false (e_queue e)
    (upd_rx e (e_recvseq e) (e_fbcur e) (e_frags e) (e_cache e) (e_repoch e) (e_init e) [])) as H.
  destruct (process_records false _ (e_queue e)) as [[e1 h] r]. cbn [fst] in H.
  eapply same_fsm_trans; [apply same_fsm_upd_rx | exact H].
Qed.

Lemma same_fsm_set_recvseq e n : same_fsm e (set_recvseq e n).
Proof. apply same_fsm_upd_rx. Qed.
Lemma same_fsm_set_init e : same_fsm e (set_init e).
Proof. apply same_fsm_upd_rx. Qed.

Ltac sfsm :=
  repeat first
    [ apply same_fsm_refl
    | apply same_fsm_set_recvseq
    | apply same_fsm_set_init
    | apply same_fsm_drain
    | (eapply same_fsm_trans; [apply same_fsm_set_init | apply same_fsm_drain])
    | (eapply same_fsm_trans; [ (eapply same_fsm_trans; [apply same_fsm_set_init | apply same_fsm_drain])
                              | apply same_fsm_set_recvseq ]) ].

Ltac dif := match goal with |- context [if ?b then _ else _] => destruct b end.

Lemma same_fsm_parse_server_hello c e : same_fsm e (fst (parse_server_hello c e)).
Proof. unfold parse_server_hello. cbn zeta. repeat (dif; cbn [fst]); sfsm. Qed.

Lemma same_fsm_parse_f0 c e : same_fsm e (fst (parse_f0 c e)).
Proof.
  unfold parse_f0. cbn zeta. repeat (dif; cbn [fst]); sfsm;
    try (eapply same_fsm_trans; [apply same_fsm_set_recvseq | apply same_fsm_set_init]).
Qed.

Lemma same_fsm_parse c e : same_fsm e (fst (parse c e)).
Proof.
  unfold parse. cbn zeta.
  repeat (dif; cbn [fst]);
    first [ apply same_fsm_parse_f0 | apply same_fsm_parse_server_hello | sfsm ].
Qed.

(* C17: the interval is restored to its initial value exactly when NEW (not retransmitted) data
   arrives; a datagram that only repeats old flights leaves interval and timer alone *)
Theorem interval_reset_rule (c : cfg) (e : ep) (retr : bool) (now : N) :
  e_fst e = Waiting -> snd (parse c (if retr then e else upd_fsm e (e_flight e) Waiting (e_est e) (c_initial c) (e_timer e))) = 0 ->
  let e' := fst (on_event c e retr now) in
  snd (on_event c e retr now) = [] /\
  e_timer e' = e_timer e /\ e_fst e' = Waiting /\ e_flight e' = e_flight e /\
  e_interval e' = if retr then e_interval e else c_initial c.
Proof.
  intros Hw Hp. unfold on_event. rewrite Hw.
  set (e1 := if retr then e else upd_fsm e (e_flight e) Waiting (e_est e) (c_initial c) (e_timer e)) in *.
  pose proof (same_fsm_parse c e1) as Hs.
  destruct (parse c e1) as [e2 nxt]. cbn [fst snd] in *. subst nxt. cbn [Nat.eqb fst snd].
  destruct Hs as (_ & Hf & Hst & _ & Hi & Ht).
  split; [reflexivity|]. rewrite <- Ht, <- Hst, <- Hf, <- Hi.
  subst e1. destruct retr; cbn; auto.
Qed.

(* ---------- emission bound ---------- *)

Definition max_flight (c : cfg) : nat := fold_right (fun fd m => Nat.max (length (snd fd)) m) 0 (c_fl c).

Lemma fl_lookup_bound f t : length (fl_lookup f t) <= fold_right (fun fd m => Nat.max (length (snd fd)) m) 0 t.
Proof.
  induction t as [|[f' d] t IH]; cbn [fl_lookup fold_right snd]; [cbn; lia|].
  destruct (Nat.eqb f f'); [lia|]. lia.
Qed.

Lemma enter_bound c e f now : length (snd (enter c e f now)) <= max_flight c.
Proof. unfold enter. destruct (fl_last_send f); cbn [snd]; apply fl_lookup_bound. Qed.

Lemma on_event_bound c e retr now : length (snd (on_event c e retr now)) <= max_flight c.
Proof.
  unfold on_event. destruct (e_fst e).
  - destruct (parse c _) as [e2 nxt]. destruct (Nat.eqb nxt 0); [cbn; lia|].
    destruct (_ && _); [cbn; lia | apply enter_bound].
  - destruct (fl_last_send (e_flight e) && retr); cbn [snd]; [apply fl_lookup_bound | cbn; lia].
Qed.

(* C17: whatever arrives - new data, stale flights, anything - one received datagram makes an
   endpoint emit at most one flight, and so does one timer expiry *)
Theorem emission_bound_per_datagram c e d now : length (snd (on_datagram c e d now)) <= max_flight c.
Proof.
  unfold on_datagram. destruct (process_records true e d) as [[e1 hs] retr].
  destruct hs; [apply on_event_bound | cbn; lia].
Qed.

Theorem emission_bound_per_timer c e : length (snd (on_timer c e)) <= max_flight c.
Proof.
  unfold on_timer. destruct (e_fst e); [|cbn; lia].
  destruct (fl_retransmit (e_flight e)); cbn [snd]; [apply fl_lookup_bound | cbn; lia].
Qed.

(* ---------- liveness instances on the regenerated flight structures ---------- *)

Lemma live_psk : live_check 400 6 g_cfg_psk = true. Proof. vm_compute. reflexivity. Qed.
Lemma live_psk_nohint : live_check 400 6 g_cfg_psk_nohint = true. Proof. vm_compute. reflexivity. Qed.
Lemma live_psk_skiphv : live_check 400 6 g_cfg_psk_skiphv = true. Proof. vm_compute. reflexivity. Qed.
Lemma live_cert : live_check 400 6 g_cfg_cert = true. Proof. vm_compute. reflexivity. Qed.
Lemma live_cert_clientauth : live_check 400 6 g_cfg_cert_clientauth = true. Proof. vm_compute. reflexivity. Qed.
Lemma live_cert_mtu200 : live_check 400 6 g_cfg_cert_mtu200 = true. Proof. vm_compute. reflexivity. Qed.
Lemma live_psk_resumed : live_check 400 6 g_cfg_psk_resumed = true. Proof. vm_compute. reflexivity. Qed.
Lemma live_cert_resumed : live_check 400 6 g_cfg_cert_resumed = true. Proof. vm_compute. reflexivity. Qed.
Lemma live_cert_stores_mtu200 : live_check 400 6 g_cfg_cert_stores_mtu200 = true. Proof. vm_compute. reflexivity. Qed.
Lemma live_psk_stores : live_check 400 6 g_cfg_psk_stores = true. Proof. vm_compute. reflexivity. Qed.

(* over the same closures: in no reachable state does the server's timer emit a HelloVerifyRequest *)
Definition hvr_states_ok (c : cfg) : bool :=
  forallb (timer_silent_ok c) (reach_set 400 c).
