(* C03 - Peer authentication: the DECISION FUNCTIONS of pion/dtls as total functions over an
   abstract view of what was received and of the local policy.  Definitions only; proofs in
   Hs/C03AuthSound.v.

   Code modelled (follow /repo, not the RFC):
     DTLS 1.2 client  internal/flight/flight12/flight3handler.go flight3Parse (server certificate
                      mandatory for certificate suites), flight5handler.go initializeCipherSuite
                      (signature scheme in local list, VerifyKeySignature over cr||sr||params,
                      VerifyServerCert unless InsecureSkipVerify, VerifyPeerCertificate,
                      VerifyConnection) and flight5Parse (server Finished);
     DTLS 1.2 server  flight4handler.go flight4Parse (CertificateVerify, "certificate without
                      CertificateVerify => keep waiting", ClientAuth switch, VerifyConnection);
     DTLS 1.3         internal/handshake/protected_flight.go (processCertificate,
                      processCertificateVerify, processFinished) for both directions.

   A view is a record of booleans: each field is the truth value of ONE primitive check of the
   code on the received flight (x509 verification, signature verification, AEAD opening of the
   Finished record, ...).  The primitives themselves (Go crypto/x509, signatures, AEAD) are not
   modelled: C03's statement is about which of them gate acceptance. *)
From Coq Require Import List Bool NArith.
Import ListNotations.
Open Scope N_scope.

(* ---------------------------------------------------------------- enums *)

(* ciphersuite.AuthenticationType / KeyExchangeAlgorithm of the selected suite *)
Inductive suite_class := SCert | SPsk | SEcdhePsk | SAnon.

Definition is_cert (s : suite_class) : bool := match s with SCert => true | _ => false end.
Definition is_psk (s : suite_class) : bool := match s with SPsk | SEcdhePsk => true | _ => false end.
Definition is_anon (s : suite_class) : bool := match s with SAnon => true | _ => false end.

(* config.go ClientAuthType, in the numeric order of the code (iota) *)
Inductive client_auth :=
  NoClientCert | RequestClientCert | RequireAnyClientCert | VerifyClientCertIfGiven | RequireAndVerifyClientCert.

Definition client_auth_of_N (n : N) : client_auth :=
  match n with
  | 0 => NoClientCert | 1 => RequestClientCert | 2 => RequireAnyClientCert
  | 3 => VerifyClientCertIfGiven | _ => RequireAndVerifyClientCert
  end.

(* cfg.ClientAuth >= VerifyClientCertIfGiven *)
Definition policy_verifies (p : client_auth) : bool :=
  match p with VerifyClientCertIfGiven | RequireAndVerifyClientCert => true | _ => false end.

(* protected_flight.go clientCertificateRequired *)
Definition policy_requires_cert (p : client_auth) : bool :=
  match p with RequireAnyClientCert | RequireAndVerifyClientCert => true | _ => false end.

(* alert descriptions (pkg/protocol/alert) *)
Definition a_handshake_failure : N := 40.
(* not an alert: the configuration itself is refused before any datagram is sent *)
Definition a_config_refused : N := 255.
Definition a_no_certificate : N := 41.
Definition a_bad_certificate : N := 42.
Definition a_insufficient_security : N := 71.
Definition a_certificate_required : N := 116.

(* what a flight parser decides: go on to "established", abort with a fatal alert, or return
   (0, nil, nil) = keep reading (the handshake never completes unless more arrives) *)
Inductive verdict := Accept | Reject (alert : N) | Wait.

Definition is_accept (v : verdict) : bool := match v with Accept => true | _ => false end.

(* sequential composition of checks: the first one that does not accept decides *)
Definition andthen (a b : verdict) : verdict := match a with Accept => b | r => r end.

Definition check (ok : bool) (alert : N) : verdict := if ok then Accept else Reject alert.

(* ================================================================ DTLS 1.2 client *)

Record ccfg := mk_ccfg {
  cc_skip_verify : bool;   (* InsecureSkipVerify *)
  cc_has_vpc : bool;       (* VerifyPeerCertificate callback configured *)
  cc_has_vc : bool;        (* VerifyConnection callback configured *)
  cc_psk_cb : bool;        (* LocalPSKCallback != nil : the Certificate message is then not even pulled *)
  cc_name_is_ip : bool     (* the configured ServerName is an IP address literal (blanked for SNI) *)
}.

(* the server flight (ServerHello .. ServerHelloDone, later Finished) as the client sees it *)
Record sview := mk_sview {
  sv_suite : suite_class;      (* class of the suite selected by ServerHello *)
  sv_cert_msg : bool;          (* a Certificate message is in the flight *)
  sv_certs_nonempty : bool;    (* ... with at least one certificate *)
  sv_cert_parses : bool;       (* x509.ParseCertificate(leaf) succeeds, key type supported *)
  sv_ske_msg : bool;           (* a ServerKeyExchange message is in the flight *)
  sv_scheme_allowed : bool;    (* (hash, signature) of ServerKeyExchange in cfg.LocalSignatureSchemes *)
  sv_sig_valid : bool;         (* signature verifies under the leaf key over client_random||server_random||params *)
  sv_chain_ok : bool;          (* leaf chains to cfg.RootCAs *)
  sv_name_ok : bool;           (* leaf valid for cfg.ServerName *)
  sv_time_ok : bool;           (* every certificate of the chain within its validity period *)
  sv_certalgs_ok : bool;       (* chain signature algorithms allowed (signature_algorithms_cert) *)
  sv_vpc_ok : bool;            (* VerifyPeerCertificate returns nil *)
  sv_vc_ok : bool;             (* VerifyConnection returns nil *)
  sv_fin_arrives : bool;       (* the server's Finished record opens under the keys derived locally *)
  sv_fin_valid : bool;         (* its verify_data equals PRF(ms, "server finished", H(local transcript)) *)
  sv_scheme_fits_key : bool;   (* the CLAIMED signature algorithm is one the leaf's key type produces (Ed25519 key <->
                                  Ed25519, ECDSA key <-> ECDSA, RSA key <-> RSA / PSS) and its hash yields a digest *)
  sv_psk_nonempty : bool;      (* the local PSK callback returned a non-empty key (and no error) *)
  sv_peer_knows_psk : bool;    (* ground truth: the peer derived its keys from the pre-shared key of the identity *)
  sv_signed_by_leaf : bool     (* ground truth: the signature was made with the leaf's private key over this
                                  handshake's client_random||server_random||params.  [sv_sig_valid] is only what
                                  the routine selected by the KEY TYPE returns on the digest of the CLAIMED hash *)
}.

(* VerifyServerCert: one call, all four must hold ([sv_name_ok]: valid for the CONFIGURED name; an empty
   name is no requirement) *)
Definition sv_x509_ok (v : sview) : bool :=
  sv_chain_ok v && sv_name_ok v && sv_time_ok v && sv_certalgs_ok v.

(* THE SWITCH for defect B (repaired in /repo by 1f5f836): an IP-literal ServerName is blanked for
   SNI, and the blanked value was also what VerifyServerCert got - an empty DNSName switches host
   verification off.  [true] = the configured name is verified (x509 matches IP SANs). *)
Definition client_verifies_ip_literal_name : bool := true.

(* what VerifyServerCert returns in the code: with [ipname = false] the name is not looked at when it
   is an IP literal *)
Definition sv_x509_code (ipname : bool) (c : ccfg) (v : sview) : bool :=
  sv_chain_ok v && (sv_name_ok v || (cc_name_is_ip c && negb ipname)) && sv_time_ok v && sv_certalgs_ok v.

(* THE SWITCH for defect C (repaired in /repo by f39ce00): a PSK callback that returns an empty key
   and no error (lookup of an unknown identity) gave a pre-master secret of zeros.  [true] = an empty
   key is refused like a callback error (internal_error). *)
Definition psk_refuses_empty_key : bool := true.

(* THE SWITCH for defect F45 (signature scheme confusion, repaired in /repo by 6569e78):
   internal/handshakecrypto/crypto.go verifyCertificateSignature chose the verification routine by
   the type of the certificate's public key but hashed with the algorithm the PEER CLAIMED; an ECDSA
   certificate with the Ed25519 scheme gave an empty digest, for which a signature can be computed
   from the public key alone.  [true] = the repaired code: the claimed scheme must fit the key type
   and the digest must be non-empty.  [false] = the code before the repair. *)
Definition verify_binds_scheme_to_key : bool := true.

(* flight3Parse: flight complete?  certificate mandatory for certificate suites *)
Definition client12_flight3 (c : ccfg) (v : sview) : verdict :=
  if negb (cc_psk_cb c) && negb (sv_ske_msg v) then Wait      (* ServerKeyExchange is not optional *)
  else
    let cert_seen := sv_cert_msg v && negb (cc_psk_cb c) in
    if negb cert_seen && is_cert (sv_suite v) then Reject a_no_certificate else Accept.

Definition client12_vc (c : ccfg) (v : sview) : verdict :=
  check (negb (cc_has_vc c) || sv_vc_ok v) a_bad_certificate.

(* flight5Generate -> initializeCipherSuite *)
Definition client12_init_gen (ipname bind : bool) (c : ccfg) (v : sview) : verdict :=
  match sv_suite v with
  | SCert =>
      andthen (check (sv_ske_msg v && sv_scheme_allowed v) a_insufficient_security)
     (andthen (check (sv_certs_nonempty v && sv_cert_parses v && (negb bind || sv_scheme_fits_key v) && sv_sig_valid v)
                     a_bad_certificate)
     (andthen (check (cc_skip_verify c || sv_x509_code ipname c v) a_bad_certificate)
     (andthen (check (negb (cc_has_vpc c) || sv_vpc_ok v) a_bad_certificate)
              (client12_vc c v))))
  | _ => client12_vc c v
  end.

(* flight5Parse: the server's Finished *)
Definition client12_fin (v : sview) : verdict :=
  if negb (sv_fin_arrives v) then Wait else check (sv_fin_valid v) a_handshake_failure.

Definition client12_gen (ipname bind : bool) (c : ccfg) (v : sview) : verdict :=
  andthen (client12_flight3 c v) (andthen (client12_init_gen ipname bind c v) (client12_fin v)).

(* handleServerKeyExchange (from flight3Parse once the flight is complete): the PSK callback *)
Definition client12_psk_gate (refuse : bool) (c : ccfg) (v : sview) : verdict :=
  if cc_psk_cb c && is_accept (client12_flight3 c v)
  then check (negb refuse || sv_psk_nonempty v) 80 (* internal_error *) else Accept.

Definition client12_all (refuse ipname bind : bool) (c : ccfg) (v : sview) : verdict :=
  andthen (client12_psk_gate refuse c v) (client12_gen ipname bind c v).

Definition client12_with : bool -> ccfg -> sview -> verdict := client12_gen client_verifies_ip_literal_name.
Definition client12_init_with : bool -> ccfg -> sview -> verdict := client12_init_gen client_verifies_ip_literal_name.
Definition client12 : ccfg -> sview -> verdict :=
  client12_all psk_refuses_empty_key client_verifies_ip_literal_name verify_binds_scheme_to_key.
Definition client12_init : ccfg -> sview -> verdict := client12_init_with verify_binds_scheme_to_key.

Definition client_accepts_server (c : ccfg) (v : sview) : bool := is_accept (client12 c v).

(* what the property demands of an accepted server *)
Definition client_required (c : ccfg) (v : sview) : bool :=
  (if is_cert (sv_suite v)
   then sv_cert_msg v && sv_certs_nonempty v && sv_ske_msg v && sv_scheme_allowed v && sv_sig_valid v
        && (cc_skip_verify c || sv_x509_ok v) && (negb (cc_has_vpc c) || sv_vpc_ok v)
   else true)
  && (negb (cc_has_vc c) || sv_vc_ok v)
  && sv_fin_arrives v && sv_fin_valid v.

(* the credential itself (not only the checks the code makes): for certificate suites the signature
   really is by the leaf key over this handshake, under a scheme that fits the key *)
Definition client_credential (c : ccfg) (v : sview) : bool :=
  client_required c v && (negb (is_cert (sv_suite v)) || (sv_scheme_fits_key v && sv_signed_by_leaf v))
  && (negb (is_psk (sv_suite v)) || sv_peer_knows_psk v).

(* key-knowledge premise for PSK suites: with a non-empty key, only a peer holding it produces a
   Finished that opens and verifies (symbolic counterpart: Hs/C04TranscriptSound.psk_binds) *)
Definition psk_sound_s (v : sview) : Prop :=
  sv_psk_nonempty v = true -> sv_fin_arrives v = true -> sv_fin_valid v = true -> sv_peer_knows_psk v = true.

(* unforgeability, the premise of the binding theorems: under a scheme that fits the key, only the
   holder of the leaf's private key makes the key-type routine accept *)
Definition sig_sound_s (v : sview) : Prop :=
  sv_scheme_fits_key v = true -> sv_sig_valid v = true -> sv_signed_by_leaf v = true.

(* ================================================================ DTLS 1.2 server *)

(* THE SWITCH for suspected defect F5: flight4Parse pulls the client's Finished but never compares
   its verify_data in the full handshake (only flight4bParse, resumption, does).  Set to [true] to
   obtain the behaviour of the candidate fix (compare with
   prf.VerifyDataClient(ms, transcript through CertificateVerify)). *)
Definition server12_checks_client_finished : bool := true.

Record scfg := mk_scfg {
  sc_policy : client_auth;
  sc_has_vpc : bool;
  sc_has_vc : bool
}.

(* the client's flight (Certificate? ClientKeyExchange CertificateVerify? ... Finished) as the server sees it *)
Record cview := mk_cview {
  cl_suite : suite_class;
  cl_cke_msg : bool;           (* ClientKeyExchange present (not optional) *)
  cl_certs_given : bool;       (* Certificate message with a non-empty list: state.PeerCertificates != nil *)
  cl_cert_parses : bool;
  cl_cv_msg : bool;            (* CertificateVerify present *)
  cl_scheme_allowed : bool;    (* its (hash, signature) in cfg.LocalSignatureSchemes *)
  cl_cv_valid : bool;          (* signature verifies under the leaf key over the transcript through ClientKeyExchange *)
  cl_chain_valid : bool;       (* VerifyClientCert: chain to ClientCAs, validity period, client-auth EKU, algorithms *)
  cl_vpc_ok : bool;
  cl_vc_ok : bool;
  cl_fin_arrives : bool;       (* the client's Finished record opens under the keys derived locally *)
  cl_fin_valid : bool;         (* its verify_data equals PRF(ms, "client finished", H(local transcript)) *)
  cl_cert_msg : bool;          (* a Certificate message (even an empty one) is in the flight: state.SessionID = nil *)
  cl_scheme_fits_key : bool;   (* as sv_scheme_fits_key, for CertificateVerify *)
  cl_psk_nonempty : bool;      (* the local PSK callback returned a non-empty key for the client's identity *)
  cl_peer_knows_psk : bool;    (* ground truth: the client derived its keys from the pre-shared key of that identity *)
  cl_signed_by_leaf : bool     (* ground truth: CertificateVerify made with the leaf's private key over this transcript *)
}.

(* certificate part of flight4Parse; second component = state.PeerCertificatesVerified *)
Definition server12_certs_with (bind : bool) (s : scfg) (v : cview) : verdict * bool :=
  if cl_cv_msg v then
    if negb (cl_certs_given v) then (Reject a_no_certificate, false)
    else if negb (cl_scheme_allowed v) then (Reject a_insufficient_security, false)
    else if negb (cl_cert_parses v && (negb bind || cl_scheme_fits_key v) && cl_cv_valid v)
         then (Reject a_bad_certificate, false)
    else if policy_verifies (sc_policy s) && negb (cl_chain_valid v) then (Reject a_bad_certificate, false)
    else if sc_has_vpc s && negb (cl_vpc_ok v) then (Reject a_bad_certificate, false)
    else (Accept, policy_verifies (sc_policy s))
  else if cl_certs_given v then (Wait, false)   (* certificate without CertificateVerify: keep reading *)
  else (Accept, false).

(* the ClientAuth switch *)
Definition server12_policy (p : client_auth) (given verified : bool) : verdict :=
  match p with
  | NoClientCert | RequestClientCert => Accept
  | RequireAnyClientCert => check given a_no_certificate
  | VerifyClientCertIfGiven => check (negb given || verified) a_bad_certificate
  | RequireAndVerifyClientCert => andthen (check given a_no_certificate) (check verified a_bad_certificate)
  end.

Definition server12_vc (s : scfg) (v : cview) : verdict :=
  check (negb (sc_has_vc s) || cl_vc_ok v) a_bad_certificate.

Definition server12_gen (bind checks_fin : bool) (s : scfg) (v : cview) : verdict :=
  if negb (cl_cke_msg v) then Wait else
  andthen (fst (server12_certs_with bind s v))
 (if negb (cl_fin_arrives v) then Wait else
  andthen (check (negb checks_fin || cl_fin_valid v) a_handshake_failure)
 (if is_anon (cl_suite v) then server12_vc s v
  else andthen (server12_policy (sc_policy s) (cl_certs_given v) (snd (server12_certs_with bind s v)))
               (server12_vc s v))).

Definition server12_with : bool -> scfg -> cview -> verdict := server12_gen verify_binds_scheme_to_key.
Definition server12_certs : scfg -> cview -> verdict * bool := server12_certs_with verify_binds_scheme_to_key.

(* flight4Parse, between the certificate part and the wait for the Finished: the PSK callback *)
Definition server12_psk_gate (refuse bind : bool) (s : scfg) (v : cview) : verdict :=
  if cl_cke_msg v && is_accept (fst (server12_certs_with bind s v)) && is_psk (cl_suite v)
  then check (negb refuse || cl_psk_nonempty v) 80 (* internal_error *) else Accept.

Definition server12_all (refuse bind chk : bool) (s : scfg) (v : cview) : verdict :=
  andthen (server12_psk_gate refuse bind s v) (server12_gen bind chk s v).

Definition server12 : scfg -> cview -> verdict :=
  server12_all psk_refuses_empty_key verify_binds_scheme_to_key server12_checks_client_finished.

Definition server_accepts_client (s : scfg) (v : cview) : bool := is_accept (server12 s v).

(* proof of possession + (when the policy verifies) a valid chain *)
Definition cl_pop (v : cview) : bool :=
  cl_certs_given v && cl_cv_msg v && cl_scheme_allowed v && cl_cv_valid v.

(* what the property demands of an accepted client, per policy value *)
Definition server_required (s : scfg) (v : cview) : bool :=
  cl_fin_arrives v && (negb (sc_has_vc s) || cl_vc_ok v)
  && (* whatever certificate is presented must come with proof of possession *)
     (negb (cl_certs_given v) || cl_pop v)
  && (is_anon (cl_suite v) ||
      match sc_policy s with
      | NoClientCert | RequestClientCert => true
      | RequireAnyClientCert => cl_pop v
      | VerifyClientCertIfGiven => negb (cl_certs_given v) || (cl_pop v && cl_chain_valid v)
      | RequireAndVerifyClientCert => cl_pop v && cl_chain_valid v
      end)
  && (negb (cl_certs_given v) || negb (sc_has_vpc s) || cl_vpc_ok v).

(* [v] with another truth value for "the client's verify_data matches" *)
Definition cl_with_fin_valid (v : cview) (b : bool) : cview :=
  mk_cview (cl_suite v) (cl_cke_msg v) (cl_certs_given v) (cl_cert_parses v) (cl_cv_msg v) (cl_scheme_allowed v)
           (cl_cv_valid v) (cl_chain_valid v) (cl_vpc_ok v) (cl_vc_ok v) (cl_fin_arrives v) b
           (cl_cert_msg v) (cl_scheme_fits_key v) (cl_psk_nonempty v) (cl_peer_knows_psk v) (cl_signed_by_leaf v).

Definition server_credential (s : scfg) (v : cview) : bool :=
  server_required s v && (negb (cl_certs_given v) || (cl_scheme_fits_key v && cl_signed_by_leaf v))
  && (negb (is_psk (cl_suite v)) || cl_peer_knows_psk v).

Definition psk_sound_c (v : cview) : Prop :=
  cl_psk_nonempty v = true -> cl_fin_arrives v = true -> cl_peer_knows_psk v = true.

Definition sig_sound_c (v : cview) : Prop :=
  cl_scheme_fits_key v = true -> cl_cv_valid v = true -> cl_signed_by_leaf v = true.

(* ---------------------------------------------------------------- the server's session store

   THE SWITCH for defect F46 (refused client resumes, repaired in /repo by ff39c53): flight4Parse
   called SetSession(id, master secret) right after deriving the master secret - before the client's
   Finished was verified and before the ClientAuth switch.  [true] = the repaired code: the session
   is saved after the Finished check, the policy switch and VerifyConnection, i.e. exactly when the
   verdict is Accept. *)
Definition server12_stores_session_after_checks : bool := true.

Definition is_reject (v : verdict) : bool := match v with Reject _ => true | _ => false end.

(* does flight4Parse reach the point where the master secret exists? *)
Definition server12_has_master (bind : bool) (s : scfg) (v : cview) : bool :=
  cl_cke_msg v && is_accept (fst (server12_certs_with bind s v)).

(* SetSession is called (a session id exists only with a store, and a client Certificate message clears it) *)
Definition server12_session_stored (after bind chk : bool) (s : scfg) (has_store : bool) (v : cview) : bool :=
  has_store && negb (cl_cert_msg v) &&
  (if after then is_accept (server12_gen bind chk s v) else server12_has_master bind s v).

(* ... and is still there afterwards: conn.go notify deletes it when a fatal alert is sent *)
Definition server12_session_remains (after bind chk : bool) (s : scfg) (has_store : bool) (v : cview) : bool :=
  server12_session_stored after bind chk s has_store v && negb (is_reject (server12_gen bind chk s v)).

(* flight0Parse handleHelloResume -> Flight4b / flight4bParse: the abbreviated handshake looks at the
   store and at the client's Finished under the stored master secret - never at ClientAuth *)
Definition server12_resume (fin_arrives fin_valid : bool) : verdict :=
  if negb fin_arrives then Wait else check fin_valid a_handshake_failure.

(* two connections of one client to one server: [v1] the first (full) handshake; the second offers
   the session id of the first - abbreviated if the entry is there, else a full handshake [v2] *)
Definition server12_second_conn (after bind chk : bool) (s : scfg) (has_store : bool) (v1 v2 : cview)
           (rfin_arrives rfin_valid : bool) : verdict :=
  if server12_session_remains after bind chk s has_store v1
  then server12_resume rfin_arrives rfin_valid
  else server12_gen bind chk s v2.

Definition server12_second : scfg -> bool -> cview -> cview -> bool -> bool -> verdict :=
  server12_second_conn server12_stores_session_after_checks verify_binds_scheme_to_key server12_checks_client_finished.

(* ================================================================ DTLS 1.3 protected flight *)

(* THE SWITCH for suspected defect F6: processFinished accepts a SERVER flight that carries no
   Certificate/CertificateVerify at all.  [true] = behaviour of a fix that demands
   hasCertificateVerify for server flights. *)
Definition client13_requires_server_certificate : bool := false.

Record cfg13 := mk_cfg13 {
  k_skip_verify : bool;      (* client: InsecureSkipVerify *)
  k_policy : client_auth;    (* server: ClientAuth *)
  k_has_vpc : bool;
  k_has_vc : bool;
  k_name_is_ip : bool;       (* client: the configured ServerName is an IP address literal *)
  k_psk_only : bool          (* client: configured with a PSK only (no roots, no name, no certificate) *)
}.

(* a protected flight [EncryptedExtensions] [CertificateRequest] [Certificate] [CertificateVerify] Finished *)
Record pview := mk_pview {
  p_from_client : bool;      (* item.IsClient: the flight was sent by the client (we are the server) *)
  p_cert_msg : bool;         (* a Certificate message is in the flight *)
  p_certs_nonempty : bool;   (* ... with a non-empty certificate_list *)
  p_cert_parses : bool;
  p_cv_msg : bool;
  p_scheme_allowed : bool;
  p_cv_valid : bool;         (* signature over the TLS 1.3 CertificateVerify input of the transcript *)
  p_x509_ok : bool;          (* VerifyServerCert (roots, name, time) resp. VerifyClientCert *)
  p_vpc_ok : bool;
  p_vc_ok : bool;
  p_fin_valid : bool;        (* verify_data = HMAC(finished_key, transcript hash) *)
  p_pss_oid_ok : bool;       (* validateSignatureAlgOID: a claimed RSA-PSS scheme matches the certificate's key OID *)
  p_scheme_fits_key : bool;
  p_signed_by_leaf : bool;
  p_x509_sans_name : bool    (* the chain validates (roots, validity period) when the name is not looked at *)
}.

Definition p_has_certs (v : pview) : bool := p_cert_msg v && p_certs_nonempty v.

Definition flight13_certificate (v : pview) : verdict :=
  if p_cert_msg v && negb (p_certs_nonempty v) && negb (p_from_client v)
  then Reject a_bad_certificate        (* ErrInvalidCertificate: empty server certificate list *)
  else Accept.

(* verifyPeerIdentity *)
Definition flight13_identity (ipname : bool) (k : cfg13) (v : pview) : verdict :=
  andthen
    (if p_from_client v
     then check (negb (policy_verifies (k_policy k)) || p_x509_ok v) a_bad_certificate
     else check (k_skip_verify k || (if k_name_is_ip k && negb ipname then p_x509_sans_name v else p_x509_ok v))
                a_bad_certificate)
    (check (negb (k_has_vpc k) || p_vpc_ok v) a_bad_certificate).

Definition a_internal_error : N := 80.

Definition flight13_certificate_verify_all (ipname bind : bool) (k : cfg13) (v : pview) : verdict :=
  if negb (p_cv_msg v) then Accept else
  andthen (check (p_has_certs v) a_no_certificate)
 (andthen (check (p_scheme_allowed v) a_insufficient_security)
 (andthen (check (p_pss_oid_ok v) a_bad_certificate)                     (* ErrInvalidCertificateOID *)
 (andthen (check (negb bind || p_scheme_fits_key v) a_internal_error)    (* ErrInvalidSignatureAlgorithm: not mapped *)
 (andthen (check (p_cert_parses v && p_cv_valid v) a_bad_certificate)
          (flight13_identity ipname k v))))).

Definition flight13_finished_with (req_srv_cert : bool) (k : cfg13) (v : pview) : verdict :=
  andthen (check (negb (p_has_certs v) || p_cv_msg v) a_bad_certificate)        (* ErrClientCertificateNotVerified *)
 (andthen (check (negb (p_from_client v && policy_requires_cert (k_policy k)) || p_has_certs v)
                 a_certificate_required)
 (andthen (check (negb req_srv_cert || p_from_client v || p_cv_msg v) a_bad_certificate)
 (andthen (check (p_fin_valid v) a_handshake_failure)
          (check (negb (k_has_vc k) || p_vc_ok v) a_bad_certificate)))).

Definition flight13_all (ipname bind req_srv_cert : bool) (k : cfg13) (v : pview) : verdict :=
  andthen (flight13_certificate v)
 (andthen (flight13_certificate_verify_all ipname bind k v) (flight13_finished_with req_srv_cert k v)).

Definition flight13_gen : bool -> bool -> cfg13 -> pview -> verdict := flight13_all client_verifies_ip_literal_name.
Definition flight13_with : bool -> cfg13 -> pview -> verdict := flight13_gen verify_binds_scheme_to_key.
Definition flight13_certificate_verify_with : bool -> cfg13 -> pview -> verdict :=
  flight13_certificate_verify_all client_verifies_ip_literal_name.
Definition flight13_certificate_verify : cfg13 -> pview -> verdict :=
  flight13_certificate_verify_with verify_binds_scheme_to_key.

(* THE SWITCH for finding F57 (repaired in /repo): DTLS 1.3 has no PSK mode in this stack; a client
   configured with a PSK only but MaxVersion 1.3 used to authenticate a DTLS 1.3 server by its
   certificate against the SYSTEM roots, with no name to check, and never consulted the PSK callback.
   [true] = the repaired code: a PSK-only configuration never offers DTLS 1.3 (and, without a PSK
   cipher suite for DTLS 1.2, is refused when the connection is created). *)
Definition client13_refuses_psk_only : bool := true.

Definition client13_psk_gate (refuse : bool) (k : cfg13) (v : pview) : verdict :=
  check (negb refuse || p_from_client v || negb (k_psk_only k)) a_config_refused.

Definition flight13_top (refuse_psk_only ipname bind req : bool) (k : cfg13) (v : pview) : verdict :=
  andthen (client13_psk_gate refuse_psk_only k v) (flight13_all ipname bind req k v).

Definition flight13 : cfg13 -> pview -> verdict :=
  flight13_top client13_refuses_psk_only client_verifies_ip_literal_name verify_binds_scheme_to_key
               client13_requires_server_certificate.

(* proof of possession in a protected flight *)
Definition p_pop (v : pview) : bool :=
  p_has_certs v && p_cv_msg v && p_scheme_allowed v && p_cv_valid v.

Definition sig_sound_p (v : pview) : Prop :=
  p_scheme_fits_key v = true -> p_cv_valid v = true -> p_signed_by_leaf v = true.

(* server side of 1.3 (flight sent by the client) *)
Definition server13_required (k : cfg13) (v : pview) : bool :=
  p_fin_valid v && (negb (k_has_vc k) || p_vc_ok v)
  && (negb (p_has_certs v) || p_pop v)
  && match k_policy k with
     | NoClientCert | RequestClientCert => true
     | RequireAnyClientCert => p_pop v
     | VerifyClientCertIfGiven => negb (p_has_certs v) || (p_pop v && p_x509_ok v)
     | RequireAndVerifyClientCert => p_pop v && p_x509_ok v
     end
  && (negb (p_has_certs v) || negb (k_has_vpc k) || p_vpc_ok v).

(* client side of 1.3 (flight sent by the server): every DTLS 1.3 suite is a certificate suite *)
Definition client13_required (k : cfg13) (v : pview) : bool :=
  p_fin_valid v && (negb (k_has_vc k) || p_vc_ok v)
  && p_pop v && (k_skip_verify k || p_x509_ok v) && (negb (k_has_vpc k) || p_vpc_ok v).

Definition flight13_credential (k : cfg13) (v : pview) : bool :=
  (if p_from_client v then server13_required k v else client13_required k v)
  && (negb (p_has_certs v) || (p_scheme_fits_key v && p_signed_by_leaf v))
  (* a client that was given nothing but a pre-shared key requires the peer to know that key; a DTLS 1.3
     handshake of this stack never proves that *)
  && (p_from_client v || negb (k_psk_only k)).

(* ================================================================ DTLS 1.3: a flight that is not complete yet

   pullProtectedHandshakeFlight hands a protected flight to the checks above only once its Finished
   is there (the Finished rule is not optional); until then the flight parser returns "keep reading".
   Nothing else completes the handshake of the side that still waits for the peer's final flight - in
   particular not an ACK: a server whose Flight 4 has been acknowledged completely still has to
   receive and verify the client's Finished (and certificate, when the policy asks for one).

   THE SWITCH below is [false] in the code; [true] is the behaviour of seeded change C03d (fsm13.go
   transitionAfterACK: the server counts its Flight 4 as its last flight and finishes on a complete
   ACK), kept as a regression witness. *)
Definition server13_ack_of_own_flight_completes : bool := false.

Definition flight13_pending_with (ack_completes : bool) (fin_msg acked_all : bool) (k : cfg13) (v : pview) : verdict :=
  if fin_msg then flight13 k v
  else if ack_completes && acked_all && p_from_client v then Accept else Wait.

Definition flight13_pending : bool -> bool -> cfg13 -> pview -> verdict :=
  flight13_pending_with server13_ack_of_own_flight_completes.
