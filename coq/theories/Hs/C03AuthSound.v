(* C03 - theorems about the decision functions of Hs/C03Auth.v.  All statements quantify over
   EVERY view and configuration (no sampling): acceptance implies each check the property names,
   for each suite class and each ClientAuth value; the duals ("a peer lacking X is rejected")
   are corollaries.  Where the code as it stands violates the ideal statement the faithful model
   yields a [_refuted] theorem with the concrete witness (F6: DTLS 1.3 server flight without
   Certificate). *)
From Coq Require Import List Bool NArith Btauto.
From DtlsV Require Import Hs.C03Auth.
Import ListNotations.
Open Scope N_scope.

(* ---------------------------------------------------------------- generic lemmas *)

Lemma andthen_accept : forall a b, andthen a b = Accept <-> a = Accept /\ b = Accept.
Proof. intros [| |] b; simpl; intuition discriminate. Qed.

Lemma check_accept : forall ok al, check ok al = Accept <-> ok = true.
Proof. intros [|] al; simpl; intuition discriminate. Qed.

Lemma wait_unless_accept : forall (b : bool) (x : verdict), (if b then Wait else x) = Accept <-> b = false /\ x = Accept.
Proof. intros [|] x; intuition discriminate. Qed.

Lemma is_accept_true : forall v, is_accept v = true <-> v = Accept.
Proof. intros [| |]; simpl; intuition discriminate. Qed.

Ltac norm_accept :=
  repeat match goal with
  | H : andthen _ _ = Accept |- _ => apply andthen_accept in H; destruct H
  | H : check _ _ = Accept |- _ => apply check_accept in H
  | H : (if _ then Wait else _) = Accept |- _ => apply wait_unless_accept in H; destruct H
  end.

(* ================================================================ DTLS 1.2 client *)

Theorem client_accept_implies_checks_gen :
  forall bind c v, client12_gen true bind c v = Accept -> client_required c v = true.
Proof.
  intros bind [sk hvpc hvc pcb nip] [su cm cn cp ske sa sg ch nm tm ca vpc vc fa fv fk pne pkn bl].
  unfold client12_gen, client12_flight3, client12_init_gen, client12_fin, client12_vc, client_required, sv_x509_ok,
    sv_x509_code.
  cbn [cc_skip_verify cc_has_vpc cc_has_vc cc_psk_cb cc_name_is_ip sv_suite sv_cert_msg sv_certs_nonempty sv_cert_parses
       sv_ske_msg sv_scheme_allowed sv_sig_valid sv_chain_ok sv_name_ok sv_time_ok sv_certalgs_ok sv_vpc_ok
       sv_vc_ok sv_fin_arrives sv_fin_valid sv_scheme_fits_key sv_signed_by_leaf sv_psk_nonempty sv_peer_knows_psk].
  intros H. apply andthen_accept in H. destruct H as [H3 H]. apply andthen_accept in H. destruct H as [Hi Hf].
  apply wait_unless_accept in Hf. destruct Hf as [Hfa Hfv]. apply check_accept in Hfv.
  apply wait_unless_accept in H3. destruct H3 as [Hske H3].
  destruct su; cbn [is_cert] in *; norm_accept;
    destruct pcb, cm, ske, fa; cbn in *; try discriminate;
    repeat match goal with H : _ = true |- _ => rewrite H end; try reflexivity;
    destruct sk, hvpc, hvc, sa, cn, cp, sg, bind, fk; cbn in *; try discriminate;
    rewrite ?andb_false_r, ?orb_false_r in *;
    repeat match goal with H : _ = true |- _ => rewrite H end; reflexivity.
Qed.

(* the code as it stands (all switches) *)
Lemma client12_inv :
  forall c v, client12 c v = Accept ->
    client12_psk_gate psk_refuses_empty_key c v = Accept /\
    client12_gen client_verifies_ip_literal_name verify_binds_scheme_to_key c v = Accept.
Proof. intros c v H. unfold client12, client12_all in H. apply andthen_accept in H. exact H. Qed.

Theorem client_accept_implies_checks :
  forall c v, client12 c v = Accept -> client_required c v = true.
Proof.
  intros c v H. apply client12_inv in H. destruct H as [_ H]. revert H.
  destruct client_verifies_ip_literal_name eqn:E; [apply client_accept_implies_checks_gen | discriminate E].
Qed.

(* F45: with the repaired verification the claimed scheme fits the key; under unforgeability the
   signature then really is by the leaf key over this handshake *)
Theorem client_accept_binds_signature :
  forall c v, sig_sound_s v -> client12_gen true true c v = Accept -> sv_suite v = SCert ->
    sv_scheme_fits_key v = true /\ sv_signed_by_leaf v = true /\ client_credential c v = true.
Proof.
  intros c v Hsound Ha Hs.
  assert (Hr := client_accept_implies_checks_gen true c v Ha).
  unfold client12_gen in Ha. apply andthen_accept in Ha. destruct Ha as [_ Ha].
  apply andthen_accept in Ha. destruct Ha as [Ha _]. unfold client12_init_gen in Ha. rewrite Hs in Ha.
  apply andthen_accept in Ha. destruct Ha as [_ Ha]. apply andthen_accept in Ha. destruct Ha as [Ha _].
  apply check_accept in Ha. cbn [negb orb] in Ha.
  apply andb_true_iff in Ha. destruct Ha as [Ha Hsig]. apply andb_true_iff in Ha. destruct Ha as [_ Hfit].
  assert (Hl := Hsound Hfit Hsig).
  repeat split; auto. unfold client_credential. rewrite Hr, Hfit, Hl, Hs. reflexivity.
Qed.

(* ... whereas the code before the repair accepted a signature forged from the victim's public key
   alone: ECDSA leaf, claimed scheme Ed25519 (no digest), chain and name genuinely valid *)
Definition f45_ccfg : ccfg := mk_ccfg false false false false false.
Definition f45_sview : sview :=
  mk_sview SCert true true true true true (* scheme in the allowed list *) true (* the ECDSA routine accepts *)
           true true true true true true true true false (* scheme does not fit the key *) true true
           false (* not by the leaf key *).

Theorem client_scheme_confusion_refuted :
  exists c v, sig_sound_s v /\ cc_skip_verify c = false /\ sv_suite v = SCert /\
    client12_gen true false c v = Accept /\ sv_scheme_fits_key v = false /\ sv_signed_by_leaf v = false /\
    client_credential c v = false.
Proof.
  exists f45_ccfg, f45_sview. repeat split; try reflexivity. intros H. discriminate H.
Qed.

(* the named checks, one by one (certificate suites) *)
Corollary client_accept_cert_suite :
  forall c v, client12 c v = Accept -> sv_suite v = SCert ->
    sv_cert_msg v = true /\ sv_certs_nonempty v = true /\ sv_scheme_allowed v = true /\ sv_sig_valid v = true /\
    (cc_skip_verify c = false -> sv_chain_ok v = true /\ sv_name_ok v = true /\ sv_time_ok v = true) /\
    (cc_has_vpc c = true -> sv_vpc_ok v = true) /\ (cc_has_vc c = true -> sv_vc_ok v = true) /\
    sv_fin_arrives v = true /\ sv_fin_valid v = true.
Proof.
  intros c v Ha Hs. apply client_accept_implies_checks in Ha. unfold client_required, sv_x509_ok in Ha.
  rewrite Hs in Ha. cbn [is_cert] in Ha.
  destruct (sv_cert_msg v); cbn in Ha; try discriminate.
  destruct (sv_certs_nonempty v); cbn in Ha; try discriminate.
  destruct (sv_ske_msg v); cbn in Ha; try discriminate.
  destruct (sv_scheme_allowed v); cbn in Ha; try discriminate.
  destruct (sv_sig_valid v); cbn in Ha; try discriminate.
  destruct (cc_skip_verify c); cbn in Ha;
    (destruct (sv_chain_ok v); cbn in Ha; try discriminate);
    (destruct (sv_name_ok v); cbn in Ha; try discriminate);
    (destruct (sv_time_ok v); cbn in Ha; try discriminate);
    (destruct (sv_certalgs_ok v); cbn in Ha; try discriminate);
    (destruct (cc_has_vpc c); cbn in Ha; try discriminate);
    (destruct (sv_vpc_ok v); cbn in Ha; try discriminate);
    (destruct (cc_has_vc c); cbn in Ha; try discriminate);
    (destruct (sv_vc_ok v); cbn in Ha; try discriminate);
    (destruct (sv_fin_arrives v); cbn in Ha; try discriminate);
    (destruct (sv_fin_valid v); cbn in Ha; try discriminate);
    repeat split; auto; intros; discriminate.
Qed.

(* PSK suites: the only evidence is the server's Finished under the PSK-derived master secret
   (the link "Finished verifies => same PSK" is Hs/C04TranscriptSound.psk_binds) *)
Corollary client_accept_psk_suite :
  forall c v, client12 c v = Accept -> is_psk (sv_suite v) = true ->
    sv_fin_arrives v = true /\ sv_fin_valid v = true /\ (cc_has_vc c = true -> sv_vc_ok v = true).
Proof.
  intros c v Ha Hs. apply client_accept_implies_checks in Ha. unfold client_required in Ha.
  repeat (apply andb_true_iff in Ha; destruct Ha as [Ha ?]).
  repeat split; auto. intros Hk. rewrite Hk in *. cbn in *. auto.
Qed.

(* duals: a server lacking the credential is never accepted *)
Corollary client_rejects :
  forall c v, sv_suite v = SCert ->
    (sv_cert_msg v = false \/ sv_certs_nonempty v = false                     (* missing certificate *)
     \/ sv_sig_valid v = false                                                (* missing/forged signature, substituted chain *)
     \/ sv_scheme_allowed v = false                                           (* scheme outside the local list *)
     \/ (cc_skip_verify c = false /\
         (sv_chain_ok v = false \/ sv_name_ok v = false \/ sv_time_ok v = false))  (* wrong CA / name / expired *)
     \/ (cc_has_vpc c = true /\ sv_vpc_ok v = false)
     \/ (cc_has_vc c = true /\ sv_vc_ok v = false)) ->
    client_accepts_server c v = false.
Proof.
  intros c v Hs Hl. destruct (client_accepts_server c v) eqn:E; auto.
  apply is_accept_true in E. destruct (client_accept_cert_suite c v E Hs) as (A & B & C & D & F & G & I & _).
  destruct Hl as [Hl|[Hl|[Hl|[Hl|[[Hk Hl]|[[Hk Hl]|[Hk Hl]]]]]]]; try congruence.
  - destruct (F Hk) as (F1 & F2 & F3). destruct Hl as [Hl|[Hl|Hl]]; congruence.
  - specialize (G Hk). congruence.
  - specialize (I Hk). congruence.
Qed.

Corollary client_rejects_without_finished :
  forall c v, (sv_fin_arrives v = false \/ sv_fin_valid v = false) -> client_accepts_server c v = false.
Proof.
  intros c v Hl. destruct (client_accepts_server c v) eqn:E; auto.
  apply is_accept_true in E. apply client_accept_implies_checks in E. unfold client_required in E.
  repeat (apply andb_true_iff in E; destruct E as [E ?]). destruct Hl; congruence.
Qed.

(* ================================================================ DTLS 1.2 server *)

Theorem server_accept_implies_checks_gen :
  forall bind chk s v, server12_gen bind chk s v = Accept -> server_required s v = true.
Proof.
  intros bind chk [p hvpc hvc] [su cke cg cp cvm sa cvv chv vpc vc fa fv cmsg fk pne pkn bl].
  unfold server12_gen, server12_certs_with, server12_policy, server12_vc, server_required, cl_pop.
  cbn [sc_policy sc_has_vpc sc_has_vc cl_suite cl_cke_msg cl_certs_given cl_cert_parses cl_cv_msg
       cl_scheme_allowed cl_cv_valid cl_chain_valid cl_vpc_ok cl_vc_ok cl_fin_arrives cl_fin_valid
       cl_cert_msg cl_scheme_fits_key cl_signed_by_leaf cl_psk_nonempty cl_peer_knows_psk].
  intros H. apply wait_unless_accept in H. destruct H as [Hcke H].
  apply andthen_accept in H. destruct H as [Hc H].
  apply wait_unless_accept in H. destruct H as [Hfa H].
  apply andthen_accept in H. destruct H as [Hfv H].
  destruct fa; try discriminate.
  destruct cvm, cg; cbn in *; try discriminate;
    destruct sa; cbn in *; try discriminate;
    destruct cp; cbn in *; try discriminate;
    destruct bind, fk; cbn in *; try discriminate;
    destruct cvv; cbn in *; try discriminate;
    destruct su, p; cbn in *; norm_accept;
    destruct chv; cbn in *; try discriminate;
    destruct hvpc, vpc; cbn in *; try discriminate;
    destruct hvc, vc; cbn in *; try discriminate; reflexivity.
Qed.

Theorem server_accept_implies_checks_with :
  forall chk s v, server12_with chk s v = Accept -> server_required s v = true.
Proof. intros chk s v. apply server_accept_implies_checks_gen. Qed.

Lemma server12_inv :
  forall s v, server12 s v = Accept ->
    server12_psk_gate psk_refuses_empty_key verify_binds_scheme_to_key s v = Accept /\
    server12_with server12_checks_client_finished s v = Accept.
Proof. intros s v H. unfold server12, server12_all in H. apply andthen_accept in H. exact H. Qed.

Theorem server_accept_implies_checks :
  forall s v, server12 s v = Accept -> server_required s v = true.
Proof. intros s v H. apply server12_inv in H. destruct H as [_ H]. revert H. apply server_accept_implies_checks_with. Qed.

(* per ClientAuth value (suites that authenticate: the policy switch is skipped only for anonymous suites) *)
Corollary server_accept_policy :
  forall s v, server12 s v = Accept -> is_anon (cl_suite v) = false ->
    cl_fin_arrives v = true /\
    (cl_certs_given v = true -> cl_cv_msg v = true /\ cl_scheme_allowed v = true /\ cl_cv_valid v = true) /\
    match sc_policy s with
    | NoClientCert | RequestClientCert => True
    | RequireAnyClientCert => cl_certs_given v = true /\ cl_cv_msg v = true /\ cl_cv_valid v = true
    | VerifyClientCertIfGiven => cl_certs_given v = true -> cl_cv_valid v = true /\ cl_chain_valid v = true
    | RequireAndVerifyClientCert =>
        cl_certs_given v = true /\ cl_cv_msg v = true /\ cl_cv_valid v = true /\ cl_chain_valid v = true
    end.
Proof.
  intros s v Ha Hn. apply server_accept_implies_checks in Ha. unfold server_required, cl_pop in Ha.
  rewrite Hn in Ha. cbn [orb] in Ha.
  destruct (cl_fin_arrives v), (cl_certs_given v), (cl_cv_msg v), (cl_scheme_allowed v), (cl_cv_valid v),
    (cl_chain_valid v), (sc_policy s); cbn in Ha; try discriminate; repeat split; auto; intros; try discriminate.
Qed.

(* duals *)
Corollary server_rejects :
  forall s v, is_anon (cl_suite v) = false ->
    (* certificate without (valid) proof of possession: under every policy *)
    (cl_certs_given v = true /\ (cl_cv_msg v = false \/ cl_cv_valid v = false \/ cl_scheme_allowed v = false))
    (* missing certificate where one is required *)
    \/ (policy_requires_cert (sc_policy s) = true /\ cl_certs_given v = false)
    (* untrusted / expired chain where chains are verified *)
    \/ (policy_verifies (sc_policy s) = true /\ cl_certs_given v = true /\ cl_chain_valid v = false)
    (* no readable Finished (wrong PSK, wrong keys) *)
    \/ cl_fin_arrives v = false ->
    server_accepts_client s v = false.
Proof.
  intros s v Hn Hl. destruct (server_accepts_client s v) eqn:E; auto.
  apply is_accept_true in E. destruct (server_accept_policy s v E Hn) as (A & B & C).
  destruct Hl as [[Hg Hl]|[[Hp Hl]|[[Hp [Hg Hl]]|Hl]]]; try congruence.
  - destruct (B Hg) as (B1 & B2 & B3). destruct Hl as [Hl|[Hl|Hl]]; congruence.
  - destruct (sc_policy s); cbn in Hp; try discriminate; destruct C as (C1 & _); congruence.
  - destruct (sc_policy s); cbn in Hp; try discriminate.
    + destruct (C Hg); congruence.
    + destruct C as (_ & _ & _ & C4); congruence.
Qed.

(* as the code stands the server never looks at the client's verify_data in the full handshake:
   the verdict does not depend on it (F5; consequences for transcript integrity in Hs/C04TranscriptSound) *)
Theorem server12_ignores_client_verify_data :
  forall s v b, server12_with false s v = server12_with false s (cl_with_fin_valid v b).
Proof. intros s [su cke cg cp cvm sa cvv chv vpc vc fa fv cmsg fk pne pkn bl] b. reflexivity. Qed.

Theorem server12_fixed_checks_client_verify_data :
  forall s v, server12_with true s v = Accept -> cl_fin_valid v = true.
Proof.
  intros s v H. unfold server12_with in H.
  apply wait_unless_accept in H. destruct H as [_ H]. apply andthen_accept in H. destruct H as [_ H].
  apply wait_unless_accept in H. destruct H as [_ H]. apply andthen_accept in H. destruct H as [H _].
  apply check_accept in H. exact H.
Qed.

(* ================================================================ DTLS 1.2 server: F45 and F46 *)

Theorem server_accept_binds_signature :
  forall chk s v, sig_sound_c v -> server12_gen true chk s v = Accept -> cl_certs_given v = true ->
    is_psk (cl_suite v) = false ->
    cl_scheme_fits_key v = true /\ cl_signed_by_leaf v = true /\ server_credential s v = true.
Proof.
  intros chk s v Hsound Ha Hg Hnp.
  assert (Hr := server_accept_implies_checks_gen true chk s v Ha).
  unfold server12_gen in Ha. apply wait_unless_accept in Ha. destruct Ha as [_ Ha].
  apply andthen_accept in Ha. destruct Ha as [Ha _].
  unfold server12_certs_with in Ha. rewrite Hg in Ha. cbn [negb] in Ha.
  destruct (cl_cv_msg v); [|discriminate Ha].
  destruct (cl_scheme_allowed v); cbn in Ha; [|discriminate Ha].
  destruct (cl_cert_parses v); cbn in Ha; [|discriminate Ha].
  destruct (cl_scheme_fits_key v) eqn:Hfit; cbn in Ha; [|discriminate Ha].
  destruct (cl_cv_valid v) eqn:Hsig; cbn in Ha; [|discriminate Ha].
  assert (Hl := Hsound Hfit Hsig).
  repeat split; auto. unfold server_credential. rewrite Hr, Hfit, Hl, Hg, Hnp. reflexivity.
Qed.

Definition f45_scfg : scfg := mk_scfg RequireAndVerifyClientCert false false.
Definition f45_cview : cview :=
  mk_cview SCert true true true true true true (* the ECDSA routine accepts *) true true true true true
           true false (* scheme does not fit the key *) true true false (* not by the leaf key *).

Theorem server_scheme_confusion_refuted :
  exists s v, sig_sound_c v /\ sc_policy s = RequireAndVerifyClientCert /\ cl_chain_valid v = true /\
    (forall chk, server12_gen false chk s v = Accept) /\
    cl_scheme_fits_key v = false /\ cl_signed_by_leaf v = false /\ server_credential s v = false.
Proof.
  exists f45_scfg, f45_cview. repeat split; try reflexivity.
  - intros H. discriminate H.
  - intros [|]; reflexivity.
Qed.

(* F46, repaired: a session that can be resumed was stored by a handshake the server ACCEPTED, so
   the client met the policy there *)
Theorem resumable_session_was_accepted :
  forall bind chk s hs v, server12_session_remains true bind chk s hs v = true ->
    server12_gen bind chk s v = Accept /\ server_required s v = true.
Proof.
  intros bind chk s hs v H. unfold server12_session_remains, server12_session_stored in H.
  apply andb_true_iff in H. destruct H as [H _]. apply andb_true_iff in H. destruct H as [_ H].
  apply is_accept_true in H. split; auto. eapply server_accept_implies_checks_gen; eauto.
Qed.

(* hence a second connection is established only if the client met the policy in one of the two
   full handshakes it took part in *)
Theorem second_conn_accept_implies_checks :
  forall bind chk s hs v1 v2 ra rv,
    server12_second_conn true bind chk s hs v1 v2 ra rv = Accept ->
    server_required s v1 = true \/ server_required s v2 = true.
Proof.
  intros bind chk s hs v1 v2 ra rv H. unfold server12_second_conn in H.
  destruct (server12_session_remains true bind chk s hs v1) eqn:E.
  - left. eapply resumable_session_was_accepted; eauto.
  - right. eapply server_accept_implies_checks_gen; eauto.
Qed.

(* F46, before the repair: RequireAndVerifyClientCert, the client sends no Certificate message and
   stops after ClientKeyExchange (its Finished never arrives): the verdict is Wait, no alert deletes
   the entry, and the abbreviated handshake that follows is accepted *)
Definition f46_scfg : scfg := mk_scfg RequireAndVerifyClientCert false false.
Definition f46_view1 : cview :=
  mk_cview SCert true false (* no certificate *) false false false false false false false
           false (* Finished never arrives *) false false (* no Certificate message *) false true true false.

Theorem refused_client_resumes_refuted :
  exists s v1, sc_policy s = RequireAndVerifyClientCert /\ cl_certs_given v1 = false /\
    (forall bind chk, server12_gen bind chk s v1 = Wait) /\
    (forall bind chk v2, server12_second_conn false bind chk s true v1 v2 true true = Accept) /\
    server_required s v1 = false /\
    (* although no full handshake of a certificate-less client is ever accepted under this policy *)
    (forall bind chk v2, cl_certs_given v2 = false -> is_anon (cl_suite v2) = false ->
       server12_gen bind chk s v2 <> Accept).
Proof.
  exists f46_scfg, f46_view1.
  split; [reflexivity|]. split; [reflexivity|].
  split; [intros [|] [|]; reflexivity|].
  split; [intros [|] [|] v2; reflexivity|].
  split; [reflexivity|].
  intros bind chk v2 Hg Hn Ha. apply server_accept_implies_checks_gen in Ha.
  unfold server_required, cl_pop in Ha. cbn [f46_scfg sc_policy] in Ha. rewrite Hg, Hn in Ha.
  destruct (cl_fin_arrives v2), (negb (sc_has_vc f46_scfg) || cl_vc_ok v2); cbn in Ha; discriminate Ha.
Qed.

(* the statement that holds of the code as modelled, whichever way the F46 switch is set *)
Theorem second_conn_as_coded :
  if server12_stores_session_after_checks
  then forall s hs v1 v2 ra rv, server12_second s hs v1 v2 ra rv = Accept ->
         server_required s v1 = true \/ server_required s v2 = true
  else exists s v1, sc_policy s = RequireAndVerifyClientCert /\ cl_certs_given v1 = false /\
         server_required s v1 = false /\ forall v2, server12_second s true v1 v2 true true = Accept.
Proof.
  unfold server12_second. destruct server12_stores_session_after_checks.
  - intros s hs v1 v2 ra rv. apply second_conn_accept_implies_checks.
  - exists f46_scfg, f46_view1.
    split; [reflexivity|]. split; [reflexivity|]. split; [reflexivity|].
    intros v2. destruct verify_binds_scheme_to_key, server12_checks_client_finished; reflexivity.
Qed.

(* ================================================================ B: server-name forms (DTLS 1.2 client) *)

Definition ipname_ccfg : ccfg := mk_ccfg false false false false true (* ServerName is an IP literal *).
Definition ipname_sview : sview :=
  mk_sview SCert true true true true true true true false (* not valid for the configured IP *) true true true true
           true true true true true true.

Theorem client_ip_name_refuted :
  exists c v, cc_name_is_ip c = true /\ cc_skip_verify c = false /\ sv_suite v = SCert /\ sv_name_ok v = false /\
    (forall bind, client12_gen false bind c v = Accept) /\ client_required c v = false /\
    (forall bind, client12_gen true bind c v = Reject a_bad_certificate).
Proof.
  exists ipname_ccfg, ipname_sview.
  split; [reflexivity|]. split; [reflexivity|]. split; [reflexivity|]. split; [reflexivity|].
  split; [intros [|]; reflexivity|]. split; [reflexivity|]. intros [|]; reflexivity.
Qed.

Theorem server_name_as_coded :
  if client_verifies_ip_literal_name
  then forall c v, client12 c v = Accept -> sv_suite v = SCert -> cc_skip_verify c = false -> sv_name_ok v = true
  else exists c v, cc_name_is_ip c = true /\ cc_skip_verify c = false /\ sv_suite v = SCert /\
         client12 c v = Accept /\ sv_name_ok v = false.
Proof.
  unfold client12, client12_all. destruct client_verifies_ip_literal_name.
  - intros c v H Hs Hk. apply andthen_accept in H. destruct H as [_ H].
    apply client_accept_implies_checks_gen in H. unfold client_required, sv_x509_ok in H. rewrite Hs, Hk in H.
    cbn [is_cert orb] in H.
    destruct (sv_name_ok v); [reflexivity|]. rewrite ?andb_false_r in H. cbn in H. rewrite ?andb_false_r in H.
    cbn in H. discriminate H.
  - exists ipname_ccfg, ipname_sview. split; [reflexivity|]. split; [reflexivity|]. split; [reflexivity|].
    split; [destruct psk_refuses_empty_key, verify_binds_scheme_to_key; reflexivity|reflexivity].
Qed.

(* ================================================================ C: an empty pre-shared key *)

Theorem client_accept_psk_binds :
  forall bind c v, psk_sound_s v -> client12_all true true bind c v = Accept -> cc_psk_cb c = true ->
    sv_psk_nonempty v = true /\ sv_peer_knows_psk v = true.
Proof.
  intros bind c v Hsound H Hcb. unfold client12_all in H. apply andthen_accept in H. destruct H as [Hg H].
  assert (Hr := client_accept_implies_checks_gen bind c v H).
  unfold client12_gen in H. apply andthen_accept in H. destruct H as [H3 _].
  unfold client12_psk_gate in Hg. rewrite Hcb, H3 in Hg. cbn in Hg. apply check_accept in Hg.
  unfold client_required in Hr.
  repeat (apply andb_true_iff in Hr; destruct Hr as [Hr ?]).
  split; auto.
Qed.

Definition emptypsk_ccfg : ccfg := mk_ccfg false false false true (* PSK callback *) false.
Definition emptypsk_sview : sview :=
  mk_sview SPsk false false false true false false false false false false true true
           true true (* the Finished opens and verifies: both sides used the empty key *)
           false false (* the callback returned an empty key *) false (* the peer knows no key *) false.

Theorem client_empty_psk_refuted :
  exists c v, psk_sound_s v /\ cc_psk_cb c = true /\ is_psk (sv_suite v) = true /\
    (forall ipname bind, client12_all false ipname bind c v = Accept) /\
    sv_psk_nonempty v = false /\ sv_peer_knows_psk v = false /\ client_credential c v = false /\
    (forall ipname bind, client12_all true ipname bind c v = Reject 80).
Proof.
  exists emptypsk_ccfg, emptypsk_sview.
  split; [intros H; discriminate H|]. split; [reflexivity|]. split; [reflexivity|].
  split; [intros [|] [|]; reflexivity|]. split; [reflexivity|]. split; [reflexivity|]. split; [reflexivity|].
  intros [|] [|]; reflexivity.
Qed.

Theorem server_accept_psk_binds :
  forall bind chk s v, psk_sound_c v -> server12_all true bind chk s v = Accept -> is_psk (cl_suite v) = true ->
    cl_psk_nonempty v = true /\ cl_peer_knows_psk v = true.
Proof.
  intros bind chk s v Hsound H Hp. unfold server12_all in H. apply andthen_accept in H. destruct H as [Hg H].
  assert (Hr := server_accept_implies_checks_gen bind chk s v H).
  unfold server12_gen in H. apply wait_unless_accept in H. destruct H as [Hcke H].
  apply andthen_accept in H. destruct H as [Hc _].
  unfold server12_psk_gate in Hg. apply negb_false_iff in Hcke. rewrite Hcke, Hc, Hp in Hg. cbn in Hg.
  apply check_accept in Hg. unfold server_required in Hr.
  repeat (apply andb_true_iff in Hr; destruct Hr as [Hr ?]).
  split; auto.
Qed.

Definition emptypsk_scfg : scfg := mk_scfg NoClientCert false false.
Definition emptypsk_cview : cview :=
  mk_cview SPsk true false false false false false false true true true true false false
           false (* the lookup of the unknown identity returned an empty key *) false false.

Theorem server_empty_psk_refuted :
  exists s v, psk_sound_c v /\ is_psk (cl_suite v) = true /\
    (forall bind chk, server12_all false bind chk s v = Accept) /\
    cl_psk_nonempty v = false /\ cl_peer_knows_psk v = false /\ server_credential s v = false /\
    (forall bind chk, server12_all true bind chk s v = Reject 80).
Proof.
  exists emptypsk_scfg, emptypsk_cview.
  split; [intros H; discriminate H|]. split; [reflexivity|].
  split; [intros [|] [|]; reflexivity|]. split; [reflexivity|]. split; [reflexivity|]. split; [reflexivity|].
  intros [|] [|]; reflexivity.
Qed.

Theorem empty_psk_as_coded :
  if psk_refuses_empty_key
  then (forall c v, client12 c v = Accept -> cc_psk_cb c = true -> sv_psk_nonempty v = true) /\
       (forall s v, server12 s v = Accept -> is_psk (cl_suite v) = true -> cl_psk_nonempty v = true)
  else (exists c v, cc_psk_cb c = true /\ client12 c v = Accept /\ sv_psk_nonempty v = false /\ sv_peer_knows_psk v = false) /\
       (exists s v, is_psk (cl_suite v) = true /\ server12 s v = Accept /\ cl_psk_nonempty v = false /\
          cl_peer_knows_psk v = false).
Proof.
  unfold client12, client12_all, server12, server12_all. destruct psk_refuses_empty_key.
  - split.
    + intros c v H Hcb. apply andthen_accept in H. destruct H as [Hg H].
      unfold client12_gen in H. apply andthen_accept in H. destruct H as [H3 _].
      unfold client12_psk_gate in Hg. rewrite Hcb, H3 in Hg. cbn in Hg. apply check_accept in Hg. exact Hg.
    + intros s v H Hp. apply andthen_accept in H. destruct H as [Hg H].
      unfold server12_gen in H. apply wait_unless_accept in H. destruct H as [Hcke H].
      apply andthen_accept in H. destruct H as [Hc _].
      unfold server12_psk_gate in Hg. apply negb_false_iff in Hcke. rewrite Hcke, Hc, Hp in Hg. cbn in Hg.
      apply check_accept in Hg. exact Hg.
  - split.
    + exists emptypsk_ccfg, emptypsk_sview. split; [reflexivity|].
      split; [destruct client_verifies_ip_literal_name, verify_binds_scheme_to_key; reflexivity|].
      split; reflexivity.
    + exists emptypsk_scfg, emptypsk_cview. split; [reflexivity|].
      split; [destruct verify_binds_scheme_to_key, server12_checks_client_finished; reflexivity|].
      split; reflexivity.
Qed.

(* ================================================================ DTLS 1.3 *)

(* server side (flight sent by the client): sound for every policy, whatever the switches *)
Theorem server13_accept_implies_checks_all :
  forall ipname bind req k v, p_from_client v = true -> flight13_all ipname bind req k v = Accept ->
    server13_required k v = true.
Proof.
  intros ipname bind req [sk p hvpc hvc nip po] [fc cm cn cp cvm sa cvv x vpc vc fv oid fk bl xs] Hfc. cbn in Hfc. subst fc.
  unfold flight13_all, flight13_certificate, flight13_certificate_verify_all, flight13_identity,
    flight13_finished_with, server13_required, p_pop, p_has_certs.
  cbn [k_skip_verify k_policy k_has_vpc k_has_vc k_name_is_ip k_psk_only p_from_client p_cert_msg p_certs_nonempty
       p_cert_parses p_cv_msg p_scheme_allowed p_cv_valid p_x509_ok p_vpc_ok p_vc_ok p_fin_valid p_pss_oid_ok
       p_scheme_fits_key p_signed_by_leaf p_x509_sans_name].
  intros H. apply andthen_accept in H. destruct H as [_ H]. apply andthen_accept in H. destruct H as [Hcv Hf].
  destruct cvm, cm, cn; cbn in *; norm_accept; try discriminate;
    destruct fv; cbn in *; try discriminate;
    destruct p; cbn in *; try discriminate;
    repeat match goal with H : _ = true |- _ => rewrite H end; cbn;
    destruct sa, cp, cvv, x, hvpc, vpc, hvc, vc; cbn in *; try discriminate; reflexivity.
Qed.

Theorem server13_accept_implies_checks_gen :
  forall bind req k v, p_from_client v = true -> flight13_gen bind req k v = Accept -> server13_required k v = true.
Proof. intros bind req k v. apply server13_accept_implies_checks_all. Qed.

Theorem server13_accept_implies_checks :
  forall req k v, p_from_client v = true -> flight13_with req k v = Accept -> server13_required k v = true.
Proof. intros req k v. apply server13_accept_implies_checks_gen. Qed.

(* client side (flight sent by the server), with the F6 fix and the configured name verified: sound *)
Theorem client13_fixed_accept_implies_checks_all :
  forall bind k v, p_from_client v = false -> flight13_all true bind true k v = Accept -> client13_required k v = true.
Proof.
  intros bind [sk p hvpc hvc nip po] [fc cm cn cp cvm sa cvv x vpc vc fv oid fk bl xs] Hfc. cbn in Hfc. subst fc.
  unfold flight13_all, flight13_certificate, flight13_certificate_verify_all, flight13_identity,
    flight13_finished_with, client13_required, p_pop, p_has_certs.
  cbn [k_skip_verify k_policy k_has_vpc k_has_vc k_name_is_ip k_psk_only p_from_client p_cert_msg p_certs_nonempty
       p_cert_parses p_cv_msg p_scheme_allowed p_cv_valid p_x509_ok p_vpc_ok p_vc_ok p_fin_valid p_pss_oid_ok
       p_scheme_fits_key p_signed_by_leaf p_x509_sans_name].
  intros H. apply andthen_accept in H. destruct H as [Hc H]. apply andthen_accept in H. destruct H as [Hcv Hf].
  rewrite andb_false_r in *.
  destruct cvm, cm, cn; cbn in *; norm_accept; try discriminate;
    destruct fv; cbn in *; try discriminate;
    destruct sa, cp, cvv, sk, x, hvpc, vpc, hvc, vc; cbn in *; try discriminate; reflexivity.
Qed.

(* as coded (F6 not repaired): whenever the server flight does carry a Certificate, all checks are made ... *)
Theorem client13_accept_implies_checks_partial_all :
  forall bind k v, p_from_client v = false -> p_cert_msg v = true ->
    flight13_all true bind false k v = Accept -> client13_required k v = true.
Proof.
  intros bind [sk p hvpc hvc nip po] [fc cm cn cp cvm sa cvv x vpc vc fv oid fk bl xs] Hfc Hcm. cbn in Hfc, Hcm. subst fc cm.
  unfold flight13_all, flight13_certificate, flight13_certificate_verify_all, flight13_identity,
    flight13_finished_with, client13_required, p_pop, p_has_certs.
  cbn [k_skip_verify k_policy k_has_vpc k_has_vc k_name_is_ip k_psk_only p_from_client p_cert_msg p_certs_nonempty
       p_cert_parses p_cv_msg p_scheme_allowed p_cv_valid p_x509_ok p_vpc_ok p_vc_ok p_fin_valid p_pss_oid_ok
       p_scheme_fits_key p_signed_by_leaf p_x509_sans_name].
  intros H. apply andthen_accept in H. destruct H as [Hc H]. apply andthen_accept in H. destruct H as [Hcv Hf].
  rewrite andb_false_r in *.
  destruct cvm, cn; cbn in *; norm_accept; try discriminate;
    destruct fv; cbn in *; try discriminate;
    destruct sa, cp, cvv, sk, x, hvpc, vpc, hvc, vc; cbn in *; try discriminate; reflexivity.
Qed.

(* B in DTLS 1.3: before the repair an IP-literal name was not verified *)
Definition ipname_cfg13 : cfg13 := mk_cfg13 false NoClientCert false false true (* IP literal *) false.
Definition ipname_pview : pview :=
  mk_pview false true true true true true true false (* not valid for the configured IP *) true true true
           true true true true (* chain valid when the name is ignored *).

Theorem client13_ip_name_refuted :
  exists k v, p_from_client v = false /\ k_skip_verify k = false /\ k_name_is_ip k = true /\ p_x509_ok v = false /\
    (forall bind req, flight13_all false bind req k v = Accept) /\ client13_required k v = false /\
    (forall bind req, flight13_all true bind req k v = Reject a_bad_certificate).
Proof.
  exists ipname_cfg13, ipname_pview.
  split; [reflexivity|]. split; [reflexivity|]. split; [reflexivity|]. split; [reflexivity|].
  split; [intros [|] [|]; reflexivity|]. split; [reflexivity|]. intros [|] [|]; reflexivity.
Qed.

(* F45 in DTLS 1.3, either direction: repaired verification binds scheme and key *)
Theorem flight13_accept_binds_signature :
  forall ipname req k v, sig_sound_p v -> flight13_all ipname true req k v = Accept -> p_cv_msg v = true ->
    p_scheme_fits_key v = true /\ p_signed_by_leaf v = true.
Proof.
  intros ipname req k v Hsound Ha Hcv. unfold flight13_all in Ha.
  apply andthen_accept in Ha. destruct Ha as [_ Ha]. apply andthen_accept in Ha. destruct Ha as [Ha _].
  unfold flight13_certificate_verify_all in Ha. rewrite Hcv in Ha. cbn [negb] in Ha.
  norm_accept. cbn [negb orb] in *.
  match goal with H : p_cert_parses v && p_cv_valid v = true |- _ => apply andb_true_iff in H; destruct H as [_ Hsig] end.
  split; auto.
Qed.

Definition f45_cfg13 : cfg13 := mk_cfg13 false RequireAndVerifyClientCert false false false false.
Definition f45_pview (from_client : bool) : pview :=
  mk_pview from_client true true true true true true (* the ECDSA routine accepts *) true true true true
           true false (* scheme does not fit the key *) false (* not by the leaf key *) true.

Theorem flight13_scheme_confusion_refuted :
  forall from_client, exists k v, p_from_client v = from_client /\ sig_sound_p v /\ k_skip_verify k = false /\
    k_policy k = RequireAndVerifyClientCert /\ p_x509_ok v = true /\
    (forall ipname req, flight13_all ipname false req k v = Accept) /\
    p_scheme_fits_key v = false /\ p_signed_by_leaf v = false /\ flight13_credential k v = false.
Proof.
  intros fc. exists f45_cfg13, (f45_pview fc).
  split; [reflexivity|]. split; [intros H; discriminate H|]. split; [reflexivity|]. split; [reflexivity|].
  split; [reflexivity|]. split; [intros [|] [|]; destruct fc; reflexivity|].
  split; [reflexivity|]. split; [reflexivity|]. destruct fc; reflexivity.
Qed.

(* F6 (known finding): a server flight [EncryptedExtensions; Finished] with no Certificate and no
   CertificateVerify is accepted by a client that verifies chains (InsecureSkipVerify = false) *)
Definition f6_cfg : cfg13 := mk_cfg13 false NoClientCert false false false false.
Definition f6_view : pview :=
  mk_pview false (* from server *) false (* no Certificate *) false false false (* no CertificateVerify *)
           false false false false false true (* Finished verifies *) true false false false.

Theorem client13_unauthenticated_server_refuted :
  exists k v, p_from_client v = false /\ k_skip_verify k = false /\
    p_cert_msg v = false /\ p_cv_msg v = false /\
    (forall ipname bind, flight13_all ipname bind false k v = Accept) /\ client13_required k v = false.
Proof.
  exists f6_cfg, f6_view.
  split; [reflexivity|]. split; [reflexivity|]. split; [reflexivity|]. split; [reflexivity|].
  split; [intros [|] [|]; reflexivity|reflexivity].
Qed.

(* D = F57 (repaired in /repo by 85b75b7: a PSK-only configuration does not offer DTLS 1.3).  Regression
   witness for the code before it: a client that was given a PSK only is established by a DTLS 1.3
   server on its certificate alone (system roots, no name) - the PSK plays no part *)
Definition pskonly_cfg13 : cfg13 := mk_cfg13 false NoClientCert false false false true (* PSK-only client *).
Definition pskonly_pview : pview :=
  mk_pview false true true true true true true true (* chain valid under the system roots, no name to check *)
           true true true true true true true.

Theorem client13_psk_only_refuted :
  exists k v, p_from_client v = false /\ k_psk_only k = true /\ sig_sound_p v /\
    (forall ipname bind req, flight13_top false ipname bind req k v = Accept) /\
    flight13_credential k v = false /\
    (forall ipname bind req, flight13_top true ipname bind req k v = Reject a_config_refused).
Proof.
  exists pskonly_cfg13, pskonly_pview.
  split; [reflexivity|]. split; [reflexivity|]. split; [intros _ _; reflexivity|].
  split; [intros [|] [|] [|]; reflexivity|]. split; [reflexivity|]. intros [|] [|] [|]; reflexivity.
Qed.

Theorem flight13_top_refusing_psk_only :
  forall ipname bind req k v, flight13_top true ipname bind req k v = Accept ->
    p_from_client v = true \/ k_psk_only k = false.
Proof.
  intros ipname bind req k v H. unfold flight13_top in H. apply andthen_accept in H. destruct H as [H _].
  unfold client13_psk_gate in H. apply check_accept in H. cbn [negb orb] in H.
  destruct (p_from_client v); [left; reflexivity|]. destruct (k_psk_only k); [discriminate H|right; reflexivity].
Qed.

Lemma flight13_inv :
  forall k v, flight13 k v = Accept ->
    client13_psk_gate client13_refuses_psk_only k v = Accept /\
    flight13_all client_verifies_ip_literal_name verify_binds_scheme_to_key client13_requires_server_certificate k v = Accept.
Proof. intros k v H. unfold flight13, flight13_top in H. apply andthen_accept in H. exact H. Qed.

(* ================================================================ the code as it stands, per switch *)

Theorem scheme_binding_as_coded :
  if verify_binds_scheme_to_key
  then (forall c v, sig_sound_s v -> client12 c v = Accept -> sv_suite v = SCert ->
          sv_scheme_fits_key v = true /\ sv_signed_by_leaf v = true) /\
       (forall s v, sig_sound_c v -> server12 s v = Accept -> cl_certs_given v = true ->
          cl_scheme_fits_key v = true /\ cl_signed_by_leaf v = true) /\
       (forall k v, sig_sound_p v -> flight13 k v = Accept -> p_cv_msg v = true ->
          p_scheme_fits_key v = true /\ p_signed_by_leaf v = true)
  else (exists c v, sig_sound_s v /\ cc_skip_verify c = false /\ sv_suite v = SCert /\
          client12 c v = Accept /\ sv_signed_by_leaf v = false) /\
       (exists s v, sig_sound_c v /\ sc_policy s = RequireAndVerifyClientCert /\
          server12 s v = Accept /\ cl_signed_by_leaf v = false) /\
       (exists k v, sig_sound_p v /\ k_skip_verify k = false /\ flight13 k v = Accept /\ p_signed_by_leaf v = false).
Proof.
  unfold client12, client12_all, server12, server12_all, server12_with, flight13, flight13_top.
  destruct verify_binds_scheme_to_key.
  - split; [|split].
    + intros c v Hs H Hsu. apply andthen_accept in H. destruct H as [_ H].
      unfold client12_gen in H. apply andthen_accept in H. destruct H as [_ H].
      apply andthen_accept in H. destruct H as [H _]. unfold client12_init_gen in H. rewrite Hsu in H.
      apply andthen_accept in H. destruct H as [_ H]. apply andthen_accept in H. destruct H as [H _].
      apply check_accept in H. cbn [negb orb] in H.
      apply andb_true_iff in H. destruct H as [H Hsig]. apply andb_true_iff in H. destruct H as [_ Hfit]. auto.
    + intros s v Hs H Hg. apply andthen_accept in H. destruct H as [_ H].
      unfold server12_gen in H. apply wait_unless_accept in H. destruct H as [_ H].
      apply andthen_accept in H. destruct H as [H _]. unfold server12_certs_with in H. rewrite Hg in H. cbn [negb] in H.
      destruct (cl_cv_msg v); [|discriminate H].
      destruct (cl_scheme_allowed v); cbn in H; [|discriminate H].
      destruct (cl_cert_parses v); cbn in H; [|discriminate H].
      destruct (cl_scheme_fits_key v) eqn:Hfit; cbn in H; [|discriminate H].
      destruct (cl_cv_valid v) eqn:Hsig; cbn in H; [|discriminate H]. auto.
    + intros k v Hs H Hcv. apply andthen_accept in H. destruct H as [_ H].
      exact (flight13_accept_binds_signature _ _ k v Hs H Hcv).
  - split; [|split].
    + exists f45_ccfg, f45_sview.
      split; [intros H; discriminate H|]. split; [reflexivity|]. split; [reflexivity|].
      split; [destruct psk_refuses_empty_key, client_verifies_ip_literal_name; reflexivity|reflexivity].
    + exists f45_scfg, f45_cview.
      split; [intros H; discriminate H|]. split; [reflexivity|].
      split; [destruct psk_refuses_empty_key, server12_checks_client_finished; reflexivity|reflexivity].
    + exists f45_cfg13, (f45_pview false).
      split; [intros H; discriminate H|]. split; [reflexivity|].
      split; [destruct client13_refuses_psk_only, client_verifies_ip_literal_name, client13_requires_server_certificate;
              reflexivity|reflexivity].
Qed.

(* F6 *)
Theorem client13_as_coded :
  if client13_requires_server_certificate && client_verifies_ip_literal_name
  then forall k v, p_from_client v = false -> flight13 k v = Accept -> client13_required k v = true
  else exists k v, p_from_client v = false /\ k_skip_verify k = false /\
         flight13 k v = Accept /\ client13_required k v = false.
Proof.
  unfold flight13, flight13_top.
  destruct client13_requires_server_certificate, client_verifies_ip_literal_name; cbn [andb].
  - intros k v Hfc H. apply andthen_accept in H. destruct H as [_ H].
    exact (client13_fixed_accept_implies_checks_all _ k v Hfc H).
  - exists ipname_cfg13, ipname_pview. split; [reflexivity|]. split; [reflexivity|].
    split; [destruct client13_refuses_psk_only, verify_binds_scheme_to_key; reflexivity|reflexivity].
  - exists f6_cfg, f6_view. split; [reflexivity|]. split; [reflexivity|].
    split; [destruct client13_refuses_psk_only, verify_binds_scheme_to_key; reflexivity|reflexivity].
  - exists f6_cfg, f6_view. split; [reflexivity|]. split; [reflexivity|].
    split; [destruct client13_refuses_psk_only, verify_binds_scheme_to_key; reflexivity|reflexivity].
Qed.

(* D *)
Theorem psk_only_as_coded :
  if client13_refuses_psk_only
  then forall k v, flight13 k v = Accept -> p_from_client v = true \/ k_psk_only k = false
  else exists k v, p_from_client v = false /\ k_psk_only k = true /\ flight13 k v = Accept /\
         flight13_credential k v = false.
Proof.
  unfold flight13. destruct client13_refuses_psk_only.
  - intros k v. apply flight13_top_refusing_psk_only.
  - exists pskonly_cfg13, pskonly_pview. split; [reflexivity|]. split; [reflexivity|].
    split; [destruct client_verifies_ip_literal_name, verify_binds_scheme_to_key, client13_requires_server_certificate;
            reflexivity|reflexivity].
Qed.

(* ================================================================ DTLS 1.3: ACKs complete nothing *)

(* whatever the peer acknowledged: established only with its Finished in hand and every check made *)
Theorem pending_accept_needs_finished :
  forall fin acked k v, flight13_pending_with false fin acked k v = Accept ->
    fin = true /\ flight13 k v = Accept.
Proof.
  intros fin acked k v H. unfold flight13_pending_with in H. destruct fin; [auto|]. cbn in H. discriminate H.
Qed.

Theorem server13_pending_accept_implies_checks :
  forall fin acked k v, p_from_client v = true -> flight13_pending_with false fin acked k v = Accept ->
    fin = true /\ server13_required k v = true /\ p_fin_valid v = true.
Proof.
  intros fin acked k v Hfc H. apply pending_accept_needs_finished in H. destruct H as [Hf H].
  apply flight13_inv in H. destruct H as [_ H].
  assert (Hr := server13_accept_implies_checks_all _ _ _ k v Hfc H).
  repeat split; auto. unfold server13_required in Hr.
  repeat (apply andb_true_iff in Hr; destruct Hr as [Hr ?]). assumption.
Qed.

(* regression witness (seeded change C03d): a complete ACK of the server's flight, no client flight at all,
   RequireAndVerifyClientCert *)
Definition c03d_cfg13 : cfg13 := mk_cfg13 false RequireAndVerifyClientCert false false false false.
Definition c03d_pview : pview :=
  mk_pview true false false false false false false false false false false false false false false.

Theorem ack_completes_refuted :
  exists k v, k_policy k = RequireAndVerifyClientCert /\ p_from_client v = true /\ p_fin_valid v = false /\
    flight13_pending_with true false true k v = Accept /\ server13_required k v = false /\
    flight13_pending_with false false true k v = Wait.
Proof. exists c03d_cfg13, c03d_pview. repeat split. Qed.

Theorem pending_as_coded :
  if server13_ack_of_own_flight_completes
  then exists k v, k_policy k = RequireAndVerifyClientCert /\ p_from_client v = true /\
         flight13_pending false true k v = Accept /\ server13_required k v = false
  else forall fin acked k v, flight13_pending fin acked k v = Accept -> fin = true /\ flight13 k v = Accept.
Proof.
  unfold flight13_pending. destruct server13_ack_of_own_flight_completes.
  - exists c03d_cfg13, c03d_pview. repeat split.
  - exact pending_accept_needs_finished.
Qed.
