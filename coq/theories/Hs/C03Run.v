(* Executable comparison used by checks/c03.py: the verdict of the decision functions of
   Hs/C03Auth.v on the view that a scenario realises by construction, against the result class
   observed on the real implementation. *)
From Coq Require Import List Bool NArith.
From DtlsV Require Import Hs.C03Auth.
Import ListNotations.
Open Scope N_scope.

(* observed on the honest endpoint: HandshakeContext returned nil / failed locally having raised
   alert [a] / never returned *)
Inductive obs := OOk | ORej (a : N) | OHang.

Definition verdict_matches (v : verdict) (o : obs) : bool :=
  match v, o with
  | Accept, OOk => true
  | Reject a, ORej b => a =? b
  | Wait, OHang => true
  | _, _ => false
  end.

Inductive c03_case :=
| CClient12 (c : ccfg) (v : sview) (o : obs)
| CServer12 (s : scfg) (v : cview) (o : obs)
| CFlight13 (k : cfg13) (v : pview) (o : obs)
(* a DTLS 1.3 flight that may lack its Finished: fin_msg = the Finished arrived, acked_all = the peer
   acknowledged every record of our own flight *)
| CPending13 (fin_msg acked_all : bool) (k : cfg13) (v : pview) (o : obs)
(* two connections of one client: v1 = the first (full) handshake, v2 = the full handshake the second
   connection falls back to when the session is not there; o = what the server reports for the SECOND *)
| CSecond12 (s : scfg) (has_store : bool) (v1 v2 : cview) (rfin_arrives rfin_valid : bool) (o : obs).

Definition c03_ok (c : c03_case) : bool :=
  match c with
  | CClient12 c v o => verdict_matches (client12 c v) o
  | CServer12 s v o => verdict_matches (server12 s v) o
  | CFlight13 k v o => verdict_matches (flight13 k v) o
  | CPending13 fin acked k v o => verdict_matches (flight13_pending fin acked k v) o
  | CSecond12 s hs v1 v2 ra rv o => verdict_matches (server12_second s hs v1 v2 ra rv) o
  end.

(* the property's own predicate on the same view: does the peer hold what the policy requires? *)
Definition c03_required (c : c03_case) : bool :=
  match c with
  | CClient12 c v _ => client_credential c v
  | CServer12 s v _ => server_credential s v
  | CFlight13 k v _ => flight13_credential k v
  | CPending13 fin _ k v _ => fin && flight13_credential k v
  | CSecond12 s _ v1 v2 _ _ _ => server_credential s v1 || server_credential s v2
  end.

(* monitor inside Coq: established although the requirement is not met *)
Definition c03_violates (c : c03_case) : bool :=
  match c with
  | CClient12 _ _ OOk | CServer12 _ _ OOk | CFlight13 _ _ OOk | CPending13 _ _ _ _ OOk | CSecond12 _ _ _ _ _ _ OOk => negb (c03_required c)
  | _ => false
  end.

Fixpoint mismatches_from {A} (ok : A -> bool) (i : N) (l : list A) : list N :=
  match l with
  | [] => []
  | c :: l' => if ok c then mismatches_from ok (i + 1) l' else i :: mismatches_from ok (i + 1) l'
  end.
Definition mismatches {A} (ok : A -> bool) (l : list A) : list N := mismatches_from ok 0 l.

Definition c03_not_violating (c : c03_case) : bool := negb (c03_violates c).
