(* C03 over time: acceptance of a presented certificate chain as a function of
   (credential, policy in force, now) and of nothing else.  The endpoint is a state machine over
   successive handshakes whose state (everything it has seen) is threaded through but, as in the code
   (internal/handshakecrypto/crypto.go VerifyClientCert / VerifyServerCert call x509 Verify with
   CurrentTime = time.Now() on every handshake), never consulted.  A second machine, parameterised by a
   cache key, models an endpoint that remembers successful path validations.  Definitions only. *)
From Coq Require Import List Bool NArith.
From DtlsV Require Import Hs.C03Auth.
Import ListNotations.
Open Scope N_scope.

(* validity window NotBefore .. NotAfter (seconds) *)
Record twin := mk_twin { w_nb : N; w_na : N }.
Definition in_win (now : N) (w : twin) : bool := (w_nb w <=? now) && (now <=? w_na w).

(* what the peer presents: the certificate list (leaf first), the root that issued it, the name of the leaf *)
Record tcred := mk_tcred { tc_chain : list twin; tc_root : N; tc_root_win : twin; tc_name : N }.

(* the verifying side: a client (InsecureSkipVerify, ServerName) or a server (ClientAuth) *)
Inductive tside := TClient (skip : bool) (name : option N) | TServer (p : client_auth).

(* policy in force when the handshake runs: side, roots pool (identities), VerifyPeerCertificate answer *)
Record tpolicy := mk_tpolicy { tp_side : tside; tp_pool : list N; tp_vpc : option bool }.

Record treq := mk_treq { rq_cred : tcred; rq_pol : tpolicy; rq_now : N }.

Definition chain_valid_at (c : tcred) (pool : list N) (now : N) : bool :=
  forallb (in_win now) (tc_chain c) && in_win now (tc_root_win c) && existsb (N.eqb (tc_root c)) pool.

Definition name_valid (c : tcred) (s : tside) : bool :=
  match s with TClient _ (Some n) => n =? tc_name c | _ => true end.

(* does this side run path validation on a presented chain? *)
Definition verifies (s : tside) : bool :=
  match s with TClient skip _ => negb skip | TServer p => policy_verifies p end.

(* is the presented chain looked at at all (VerifyPeerCertificate runs)? *)
Definition looks (s : tside) : bool :=
  match s with TServer NoClientCert => false | _ => true end.

Definition x509_ok (r : treq) : bool :=
  chain_valid_at (rq_cred r) (tp_pool (rq_pol r)) (rq_now r) && name_valid (rq_cred r) (tp_side (rq_pol r)).

Definition vpc_ok (p : tpolicy) : bool :=
  match tp_vpc p with Some false => negb (looks (tp_side p)) | _ => true end.

Definition gate (s : tside) (x509 : bool) (vpc : bool) : bool := (negb (verifies s) || x509) && vpc.

(* THE acceptance function: credential, policy, now *)
Definition accept (r : treq) : bool := gate (tp_side (rq_pol r)) (x509_ok r) (vpc_ok (rq_pol r)).

(* the property's requirement on a handshake reported successful at rq_now *)
Definition required_ok (r : treq) : bool := negb (verifies (tp_side (rq_pol r))) || x509_ok r.

(* ---- the endpoint over successive handshakes: state = all earlier requests with their verdicts *)
Definition ep_state := list (treq * bool).
Definition ep_step (st : ep_state) (r : treq) : ep_state * bool := (st ++ [(r, accept r)], accept r).
Fixpoint ep_run (st : ep_state) (h : list treq) : ep_state :=
  match h with [] => st | r :: t => ep_run (fst (ep_step st r)) t end.
Definition accept_after (h : list treq) (r : treq) : bool := snd (ep_step (ep_run [] h) r).

(* ---- an endpoint that remembers successful path validations under a key *)
Section Cache.
  Context {K : Type}.
  Variable key : treq -> K.
  Variable keq : K -> K -> bool.

  Definition cx509 (st : list K) (r : treq) : bool := existsb (keq (key r)) st || x509_ok r.
  Definition cstep (st : list K) (r : treq) : list K * bool :=
    let s := tp_side (rq_pol r) in
    (if verifies s && cx509 st r then key r :: st else st, gate s (cx509 st r) (vpc_ok (rq_pol r))).
  Fixpoint crun (st : list K) (h : list treq) : list K :=
    match h with [] => st | r :: t => crun (fst (cstep st r)) t end.
  Definition caccept_after (h : list treq) (r : treq) : bool := snd (cstep (crun [] h) r).
End Cache.

(* the seeded shape: key = everything but the time *)
Definition at_time (r : treq) (now : N) : treq := mk_treq (rq_cred r) (rq_pol r) now.
(* ... or everything but the contents of the pool (a pool named by its pointer) *)
Definition with_pool (r : treq) (pool : list N) : treq :=
  mk_treq (rq_cred r) (mk_tpolicy (tp_side (rq_pol r)) pool (tp_vpc (rq_pol r))) (rq_now r).
