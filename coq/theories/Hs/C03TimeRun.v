(* Correspondence for the C03 time leg: a case is one sequence of handshakes of one process (same
   credential, same Config / pool objects) with the honest side's verdict observed at every step;
   the model's verdict is computed by the endpoint machine after the prefix already played. *)
From Coq Require Import List Bool NArith.
From DtlsV Require Import Hs.C03Auth Hs.C03Time.
Import ListNotations.
Open Scope N_scope.

Record tstep := mk_tstep { ts_req : treq; ts_obs : bool }.

Fixpoint tseq_ok_from (h : list treq) (l : list tstep) : bool :=
  match l with
  | [] => true
  | s :: t => Bool.eqb (accept_after h (ts_req s)) (ts_obs s) && tseq_ok_from (h ++ [ts_req s]) t
  end.
Definition c03t_ok (c : list tstep) : bool := tseq_ok_from [] c.

(* the property's own monitor: no step reported successful lacks what its policy requires at that instant *)
Definition c03t_not_violating (c : list tstep) : bool :=
  forallb (fun s => negb (ts_obs s) || required_ok (ts_req s)) c.
