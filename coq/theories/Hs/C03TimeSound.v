(* Proofs for Hs/C03Time.v *)
From Coq Require Import List Bool NArith Lia ZifyN ZifyBool.
From DtlsV Require Import Hs.C03Auth Hs.C03Time.
Import ListNotations.
Open Scope N_scope.

Lemma accept_after_eq : forall h r, accept_after h r = accept r.
Proof. intros h r. reflexivity. Qed.

Lemma acceptance_is_memoryless : forall h r, accept_after h r = accept_after [] r.
Proof. intros h r. reflexivity. Qed.

Lemma run_is_pointwise : forall h st, map snd (ep_run st h) = map snd st ++ map accept h.
Proof.
  induction h as [|r t IH]; intros st; cbn [ep_run map].
  - now rewrite app_nil_r.
  - rewrite IH. cbn [ep_step fst]. rewrite map_app. cbn [map snd]. now rewrite <- app_assoc.
Qed.

Lemma accept_required : forall h r, accept_after h r = true -> required_ok r = true.
Proof.
  intros h r H. rewrite accept_after_eq in H. unfold accept, gate in H. unfold required_ok.
  apply andb_true_iff in H. tauto.
Qed.

Lemma in_win_spec : forall now w, in_win now w = true <-> w_nb w <= now /\ now <= w_na w.
Proof. intros now w. unfold in_win. rewrite andb_true_iff, !N.leb_le. tauto. Qed.

Lemma accept_valid_now : forall h r, accept_after h r = true -> verifies (tp_side (rq_pol r)) = true ->
  (forall w, In w (tc_chain (rq_cred r)) -> w_nb w <= rq_now r /\ rq_now r <= w_na w) /\
  (w_nb (tc_root_win (rq_cred r)) <= rq_now r /\ rq_now r <= w_na (tc_root_win (rq_cred r))) /\
  In (tc_root (rq_cred r)) (tp_pool (rq_pol r)) /\
  name_valid (rq_cred r) (tp_side (rq_pol r)) = true.
Proof.
  intros h r H Hv. apply accept_required in H. unfold required_ok in H. rewrite Hv in H. cbn [negb orb] in H.
  unfold x509_ok, chain_valid_at in H. rewrite !andb_true_iff in H. destruct H as [[[Hc Hr] Hp] Hn].
  repeat split; try (apply in_win_spec in Hr; tauto); try assumption.
  - rewrite forallb_forall in Hc. apply in_win_spec. now apply Hc.
  - rewrite forallb_forall in Hc. apply in_win_spec. now apply Hc.
  - apply existsb_exists in Hp. destruct Hp as [x [Hin Hx]]. apply N.eqb_eq in Hx. now subst x.
Qed.

Lemma outside_window_refused : forall h r w, verifies (tp_side (rq_pol r)) = true ->
  In w (tc_root_win (rq_cred r) :: tc_chain (rq_cred r)) -> (rq_now r < w_nb w \/ w_na w < rq_now r) ->
  accept_after h r = false.
Proof.
  intros h r w Hv Hin Hout. destruct (accept_after h r) eqn:E; [|reflexivity]. exfalso.
  destruct (accept_valid_now h r E Hv) as [Hc [Hr _]]. destruct Hin as [<-|Hin].
  - lia.
  - specialize (Hc w Hin). lia.
Qed.

Lemma root_absent_refused : forall h r, verifies (tp_side (rq_pol r)) = true ->
  ~ In (tc_root (rq_cred r)) (tp_pool (rq_pol r)) -> accept_after h r = false.
Proof.
  intros h r Hv Hn. destruct (accept_after h r) eqn:E; [|reflexivity]. exfalso.
  destruct (accept_valid_now h r E Hv) as [_ [_ [Hp _]]]. now apply Hn.
Qed.

(* ---- caches *)
Section CacheSound.
  Context {K : Type}.
  Variable key : treq -> K.
  Variable keq : K -> K -> bool.

  Definition cinv (st : list K) : Prop := forall k, In k st -> exists a, k = key a /\ x509_ok a = true.

  Hypothesis key_decides : forall a b, keq (key a) (key b) = true -> x509_ok a = x509_ok b.

  Lemma cx509_faithful : forall st r, cinv st -> cx509 key keq st r = x509_ok r.
  Proof.
    intros st r Hi. unfold cx509. destruct (existsb (keq (key r)) st) eqn:E; [|reflexivity].
    apply existsb_exists in E. destruct E as [k [Hin Hk]]. destruct (Hi k Hin) as [a [-> Ha]].
    cbn [orb]. now rewrite (key_decides r a Hk).
  Qed.

  Lemma cstep_inv : forall st r, cinv st -> cinv (fst (cstep key keq st r)).
  Proof.
    intros st r Hi. unfold cstep. cbn [fst]. rewrite (cx509_faithful st r Hi).
    destruct (verifies (tp_side (rq_pol r)) && x509_ok r) eqn:E; [|exact Hi].
    apply andb_true_iff in E. intros k [<-|Hin]; [exists r; tauto | now apply Hi].
  Qed.

  Lemma crun_inv : forall h st, cinv st -> cinv (crun key keq st h).
  Proof. induction h as [|r t IH]; intros st Hi; cbn [crun]; [exact Hi|]. apply IH. now apply cstep_inv. Qed.

  Lemma cache_faithful : forall h r, caccept_after key keq h r = accept r.
  Proof.
    intros h r. unfold caccept_after, cstep. cbn [snd].
    rewrite cx509_faithful; [reflexivity|]. apply crun_inv. intros k [].
  Qed.
End CacheSound.

(* witnesses *)
Definition wit_cred : tcred := mk_tcred [mk_twin 10 20] 1 (mk_twin 0 100) 7.
Definition wit_pol : tpolicy := mk_tpolicy (TServer RequireAndVerifyClientCert) [1] None.
Definition wit_valid : treq := mk_treq wit_cred wit_pol 15.
Definition wit_expired : treq := mk_treq wit_cred wit_pol 25.
Definition wit_nopool : treq := with_pool wit_valid [].

Lemma cache_without_time_refuted : forall (K : Type) (key : treq -> K) (keq : K -> K -> bool),
  (forall k, keq k k = true) -> (forall r now, key (at_time r now) = key r) ->
  exists h r, caccept_after key keq h r = true /\ accept r = false /\ accept_after h r = false /\
              verifies (tp_side (rq_pol r)) = true /\ x509_ok r = false /\
              (exists w, In w (tc_chain (rq_cred r)) /\ w_na w < rq_now r).
Proof.
  intros K key keq Hrefl Hk. exists [wit_valid], wit_expired.
  assert (E : key wit_expired = key wit_valid) by exact (Hk wit_valid 25).
  repeat split; try reflexivity.
  - unfold caccept_after. cbn [crun]. unfold cstep at 2. cbn [fst].
    replace (verifies (tp_side (rq_pol wit_valid)) && cx509 key keq [] wit_valid) with true by reflexivity.
    unfold cstep, cx509. cbn [snd existsb]. rewrite E, Hrefl. reflexivity.
  - exists (mk_twin 10 20). split; [now left | reflexivity].
Qed.

Lemma cache_without_pool_refuted : forall (K : Type) (key : treq -> K) (keq : K -> K -> bool),
  (forall k, keq k k = true) -> (forall r pool, key (with_pool r pool) = key r) ->
  exists h r, caccept_after key keq h r = true /\ accept r = false /\ accept_after h r = false /\
              verifies (tp_side (rq_pol r)) = true /\ ~ In (tc_root (rq_cred r)) (tp_pool (rq_pol r)).
Proof.
  intros K key keq Hrefl Hk. exists [wit_valid], wit_nopool.
  assert (E : key wit_nopool = key wit_valid) by exact (Hk wit_valid []).
  repeat split; try reflexivity.
  - unfold caccept_after. cbn [crun]. unfold cstep at 2. cbn [fst].
    replace (verifies (tp_side (rq_pol wit_valid)) && cx509 key keq [] wit_valid) with true by reflexivity.
    unfold cstep, cx509. cbn [snd existsb]. rewrite E, Hrefl. reflexivity.
  - intros [].
Qed.
