(* Executable prediction used by checks/c04.py: which endpoint reports a successful handshake when
   an on-path rewriter has altered one handshake message.  The effect of a rewrite on the two views
   (classified by checks/c04.py from WHAT was rewritten) instantiates the symbolic run of
   Hs/C04Transcript.v on the free term algebra; the outcome is computed by that model, with the
   server's behaviour towards the client's verify_data taken from the single switch
   Hs/C03Auth.server12_checks_client_finished. *)
From Coq Require Import List Bool NArith.
From DtlsV Require Import Hs.C03Auth Hs.C04Transcript.
Import ListNotations.
Open Scope N_scope.

(* effect of the rewrite on the two endpoints' views *)
Inductive effect :=
| ENone         (* the message is outside the Finished transcript (HelloVerifyRequest, first ClientHello) and the
                   altered field has no other meaning to the receiver *)
| ETranscript   (* sender and receiver hold different bytes of a transcript message; key material unaffected *)
| EKeys         (* in addition the key material disagrees: a random, a key share, the suite, the EMS belief of one side *)
| ELocal.       (* a check local to the receiver rejects (or waits for ever) before any Finished is produced *)

Record c04_case := mk_c04 {
  k_resumed : bool;        (* the handshake that actually runs is an abbreviated one *)
  k_ems_c : bool;          (* client believes extended master secret was negotiated *)
  k_ems_s : bool;          (* server believes so *)
  k_cv : bool;             (* client authentication: a CertificateVerify is sent *)
  k_tls13 : bool;          (* DTLS 1.3: every hello byte feeds the transcript hash that seeds the traffic secrets *)
  k_effect : effect;
  k_client_deaf : bool;    (* the rewrite makes the server address the client with a connection ID it does not own *)
  k_obs_client_ok : bool;  (* observed: client HandshakeContext returned nil *)
  k_obs_server_ok : bool;
  k_obs_params_equal : bool (* observed: every negotiated parameter reported by a side that succeeded (cipher suite, ALPN,
                               SRTP profile, extended master secret, key-exchange group) equals the untampered run's *)
}.

Definition base_view (ems cv : bool) : view sterm :=
  mk_view [SAtom 1; SAtom 2; SAtom 3; SAtom 4] (if cv then [SAtom 5] else [])
          (SAtom 10) (SAtom 11) (SSecret 1) ems cv.

Definition with_transcript (v : view sterm) : view sterm :=
  mk_view (SAtom 100 :: tl (v_tr_cke v)) (v_tr_cv v) (v_cr v) (v_sr v) (v_pms v) (v_ems v) (v_cv v).

Definition with_keys (v : view sterm) : view sterm :=
  mk_view (v_tr_cke v) (v_tr_cv v) (v_cr v) (SAtom 99) (v_pms v) (v_ems v) (v_cv v).

(* (client reports success, server reports success) *)
Definition predict_with (chk : bool) (k : c04_case) : bool * bool :=
  match k_effect k with
  | ELocal => (false, false)
  | e =>
      let ems_c := k_ems_c k || k_tls13 k in
      let ems_s := k_ems_s k || k_tls13 k in
      let c := base_view ems_c (k_cv k) in
      let s0 := base_view ems_s (k_cv k) in
      let s := match e with
               | ENone => s0
               | ETranscript => with_transcript s0
               | _ => with_keys (with_transcript s0)
               end in
      if k_resumed k
      then (s_client_res_ok c s && negb (k_client_deaf k), s_server_res_ok c s && negb (k_client_deaf k))
      else (s_client_full_ok chk c s && negb (k_client_deaf k), s_server_full_ok chk c s)
  end.

Definition predict : c04_case -> bool * bool := predict_with server12_checks_client_finished.

(* a rewrite outside the transcript (first ClientHello, HelloVerifyRequest) cannot be detected by protocol
   design: what must hold instead is that it steers nothing - the server negotiates from the second
   ClientHello (Hs/C04TranscriptSound.negotiation_input_bound) *)
Definition predicts_untouched_params (k : c04_case) : bool :=
  match k_effect k with
  | ENone => server12_negotiates_from_second_hello && server12_resets_inside_negotiation
  | _ => false
  end.

Definition c04_ok (k : c04_case) : bool :=
  let '(pc, ps) := predict k in
  Bool.eqb pc (k_obs_client_ok k) && Bool.eqb ps (k_obs_server_ok k)
  && (negb (predicts_untouched_params k) || k_obs_params_equal k).

(* the property's own predicate on an observed case: a message of the transcript was altered, yet an
   endpoint that sent or received it reports success *)
Definition c04_violates (k : c04_case) : bool :=
  match k_effect k with
  | ENone => (k_obs_client_ok k || k_obs_server_ok k) && negb (k_obs_params_equal k)
  | _ => k_obs_client_ok k || k_obs_server_ok k
  end.
Definition c04_not_violating (k : c04_case) : bool := negb (c04_violates k).

Fixpoint mismatches_from {A} (ok : A -> bool) (i : N) (l : list A) : list N :=
  match l with
  | [] => []
  | c :: l' => if ok c then mismatches_from ok (i + 1) l' else i :: mismatches_from ok (i + 1) l'
  end.
Definition mismatches {A} (ok : A -> bool) (l : list A) : list N := mismatches_from ok 0 l.

(* sanity: the predictions the theorems of C04TranscriptSound speak about *)
Example predict_f5 :
  predict_with false (mk_c04 false false false false false ETranscript false false false true) = (false, true).
Proof. vm_compute. reflexivity. Qed.
Example predict_f5_fixed :
  predict_with true (mk_c04 false false false false false ETranscript false false false true) = (false, false).
Proof. vm_compute. reflexivity. Qed.
Example predict_ems :
  predict_with false (mk_c04 false true true false false ETranscript false false false true) = (false, false).
Proof. vm_compute. reflexivity. Qed.
Example predict_client_auth :
  predict_with false (mk_c04 false false false true false ETranscript false false false true) = (false, false).
Proof. vm_compute. reflexivity. Qed.
Example predict_untouched :
  predict_with false (mk_c04 false true true true false ENone false false false true) = (true, true).
Proof. vm_compute. reflexivity. Qed.
Example predict_resumed :
  predict_with false (mk_c04 true false false false false ETranscript false false false true) = (false, false).
Proof. vm_compute. reflexivity. Qed.
