(* C04 - Transcript integrity: symbolic model of what the DTLS 1.2 key schedule and the Finished
   messages bind, as pion/dtls computes them.  Definitions only; proofs in Hs/C04TranscriptSound.v.

   Code modelled:
     pkg/crypto/prf/prf.go        MasterSecret = PRF(pms, "master secret", cr||sr)
                                  ExtendedMasterSecret = PRF(pms, "extended master secret", session_hash)
                                  key block = PRF(ms, "key expansion", sr||cr)
                                  VerifyDataClient/Server = PRF(ms, "client|server finished", H(transcript))
     internal/flight/cache.go     SessionHash = H(ClientHello .. ClientKeyExchange), PullAndMerge
     flight12/flight5handler.go   client: Finished over (.. ClientKeyExchange [CertificateVerify]); checks the
                                  server's Finished over (.. [CertificateVerify] client Finished)   (flight5Parse)
     flight12/flight4handler.go   server, FULL handshake: CertificateVerify checked over (.. ClientKeyExchange);
                                  the client's Finished is pulled (so its record must open) but its
                                  verify_data is NOT compared                                        (flight4Parse)
     flight12/flight4bhandler.go, flight3handler.go handleResumption: resumption, both sides compare.

   Hash, PRF, pairing and the Finished-message framing are uninterpreted symbols of a Section; the
   theorems assume them injective (explicit premises).  Each endpoint has its own VIEW of the
   handshake: an on-path rewriter makes the two views differ. *)
From Coq Require Import List Bool NArith.
Import ListNotations.
Open Scope N_scope.

Definition L_ms : N := 1.      (* "master secret" *)
Definition L_ems : N := 2.     (* "extended master secret" *)
Definition L_ke : N := 3.      (* "key expansion" *)
Definition L_cfin : N := 4.    (* "client finished" *)
Definition L_sfin : N := 5.    (* "server finished" *)

Section Transcript.
  Variable term : Type.
  Variable PRF : term -> N -> term -> term.       (* secret, label, seed *)
  Variable pair : term -> term -> term.           (* concatenation of two fixed-length values *)
  Variable Hh : list term -> term.                (* hash of the concatenated handshake messages *)
  Variable fin_msg : term -> term.                (* the Finished handshake message carrying verify_data *)
  Variable eqb : term -> term -> bool.

  (* what one endpoint believes about the handshake *)
  Record view := mk_view {
    v_tr_cke : list term;   (* messages ClientHello .. ClientKeyExchange as sent / received by this endpoint
                               (resumption: ClientHello, ServerHello) *)
    v_tr_cv : list term;    (* [CertificateVerify] or [] *)
    v_cr : term;            (* client random *)
    v_sr : term;            (* server random *)
    v_pms : term;           (* pre-master secret (resumption: the stored master secret) *)
    v_ems : bool;           (* state.ExtendedMasterSecret *)
    v_cv : bool             (* client authentication in use: a CertificateVerify is sent / expected *)
  }.

  Definition master (v : view) : term :=
    if v_ems v then PRF (v_pms v) L_ems (Hh (v_tr_cke v))
    else PRF (v_pms v) L_ms (pair (v_cr v) (v_sr v)).

  Definition keys_of (ms : term) (v : view) : term := PRF ms L_ke (pair (v_sr v) (v_cr v)).
  Definition keys (v : view) : term := keys_of (master v) v.

  Definition tr_fin (v : view) : list term := v_tr_cke v ++ v_tr_cv v.

  Definition verify_client (v : view) : term := PRF (master v) L_cfin (Hh (tr_fin v)).
  Definition verify_server (v : view) (cfin : term) : term :=
    PRF (master v) L_sfin (Hh (tr_fin v ++ [fin_msg cfin])).

  (* ---- full handshake.  c = the client's view, s = the server's view.
     [chk] = the server compares the client's verify_data (false in the code as it stands). *)
  Definition server_full_ok (chk : bool) (c s : view) : bool :=
    eqb (keys c) (keys s)                                               (* the client's Finished record opens *)
    && (negb (v_cv c) || eqb (Hh (v_tr_cke c)) (Hh (v_tr_cke s)))       (* CertificateVerify over .. ClientKeyExchange *)
    && (negb chk || eqb (verify_client c) (verify_client s)).

  (* the client completes only on the server's Finished, which the server sends only after completing *)
  Definition client_full_ok (chk : bool) (c s : view) : bool :=
    server_full_ok chk c s
    && eqb (verify_server s (verify_client c)) (verify_server c (verify_client c)).

  (* ---- resumption: v_pms is the stored master secret, v_tr_cke = [ClientHello; ServerHello];
     the server's Finished comes first *)
  Definition res_keys (v : view) : term := keys_of (v_pms v) v.
  Definition res_server_fin (v : view) : term := PRF (v_pms v) L_sfin (Hh (v_tr_cke v)).
  Definition res_client_fin (v : view) (sfin : term) : term :=
    PRF (v_pms v) L_cfin (Hh (v_tr_cke v ++ [fin_msg sfin])).

  Definition client_res_ok (c s : view) : bool :=
    eqb (res_keys c) (res_keys s) && eqb (res_server_fin s) (res_server_fin c).
  Definition server_res_ok (c s : view) : bool :=
    client_res_ok c s
    && eqb (res_client_fin c (res_server_fin s)) (res_client_fin s (res_server_fin s)).

  (* ---- which ClientHello the server NEGOTIATES from.  With hello verification there are two: the first,
     cookie-less one is in no transcript (RFC 6347 4.2.1); the second is the head of [v_tr_cke]. *)
  Definition server_neg_input (from_second : bool) (ch1_received : term) (s : view) : term :=
    if from_second then hd ch1_received (v_tr_cke s) else ch1_received.
End Transcript.

(* THE SWITCH for defect A (repaired in /repo by 6f00c2b): flight0Parse took every extension-driven
   decision (extended master secret, key-exchange group, server name, ALPN offer, signature_algorithms_cert)
   from the FIRST ClientHello; ValidateHelloVerifyRequestResponse pins only the fields before the
   extensions plus connection_id / use_srtp.  [true] = flight2Parse negotiates again from the second
   ClientHello, the one the Finished messages cover. *)
Definition server12_negotiates_from_second_hello : bool := true.

Arguments mk_view {term}.
Arguments v_tr_cke {term}.
Arguments v_tr_cv {term}.
Arguments v_cr {term}.
Arguments v_sr {term}.
Arguments v_pms {term}.
Arguments v_ems {term}.
Arguments v_cv {term}.

(* ================================================================ a concrete free term algebra *)

Inductive sterm :=
| SAtom (n : N)                        (* public values: message bodies, randoms *)
| SSecret (n : N)                      (* pre-shared keys, Diffie-Hellman results *)
| SPrf (a : sterm) (l : N) (s : sterm)
| SPair (a b : sterm)
| SNil | SCons (a l : sterm)           (* encoding of a list of messages *)
| SHash (t : sterm)
| SFin (t : sterm).

Fixpoint sterm_eqb (a b : sterm) : bool :=
  match a, b with
  | SAtom x, SAtom y => x =? y
  | SSecret x, SSecret y => x =? y
  | SPrf a1 l1 s1, SPrf a2 l2 s2 => sterm_eqb a1 a2 && (l1 =? l2) && sterm_eqb s1 s2
  | SPair a1 b1, SPair a2 b2 => sterm_eqb a1 a2 && sterm_eqb b1 b2
  | SNil, SNil => true
  | SCons a1 l1, SCons a2 l2 => sterm_eqb a1 a2 && sterm_eqb l1 l2
  | SHash t1, SHash t2 => sterm_eqb t1 t2
  | SFin t1, SFin t2 => sterm_eqb t1 t2
  | _, _ => false
  end.

Fixpoint sencode (l : list sterm) : sterm :=
  match l with [] => SNil | a :: l' => SCons a (sencode l') end.

Definition shash (l : list sterm) : sterm := SHash (sencode l).

Definition s_server_full_ok := server_full_ok sterm SPrf SPair shash sterm_eqb.
Definition s_client_full_ok := client_full_ok sterm SPrf SPair shash SFin sterm_eqb.
Definition s_client_res_ok := client_res_ok sterm SPrf SPair shash sterm_eqb.
Definition s_server_res_ok := server_res_ok sterm SPrf SPair shash SFin sterm_eqb.

(* ---- the witness for F5: a ClientHello rewritten in transit (say, cipher-suite order swapped or
   an extension stripped), no extended master secret, no client authentication *)
Definition f5_client_view : view sterm :=
  mk_view [SAtom 100 (* ClientHello as sent *); SAtom 2 (* ServerHello *); SAtom 3 (* .. ServerHelloDone *);
           SAtom 4 (* ClientKeyExchange *)] [] (SAtom 10) (SAtom 11) (SSecret 1) false false.
Definition f5_server_view : view sterm :=
  mk_view [SAtom 101 (* ClientHello as received *); SAtom 2; SAtom 3; SAtom 4] [] (SAtom 10) (SAtom 11) (SSecret 1)
          false false.

(* ================================================================ the server's extension-driven negotiation state

   internal/flight/flight12/flight0handler.go negotiateClientHelloExtensions: what a ClientHello negotiates
   through its extensions.  With hello verification it runs on the first, cookie-less ClientHello
   (flight0Parse, to decide how to answer) and again on the second (flight2Parse).  It first puts the
   extension-driven fields back to this side's defaults and then applies the extension loop, so that
   nothing only the first ClientHello carried can survive into the handshake the Finished messages cover. *)

Inductive hello_ext :=
| XEms                          (* extended_master_secret *)
| XSni (name : N)               (* server_name *)
| XAlpn (protocols : list N)    (* application_layer_protocol_negotiation *)
| XSigCert (schemes : list N)   (* signature_algorithms_cert *)
| XGroups (curve : N)           (* supported_groups: the curve selectEllipticCurve picks from it *)
| XOther (typ : N).             (* extensions that do not touch this state *)

Record neg_state := mk_neg {
  n_ems : bool;                 (* state.ExtendedMasterSecret *)
  n_sni : option N;             (* state.ServerName: what GetCertificate is asked for *)
  n_alpn : list N;              (* state.PeerSupportedProtocols *)
  n_sigcert : list N;           (* state.RemoteCertSignatureSchemes *)
  n_curve : N;                  (* state.NamedCurve *)
  n_rest : N                    (* everything else in the state: not touched here *)
}.

Record neg_cfg := mk_ncfg { g_ems_enabled : bool; g_default_curve : N }.

Definition neg_reset (g : neg_cfg) (s : neg_state) : neg_state :=
  mk_neg false None [] [] (g_default_curve g) (n_rest s).

Definition neg_apply1 (g : neg_cfg) (s : neg_state) (x : hello_ext) : neg_state :=
  match x with
  | XEms => mk_neg (g_ems_enabled g) (n_sni s) (n_alpn s) (n_sigcert s) (n_curve s) (n_rest s)
  | XSni n => mk_neg (n_ems s) (Some n) (n_alpn s) (n_sigcert s) (n_curve s) (n_rest s)
  | XAlpn l => mk_neg (n_ems s) (n_sni s) l (n_sigcert s) (n_curve s) (n_rest s)
  | XSigCert l => mk_neg (n_ems s) (n_sni s) (n_alpn s) l (n_curve s) (n_rest s)
  | XGroups c => mk_neg (n_ems s) (n_sni s) (n_alpn s) (n_sigcert s) c (n_rest s)
  | XOther _ => s
  end.

(* [reset_inside] = the reset is part of negotiateClientHelloExtensions (the code); [false] = the reset is
   done only once, in flight0Parse, before the FIRST ClientHello (seeded change C04e) *)
Definition negotiate_with (reset_inside : bool) (g : neg_cfg) (s : neg_state) (hello : list hello_ext) : neg_state :=
  fold_left (neg_apply1 g) hello (if reset_inside then neg_reset g s else s).

Definition server12_resets_inside_negotiation : bool := true.

(* flight0Parse on the first ClientHello, then flight2Parse on the second *)
Definition server_negotiation_with (reset_inside : bool) (g : neg_cfg) (s0 : neg_state) (ch1 ch2 : list hello_ext) : neg_state :=
  negotiate_with reset_inside g (negotiate_with true g s0 ch1) ch2.

Definition server_negotiation := server_negotiation_with server12_resets_inside_negotiation.
