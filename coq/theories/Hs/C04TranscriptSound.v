(* C04 - theorems about Hs/C04Transcript.v.  The cryptographic idealisations are the Section
   hypotheses PRF_inj, pair_inj, H_inj, eqb_spec: they appear as premises of every closed statement
   (Print Assumptions shows no axioms).  They are satisfiable: the free term algebra [sterm]
   instantiates them at the end of this file. *)
From Coq Require Import List Bool NArith.
From DtlsV Require Import Hs.C03Auth Hs.C04Transcript.
Import ListNotations.
Open Scope N_scope.

Section Sound.
  Variable term : Type.
  Variable PRF : term -> N -> term -> term.
  Variable pair : term -> term -> term.
  Variable Hh : list term -> term.
  Variable fin_msg : term -> term.
  Variable eqb : term -> term -> bool.

  Hypothesis PRF_inj : forall a l s a' l' s', PRF a l s = PRF a' l' s' -> a = a' /\ l = l' /\ s = s'.
  Hypothesis pair_inj : forall a b a' b', pair a b = pair a' b' -> a = a' /\ b = b'.
  Hypothesis H_inj : forall l l', Hh l = Hh l' -> l = l'.
  Hypothesis eqb_spec : forall a b, eqb a b = true <-> a = b.

  Notation master := (master term PRF pair Hh).
  Notation keys := (keys term PRF pair Hh).
  Notation verify_client := (verify_client term PRF pair Hh).
  Notation verify_server := (verify_server term PRF pair Hh fin_msg).
  Notation server_full_ok := (server_full_ok term PRF pair Hh eqb).
  Notation client_full_ok := (client_full_ok term PRF pair Hh fin_msg eqb).
  Notation client_res_ok := (client_res_ok term PRF pair Hh eqb).
  Notation server_res_ok := (server_res_ok term PRF pair Hh fin_msg eqb).
  Notation tr_fin := (tr_fin term).

  Lemma eqb_false_of_neq : forall a b, a <> b -> eqb a b = false.
  Proof. intros a b H. destruct (eqb a b) eqn:E; auto. apply eqb_spec in E. contradiction. Qed.

  (* a side that verifies the peer's Finished and establishes has the same transcript, and the
     same master secret, as the peer used.  Client, full handshake: *)
  Theorem finished_binds_transcript :
    forall chk c s, client_full_ok chk c s = true ->
      tr_fin c = tr_fin s /\ master c = master s.
  Proof.
    intros chk c s H. unfold C04Transcript.client_full_ok in H.
    apply andb_true_iff in H. destruct H as [_ H]. apply eqb_spec in H.
    unfold C04Transcript.verify_server in H. apply PRF_inj in H. destruct H as (Hm & _ & Hh').
    apply H_inj in Hh'. apply app_inv_tail in Hh'. split; congruence.
  Qed.

  (* Server, full handshake, IF it compares the client's verify_data (the candidate fix for F5) *)
  Theorem server_binds_when_checking :
    forall c s, server_full_ok true c s = true ->
      tr_fin c = tr_fin s /\ master c = master s.
  Proof.
    intros c s H. unfold C04Transcript.server_full_ok in H.
    apply andb_true_iff in H. destruct H as [_ H]. cbn [negb orb] in H. apply eqb_spec in H.
    unfold C04Transcript.verify_client in H. apply PRF_inj in H. destruct H as (Hm & _ & Hh').
    apply H_inj in Hh'. split; congruence.
  Qed.

  (* with client authentication the CertificateVerify binds everything up to ClientKeyExchange,
     whether or not the Finished is compared *)
  Theorem certificate_verify_binds :
    forall chk c s, v_cv c = true -> server_full_ok chk c s = true -> v_tr_cke c = v_tr_cke s.
  Proof.
    intros chk c s Hcv H. unfold C04Transcript.server_full_ok in H.
    apply andb_true_iff in H. destruct H as [H _]. apply andb_true_iff in H. destruct H as [_ H].
    rewrite Hcv in H. cbn [negb orb] in H. apply eqb_spec in H. apply H_inj in H. exact H.
  Qed.

  (* whoever can open the peer's Finished record agrees with it on both randoms and the master secret *)
  Theorem keys_bind_randoms :
    forall c s, keys c = keys s -> v_cr c = v_cr s /\ v_sr c = v_sr s /\ master c = master s.
  Proof.
    intros c s H. unfold C04Transcript.keys, keys_of in H. apply PRF_inj in H. destruct H as (Hm & _ & Hp).
    apply pair_inj in Hp. destruct Hp. auto.
  Qed.

  (* extended master secret: the master secret itself depends on the session hash, so two views
     that differ anywhere up to ClientKeyExchange derive different master secrets and different
     record keys: the peer's Finished record cannot even be opened, nobody completes *)
  Theorem ems_binds :
    forall c s, v_ems c = true -> v_ems s = true -> v_tr_cke c <> v_tr_cke s ->
      master c <> master s /\ keys c <> keys s /\
      forall chk, server_full_ok chk c s = false /\ client_full_ok chk c s = false.
  Proof.
    intros c s Hc Hs Hne.
    assert (Hm : master c <> master s).
    { unfold C04Transcript.master. rewrite Hc, Hs. intros E. apply PRF_inj in E. destruct E as (_ & _ & E).
      apply H_inj in E. contradiction. }
    assert (Hk : keys c <> keys s).
    { intros E. apply keys_bind_randoms in E. destruct E as (_ & _ & E). contradiction. }
    repeat split; auto; unfold C04Transcript.client_full_ok, C04Transcript.server_full_ok;
      rewrite (eqb_false_of_neq _ _ Hk); reflexivity.
  Qed.

  (* one side believes EMS was negotiated, the other does not (extension stripped from one hello only) *)
  Theorem ems_flag_mismatch_blocks :
    forall c s, v_ems c <> v_ems s -> keys c <> keys s.
  Proof.
    intros c s Hne E. apply keys_bind_randoms in E. destruct E as (_ & _ & E).
    unfold C04Transcript.master in E. destruct (v_ems c), (v_ems s); try (apply Hne; reflexivity);
      apply PRF_inj in E; destruct E as (_ & E & _); discriminate E.
  Qed.

  (* resumption: both Finished messages are compared (flight3handler handleResumption, flight4bParse) *)
  Theorem resumed_client_binds :
    forall c s, client_res_ok c s = true ->
      v_tr_cke c = v_tr_cke s /\ v_pms c = v_pms s /\ v_cr c = v_cr s /\ v_sr c = v_sr s.
  Proof.
    intros c s H. unfold C04Transcript.client_res_ok in H. apply andb_true_iff in H. destruct H as [Hk Hf].
    apply eqb_spec in Hk. apply eqb_spec in Hf.
    unfold res_keys, keys_of in Hk. apply PRF_inj in Hk. destruct Hk as (_ & _ & Hp). apply pair_inj in Hp.
    unfold res_server_fin in Hf. apply PRF_inj in Hf. destruct Hf as (Hm & _ & Hh'). apply H_inj in Hh'.
    destruct Hp. repeat split; congruence.
  Qed.

  Theorem resumed_server_binds :
    forall c s, server_res_ok c s = true -> v_tr_cke c = v_tr_cke s /\ v_pms c = v_pms s.
  Proof.
    intros c s H. unfold C04Transcript.server_res_ok in H. apply andb_true_iff in H. destruct H as [H _].
    apply resumed_client_binds in H. destruct H as (A & B & _). auto.
  Qed.

  (* A: a server that negotiates from the SECOND ClientHello negotiates from what the client sent,
     whenever the client completes (whatever was done to the first ClientHello) *)
  Theorem negotiation_input_bound :
    forall chk c s ch1, v_tr_cke c <> [] -> v_tr_cke s <> [] ->
      client_full_ok chk c s = true ->
      server_neg_input term true ch1 s = hd ch1 (v_tr_cke c).
  Proof.
    intros chk c s ch1 Hc Hs H. apply finished_binds_transcript in H. destruct H as [H _].
    unfold C04Transcript.tr_fin in H. unfold server_neg_input.
    destruct (v_tr_cke c) as [|a la]; [contradiction|]. destruct (v_tr_cke s) as [|b lb]; [contradiction|].
    cbn in *. injection H as H _. congruence.
  Qed.
End Sound.

(* PSK suites: the pre-master secret is built from the pre-shared key (prf.PSKPreMasterSecret,
   prf.EcdhePSKPreMasterSecret); whoever derives the same record keys holds the same PSK *)
Theorem psk_binds :
  forall (term : Type) (PRF : term -> N -> term -> term) (pair : term -> term -> term)
         (Hh : list term -> term) (psk_pms : term -> term -> term),
    (forall a l s a' l' s', PRF a l s = PRF a' l' s' -> a = a' /\ l = l' /\ s = s') ->
    (forall p d p' d', psk_pms p d = psk_pms p' d' -> p = p' /\ d = d') ->
    forall (c s : view term) (psk_c dh_c psk_s dh_s : term),
      v_pms c = psk_pms psk_c dh_c -> v_pms s = psk_pms psk_s dh_s ->
      keys term PRF pair Hh c = keys term PRF pair Hh s -> psk_c = psk_s.
Proof.
  intros term PRF pair Hh psk_pms PRF_inj psk_inj c s pc dc ps ds Hc Hs E.
  unfold keys, keys_of in E. apply PRF_inj in E. destruct E as (E & _ & _).
  unfold master in E. rewrite Hc, Hs in E.
  destruct (v_ems c), (v_ems s); apply PRF_inj in E; destruct E as (E & El & _); try discriminate El;
    apply psk_inj in E; destruct E; assumption.
Qed.

(* ================================================================ the free term algebra *)

Lemma sterm_eqb_refl : forall a, sterm_eqb a a = true.
Proof. induction a; simpl; rewrite ?N.eqb_refl, ?IHa, ?IHa1, ?IHa2; reflexivity. Qed.

Lemma sterm_eqb_eq : forall a b, sterm_eqb a b = true -> a = b.
Proof.
  induction a; destruct b; simpl; intros H; try discriminate H;
    repeat (match goal with H : _ && _ = true |- _ => apply andb_true_iff in H; destruct H end);
    repeat (match goal with H : (_ =? _) = true |- _ => apply N.eqb_eq in H end);
    f_equal; auto.
Qed.

Lemma sterm_eqb_spec : forall a b, sterm_eqb a b = true <-> a = b.
Proof. intros a b. split. apply sterm_eqb_eq. intros ->. apply sterm_eqb_refl. Qed.

Lemma sencode_inj : forall l l', sencode l = sencode l' -> l = l'.
Proof.
  induction l; destruct l'; simpl; intros H; try discriminate H; auto.
  injection H as H1 H2. f_equal; auto.
Qed.

Lemma SPrf_inj : forall a l s a' l' s', SPrf a l s = SPrf a' l' s' -> a = a' /\ l = l' /\ s = s'.
Proof. intros a l s a' l' s' H. injection H. auto. Qed.
Lemma SPair_inj : forall a b a' b', SPair a b = SPair a' b' -> a = a' /\ b = b'.
Proof. intros a b a' b' H. injection H. auto. Qed.
Lemma shash_inj : forall l l', shash l = shash l' -> l = l'.
Proof. intros l l' H. unfold shash in H. injection H as H. apply sencode_inj. exact H. Qed.

(* the hypotheses are satisfiable: instances on [sterm] *)
Theorem s_finished_binds_transcript :
  forall chk c s, s_client_full_ok chk c s = true -> tr_fin sterm c = tr_fin sterm s.
Proof.
  intros chk c s H.
  exact (proj1 (finished_binds_transcript sterm SPrf SPair shash SFin sterm_eqb SPrf_inj shash_inj sterm_eqb_spec chk c s H)).
Qed.

Theorem s_server_binds_when_checking :
  forall c s, s_server_full_ok true c s = true -> tr_fin sterm c = tr_fin sterm s.
Proof.
  intros c s H.
  exact (proj1 (server_binds_when_checking sterm SPrf SPair shash sterm_eqb SPrf_inj shash_inj sterm_eqb_spec c s H)).
Qed.

(* F5: as the code stands (the server does not compare the client's verify_data in the full
   handshake), without extended master secret and without client authentication a rewritten
   ClientHello lets the SERVER complete although the two transcripts differ; the client detects
   the mismatch on the server's Finished and aborts. *)
Theorem server_full_handshake_unbound_refuted :
  exists c s : view sterm,
    v_ems c = false /\ v_ems s = false /\ v_cv c = false /\
    v_cr c = v_cr s /\ v_sr c = v_sr s /\ v_pms c = v_pms s /\
    v_tr_cke c <> v_tr_cke s /\
    s_server_full_ok false c s = true /\ s_client_full_ok false c s = false.
Proof.
  exists f5_client_view, f5_server_view. repeat split; try reflexivity. intros H. discriminate H.
Qed.

(* the same witness is stopped by the candidate fix, by EMS, and by client authentication *)
Theorem f5_witness_stopped :
  s_server_full_ok true f5_client_view f5_server_view = false /\
  (let ems v := mk_view (v_tr_cke v) (v_tr_cv v) (v_cr v) (v_sr v) (v_pms v) true (v_cv v) in
   s_server_full_ok false (ems f5_client_view) (ems f5_server_view) = false) /\
  (let cv v := mk_view (v_tr_cke v) (v_tr_cv v) (v_cr v) (v_sr v) (v_pms v) (v_ems v) true in
   s_server_full_ok false (cv f5_client_view) (cv f5_server_view) = false).
Proof. repeat split; vm_compute; reflexivity. Qed.

(* A, before the repair: both endpoints complete, transcripts and keys agree - and the server negotiated
   from a first ClientHello that differs from everything the client ever sent *)
Definition a_view : view sterm :=
  mk_view [SAtom 1; SAtom 2; SAtom 3; SAtom 4] [] (SAtom 10) (SAtom 11) (SSecret 1) true false.

Theorem negotiation_from_first_hello_refuted :
  exists (c s : view sterm) (ch1_received : sterm),
    s_client_full_ok true c s = true /\ s_server_full_ok true c s = true /\ v_tr_cke c = v_tr_cke s /\
    server_neg_input sterm false ch1_received s <> hd ch1_received (v_tr_cke c) /\
    server_neg_input sterm true ch1_received s = hd ch1_received (v_tr_cke c).
Proof.
  exists a_view, a_view, (SAtom 999). repeat split; try reflexivity. intros H. discriminate H.
Qed.

Theorem negotiation_input_as_coded :
  if server12_negotiates_from_second_hello
  then forall chk c s ch1, v_tr_cke c <> [] -> v_tr_cke s <> [] -> s_client_full_ok chk c s = true ->
         server_neg_input sterm server12_negotiates_from_second_hello ch1 s = hd ch1 (v_tr_cke c)
  else exists (c s : view sterm) ch1, s_client_full_ok true c s = true /\ s_server_full_ok true c s = true /\
         server_neg_input sterm server12_negotiates_from_second_hello ch1 s <> hd ch1 (v_tr_cke c).
Proof.
  destruct server12_negotiates_from_second_hello.
  - intros chk c s ch1 Hc Hs H.
    exact (negotiation_input_bound sterm SPrf SPair shash SFin sterm_eqb SPrf_inj shash_inj sterm_eqb_spec chk c s ch1 Hc Hs H).
  - exists a_view, a_view, (SAtom 999). repeat split; try reflexivity. intros H. discriminate H.
Qed.

(* the statement that holds of the code as modelled, whichever way the F5 switch
   (Hs/C03Auth.server12_checks_client_finished) is set *)
Theorem server_full_handshake_as_coded :
  if server12_checks_client_finished
  then forall c s, s_server_full_ok server12_checks_client_finished c s = true -> tr_fin sterm c = tr_fin sterm s
  else exists c s : view sterm,
         v_ems c = false /\ v_ems s = false /\ v_tr_cke c <> v_tr_cke s /\
         s_server_full_ok server12_checks_client_finished c s = true /\
         s_client_full_ok server12_checks_client_finished c s = false.
Proof.
  destruct server12_checks_client_finished eqn:E.
  - exact s_server_binds_when_checking.
  - exists f5_client_view, f5_server_view. repeat split; try reflexivity. intros H. discriminate H.
Qed.

(* ================================================================ negotiation forgets the first ClientHello *)

(* reset-then-negotiate does not depend on the extension-driven part of the prior state *)
Theorem negotiate_independent_of_prior_state :
  forall g s1 s2 hello, n_rest s1 = n_rest s2 ->
    negotiate_with true g s1 hello = negotiate_with true g s2 hello.
Proof. intros g s1 s2 hello H. unfold negotiate_with, neg_reset. rewrite H. reflexivity. Qed.

Lemma neg_apply_keeps_rest : forall g hello s, n_rest (fold_left (neg_apply1 g) hello s) = n_rest s.
Proof.
  intros g hello. induction hello as [|x l IH]; intros s; [reflexivity|].
  cbn [fold_left]. rewrite IH. destruct x; reflexivity.
Qed.

(* whatever the first, cookie-less ClientHello carried (in particular anything ADDED to it in transit):
   the state the handshake runs with is a function of the second ClientHello and the configuration *)
Theorem negotiate_forgets_first_hello :
  forall g s0 ch1 ch1' ch2,
    server_negotiation_with true g s0 ch1 ch2 = server_negotiation_with true g s0 ch1' ch2.
Proof.
  intros g s0 ch1 ch1' ch2. unfold server_negotiation_with.
  apply negotiate_independent_of_prior_state.
  unfold negotiate_with. rewrite !neg_apply_keeps_rest. reflexivity.
Qed.

(* seeded change C04e (reset only before the first ClientHello): a server_name that only the first
   ClientHello carried survives, the second one does not mention it *)
Theorem negotiate_without_reset_refuted :
  exists g s0 ch1 ch1' ch2,
    server_negotiation_with false g s0 ch1 ch2 <> server_negotiation_with false g s0 ch1' ch2 /\
    n_sni (server_negotiation_with false g s0 ch1' ch2) = Some 7 /\
    n_sni (server_negotiation_with true g s0 ch1' ch2) = None.
Proof.
  exists (mk_ncfg true 29), (mk_neg false None [] [] 29 0), [XGroups 29], [XGroups 29; XSni 7], [XGroups 29].
  repeat split. intros H. discriminate H.
Qed.

Theorem negotiation_reset_as_coded :
  if server12_resets_inside_negotiation
  then forall g s0 ch1 ch1' ch2, server_negotiation g s0 ch1 ch2 = server_negotiation g s0 ch1' ch2
  else exists g s0 ch1 ch1' ch2, server_negotiation g s0 ch1 ch2 <> server_negotiation g s0 ch1' ch2.
Proof.
  unfold server_negotiation. destruct server12_resets_inside_negotiation.
  - exact negotiate_forgets_first_hello.
  - exists (mk_ncfg true 29), (mk_neg false None [] [] 29 0), [XGroups 29], [XGroups 29; XSni 7], [XGroups 29].
    intros H. discriminate H.
Qed.
