(* Model of the server's cookie exchange (DTLS 1.2): flight0Parse / flight2Parse of
   internal/flight/flight12, the transcript cache fed by the fragment buffer in message-sequence
   order, ValidateHelloVerifyRequestResponse (the second ClientHello must echo the issued cookie
   and be byte-identical otherwise), the state machine's reaction (fsm12.wait: any buffered
   handshake datagram triggers the parser; Flight 2 is not retransmitted by the timer).
   ClientHellos are symbolic: message sequence, cookie field, and an identifier standing for all
   other bytes of the message.  The input alphabet is the attacker's: any ClientHello at all.
   Definitions only. *)
From Coq Require Import List NArith Bool Arith.
Import ListNotations.
Open Scope nat_scope.

Inductive input :=
| ICH (mseq : nat) (cookie : option N) (body : N)   (* a complete ClientHello *)
| IOther                                           (* any other datagram that reaches the handshake buffer *)
| ITimer.                                          (* the retransmission timer fires *)

Inductive output :=
| OHVR (cookie : N)        (* HelloVerifyRequest carrying the cookie *)
| OFlight4                 (* ServerHello, Certificate, ServerKeyExchange, ... *)
| OAlert.                  (* fatal alert, the handshake is over *)

Inductive sflight := SF0 | SF2 | SF4 | SErr.

Record srv := {
  sf : sflight;
  issued : N;                              (* the cookie generated for this connection (flight0Generate) *)
  first : option N;                        (* body of the ClientHello accepted as the first one *)
  cache : list (nat * (option N * N));     (* ClientHellos buffered so far by message sequence (first writer wins) *)
  fbcur : nat                              (* next message sequence the fragment buffer will release *)
}.

Definition srv_init (k : N) : srv := {| sf := SF0; issued := k; first := None; cache := []; fbcur := 0 |}.

Fixpoint lookup (m : nat) (c : list (nat * (option N * N))) : option (option N * N) :=
  match c with
  | [] => None
  | (m', v) :: c' => if Nat.eqb m m' then Some v else lookup m c'
  end.

(* the fragment buffer releases messages strictly in sequence *)
Fixpoint release (fuel : nat) (cur : nat) (c : list (nat * (option N * N))) : nat :=
  match fuel with
  | O => cur
  | S f => match lookup cur c with Some _ => release f (S cur) c | None => cur end
  end.

Definition store (s : srv) (m : nat) (v : option N * N) : srv :=
  if Nat.ltb m (fbcur s) then s                          (* retransmission of a released message: ignored *)
  else
    let c := match lookup m (cache s) with Some _ => cache s | None => cache s ++ [(m, v)] end in
    {| sf := sf s; issued := issued s; first := first s; cache := c;
       fbcur := release (S (length c)) (fbcur s) c |}.

(* message m is in the transcript cache iff it has been released *)
Definition cached (s : srv) (m : nat) : option (option N * N) :=
  if Nat.ltb m (fbcur s) then lookup m (cache s) else None.

Definition opt_N_eqb (a : option N) (b : N) : bool :=
  match a with Some x => N.eqb x b | None => false end.

(* the parser of the current flight, run on every handshake event *)
Definition on_event (s : srv) : srv * list output :=
  match sf s with
  | SF0 =>
      match cached s 0 with
      | Some (_, b) =>
          ({| sf := SF2; issued := issued s; first := Some b; cache := cache s; fbcur := fbcur s |},
           [OHVR (issued s)])
      | None => (s, [])
      end
  | SF2 =>
      match cached s 1 with
      | Some (ck, b) =>
          if opt_N_eqb ck (issued s) && (match first s with Some b0 => N.eqb b b0 | None => false end)
          then ({| sf := SF4; issued := issued s; first := first s; cache := cache s; fbcur := fbcur s |}, [OFlight4])
          else ({| sf := SErr; issued := issued s; first := first s; cache := cache s; fbcur := fbcur s |}, [OAlert])
      | None =>
          (* flight2Parse falls back to flight0Parse: the first ClientHello is still there, the
             HelloVerifyRequest is prepared and sent again *)
          (s, [OHVR (issued s)])
      end
  | SF4 | SErr => (s, [])
  end.

Definition step (s : srv) (i : input) : srv * list output :=
  match i with
  | ICH m ck b => on_event (store s m (ck, b))
  | IOther => on_event s
  | ITimer => (s, [])      (* Flight 0 has nothing to send; Flight 2 is not retransmitted *)
  end.

Fixpoint run (s : srv) (is : list input) : srv * list (input * list output) :=
  match is with
  | [] => (s, [])
  | i :: is' =>
      let '(s1, o) := step s i in
      let '(s2, tr) := run s1 is' in (s2, (i, o) :: tr)
  end.
