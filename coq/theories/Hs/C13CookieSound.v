(* Proofs: the server commits to its large flight only after a ClientHello echoing exactly the
   issued cookie and otherwise identical to the first one; a cookie request is only ever sent in
   direct response to an incoming datagram, never by the timer. *)
From Coq Require Import List NArith Bool Arith Lia.
From DtlsV Require Import Hs.C13Cookie.
Import ListNotations.
Open Scope nat_scope.

Lemma lookup_app_None m c v : lookup m c = None -> lookup m (c ++ [(m, v)]) = Some v.
Proof.
  induction c as [|[m' v'] c IH]; cbn; intro H.
  - now rewrite Nat.eqb_refl.
  - destruct (Nat.eqb m m'); [discriminate | now apply IH].
Qed.

Lemma lookup_app_other m m2 c v : m2 <> m -> lookup m2 (c ++ [(m, v)]) = lookup m2 c.
Proof.
  intro Hne. induction c as [|[m' v'] c IH]; cbn.
  - destruct (Nat.eqb m2 m) eqn:E; [apply Nat.eqb_eq in E; contradiction | reflexivity].
  - destruct (Nat.eqb m2 m'); [reflexivity | exact IH].
Qed.

(* whatever is in the cache at sequence m was an input ClientHello with that sequence *)
Definition cache_from (is : list input) (c : list (nat * (option N * N))) : Prop :=
  forall m ck b, lookup m c = Some (ck, b) -> In (ICH m ck b) is.

Lemma store_cache_from is s m ck b :
  cache_from is (cache s) -> cache_from (is ++ [ICH m ck b]) (cache (store s m (ck, b))).
Proof.
  intros H. unfold store. destruct (Nat.ltb m (fbcur s)).
  - intros m2 ck2 b2 Hl. apply in_or_app. left. now apply H.
  - cbn [cache]. destruct (lookup m (cache s)) eqn:E.
    + intros m2 ck2 b2 Hl. apply in_or_app. left. now apply H.
    + intros m2 ck2 b2 Hl. destruct (Nat.eq_dec m2 m) as [-> | Hne].
      * rewrite lookup_app_None in Hl by exact E. inversion Hl; subst. apply in_or_app. right. now left.
      * rewrite lookup_app_other in Hl by exact Hne. apply in_or_app. left. now apply H.
Qed.

Lemma store_fields s m v : sf (store s m v) = sf s /\ issued (store s m v) = issued s /\ first (store s m v) = first s.
Proof. unfold store. destruct (Nat.ltb m (fbcur s)); cbn; auto. Qed.

(* invariant over histories *)
Record Inv (k : N) (is : list input) (s : srv) : Prop := {
  inv_issued : issued s = k;
  inv_cache : cache_from is (cache s);
  inv_first : forall b0, first s = Some b0 -> exists ck0, In (ICH 0 ck0 b0) is;
  inv_f0 : sf s = SF0 -> first s = None;
  inv_f4 : sf s = SF4 -> exists b0, first s = Some b0 /\ In (ICH 1 (Some k) b0) is
}.

Lemma cache_from_mono is is' c : cache_from is c -> cache_from (is ++ is') c.
Proof. intros H m ck b Hl. apply in_or_app. left. now apply H. Qed.

Ltac invfin := constructor; auto; try (intros; congruence).

Lemma on_event_inv k is s :
  Inv k is s -> Inv k is (fst (on_event s)).
Proof.
  intros [Hi Hc Hf H0 H4]. unfold on_event.
  destruct (sf s) eqn:Esf.
  - unfold cached. destruct (Nat.ltb 0 (fbcur s)).
    2:{ cbn [fst]. invfin. }
    destruct (lookup 0 (cache s)) as [[ck b]|] eqn:El.
    2:{ cbn [fst]. invfin. }
    cbn [fst]. constructor; cbn [sf issued first cache fbcur]; auto.
    + intros b0 Hb. inversion Hb; subst. exists ck. now apply Hc.
    + discriminate.
    + discriminate.
  - unfold cached. destruct (Nat.ltb 1 (fbcur s)).
    2:{ cbn [fst]. invfin. }
    destruct (lookup 1 (cache s)) as [[ck b]|] eqn:El.
    2:{ cbn [fst]. invfin. }
    destruct (opt_N_eqb ck (issued s) && match first s with Some b0 => N.eqb b b0 | None => false end) eqn:Eok;
      cbn [fst]; constructor; cbn [sf issued first cache fbcur]; auto; try discriminate.
    intros _. apply andb_prop in Eok. destruct Eok as [E1 E2].
    destruct (first s) as [b0|] eqn:Ef; [|discriminate].
    apply N.eqb_eq in E2. subst b0. exists b. split; [reflexivity|].
    destruct ck as [x|]; [|discriminate]. cbn in E1. apply N.eqb_eq in E1. subst x. rewrite Hi in El.
    now apply Hc.
  - cbn [fst]. invfin.
  - cbn [fst]. invfin.
Qed.

Lemma inv_weaken k is i s : Inv k is s -> Inv k (is ++ [i]) s.
Proof.
  intros [Hi Hc Hf H0 H4]. constructor; auto.
  - now apply cache_from_mono.
  - intros b0 Hb. destruct (Hf b0 Hb) as [ck0 Hin]. exists ck0. apply in_or_app. now left.
  - intro H. destruct (H4 H) as (b0 & Hb & Hin). exists b0. split; auto. apply in_or_app. now left.
Qed.

Lemma step_inv k is s i : Inv k is s -> Inv k (is ++ [i]) (fst (step s i)).
Proof.
  intros HI. destruct i as [m ck b | | ]; cbn [step].
  - apply on_event_inv. destruct HI as [Hi Hc Hf H0 H4].
    destruct (store_fields s m (ck, b)) as (E1 & E2 & E3).
    constructor.
    + now rewrite E2.
    + now apply store_cache_from.
    + intros b0 Hb. rewrite E3 in Hb. destruct (Hf b0 Hb) as [ck0 Hin]. exists ck0. apply in_or_app. now left.
    + rewrite E1, E3. exact H0.
    + rewrite E1, E3. intro H. destruct (H4 H) as (b0 & Hb & Hin). exists b0. split; [exact Hb|].
      apply in_or_app. now left.
  - apply on_event_inv. now apply inv_weaken.
  - cbn [fst]. now apply inv_weaken.
Qed.

Lemma inv_init k : Inv k [] (srv_init k).
Proof.
  constructor; cbn; auto; try discriminate; try (intros; discriminate).
Qed.

Lemma run_inv k : forall is pre s, Inv k pre s -> Inv k (pre ++ is) (fst (run s is)).
Proof.
  induction is as [|i is IH]; intros pre s HI; cbn [run].
  - cbn. now rewrite app_nil_r.
  - pose proof (step_inv k pre s i HI) as H1. destruct (step s i) as [s1 o].
    cbn [fst] in H1. specialize (IH (pre ++ [i]) s1 H1).
    destruct (run s1 is) as [s2 tr]. cbn [fst] in *. now rewrite <- app_assoc in IH.
Qed.

(* what the parser can emit, by state *)
Lemma on_event_outputs s0 :
  (snd (on_event s0) = [] /\ sf (fst (on_event s0)) = sf s0) \/
  (snd (on_event s0) = [OHVR (issued s0)] /\ (sf s0 = SF0 \/ sf s0 = SF2) /\ sf (fst (on_event s0)) = SF2) \/
  (snd (on_event s0) = [OFlight4] /\ sf s0 = SF2 /\ sf (fst (on_event s0)) = SF4) \/
  (snd (on_event s0) = [OAlert] /\ sf s0 = SF2 /\ sf (fst (on_event s0)) = SErr).
Proof.
  unfold on_event. destruct (sf s0) eqn:E.
  - destruct (cached s0 0) as [[ck b]|]; cbn [fst snd sf]; auto 10.
  - destruct (cached s0 1) as [[ck b]|]; cbn [fst snd sf].
    + destruct (_ && _); cbn [fst snd sf]; auto 10.
    + right; left. auto.
  - cbn [fst snd]. auto.
  - cbn [fst snd]. auto.
Qed.

Lemma on_event_issued s0 : issued (fst (on_event s0)) = issued s0.
Proof.
  unfold on_event. destruct (sf s0).
  - destruct (cached s0 0) as [[ck b]|]; reflexivity.
  - destruct (cached s0 1) as [[ck b]|]; [destruct (_ && _)|]; reflexivity.
  - reflexivity.
  - reflexivity.
Qed.

Lemma step_outputs s i :
  (snd (step s i) = [] /\ sf (fst (step s i)) = sf s) \/
  (snd (step s i) = [OHVR (issued s)] /\ i <> ITimer /\ sf (fst (step s i)) = SF2) \/
  (snd (step s i) = [OFlight4] /\ sf (fst (step s i)) = SF4) \/
  (snd (step s i) = [OAlert] /\ sf (fst (step s i)) = SErr).
Proof.
  destruct i as [m ck b | | ]; cbn [step].
  - destruct (store_fields s m (ck, b)) as (E1 & E2 & E3).
    destruct (on_event_outputs (store s m (ck, b))) as [[H1 H2] | [[H1 [_ H2]] | [[H1 [_ H2]] | [H1 [_ H2]]]]].
    + left. rewrite H2, E1. auto.
    + right; left. rewrite E2 in H1. split; [exact H1|]. split; [discriminate|exact H2].
    + right; right; left. auto.
    + right; right; right. auto.
  - destruct (on_event_outputs s) as [[H1 H2] | [[H1 [_ H2]] | [[H1 [_ H2]] | [H1 [_ H2]]]]].
    + left. auto.
    + right; left. split; [exact H1|]. split; [discriminate|exact H2].
    + right; right; left. auto.
    + right; right; right. auto.
  - left. cbn. auto.
Qed.

Lemma step_issued s i : issued (fst (step s i)) = issued s.
Proof.
  destruct i as [m ck b | | ]; cbn [step].
  - rewrite on_event_issued. now destruct (store_fields s m (ck, b)) as (_ & E2 & _).
  - apply on_event_issued.
  - reflexivity.
Qed.

(* once the large flight has been sent the server is in Flight 4; an errored server stays silent *)
Lemma step_from_f4 s i : sf s = SF4 -> sf (fst (step s i)) = SF4 /\ snd (step s i) = [].
Proof.
  intro H. destruct i as [m ck b | | ]; cbn [step].
  - destruct (store_fields s m (ck, b)) as (E1 & _). unfold on_event. rewrite E1, H. cbn. now rewrite E1.
  - unfold on_event. rewrite H. auto.
  - auto.
Qed.

Lemma step_from_err s i : sf s = SErr -> sf (fst (step s i)) = SErr /\ snd (step s i) = [].
Proof.
  intro H. destruct i as [m ck b | | ]; cbn [step].
  - destruct (store_fields s m (ck, b)) as (E1 & _). unfold on_event. rewrite E1, H. cbn. now rewrite E1.
  - unfold on_event. rewrite H. auto.
  - auto.
Qed.

Lemma flight4_implies_state : forall is s,
  sf s <> SErr ->
  (exists i, In (i, [OFlight4]) (snd (run s is))) -> sf (fst (run s is)) = SF4.
Proof.
  induction is as [|i is IH]; intros s HnE [j Hj]; cbn [run] in *.
  - destruct Hj.
  - pose proof (step_outputs s i) as Ho.
    pose proof (step_from_f4 s i) as H4. pose proof (step_from_err s i) as HE.
    destruct (step s i) as [s1 o]. cbn [fst snd] in *.
    assert (Hstay4 : forall is0 s', sf s' = SF4 -> sf (fst (run s' is0)) = SF4).
    { clear. induction is0 as [|i is0 IH]; intros s' H; cbn [run]; [exact H|].
      destruct (step_from_f4 s' i H) as [Hs _]. destruct (step s' i) as [s1 o]. cbn [fst] in Hs.
      specialize (IH s1 Hs). destruct (run s1 is0) as [s2 tr]. exact IH. }
    assert (Hdead : forall is0 s', sf s' = SErr -> forall x o', In (x, o') (snd (run s' is0)) -> o' = []).
    { clear. induction is0 as [|i is0 IH]; intros s' H x o' Hin; cbn [run] in Hin; [destruct Hin|].
      destruct (step_from_err s' i H) as [Hs Ho]. destruct (step s' i) as [s1 o]. cbn [fst snd] in *.
      destruct (run s1 is0) as [s2 tr] eqn:Er. cbn [snd] in Hin.
      destruct Hin as [Hin | Hin]; [inversion Hin; subst; reflexivity|].
      specialize (IH s1 Hs x o'). rewrite Er in IH. now apply IH. }
    destruct (run s1 is) as [s2 tr] eqn:Er. cbn [fst snd] in *.
    destruct Hj as [Hj | Hj].
    + inversion Hj; subst j o.
      destruct Ho as [[H _] | [[H _] | [[_ H] | [H _]]]]; try discriminate.
      specialize (Hstay4 is s1 H). now rewrite Er in Hstay4.
    + destruct (sf s1) eqn:E1.
      * specialize (IH s1). rewrite Er in IH. apply IH; [rewrite E1; discriminate | exists j; exact Hj].
      * specialize (IH s1). rewrite Er in IH. apply IH; [rewrite E1; discriminate | exists j; exact Hj].
      * specialize (Hstay4 is s1 E1). now rewrite Er in Hstay4.
      * exfalso. specialize (Hdead is s1 E1 j [OFlight4]). rewrite Er in Hdead. cbn [snd] in Hdead.
        specialize (Hdead Hj). discriminate.
Qed.

(* C13: the large flight is emitted only after a ClientHello that echoes exactly the issued
   cookie and is otherwise identical to the ClientHello accepted as the first one - for every
   sequence of attacker-chosen ClientHellos, other datagrams and timer expiries *)
Theorem cookie_gate k is :
  (exists i, In (i, [OFlight4]) (snd (run (srv_init k) is))) ->
  exists b0 ck0, In (ICH 0 ck0 b0) is /\ In (ICH 1 (Some k) b0) is.
Proof.
  intro Hex.
  pose proof (run_inv k is [] (srv_init k) (inv_init k)) as HI. cbn [app] in HI.
  assert (H4 : sf (fst (run (srv_init k) is)) = SF4).
  { apply flight4_implies_state; [cbn; discriminate | exact Hex]. }
  destruct HI as [Hi Hc Hf H0 Hf4]. destruct (Hf4 H4) as (b0 & Hb & Hin).
  destruct (Hf b0 Hb) as [ck0 Hin0]. exists b0, ck0. split; assumption.
Qed.

(* every HelloVerifyRequest is the direct response to an incoming datagram and carries the issued
   cookie; the timer never produces one; before acceptance nothing else but a fatal alert is sent *)
Theorem hvr_only_in_response k is :
  forall i o, In (i, o) (snd (run (srv_init k) is)) ->
    o = [] \/ (o = [OHVR k] /\ i <> ITimer) \/ o = [OFlight4] \/ o = [OAlert].
Proof.
  assert (H : forall is0 s0, issued s0 = k -> forall i o, In (i, o) (snd (run s0 is0)) ->
    o = [] \/ (o = [OHVR k] /\ i <> ITimer) \/ o = [OFlight4] \/ o = [OAlert]).
  { induction is0 as [|j is0 IH]; intros s0 Hk i o Hin; cbn [run] in Hin; [destruct Hin|].
    pose proof (step_outputs s0 j) as Ho. pose proof (step_issued s0 j) as Hk1.
    destruct (step s0 j) as [s1 o1]. cbn [fst snd] in *.
    destruct (run s1 is0) as [s2 tr] eqn:Er. cbn [snd] in Hin.
    destruct Hin as [Hin | Hin].
    - inversion Hin; subst i o. rewrite Hk in Ho.
      destruct Ho as [[H _] | [[H [Hn _]] | [[H _] | [H _]]]]; auto.
    - specialize (IH s1 (eq_trans Hk1 Hk) i o). rewrite Er in IH. now apply IH. }
  intros i o. apply (H is (srv_init k)). reflexivity.
Qed.
