(* Harness-facing evaluation of the cookie-exchange model. *)
From Coq Require Import List NArith Bool Arith.
From DtlsV Require Import Hs.C13Cookie.
Import ListNotations.
Open Scope nat_scope.

(* observation codes: 0 nothing, 1 HelloVerifyRequest (with the connection's cookie), 2 the large
   flight, 3 alert *)
Definition code_of (k : N) (o : list output) : nat :=
  match o with
  | [] => 0
  | [OHVR c] => if N.eqb c k then 1 else 9
  | [OFlight4] => 2
  | [OAlert] => 3
  | _ => 9
  end.

(* compare step by step up to and including the step at which the exchange ends (flight or alert) *)
Fixpoint cmp (k : N) (s : srv) (is : list input) (obs : list nat) : bool :=
  match is, obs with
  | [], [] => true
  | i :: is', o :: obs' =>
      let '(s1, out) := step s i in
      let c := code_of k out in
      Nat.eqb c o && (if Nat.eqb c 2 || Nat.eqb c 3 then true else cmp k s1 is' obs')
  | _, _ => false
  end.

Definition c13_case := (list input * list nat)%type.
Definition c13_ok (c : c13_case) : bool := let '(is, obs) := c in cmp 1%N (srv_init 1%N) is obs.

Fixpoint mismatches_from {A} (ok : A -> bool) (i : N) (l : list A) : list N :=
  match l with
  | [] => []
  | c :: l' => if ok c then mismatches_from ok (i + 1)%N l' else i :: mismatches_from ok (i + 1)%N l'
  end.
Definition mismatches {A} (ok : A -> bool) (l : list A) : list N := mismatches_from ok 0%N l.
