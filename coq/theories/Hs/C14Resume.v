(* C14 - Session resumption: executable model of HISTORIES of connections between one client and
   one server that share a client session store and a server session store.

   Follows /repo (not the RFC):
     session.go                      Session{ID, Secret}; SessionStore Get/Set/Del
     config.go newHandshakeConfig    GetSession/SetSession/DelSession wrappers
     conn.go sessionKey              client key = sessionAddr (dial address) + "_" + ServerName, server key = session id
     conn.go notify                  fatal alert and len(state.SessionID) > 0 -> DelSession(sessionKey())
     flight1handler.go               client: GetSession(sessionKey()); id != nil -> offer (id, secret)
     flight0handler.go handleHelloResume  server: len(id) > 0 and GetSession(id) has id != nil -> Flight4b
     flight3handler.go flight3Parse  ServerHello with the offered id -> handleResumption; otherwise
                                     DelSession(state.SessionID)  [keyed by the SESSION ID, on a store
                                     that is keyed by sessionKey()], then the new id is recorded
     flight3handler.go handleResumption   client decrypts and verifies the server's Finished
     flight4bhandler.go flight4bParse     server decrypts and verifies the client's Finished
     flight4handler.go flight4Parse  SessionID = nil when a client certificate arrives; SetSession at
                                     ClientKeyExchange; VerifyConnection after the Finished
     flight5handler.go flight5Parse  client SetSession(sessionKey(), id, ms) after the server's Finished
     flight0/1                       ResetConnectionIDs: connection ids are those of this connection's hellos

   Byte strings are opaque identifiers (N): store keys and session ids share ONE identifier space
   (the code passes a session id as a store key in flight3Parse), 0 is the empty string; secrets have
   their own space.  Key blocks and verify_data are values of abstract types K and V produced by
   abstract functions KB and VD (Section variables): the model only ever compares them. *)
From Coq Require Import List NArith Bool.
Import ListNotations.
Open Scope N_scope.

Definition bid := N.      (* identifier of a byte string used as store key or session id; 0 = empty *)
Definition secret := N.   (* identifier of a master-secret byte string *)

(* a stored session; [s_nil]: the ID field is nil (what Get returns for a missing key) *)
Record sess := mkSess { s_nil : bool; s_id : bid; s_sec : secret }.

Definition store := list (bid * sess).

Fixpoint get (k : bid) (st : store) : option sess :=
  match st with
  | [] => None
  | (k', v) :: t => if k' =? k then Some v else get k t
  end.

Definition del (k : bid) (st : store) : store := filter (fun e => negb (fst e =? k)) st.
Definition set (k : bid) (v : sess) (st : store) : store := (k, v) :: del k st.

(* mutating store operations performed by the implementation during one connection *)
Inductive mop := MSet (k : bid) (v : sess) | MDel (k : bid).

Definition apply_op (st : store) (o : mop) : store :=
  match o with MSet k v => set k v st | MDel k => del k st end.
Definition apply_ops (st : store) (ops : list mop) : store := fold_left apply_op ops st.

Inductive outcome :=
| Established               (* HandshakeContext returned nil *)
| Stalled                   (* never returns by itself: retransmits until the caller's context expires *)
| SentAlert (d : N)         (* sent a fatal alert with this description and returned an error *)
| RecvAlert (d : N).        (* received the peer's fatal alert *)

Inductive mode := Full | Abbreviated.

(* provoked failures: which check of which flight rejects *)
Inductive fault :=
| NoFault
| FEms       (* client requires extended master secret, server's ServerHello has none: client alert 71 in flight3Parse
                (the same alert at the same point - before the session id of the hello is looked at - answers a
                ServerHello that names a cipher suite the client did not offer; the harness files both here) *)
| FShAlpn    (* the ServerHello selects an application protocol the client did not offer (a server with a
                ServerHelloMessageHook): client alert 47 in flight3Parse, at the same point *)
| FSEms      (* server requires it, ClientHello has none: server alert 71 in flight0Parse, before the session lookup *)
| FAlpn      (* no common application protocol: server alert 120 while generating flight 4 / 4b *)
| FSPolicy   (* server's client-authentication policy refuses the client (no / unverified certificate): alert 41
                in flight4Parse after the client's Finished (not evaluated when resuming) *)
| FSVerify   (* server's VerifyConnection callback fails: alert 42 in flight4Parse (not called when resuming) *)
| FCVerify.  (* client's VerifyConnection callback fails: alert 42 in flight5Generate (not called when resuming) *)

Record params := mkParams {
  p_ckey : bid;            (* client store key of this connection: the address the connection was CREATED for
                              (conn.go sessionAddr, not the live rAddr that return routability may move) + "_" +
                              server name - one value for the whole connection, used by Get, Set and Del *)
  p_cstore : bool;         (* client configured with a session store *)
  p_sstore : bool;         (* server configured with a session store *)
  p_rc : N;                (* ClientHello.random of this connection *)
  p_rs : N;                (* ServerHello.random of this connection *)
  p_newsid : bid;          (* the session id a server with a store generates in flight 4 *)
  p_msc : secret;          (* master secret the client derives in a full handshake *)
  p_mss : secret;          (* master secret the server derives in a full handshake (differs e.g. for a wrong PSK) *)
  p_ccert : bool;          (* the client's flight 5 of a full handshake contains a Certificate message (even an empty one) *)
  p_ccid : option N;       (* connection id produced by the client's generator in this connection *)
  p_scid : option N;       (* connection id produced by the server's generator in this connection *)
  p_fault : fault;
  p_arr_s : bool;          (* the server's ChangeCipherSpec+Finished datagram eventually arrives *)
  p_arr_c : bool           (* the client's ChangeCipherSpec+Finished datagram eventually arrives *)
}.

(* flight1Generate: what the client offers *)
Definition offer (p : params) (cs : store) : option sess :=
  if p_cstore p then
    match get (p_ckey p) cs with
    | Some s => if s_nil s then None else Some s
    | None => None
    end
  else None.

Definition offered_id (o : option sess) : bid := match o with Some s => s_id s | None => 0 end.

(* handleHelloResume: does the server resume? *)
Definition srv_lookup (p : params) (ss : store) (sid : bid) : option sess :=
  if p_sstore p && negb (sid =? 0) then
    match get sid ss with
    | Some s => if s_nil s then None else Some s
    | None => None
    end
  else None.

(* the cryptographic idealisations used as PREMISES of the theorems (never assumed globally) *)
Definition reflects {A : Type} (eqb : A -> A -> bool) : Prop := forall a b, eqb a b = true <-> a = b.
Definition KB_injective {K : Type} (KB : secret -> N -> N -> K) : Prop :=
  forall m r s m' r' s', KB m r s = KB m' r' s' -> m = m' /\ r = r' /\ s = s'.
Definition VD_injective {V : Type} (VD : bool -> secret -> N * N * bid -> V) : Prop :=
  forall b m t b' m' t', VD b m t = VD b' m' t' -> b = b' /\ m = m' /\ t = t'.

Section Model.
  Variables K V : Type.
  Variable KB : secret -> N -> N -> K.             (* key block (master secret, client random, server random) *)
  Variable VD : bool -> secret -> N * N * bid -> V. (* verify_data (sender is client, master secret, transcript) *)
  Variable K_eqb : K -> K -> bool.                 (* a record sealed under one key block opens under the other *)
  Variable V_eqb : V -> V -> bool.                 (* bytes.Equal on verify_data *)

  (* what one side ends with.  [o_sid] is state.SessionID at the end (for a side that sent an alert:
     when it sent it).  [o_ms], [o_kb], connection ids are meaningful for established sides. *)
  Record side := mkSide {
    o_out : outcome; o_ms : secret; o_kb : option K; o_sid : bid; o_lcid : option N; o_rcid : option N }.

  Record result := mkResult {
    r_mode : mode; r_offered : bid; r_c : side; r_s : side; r_cops : list mop; r_sops : list mop }.

  (* DecideConnectionID: negotiated only when both sides sent the extension *)
  Definition nego (p : params) : option (N * N) :=
    match p_ccid p, p_scid p with Some c, Some s => Some (c, s) | _, _ => None end.

  (* conn.go notify: an alert sent before establishment is a plain, unprotected alert record also when
     connection ids are already committed (only protected records carry a connection id), so it
     reaches the peer. *)
  Definition c_side (p : params) (ms : secret) (kb : K) (sid : bid) : side :=
    mkSide Established ms (Some kb) sid (option_map fst (nego p)) (option_map snd (nego p)).
  Definition s_side (p : params) (ms : secret) (kb : K) (sid : bid) : side :=
    mkSide Established ms (Some kb) sid (option_map snd (nego p)) (option_map fst (nego p)).
  Definition idle (out : outcome) (sid : bid) : side := mkSide out 0 None sid None None.

  (* the server knows the offered session: flights ClientHello / ServerHello+CCS+Finished / CCS+Finished.
     No cookie exchange, no PSK callback, no certificate, no VerifyConnection, no SetSession. *)
  Definition conn_abbr (p : params) (oc os : sess) : result :=
    let sid := s_id oc in
    let kc := KB (s_sec oc) (p_rc p) (p_rs p) in
    let ks := KB (s_sec os) (p_rc p) (p_rs p) in
    let tr := (p_rc p, p_rs p, sid) in
    let R := mkResult Abbreviated sid in
    match p_fault p with
    | FAlpn => R (idle (RecvAlert 120) sid) (idle (SentAlert 120) sid) [] [MDel sid]
    | FEms =>
        if p_arr_s p then R (idle (SentAlert 71) sid) (idle (RecvAlert 71) sid) [MDel (p_ckey p)] []
        else R (idle Stalled sid) (idle Stalled sid) [] []
    | FShAlpn =>
        if p_arr_s p then R (idle (SentAlert 47) sid) (idle (RecvAlert 47) sid) [MDel (p_ckey p)] []
        else R (idle Stalled sid) (idle Stalled sid) [] []
    | _ =>
        if negb (p_arr_s p) then R (idle Stalled sid) (idle Stalled sid) [] [] else
        (* handleResumption: InitCipherSuite under the CLIENT's secret, then the queued Finished record *)
        if negb (K_eqb kc ks) then R (idle Stalled sid) (idle Stalled sid) [] [] else
        if negb (V_eqb (VD false (s_sec oc) tr) (VD false (s_sec os) tr)) then
          R (idle (SentAlert 40) sid) (idle (RecvAlert 40) sid) [MDel (p_ckey p)] [] else
        let C := c_side p (s_sec oc) kc sid in
        if negb (p_arr_c p) then R C (idle Stalled sid) [] [] else
        if negb (K_eqb ks kc) then R C (idle Stalled sid) [] [] else
        (* flight4bParse *)
        if negb (V_eqb (VD true (s_sec os) tr) (VD true (s_sec oc) tr)) then
          R C (idle (SentAlert 40) sid) [] [MDel sid] else
        R C (s_side p (s_sec os) ks sid) [] []
    end.

  (* full handshake; [off]: the session id the client offered (0: none) *)
  Definition conn_full (p : params) (off : bid) : result :=
    let nsid := if p_sstore p then p_newsid p else 0 in      (* ServerHello.session_id *)
    let csid := if p_cstore p then nsid else 0 in            (* client's state.SessionID after flight 4 *)
    let ssid := if p_ccert p then 0 else nsid in             (* server's state.SessionID after the client certificate *)
    let kc := KB (p_msc p) (p_rc p) (p_rs p) in
    let ks := KB (p_mss p) (p_rc p) (p_rs p) in
    let tr := (p_rc p, p_rs p, nsid) in
    (* flight3Parse "clean old session": DelSession(state.SessionID) - the key is the session id *)
    let wrongdel := if negb (off =? 0) then [MDel off] else [] in
    let cdel := if negb (csid =? 0) then [MDel (p_ckey p)] else [] in
    let srv_set := if negb (ssid =? 0) then [MSet ssid (mkSess false ssid (p_mss p))] else [] in
    let R := mkResult Full off in
    match p_fault p with
    | FAlpn => R (idle (RecvAlert 120) off) (idle (SentAlert 120) 0) [] []
    | FEms => R (idle (SentAlert 71) off) (idle (RecvAlert 71) nsid)
                (if negb (off =? 0) then [MDel (p_ckey p)] else []) []
    | FShAlpn => R (idle (SentAlert 47) off) (idle (RecvAlert 47) nsid)
                   (if negb (off =? 0) then [MDel (p_ckey p)] else []) []
    | FCVerify => R (idle (SentAlert 42) csid) (idle (RecvAlert 42) nsid) (wrongdel ++ cdel) []
    | f =>
        if negb (p_arr_c p) then R (idle Stalled csid) (idle Stalled nsid) wrongdel [] else
        (* flight4Parse: ClientKeyExchange -> master secret; the client's Finished record must open and its
           verify_data match; then the client-authentication policy and VerifyConnection; only THEN
           SetSession (a refused or silent client leaves no entry; the alert's DelSession finds nothing) *)
        if negb (K_eqb ks kc) then R (idle Stalled csid) (idle Stalled ssid) wrongdel [] else
        match (if negb (V_eqb (VD true (p_mss p) tr) (VD true (p_msc p) tr)) then Some 40
               else match f with FSPolicy => Some 41 | FSVerify => Some 42 | _ => None end) with
        | Some d =>
            R (idle (RecvAlert d) csid) (idle (SentAlert d) ssid) wrongdel
              (if negb (ssid =? 0) then [MDel ssid] else [])
        | None =>
            let S := s_side p (p_mss p) ks ssid in
            if negb (p_arr_s p) then R (idle Stalled csid) S wrongdel srv_set else
            if negb (K_eqb kc ks) then R (idle Stalled csid) S wrongdel srv_set else
            (* flight5Parse *)
            if negb (V_eqb (VD false (p_msc p) tr) (VD false (p_mss p) tr)) then
              R (idle (SentAlert 40) csid) S (wrongdel ++ cdel) srv_set else
            R (c_side p (p_msc p) kc csid) S
              (wrongdel ++ if negb (csid =? 0) then [MSet (p_ckey p) (mkSess false csid (p_msc p))] else [])
              srv_set
        end
    end.

  Definition conn (p : params) (cs ss : store) : result :=
    let oc := offer p cs in
    let off := offered_id oc in
    match p_fault p with
    | FSEms => mkResult Full off (idle (RecvAlert 71) off) (idle (SentAlert 71) 0) [] []
    | _ =>
        match oc, srv_lookup p ss off with
        | Some c, Some s => conn_abbr p c s
        | _, _ => conn_full p off
        end
    end.

  (* conn.go notify, reached from the RECORD path of an established connection as well (fatal
     unexpected_message for epoch-0 application data or an unhandled content type, decode_error for an
     undecodable record): level fatal and len(state.SessionID) > 0 -> DelSession(sessionKey()).
     [sid] is the side's state.SessionID. *)
  Definition alert_ops_client (p : params) (sid : bid) : list mop :=
    if negb (sid =? 0) then [MDel (p_ckey p)] else [].
  Definition alert_ops_server (sid : bid) : list mop :=
    if negb (sid =? 0) then [MDel sid] else [].

  Definition post_c (cs : store) (r : result) : store := apply_ops cs (r_cops r).
  Definition post_s (ss : store) (r : result) : store := apply_ops ss (r_sops r).

  (* histories: connections one after the other on the shared stores; between them anything may
     overwrite the stores (fresh / stale / swapped / truncated / foreign entries) *)
  Inductive event := Conn (p : params) | Mutate (cs ss : store).

  Record entry := mkEntry { e_p : params; e_cs : store; e_ss : store; e_r : result }.

  Fixpoint run (evs : list event) (cs ss : store) : list entry :=
    match evs with
    | [] => []
    | Mutate cs' ss' :: t => run t cs' ss'
    | Conn p :: t =>
        let r := conn p cs ss in
        mkEntry p cs ss r :: run t (post_c cs r) (post_s ss r)
    end.

  (* the stores after a history *)
  Fixpoint final (evs : list event) (cs ss : store) : store * store :=
    match evs with
    | [] => (cs, ss)
    | Mutate cs' ss' :: t => final t cs' ss'
    | Conn p :: t => let r := conn p cs ss in final t (post_c cs r) (post_s ss r)
    end.
End Model.

Arguments mkSide {K}.
Arguments o_out {K}. Arguments o_ms {K}. Arguments o_kb {K}. Arguments o_sid {K}.
Arguments o_lcid {K}. Arguments o_rcid {K}.
Arguments mkResult {K}.
Arguments r_mode {K}. Arguments r_offered {K}. Arguments r_c {K}. Arguments r_s {K}.
Arguments r_cops {K}. Arguments r_sops {K}.
Arguments post_c {K}. Arguments post_s {K}.
Arguments mkEntry {K}.
Arguments e_p {K}. Arguments e_cs {K}. Arguments e_ss {K}. Arguments e_r {K}.
