(* C14 - theorems about the resumption model Hs/C14Resume.v, for ALL store contents, ALL
   parameters and ALL histories.  Cryptographic idealisations are explicit premises (Section
   hypotheses that appear in the closed statements):
     K_eqb_spec / V_eqb_spec : a record opens exactly under the key block it was sealed with;
                               bytes.Equal decides equality of verify_data
     KB_inj                  : the key block determines (master secret, client random, server random)
     VD_inj                  : verify_data determines (direction, master secret, transcript) *)
From Coq Require Import List NArith Bool Lia.
From DtlsV Require Import Hs.C14Resume.
Import ListNotations.
Open Scope N_scope.

(* ------------------------------------------------------------------ stores *)

Lemma get_del_same : forall k st, get k (del k st) = None.
Proof.
  intros k st. induction st as [|[k' v] t IH]; cbn; [reflexivity|].
  destruct (k' =? k) eqn:E; cbn; [exact IH|]. rewrite E. exact IH.
Qed.

Lemma get_del_other : forall k k' st, k' <> k -> get k (del k' st) = get k st.
Proof.
  intros k k' st Hne. induction st as [|[k2 v] t IH]; cbn; [reflexivity|].
  destruct (k2 =? k') eqn:E; cbn.
  - apply N.eqb_eq in E. subst k2. destruct (k' =? k) eqn:E2; [apply N.eqb_eq in E2; contradiction|exact IH].
  - destruct (k2 =? k); [reflexivity|exact IH].
Qed.

Lemma get_set_same : forall k v st, get k (set k v st) = Some v.
Proof. intros. unfold set. cbn. rewrite N.eqb_refl. reflexivity. Qed.

Lemma get_set_other : forall k k' v st, k' <> k -> get k (set k' v st) = get k st.
Proof.
  intros k k' v st Hne. unfold set. cbn.
  destruct (k' =? k) eqn:E; [apply N.eqb_eq in E; contradiction|]. apply get_del_other. exact Hne.
Qed.

Lemma apply_ops_app : forall st a b, apply_ops st (a ++ b) = apply_ops (apply_ops st a) b.
Proof. intros. unfold apply_ops. apply fold_left_app. Qed.

Lemma get_after_final_del : forall st ops k, get k (apply_ops st (ops ++ [MDel k])) = None.
Proof. intros. rewrite apply_ops_app. cbn. apply get_del_same. Qed.

(* a key is untouched by operations on other keys *)
Definition op_key (o : mop) : bid := match o with MSet k _ => k | MDel k => k end.

Lemma get_apply_ops_other : forall ops st k,
  (forall o, In o ops -> op_key o <> k) -> get k (apply_ops st ops) = get k st.
Proof.
  induction ops as [|o t IH]; intros st k H; [reflexivity|].
  change (apply_ops st (o :: t)) with (apply_ops (apply_op st o) t).
  rewrite IH by (intros o' Ho'; apply H; right; exact Ho').
  assert (Ho : op_key o <> k) by (apply H; left; reflexivity).
  destruct o as [k' v|k']; cbn [apply_op op_key] in *; [apply get_set_other|apply get_del_other]; exact Ho.
Qed.

Section Sound.
  Variables K V : Type.
  Variable KB : secret -> N -> N -> K.
  Variable VD : bool -> secret -> N * N * bid -> V.
  Variable K_eqb : K -> K -> bool.
  Variable V_eqb : V -> V -> bool.

  Hypothesis K_eqb_spec : forall a b, K_eqb a b = true <-> a = b.
  Hypothesis V_eqb_spec : forall a b, V_eqb a b = true <-> a = b.
  Hypothesis KB_inj : forall m r s m' r' s', KB m r s = KB m' r' s' -> m = m' /\ r = r' /\ s = s'.
  Hypothesis VD_inj : forall b m t b' m' t', VD b m t = VD b' m' t' -> b = b' /\ m = m' /\ t = t'.

  Notation cabbr := (conn_abbr K V KB VD K_eqb V_eqb).
  Notation cfull := (conn_full K V KB VD K_eqb V_eqb).
  Notation cn := (conn K V KB VD K_eqb V_eqb).
  Notation hrun := (run K V KB VD K_eqb V_eqb).

  Ltac prj := cbn [r_mode r_offered r_c r_s r_cops r_sops o_out o_ms o_kb o_sid o_lcid o_rcid
                   c_side s_side idle] in *.

  Ltac brk :=
    prj; try discriminate;
    repeat (first
      [ match goal with
        | |- context [match p_fault ?p with _ => _ end] => destruct (p_fault p) eqn:?
        | |- context [if ?b then _ else _] => destruct b eqn:?
        end
      | match goal with
        | H : context [match p_fault ?p with _ => _ end] |- _ => destruct (p_fault p) eqn:?
        | H : context [if ?b then _ else _] |- _ => destruct b eqn:?
        end ];
      prj; try discriminate).

  (* ---------------------------------------------------------------- shape *)

  Lemma abbr_mode : forall p oc os, r_mode (cabbr p oc os) = Abbreviated.
  Proof. intros. unfold conn_abbr. brk; reflexivity. Qed.

  Lemma full_mode : forall p off, r_mode (cfull p off) = Full.
  Proof. intros. unfold conn_full. brk; reflexivity. Qed.

  Lemma conn_abbr_inv : forall p cs ss, r_mode (cn p cs ss) = Abbreviated ->
    exists oc os, offer p cs = Some oc /\ srv_lookup p ss (s_id oc) = Some os /\
                  cn p cs ss = cabbr p oc os.
  Proof.
    intros p cs ss H. unfold conn in *.
    destruct (p_fault p) eqn:Hf; try (cbn in H; discriminate);
    destruct (offer p cs) as [oc|] eqn:Ho; cbn [offered_id] in *;
      try (rewrite full_mode in H; discriminate);
    destruct (srv_lookup p ss (s_id oc)) as [os|] eqn:Hl;
      try (rewrite full_mode in H; discriminate);
    exists oc, os; repeat split; try assumption; reflexivity.
  Qed.

  Lemma conn_full_inv : forall p cs ss, r_mode (cn p cs ss) = Full ->
    p_fault p = FSEms \/
    (cn p cs ss = cfull p (offered_id (offer p cs)) /\
     (offer p cs = None \/ srv_lookup p ss (offered_id (offer p cs)) = None)).
  Proof.
    intros p cs ss H. unfold conn in *.
    destruct (p_fault p) eqn:Hf; try (left; reflexivity); right;
    destruct (offer p cs) as [oc|] eqn:Ho; cbn [offered_id] in *;
      try (split; [reflexivity|left; reflexivity]);
    destruct (srv_lookup p ss (s_id oc)) as [os|] eqn:Hl;
      try (split; [reflexivity|right; reflexivity]);
    rewrite abbr_mode in H; discriminate.
  Qed.

  Lemma offered_is_offer : forall p cs ss, r_offered (cn p cs ss) = offered_id (offer p cs).
  Proof.
    intros. unfold conn.
    destruct (p_fault p); try reflexivity;
    destruct (offer p cs) as [oc|]; cbn [offered_id];
      try (unfold conn_full; brk; reflexivity);
    destruct (srv_lookup p ss (s_id oc)); unfold conn_abbr, conn_full; brk; reflexivity.
  Qed.

  (* ---------------------------------------------------------------- abbreviated handshake *)

  Definition tr_of (p : params) (sid : bid) : N * N * bid := (p_rc p, p_rs p, sid).

  (* the client of an abbreviated handshake returns nil only after the server's Finished record
     opened under the key block of the client's STORED secret and its verify_data matched *)
  Lemma abbr_client_established : forall p oc os,
    o_out (r_c (cabbr p oc os)) = Established ->
    K_eqb (KB (s_sec oc) (p_rc p) (p_rs p)) (KB (s_sec os) (p_rc p) (p_rs p)) = true /\
    V_eqb (VD false (s_sec oc) (tr_of p (s_id oc))) (VD false (s_sec os) (tr_of p (s_id oc))) = true /\
    r_c (cabbr p oc os) = c_side K p (s_sec oc) (KB (s_sec oc) (p_rc p) (p_rs p)) (s_id oc).
  Proof.
    intros p oc os H. unfold conn_abbr, tr_of in *.
    brk; repeat split; try reflexivity;
      repeat match goal with H : negb _ = false |- _ => apply negb_false_iff in H end; assumption.
  Qed.

  Lemma abbr_server_established : forall p oc os,
    o_out (r_s (cabbr p oc os)) = Established ->
    o_out (r_c (cabbr p oc os)) = Established /\
    K_eqb (KB (s_sec os) (p_rc p) (p_rs p)) (KB (s_sec oc) (p_rc p) (p_rs p)) = true /\
    V_eqb (VD true (s_sec os) (tr_of p (s_id oc))) (VD true (s_sec oc) (tr_of p (s_id oc))) = true /\
    r_s (cabbr p oc os) = s_side K p (s_sec os) (KB (s_sec os) (p_rc p) (p_rs p)) (s_id oc).
  Proof.
    intros p oc os H. unfold conn_abbr, tr_of in *.
    brk; repeat split; try reflexivity;
      repeat match goal with H : negb _ = false |- _ => apply negb_false_iff in H end; assumption.
  Qed.

  (* by the Finished check alone *)
  Lemma abbr_client_secret_by_finished : forall p oc os,
    o_out (r_c (cabbr p oc os)) = Established -> s_sec oc = s_sec os.
  Proof.
    intros p oc os H. destruct (abbr_client_established _ _ _ H) as (_ & Hv & _).
    apply V_eqb_spec in Hv. apply VD_inj in Hv. tauto.
  Qed.

  (* by record protection alone *)
  Lemma abbr_client_secret_by_keys : forall p oc os,
    o_out (r_c (cabbr p oc os)) = Established -> s_sec oc = s_sec os.
  Proof.
    intros p oc os H. destruct (abbr_client_established _ _ _ H) as (Hk & _ & _).
    apply K_eqb_spec in Hk. apply KB_inj in Hk. tauto.
  Qed.

  (* resume_keys_agree: an abbreviated handshake that either side reports as established used
     ONE master secret - the one both stores hold for the offered session id -, the client
     checked the server's Finished and (if the server is established) the server checked the
     client's; both sides hold the same key block. *)
  Theorem resume_keys_agree : forall p cs ss,
    r_mode (cn p cs ss) = Abbreviated ->
    o_out (r_c (cn p cs ss)) = Established \/ o_out (r_s (cn p cs ss)) = Established ->
    exists oc os,
      offer p cs = Some oc /\ srv_lookup p ss (s_id oc) = Some os /\
      s_sec oc = s_sec os /\
      o_out (r_c (cn p cs ss)) = Established /\
      o_ms (r_c (cn p cs ss)) = s_sec oc /\
      o_kb (r_c (cn p cs ss)) = Some (KB (s_sec oc) (p_rc p) (p_rs p)) /\
      V_eqb (VD false (s_sec oc) (tr_of p (s_id oc))) (VD false (s_sec os) (tr_of p (s_id oc))) = true /\
      (o_out (r_s (cn p cs ss)) = Established ->
         o_ms (r_s (cn p cs ss)) = s_sec os /\
         o_kb (r_s (cn p cs ss)) = o_kb (r_c (cn p cs ss)) /\
         V_eqb (VD true (s_sec os) (tr_of p (s_id oc))) (VD true (s_sec oc) (tr_of p (s_id oc))) = true).
  Proof.
    intros p cs ss Hm He.
    destruct (conn_abbr_inv _ _ _ Hm) as (oc & os & Ho & Hl & Hc).
    rewrite Hc in *. exists oc, os.
    assert (Hce : o_out (r_c (cabbr p oc os)) = Established).
    { destruct He as [He|He]; [exact He|]. apply abbr_server_established in He. tauto. }
    pose proof (abbr_client_secret_by_finished _ _ _ Hce) as Hs.
    destruct (abbr_client_established _ _ _ Hce) as (Hk & Hv & Hcs).
    repeat split; try assumption.
    - rewrite Hcs. reflexivity.
    - rewrite Hcs. reflexivity.
    - destruct (abbr_server_established _ _ _ H) as (_ & _ & _ & Hss). rewrite Hss. reflexivity.
    - destruct (abbr_server_established _ _ _ H) as (_ & _ & _ & Hss). rewrite Hss, Hcs. cbn. rewrite Hs. reflexivity.
    - destruct (abbr_server_established _ _ _ H) as (_ & _ & Hv2 & _). exact Hv2.
  Qed.

  (* mismatch_never_established: the server knows the offered id but the two stored secrets
     differ -> NEITHER side ever reports the connection as established (whatever the fault, whatever
     arrives).  Premise: record protection (K_eqb_spec, KB_inj). *)
  Theorem mismatch_never_established : forall p cs ss oc os,
    offer p cs = Some oc -> srv_lookup p ss (s_id oc) = Some os -> s_sec oc <> s_sec os ->
    o_out (r_c (cn p cs ss)) <> Established /\ o_out (r_s (cn p cs ss)) <> Established.
  Proof.
    intros p cs ss oc os Ho Hl Hne.
    assert (Hc : p_fault p = FSEms \/ cn p cs ss = cabbr p oc os).
    { unfold conn. rewrite Ho. cbn [offered_id]. rewrite Hl. destruct (p_fault p); auto. }
    destruct Hc as [Hf|Hc].
    - unfold conn. rewrite Hf. prj. split; discriminate.
    - rewrite Hc. split; intro He.
      + apply Hne. eapply abbr_client_secret_by_keys. exact He.
      + apply abbr_server_established in He. destruct He as (He & _).
        apply Hne. eapply abbr_client_secret_by_keys. exact He.
  Qed.

  (* the same conclusion from the Finished check alone *)
  Theorem mismatch_never_established_by_finished : forall p cs ss oc os,
    offer p cs = Some oc -> srv_lookup p ss (s_id oc) = Some os -> s_sec oc <> s_sec os ->
    o_out (r_c (cn p cs ss)) <> Established /\ o_out (r_s (cn p cs ss)) <> Established.
  Proof.
    intros p cs ss oc os Ho Hl Hne.
    assert (Hc : p_fault p = FSEms \/ cn p cs ss = cabbr p oc os).
    { unfold conn. rewrite Ho. cbn [offered_id]. rewrite Hl. destruct (p_fault p); auto. }
    destruct Hc as [Hf|Hc].
    - unfold conn. rewrite Hf. prj. split; discriminate.
    - rewrite Hc. split; intro He.
      + apply Hne. eapply abbr_client_secret_by_finished. exact He.
      + apply abbr_server_established in He. destruct He as (He & _).
        apply Hne. eapply abbr_client_secret_by_finished. exact He.
  Qed.

  (* What the code does on a mismatch when nothing else goes wrong: the client cannot open the
     server's Finished record, so the verify_data comparison of handleResumption is never reached;
     nobody sends an alert, both sides retransmit until their callers give up, and NO store entry is
     removed. *)
  Definition plain (p : params) : Prop :=
    p_fault p = NoFault \/ p_fault p = FSVerify \/ p_fault p = FCVerify \/ p_fault p = FSPolicy.

  Theorem mismatch_stalls_without_eviction : forall p cs ss oc os,
    plain p -> offer p cs = Some oc -> srv_lookup p ss (s_id oc) = Some os -> s_sec oc <> s_sec os ->
    let r := cn p cs ss in
    r_mode r = Abbreviated /\ o_out (r_c r) = Stalled /\ o_out (r_s r) = Stalled /\
    r_cops r = [] /\ r_sops r = [].
  Proof.
    intros p cs ss oc os Hp Ho Hl Hne.
    assert (Hk : K_eqb (KB (s_sec oc) (p_rc p) (p_rs p)) (KB (s_sec os) (p_rc p) (p_rs p)) = false).
    { destruct (K_eqb _ _) eqn:E; [|reflexivity]. apply K_eqb_spec in E. apply KB_inj in E. tauto. }
    cbv zeta. unfold conn. rewrite Ho. cbn [offered_id]. rewrite Hl.
    destruct Hp as [Hf|[Hf|[Hf|Hf]]]; rewrite Hf; unfold conn_abbr; rewrite Hf, Hk;
      destruct (p_arr_s p); cbn; repeat split; reflexivity.
  Qed.

  (* ---------------------------------------------------------------- fallback *)

  (* unknown_session_falls_back: the server does not resume the offered id (no store, unknown id,
     nil entry) -> full handshake; a side that establishes holds the master secret derived in THIS
     connection (a parameter of the connection, not a function of the stores), under this
     connection's randoms, and when both establish they agree on it. *)
  Theorem unknown_session_falls_back : forall p cs ss,
    srv_lookup p ss (offered_id (offer p cs)) = None ->
    let r := cn p cs ss in
    r_mode r = Full /\
    (o_out (r_c r) = Established ->
       o_ms (r_c r) = p_msc p /\ o_kb (r_c r) = Some (KB (p_msc p) (p_rc p) (p_rs p)) /\ p_msc p = p_mss p) /\
    (o_out (r_s r) = Established ->
       o_ms (r_s r) = p_mss p /\ o_kb (r_s r) = Some (KB (p_mss p) (p_rc p) (p_rs p)) /\ p_msc p = p_mss p).
  Proof.
    intros p cs ss Hl. cbv zeta.
    assert (Hc : p_fault p = FSEms \/ cn p cs ss = cfull p (offered_id (offer p cs))).
    { unfold conn. destruct (p_fault p); auto; right;
        destruct (offer p cs) as [oc|]; cbn [offered_id] in *; try reflexivity; rewrite Hl; reflexivity. }
    destruct Hc as [Hf|Hc].
    - unfold conn. rewrite Hf. prj. repeat split; intros; try discriminate; reflexivity.
    - rewrite Hc. split; [apply full_mode|].
      unfold conn_full.
      split; intro He; brk; repeat split; try reflexivity;
        repeat match goal with H : negb _ = false |- _ => apply negb_false_iff in H end;
        match goal with H : K_eqb _ _ = true |- _ => apply K_eqb_spec in H; apply KB_inj in H; intuition congruence end.
  Qed.

  (* the result of a fallback does not depend on what the stale entry contained: whatever session
     id was offered (and whatever secret was stored with it - it is not even an argument), both
     outcomes, the server's store operations and every established side (master secret, key block,
     session id, connection ids) are the same *)
  Theorem fallback_independent_of_stale_entry : forall p off off',
    let r := cfull p off in let r' := cfull p off' in
    o_out (r_c r) = o_out (r_c r') /\ o_out (r_s r) = o_out (r_s r') /\ r_sops r = r_sops r' /\
    (o_out (r_c r) = Established -> r_c r = r_c r') /\
    (o_out (r_s r) = Established -> r_s r = r_s r').
  Proof.
    intros p off off'. cbv zeta. unfold conn_full.
    destruct (p_fault p); brk; repeat split; intros; try discriminate; reflexivity.
  Qed.

  (* ---------------------------------------------------------------- keys and connection ids *)

  (* every established side's key block is KB(its master secret, the randoms of THIS connection) *)
  Theorem keys_from_this_connection : forall p cs ss,
    let r := cn p cs ss in
    (o_out (r_c r) = Established -> o_kb (r_c r) = Some (KB (o_ms (r_c r)) (p_rc p) (p_rs p))) /\
    (o_out (r_s r) = Established -> o_kb (r_s r) = Some (KB (o_ms (r_s r)) (p_rc p) (p_rs p))).
  Proof.
    intros p cs ss. cbv zeta. unfold conn.
    destruct (p_fault p) eqn:Hf; try (prj; split; intro; discriminate);
    (destruct (offer p cs) as [oc|]; cbn [offered_id];
     [destruct (srv_lookup p ss (s_id oc)) as [os|]|]);
    unfold conn_abbr, conn_full; rewrite Hf; split; intro He; brk; reflexivity.
  Qed.

  (* fresh_randoms_fresh_keys: two connections (anywhere, any stores - in particular two
     resumptions of the same session) whose hello randoms differ have different key blocks *)
  Theorem fresh_randoms_fresh_keys : forall p1 cs1 ss1 p2 cs2 ss2 k1 k2,
    o_out (r_c (cn p1 cs1 ss1)) = Established -> o_out (r_c (cn p2 cs2 ss2)) = Established ->
    o_kb (r_c (cn p1 cs1 ss1)) = Some k1 -> o_kb (r_c (cn p2 cs2 ss2)) = Some k2 ->
    (p_rc p1, p_rs p1) <> (p_rc p2, p_rs p2) -> k1 <> k2.
  Proof.
    intros p1 cs1 ss1 p2 cs2 ss2 k1 k2 H1 H2 K1 K2 Hr Heq.
    destruct (keys_from_this_connection p1 cs1 ss1) as (A & _).
    destruct (keys_from_this_connection p2 cs2 ss2) as (B & _).
    rewrite (A H1) in K1. rewrite (B H2) in K2.
    injection K1 as <-. injection K2 as <-. apply KB_inj in Heq.
    destruct Heq as (_ & E1 & E2). apply Hr. rewrite E1, E2. reflexivity.
  Qed.

  Theorem fresh_randoms_fresh_keys_server : forall p1 cs1 ss1 p2 cs2 ss2 k1 k2,
    o_out (r_s (cn p1 cs1 ss1)) = Established -> o_out (r_s (cn p2 cs2 ss2)) = Established ->
    o_kb (r_s (cn p1 cs1 ss1)) = Some k1 -> o_kb (r_s (cn p2 cs2 ss2)) = Some k2 ->
    (p_rc p1, p_rs p1) <> (p_rc p2, p_rs p2) -> k1 <> k2.
  Proof.
    intros p1 cs1 ss1 p2 cs2 ss2 k1 k2 H1 H2 K1 K2 Hr Heq.
    destruct (keys_from_this_connection p1 cs1 ss1) as (_ & A).
    destruct (keys_from_this_connection p2 cs2 ss2) as (_ & B).
    rewrite (A H1) in K1. rewrite (B H2) in K2.
    injection K1 as <-. injection K2 as <-. apply KB_inj in Heq.
    destruct Heq as (_ & E1 & E2). apply Hr. rewrite E1, E2. reflexivity.
  Qed.

  (* cids_renegotiated: the connection ids of an established side are those exchanged in the hellos
     of this connection (nothing of the stores enters) *)
  Theorem cids_renegotiated : forall p cs ss,
    let r := cn p cs ss in
    (o_out (r_c r) = Established ->
       o_lcid (r_c r) = option_map fst (nego p) /\ o_rcid (r_c r) = option_map snd (nego p)) /\
    (o_out (r_s r) = Established ->
       o_lcid (r_s r) = option_map snd (nego p) /\ o_rcid (r_s r) = option_map fst (nego p)).
  Proof.
    intros p cs ss. cbv zeta. unfold conn.
    destruct (p_fault p) eqn:Hf; try (prj; split; intro; discriminate);
    (destruct (offer p cs) as [oc|]; cbn [offered_id];
     [destruct (srv_lookup p ss (s_id oc)) as [os|]|]);
    unfold conn_abbr, conn_full; rewrite Hf; split; intro He; brk; split; reflexivity.
  Qed.

  (* ---------------------------------------------------------------- eviction *)

  Lemma get_wrongdel_then_del : forall (cs : store) (pre : list mop) k,
    get k (apply_ops cs (pre ++ [MDel k])) = None.
  Proof. intros. apply get_after_final_del. Qed.

  (* fatal_alert_evicts (client): the client sent a fatal alert while its state.SessionID was not
     empty -> its store has no entry under this connection's key afterwards *)
  Theorem fatal_alert_evicts_client : forall p cs ss d,
    let r := cn p cs ss in
    o_out (r_c r) = SentAlert d -> o_sid (r_c r) <> 0 -> get (p_ckey p) (post_c cs r) = None.
  Proof.
    intros p cs ss d. cbv zeta. unfold post_c, conn.
    destruct (p_fault p) eqn:Hf; try (prj; intro; discriminate);
    (destruct (offer p cs) as [oc|]; cbn [offered_id];
     [destruct (srv_lookup p ss (s_id oc)) as [os|]|]);
    unfold conn_abbr, conn_full; rewrite Hf; intros He Hs; brk;
      try (exfalso; apply Hs; reflexivity);
      try (apply (get_after_final_del cs []));
      try (apply (get_after_final_del cs [MDel _]));
      try (rewrite app_nil_r in *; apply (get_after_final_del cs []));
      try (cbn; apply get_del_same);
      try (exfalso; apply Hs; apply N.eqb_eq; apply negb_false_iff; assumption).
  Qed.

  (* fatal_alert_evicts (server) *)
  Theorem fatal_alert_evicts_server : forall p cs ss d,
    let r := cn p cs ss in
    o_out (r_s r) = SentAlert d -> o_sid (r_s r) <> 0 -> get (o_sid (r_s r)) (post_s ss r) = None.
  Proof.
    intros p cs ss d. cbv zeta. unfold post_s, conn.
    destruct (p_fault p) eqn:Hf; try (prj; intros ? Hs; exfalso; apply Hs; reflexivity);
    (destruct (offer p cs) as [oc|]; cbn [offered_id];
     [destruct (srv_lookup p ss (s_id oc)) as [os|]|]);
    unfold conn_abbr, conn_full; rewrite Hf; intros He Hs; brk;
      try (exfalso; apply Hs; reflexivity);
      try (cbn; apply get_del_same);
      try (apply (get_after_final_del ss [MSet _ _]));
      try (exfalso; apply Hs; apply N.eqb_eq; apply negb_false_iff; assumption).
  Qed.

  (* hence not offered next time: any later connection under the same key (no other writer in
     between) carries an empty session id ... *)
  Theorem evicted_not_offered : forall p cs ss d p',
    let r := cn p cs ss in
    o_out (r_c r) = SentAlert d -> o_sid (r_c r) <> 0 -> p_ckey p' = p_ckey p ->
    forall ss', r_offered (cn p' (post_c cs r) ss') = 0.
  Proof.
    intros p cs ss d p' r He Hs Hk ss'. rewrite offered_is_offer.
    unfold offer. rewrite Hk. subst r. rewrite (fatal_alert_evicts_client p cs ss d He Hs).
    destruct (p_cstore p'); reflexivity.
  Qed.

  (* ... and a session the server evicted is not resumed again *)
  Theorem evicted_not_resumed : forall p cs ss d p' cs',
    let r := cn p cs ss in
    o_out (r_s r) = SentAlert d -> o_sid (r_s r) <> 0 ->
    offered_id (offer p' cs') = o_sid (r_s r) ->
    r_mode (cn p' cs' (post_s ss r)) = Full.
  Proof.
    intros p cs ss d p' cs' r He Hs Ho.
    apply unknown_session_falls_back. rewrite Ho. unfold srv_lookup.
    subst r. rewrite (fatal_alert_evicts_server p cs ss d He Hs).
    destruct (p_sstore p' && _); reflexivity.
  Qed.

  (* fatal alerts of the RECORD path on an established connection (conn.go notify reached from
     processIncomingPacket: unexpected_message, decode_error): the sender's store loses the session *)
  Theorem record_alert_evicts_client : forall p cs ss,
    let r := cn p cs ss in
    o_out (r_c r) = Established -> o_sid (r_c r) <> 0 ->
    get (p_ckey p) (apply_ops (post_c cs r) (alert_ops_client p (o_sid (r_c r)))) = None.
  Proof.
    intros p cs ss r _ Hs. unfold alert_ops_client.
    destruct (o_sid (r_c r) =? 0) eqn:E; [apply N.eqb_eq in E; contradiction|].
    cbn. apply get_del_same.
  Qed.

  Theorem record_alert_evicts_server : forall p cs ss,
    let r := cn p cs ss in
    o_out (r_s r) = Established -> o_sid (r_s r) <> 0 ->
    get (o_sid (r_s r)) (apply_ops (post_s ss r) (alert_ops_server (o_sid (r_s r)))) = None.
  Proof.
    intros p cs ss r _ Hs. unfold alert_ops_server.
    destruct (o_sid (r_s r) =? 0) eqn:E; [apply N.eqb_eq in E; contradiction|].
    cbn. apply get_del_same.
  Qed.

  (* ... so the next ClientHello under that key is empty, and the server does not resume the id *)
  Theorem record_alert_not_offered : forall p cs ss p' ss',
    let r := cn p cs ss in
    o_out (r_c r) = Established -> o_sid (r_c r) <> 0 -> p_ckey p' = p_ckey p ->
    r_offered (cn p' (apply_ops (post_c cs r) (alert_ops_client p (o_sid (r_c r)))) ss') = 0.
  Proof.
    intros p cs ss p' ss' r He Hs Hk. rewrite offered_is_offer. unfold offer. rewrite Hk.
    subst r. rewrite (record_alert_evicts_client p cs ss He Hs). destruct (p_cstore p'); reflexivity.
  Qed.

  Theorem record_alert_not_resumed : forall p cs ss p' cs',
    let r := cn p cs ss in
    o_out (r_s r) = Established -> o_sid (r_s r) <> 0 ->
    offered_id (offer p' cs') = o_sid (r_s r) ->
    r_mode (cn p' cs' (apply_ops (post_s ss r) (alert_ops_server (o_sid (r_s r))))) = Full.
  Proof.
    intros p cs ss p' cs' r He Hs Ho.
    apply unknown_session_falls_back. rewrite Ho. unfold srv_lookup.
    subst r. rewrite (record_alert_evicts_server p cs ss He Hs).
    destruct (p_sstore p' && _); reflexivity.
  Qed.

  (* ---------------------------------------------------------------- what is stored *)

  Definition is_set (o : mop) : bool := match o with MSet _ _ => true | MDel _ => false end.

  (* client_cert_not_stored: a full handshake in which the client presented a certificate leaves
     no session on the server *)
  Theorem client_cert_not_stored : forall p cs ss,
    p_ccert p = true -> r_mode (cn p cs ss) = Full ->
    r_sops (cn p cs ss) = [] /\ post_s ss (cn p cs ss) = ss /\
    (o_out (r_s (cn p cs ss)) = Established -> o_sid (r_s (cn p cs ss)) = 0).
  Proof.
    intros p cs ss Hc Hm.
    destruct (conn_full_inv _ _ _ Hm) as [Hf|(Hr & _)].
    - unfold post_s, conn. rewrite Hf. prj. repeat split; intros; try discriminate; reflexivity.
    - rewrite Hr. unfold post_s, conn_full. rewrite Hc. cbn [negb N.eqb].
      destruct (p_fault p) eqn:Hf; brk; repeat split; intros; try discriminate; reflexivity.
  Qed.

  (* ---------------------------------------------------------------- what enters the SERVER's store *)

  (* flight4Parse saves the session as its LAST step: the server writes a session only in a full
     handshake that it accepted - the client's Finished record opened under the server's key block,
     its verify_data matched the server's transcript, neither the authentication policy nor
     VerifyConnection refused, no client Certificate message - and then under the id and with the
     master secret of THIS connection. *)
  Theorem server_stores_only_verified : forall p cs ss k v,
    In (MSet k v) (r_sops (cn p cs ss)) ->
    r_mode (cn p cs ss) = Full /\ o_out (r_s (cn p cs ss)) = Established /\
    k = p_newsid p /\ s_id v = p_newsid p /\ s_sec v = p_mss p /\ s_nil v = false /\
    p_ccert p = false /\ p_fault p <> FSPolicy /\ p_fault p <> FSVerify /\ p_arr_c p = true /\
    K_eqb (KB (p_mss p) (p_rc p) (p_rs p)) (KB (p_msc p) (p_rc p) (p_rs p)) = true /\
    V_eqb (VD true (p_mss p) (p_rc p, p_rs p, p_newsid p)) (VD true (p_msc p) (p_rc p, p_rs p, p_newsid p)) = true.
  Proof.
    intros p cs ss k v. unfold conn.
    destruct (p_fault p) eqn:Hf; try (prj; intros []);
    (destruct (offer p cs) as [oc|]; cbn [offered_id];
     [destruct (srv_lookup p ss (s_id oc)) as [os|]|]);
    unfold conn_abbr, conn_full; rewrite Hf; intro Hin; brk;
      cbn in *; try discriminate;
      repeat match goal with
             | H : _ \/ _ |- _ => destruct H
             | H : False |- _ => destruct H
             | H : MDel _ = MSet _ _ |- _ => discriminate H
             | H : MSet _ _ = MSet _ _ |- _ => injection H as <- <-
             end;
      repeat match goal with H : negb _ = false |- _ => apply negb_false_iff in H end;
      cbn; repeat split; try reflexivity; try assumption; try discriminate.
  Qed.

  (* hence (injectivity) client and server derived the same master secret in that handshake *)
  Corollary server_stored_secret_is_shared : forall p cs ss k v,
    In (MSet k v) (r_sops (cn p cs ss)) -> s_sec v = p_msc p /\ s_sec v = p_mss p.
  Proof.
    intros p cs ss k v H. destruct (server_stores_only_verified _ _ _ _ _ H)
      as (_ & _ & _ & _ & Hs & _ & _ & _ & _ & _ & _ & Hv).
    apply V_eqb_spec in Hv. apply VD_inj in Hv. destruct Hv as (_ & E & _). rewrite Hs. auto.
  Qed.

  (* a connection the server did not accept (refused by the policy or by VerifyConnection, Finished
     mismatch, client that never completes, any alert) adds nothing resumable: whatever the server
     would resume afterwards it would have resumed before *)
  Lemma get_del_some : forall k k' st v, get k (del k' st) = Some v -> get k st = Some v.
  Proof.
    intros k k' st v H. destruct (N.eq_dec k' k) as [->|Hn].
    - rewrite get_del_same in H. discriminate.
    - rewrite get_del_other in H by exact Hn. exact H.
  Qed.

  Lemma get_apply_ops_cases : forall ops st k v,
    get k (apply_ops st ops) = Some v -> get k st = Some v \/ In (MSet k v) ops.
  Proof.
    induction ops as [|o t IH]; intros st k v H; [left; exact H|].
    change (apply_ops st (o :: t)) with (apply_ops (apply_op st o) t) in H.
    destruct (IH _ _ _ H) as [H1|H1]; [|right; right; exact H1].
    destruct o as [k' v'|k']; cbn [apply_op] in H1.
    - destruct (N.eq_dec k' k) as [->|Hn].
      + rewrite get_set_same in H1. injection H1 as ->. right. left. reflexivity.
      + rewrite get_set_other in H1 by exact Hn. left. exact H1.
    - left. eapply get_del_some. exact H1.
  Qed.

  Theorem refused_client_leaves_no_entry : forall p cs ss,
    o_out (r_s (cn p cs ss)) <> Established ->
    forall k v, get k (post_s ss (cn p cs ss)) = Some v -> get k ss = Some v.
  Proof.
    intros p cs ss Hne k v H. unfold post_s in H.
    destruct (get_apply_ops_cases _ _ _ _ H) as [H1|H1]; [exact H1|].
    apply server_stores_only_verified in H1. destruct H1 as (_ & He & _). contradiction.
  Qed.

  Corollary refused_client_cannot_resume : forall p cs ss p' sid os,
    o_out (r_s (cn p cs ss)) <> Established ->
    srv_lookup p' (post_s ss (cn p cs ss)) sid = Some os -> srv_lookup p' ss sid = Some os.
  Proof.
    intros p cs ss p' sid os Hne. unfold srv_lookup.
    destruct (p_sstore p' && negb (sid =? 0)); [|discriminate].
    destruct (get sid (post_s ss (cn p cs ss))) as [s|] eqn:E; [|discriminate].
    rewrite (refused_client_leaves_no_entry p cs ss Hne sid s E). auto.
  Qed.

  (* an abbreviated handshake never writes a session *)
  Theorem abbreviated_never_stores : forall p cs ss,
    r_mode (cn p cs ss) = Abbreviated ->
    forallb (fun o => negb (is_set o)) (r_cops (cn p cs ss) ++ r_sops (cn p cs ss)) = true.
  Proof.
    intros p cs ss Hm. destruct (conn_abbr_inv _ _ _ Hm) as (oc & os & _ & _ & Hc).
    rewrite Hc. unfold conn_abbr. brk; reflexivity.
  Qed.

  (* a session is written only by a full handshake that the writer completed (server: at the
     ClientKeyExchange; client: after the server's Finished) and always with the master secret and
     the session id of THIS connection *)
  Theorem stored_sessions_are_fresh : forall p cs ss k v,
    In (MSet k v) (r_cops (cn p cs ss)) ->
      k = p_ckey p /\ s_sec v = p_msc p /\ s_id v = p_newsid p /\ s_nil v = false /\
      o_out (r_c (cn p cs ss)) = Established /\ r_mode (cn p cs ss) = Full.
  Proof.
    intros p cs ss k v. unfold conn.
    destruct (p_fault p) eqn:Hf; try (prj; intros []);
    (destruct (offer p cs) as [oc|]; cbn [offered_id];
     [destruct (srv_lookup p ss (s_id oc)) as [os|]|]);
    unfold conn_abbr, conn_full; rewrite Hf; intro Hin; brk;
      cbn in *; try discriminate;
      repeat match goal with
             | H : _ \/ _ |- _ => destruct H
             | H : False |- _ => destruct H
             | H : MDel _ = MSet _ _ |- _ => discriminate H
             | H : MSet _ _ = MSet _ _ |- _ => injection H as <- <-
             end;
      cbn; repeat split; reflexivity.
  Qed.

  (* ---------------------------------------------------------------- histories *)

  Lemma run_all : forall (P : params -> store -> store -> result K -> Prop),
    (forall p cs ss, P p cs ss (cn p cs ss)) ->
    forall evs cs ss e, In e (hrun evs cs ss) -> P (e_p e) (e_cs e) (e_ss e) (e_r e).
  Proof.
    intros P HP evs. induction evs as [|ev t IH]; intros cs ss e Hin; [destruct Hin|].
    destruct ev as [p|cs' ss']; cbn in Hin.
    - destruct Hin as [<-|Hin]; [cbn; apply HP|eapply IH; exact Hin].
    - eapply IH; exact Hin.
  Qed.

  Lemma run_entry_is_conn : forall evs cs ss e, In e (hrun evs cs ss) ->
    e_r e = cn (e_p e) (e_cs e) (e_ss e).
  Proof.
    intros evs cs ss e H.
    apply (run_all (fun p c s r => r = cn p c s) (fun p c s => eq_refl) evs cs ss e H).
  Qed.

  Lemma run_app : forall pre rest cs ss, exists cs' ss',
    hrun (pre ++ rest) cs ss = hrun pre cs ss ++ hrun rest cs' ss'.
  Proof.
    induction pre as [|ev t IH]; intros rest cs ss; [exists cs, ss; reflexivity|].
    destruct ev as [p|c s]; cbn.
    - destruct (IH rest (post_c cs (cn p cs ss)) (post_s ss (cn p cs ss))) as (c' & s' & E).
      exists c', s'. rewrite E. reflexivity.
    - destruct (IH rest c s) as (c' & s' & E). exists c', s'. exact E.
  Qed.

  Notation hfinal := (final K V KB VD K_eqb V_eqb).

  (* provenance of the SERVER's store: after any history of connections (no other writer), every
     entry either was there initially or was written by a connection of the history ... *)
  Theorem server_store_provenance : forall ps cs ss k v,
    get k (snd (hfinal (map Conn ps) cs ss)) = Some v ->
    get k ss = Some v \/ exists e, In e (hrun (map Conn ps) cs ss) /\ In (MSet k v) (r_sops (e_r e)).
  Proof.
    induction ps as [|p t IH]; intros cs ss k v H; [left; exact H|].
    cbn [map final run] in *.
    destruct (IH _ _ _ _ H) as [H1|(e & Hin & Hs)].
    - unfold post_s in H1. destruct (get_apply_ops_cases _ _ _ _ H1) as [H2|H2]; [left; exact H2|].
      right. eexists. split; [left; reflexivity|exact H2].
    - right. exists e. split; [right; exact Hin|exact Hs].
  Qed.

  (* ... so, starting from an empty server store, EVERY session the server can resume was created by
     a full handshake of the history that the server accepted: the client's Finished was verified
     against the server's transcript, the client met the authentication policy and VerifyConnection,
     and the stored secret is the master secret both sides derived in that handshake. *)
  Theorem server_sessions_all_verified : forall ps cs k v,
    get k (snd (hfinal (map Conn ps) cs [])) = Some v ->
    exists e, In e (hrun (map Conn ps) cs []) /\
      r_mode (e_r e) = Full /\ o_out (r_s (e_r e)) = Established /\
      k = p_newsid (e_p e) /\ s_sec v = p_mss (e_p e) /\ s_sec v = p_msc (e_p e) /\
      p_fault (e_p e) <> FSPolicy /\ p_fault (e_p e) <> FSVerify /\ p_ccert (e_p e) = false /\
      V_eqb (VD true (p_mss (e_p e)) (p_rc (e_p e), p_rs (e_p e), p_newsid (e_p e)))
            (VD true (p_msc (e_p e)) (p_rc (e_p e), p_rs (e_p e), p_newsid (e_p e))) = true.
  Proof.
    intros ps cs k v H. destruct (server_store_provenance _ _ _ _ _ H) as [H1|(e & Hin & Hs)]; [discriminate|].
    exists e. split; [exact Hin|]. rewrite (run_entry_is_conn _ _ _ _ Hin) in *.
    destruct (server_stored_secret_is_shared _ _ _ _ _ Hs) as (Ec & Es).
    destruct (server_stores_only_verified _ _ _ _ _ Hs) as (A & B & C & _ & _ & _ & D & E & F & _ & _ & G).
    repeat split; assumption.
  Qed.

  (* over every history and every store content (the stores may be overwritten arbitrarily between
     connections): every connection of the history satisfies the per-connection statements *)
  Theorem history_resume_keys_agree : forall evs cs0 ss0 e, In e (hrun evs cs0 ss0) ->
    r_mode (e_r e) = Abbreviated ->
    o_out (r_c (e_r e)) = Established \/ o_out (r_s (e_r e)) = Established ->
    exists oc os,
      offer (e_p e) (e_cs e) = Some oc /\ srv_lookup (e_p e) (e_ss e) (s_id oc) = Some os /\
      s_sec oc = s_sec os /\ o_ms (r_c (e_r e)) = s_sec oc /\
      (o_out (r_s (e_r e)) = Established ->
         o_ms (r_s (e_r e)) = s_sec os /\ o_kb (r_s (e_r e)) = o_kb (r_c (e_r e))).
  Proof.
    intros evs cs0 ss0 e Hin Hm He. rewrite (run_entry_is_conn _ _ _ _ Hin) in *.
    destruct (resume_keys_agree _ _ _ Hm He) as (oc & os & A & B & C & D & E & F & G & H).
    exists oc, os. repeat split; try assumption; destruct (H H0) as (X & Y & _); assumption.
  Qed.

  Theorem history_mismatch_never_established : forall evs cs0 ss0 e oc os, In e (hrun evs cs0 ss0) ->
    offer (e_p e) (e_cs e) = Some oc -> srv_lookup (e_p e) (e_ss e) (s_id oc) = Some os ->
    s_sec oc <> s_sec os ->
    o_out (r_c (e_r e)) <> Established /\ o_out (r_s (e_r e)) <> Established.
  Proof.
    intros evs cs0 ss0 e oc os Hin. rewrite (run_entry_is_conn _ _ _ _ Hin).
    apply mismatch_never_established.
  Qed.

  Theorem history_unknown_session_falls_back : forall evs cs0 ss0 e, In e (hrun evs cs0 ss0) ->
    srv_lookup (e_p e) (e_ss e) (offered_id (offer (e_p e) (e_cs e))) = None ->
    r_mode (e_r e) = Full /\
    (o_out (r_c (e_r e)) = Established -> o_ms (r_c (e_r e)) = p_msc (e_p e)) /\
    (o_out (r_s (e_r e)) = Established -> o_ms (r_s (e_r e)) = p_mss (e_p e)).
  Proof.
    intros evs cs0 ss0 e Hin Hl. rewrite (run_entry_is_conn _ _ _ _ Hin).
    destruct (unknown_session_falls_back _ _ _ Hl) as (A & B & C).
    repeat split; [exact A|intro H; apply B in H; tauto|intro H; apply C in H; tauto].
  Qed.

  (* any two connections of a history (e.g. two resumptions of one session) with different hello
     randoms are keyed differently *)
  Theorem history_fresh_keys : forall evs cs0 ss0 e1 e2 k1 k2,
    In e1 (hrun evs cs0 ss0) -> In e2 (hrun evs cs0 ss0) ->
    o_out (r_c (e_r e1)) = Established -> o_out (r_c (e_r e2)) = Established ->
    o_kb (r_c (e_r e1)) = Some k1 -> o_kb (r_c (e_r e2)) = Some k2 ->
    (p_rc (e_p e1), p_rs (e_p e1)) <> (p_rc (e_p e2), p_rs (e_p e2)) -> k1 <> k2.
  Proof.
    intros evs cs0 ss0 e1 e2 k1 k2 H1 H2.
    rewrite (run_entry_is_conn _ _ _ _ H1), (run_entry_is_conn _ _ _ _ H2).
    apply fresh_randoms_fresh_keys.
  Qed.

  Theorem history_cids_renegotiated : forall evs cs0 ss0 e, In e (hrun evs cs0 ss0) ->
    (o_out (r_c (e_r e)) = Established ->
       o_lcid (r_c (e_r e)) = option_map fst (nego (e_p e)) /\
       o_rcid (r_c (e_r e)) = option_map snd (nego (e_p e))) /\
    (o_out (r_s (e_r e)) = Established ->
       o_lcid (r_s (e_r e)) = option_map snd (nego (e_p e)) /\
       o_rcid (r_s (e_r e)) = option_map fst (nego (e_p e))).
  Proof.
    intros evs cs0 ss0 e Hin. rewrite (run_entry_is_conn _ _ _ _ Hin). apply cids_renegotiated.
  Qed.

  (* in a history: a connection in which the client sent a fatal alert on a session, directly
     followed by a connection under the same key, is followed by an empty offer *)
  Theorem history_fatal_alert_evicts : forall pre p p' post cs0 ss0 d,
    p_ckey p' = p_ckey p ->
    exists e e',
      In e (hrun (pre ++ Conn p :: Conn p' :: post) cs0 ss0) /\
      In e' (hrun (pre ++ Conn p :: Conn p' :: post) cs0 ss0) /\
      e_p e = p /\ e_p e' = p' /\ e_cs e' = post_c (e_cs e) (e_r e) /\
      (o_out (r_c (e_r e)) = SentAlert d -> o_sid (r_c (e_r e)) <> 0 ->
         get (p_ckey p) (e_cs e') = None /\ r_offered (e_r e') = 0).
  Proof.
    intros pre p p' post cs0 ss0 d Hk.
    destruct (run_app pre (Conn p :: Conn p' :: post) cs0 ss0) as (cs & ss & E).
    rewrite E. cbn [run].
    set (r := cn p cs ss).
    exists (mkEntry p cs ss r), (mkEntry p' (post_c cs r) (post_s ss r) (cn p' (post_c cs r) (post_s ss r))).
    repeat split; cbn [e_p e_cs e_ss e_r].
    - apply in_or_app. right. left. reflexivity.
    - apply in_or_app. right. right. left. reflexivity.
    - apply (fatal_alert_evicts_client p cs ss d H H0).
    - apply (evicted_not_offered p cs ss d p' H H0 Hk).
  Qed.

  (* lock-out: mismatching entries survive every attempt, so every further plain attempt under the
     same key stalls as well, however many follow *)
  Theorem history_mismatch_lockout : forall ps cs ss oc os k,
    (forall p, In p ps -> plain p /\ p_ckey p = k /\ p_cstore p = true /\ p_sstore p = true) ->
    get k cs = Some oc -> s_nil oc = false -> s_id oc <> 0 ->
    get (s_id oc) ss = Some os -> s_nil os = false -> s_sec oc <> s_sec os ->
    forall e, In e (hrun (map Conn ps) cs ss) ->
      o_out (r_c (e_r e)) = Stalled /\ o_out (r_s (e_r e)) = Stalled /\ e_cs e = cs /\ e_ss e = ss.
  Proof.
    induction ps as [|p t IH]; intros cs ss oc os k Hps Hc Hcn Hid Hs Hsn Hne e Hin; [destruct Hin|].
    destruct (Hps p (or_introl eq_refl)) as (Hpl & Hk & Hcs & Hss).
    assert (Ho : offer p cs = Some oc) by (unfold offer; rewrite Hcs, Hk, Hc, Hcn; reflexivity).
    assert (Hl : srv_lookup p ss (s_id oc) = Some os).
    { unfold srv_lookup. rewrite Hss, Hs, Hsn. destruct (s_id oc =? 0) eqn:E; [apply N.eqb_eq in E; contradiction|reflexivity]. }
    destruct (mismatch_stalls_without_eviction p cs ss oc os Hpl Ho Hl Hne) as (_ & A & B & C & D).
    cbn [map run] in Hin. destruct Hin as [<-|Hin].
    - cbn. auto.
    - unfold post_c, post_s in Hin. rewrite C, D in Hin. cbn [apply_ops fold_left] in Hin.
      eapply IH; try eassumption. intros p0 Hp0. apply Hps. right. exact Hp0.
  Qed.
End Sound.

(* ------------------------------------------------------------------ boundary of the eviction theorems
   (concrete instance of the model: key blocks and verify_data are the tuples of their arguments) *)

Definition KT := (secret * N * N)%type.
Definition VT := (bool * secret * (N * N * bid))%type.
Definition kbT (m : secret) (r s : N) : KT := (m, r, s).
Definition vdT (b : bool) (m : secret) (t : N * N * bid) : VT := (b, m, t).
Definition kt_eqb (a b : KT) : bool :=
  let '(m, r, s) := a in let '(m', r', s') := b in (m =? m') && (r =? r') && (s =? s').
Definition vt_eqb (a b : VT) : bool :=
  let '(d, m, (r, s, i)) := a in let '(d', m', (r', s', i')) := b in
  Bool.eqb d d' && (m =? m') && (r =? r') && (s =? s') && (i =? i').

Definition connT := conn KT VT kbT vdT kt_eqb vt_eqb.
Definition runT := run KT VT kbT vdT kt_eqb vt_eqb.

(* the premises of the theorems are satisfiable *)
Lemma kt_eqb_spec : forall a b, kt_eqb a b = true <-> a = b.
Proof.
  intros [[m r] s] [[m' r'] s']. cbn. rewrite !andb_true_iff, !N.eqb_eq.
  split; [intros [[-> ->] ->]; reflexivity|intro H; injection H as -> -> ->; auto].
Qed.

Lemma vt_eqb_spec : forall a b, vt_eqb a b = true <-> a = b.
Proof.
  intros [[d m] [[r s] i]] [[d' m'] [[r' s'] i']]. cbn.
  rewrite !andb_true_iff, !N.eqb_eq, Bool.eqb_true_iff.
  split; [intros [[[[-> ->] ->] ->] ->]; reflexivity|intro H; injection H as -> -> -> -> ->; auto].
Qed.

Lemma kbT_inj : forall m r s m' r' s', kbT m r s = kbT m' r' s' -> m = m' /\ r = r' /\ s = s'.
Proof. intros m r s m' r' s' H. injection H as -> -> ->. auto. Qed.

Lemma vdT_inj : forall b m t b' m' t', vdT b m t = vdT b' m' t' -> b = b' /\ m = m' /\ t = t'.
Proof. intros b m t b' m' t' H. injection H as -> -> ->. auto. Qed.

(* A session the client offered and the server declined is NOT removed from the client's store by
   the "clean old session" step of flight3Parse (it deletes under the session id, the store is
   keyed by address+name).  Consequences, as concrete runs of the model:
   (1) after a declined offer and a failure of the full handshake that the client only RECEIVES an
       alert for, the stale entry is still there and is offered again;
   (2) the same when the client itself SENDS the fatal alert but the new session has an empty id
       (server without a store): state.SessionID is empty at that moment, nothing is deleted. *)
Definition w_params (sstore : bool) (f : fault) : params :=
  mkParams 7 true sstore 100 200 9 31 31 false None None f true true.
Definition w_cs : store := [(7, mkSess false 5 30)].

Theorem declined_offer_survives_received_alert :
  let r := connT (w_params true FSVerify) w_cs [] in
  r_mode r = Full /\ r_offered r = 5 /\ o_out (r_c r) = RecvAlert 42 /\
  r_cops r = [MDel 5] /\ get 7 (post_c w_cs r) = Some (mkSess false 5 30) /\
  r_offered (connT (w_params true NoFault) (post_c w_cs r) (post_s [] r)) = 5.
Proof. vm_compute. repeat split; reflexivity. Qed.

Theorem declined_offer_survives_sent_alert :
  let r := connT (w_params false FCVerify) w_cs [] in
  r_mode r = Full /\ r_offered r = 5 /\ o_out (r_c r) = SentAlert 42 /\ o_sid (r_c r) = 0 /\
  get 7 (post_c w_cs r) = Some (mkSess false 5 30) /\
  r_offered (connT (w_params true NoFault) (post_c w_cs r) (post_s [] r)) = 5.
Proof. vm_compute. repeat split; reflexivity. Qed.

(* the wrong-key Del removes an unrelated client entry whose KEY happens to be those bytes *)
Theorem wrong_key_del_hits_other_entry :
  let cs := [(7, mkSess false 5 30); (5, mkSess false 6 40)] in
  let r := connT (w_params true NoFault) cs [] in
  r_mode r = Full /\ o_out (r_c r) = Established /\ get 5 cs = Some (mkSess false 6 40) /\
  get 5 (post_c cs r) = None.
Proof. vm_compute. repeat split; reflexivity. Qed.

(* resumption skips the checks of the full handshake: with the session in both stores the
   connection establishes although the VerifyConnection callbacks of both sides reject and the
   full-handshake secrets (e.g. PSK) of the two sides differ *)
Theorem resumption_skips_full_handshake_checks : forall f, f = FSVerify \/ f = FCVerify ->
  let p := mkParams 7 true true 100 200 9 31 32 false None None f true true in
  let r := connT p w_cs [(5, mkSess false 5 30)] in
  r_mode r = Abbreviated /\ o_out (r_c r) = Established /\ o_out (r_s r) = Established /\
  o_out (r_c (connT p [] [])) <> Established.
Proof. intros f [->| ->]; vm_compute; repeat split; try reflexivity; discriminate. Qed.
