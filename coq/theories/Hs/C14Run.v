(* C14 - executable comparison of observed histories (harness zz_verif_c14_test.go) with the model
   Hs/C14Resume.v, instantiated with key blocks / verify_data = tuples of their arguments
   (Hs/C14ResumeSound.v: connT, the instance satisfies the premises of the theorems).
   Evaluated with vm_compute by checks/c14.py. *)
From Coq Require Import List NArith Bool.
From DtlsV Require Import Hs.C14Resume Hs.C14ResumeSound.
Import ListNotations.
Open Scope N_scope.

Definition sess_eqb (a b : sess) : bool :=
  Bool.eqb (s_nil a) (s_nil b) && (s_id a =? s_id b) && (s_sec a =? s_sec b).

Definition osess_eqb (a b : option sess) : bool :=
  match a, b with
  | None, None => true
  | Some x, Some y => sess_eqb x y
  | _, _ => false
  end.

Definition mop_eqb (a b : mop) : bool :=
  match a, b with
  | MSet k v, MSet k' v' => (k =? k') && sess_eqb v v'
  | MDel k, MDel k' => k =? k'
  | _, _ => false
  end.

(* SetSession / DelSession are idempotent and flight4Parse repeats its SetSession every time it is
   re-entered: compare modulo consecutive repetitions *)
Fixpoint dedup (l : list mop) : list mop :=
  match l with
  | a :: ((b :: _) as t) => if mop_eqb a b then dedup t else a :: dedup t
  | _ => l
  end.

Fixpoint mops_eqb (a b : list mop) : bool :=
  match a, b with
  | [], [] => true
  | x :: a', y :: b' => mop_eqb x y && mops_eqb a' b'
  | _, _ => false
  end.

Definition store_equiv (a b : store) : bool :=
  forallb (fun e => osess_eqb (get (fst e) a) (get (fst e) b)) (a ++ b).

Definition outcome_eqb (a b : outcome) : bool :=
  match a, b with
  | Established, Established => true
  | Stalled, Stalled => true
  | SentAlert d, SentAlert d' => d =? d'
  | RecvAlert d, RecvAlert d' => d =? d'
  | _, _ => false
  end.

Definition oN_eqb (a b : option N) : bool :=
  match a, b with
  | None, None => true
  | Some x, Some y => x =? y
  | _, _ => false
  end.

(* what the harness saw of one side: result class of HandshakeContext, and (in-package) the master
   secret, the hello randoms as (client random, server random), state.SessionID and the connection
   ids the side holds at the end *)
Record oside := mkOSide {
  os_out : outcome; os_ms : secret; os_rc : N; os_rs : N; os_sid : bid;
  os_lcid : option N; os_rcid : option N }.

Definition side_ok (m : side KT) (o : oside) : bool :=
  outcome_eqb (o_out m) (os_out o) &&
  match o_out m with
  | Established =>
      (o_ms m =? os_ms o) && (o_sid m =? os_sid o) &&
      oN_eqb (o_lcid m) (os_lcid o) && oN_eqb (o_rcid m) (os_rcid o) &&
      match o_kb m with
      | Some k => kt_eqb k (os_ms o, os_rc o, os_rs o)
      | None => false
      end
  | SentAlert _ => o_sid m =? os_sid o
  | _ => true
  end.

Record ostep := mkOStep {
  st_mut : bool;              (* the script rewrote the stores before this connection *)
  st_cs : store;              (* observed stores before the connection *)
  st_ss : store;
  st_p : params;
  st_mode : N;                (* wire: 0 full, 1 abbreviated, 2 no ServerHello seen *)
  st_off : bid;               (* session id in the ClientHello(s) *)
  st_c : oside;
  st_s : oside;
  st_cops : list mop;         (* Set/Del calls on the client's store during the connection *)
  st_sops : list mop;
  st_post_cs : store;         (* observed stores afterwards *)
  st_post_ss : store;
  st_inj : N }.               (* after establishment a forged record made 1: the client, 2: the server send a
                                 fatal alert from the record path (observed on the wire); 0: nothing *)

Definition inj_cops (st : ostep) (r : result KT) : list mop :=
  match st_inj st with 1 => alert_ops_client (st_p st) (o_sid (r_c r)) | _ => [] end.
Definition inj_sops (st : ostep) (r : result KT) : list mop :=
  match st_inj st with 2 => alert_ops_server (o_sid (r_s r)) | _ => [] end.
Definition after_c (cs : store) (st : ostep) (r : result KT) : store := apply_ops (post_c cs r) (inj_cops st r).
Definition after_s (ss : store) (st : ostep) (r : result KT) : store := apply_ops (post_s ss r) (inj_sops st r).

Definition step_ok (cs ss : store) (st : ostep) : bool :=
  let r := connT (st_p st) cs ss in
  (r_offered r =? st_off st) &&
  match st_mode st with
  | 0 => match r_mode r with Full => true | Abbreviated => false end
  | 1 => match r_mode r with Full => false | Abbreviated => true end
  | _ => true
  end &&
  side_ok (r_c r) (st_c st) && side_ok (r_s r) (st_s st) &&
  mops_eqb (dedup (r_cops r ++ inj_cops st r)) (dedup (st_cops st)) &&
  mops_eqb (dedup (r_sops r ++ inj_sops st r)) (dedup (st_sops st)) &&
  store_equiv (after_c cs st r) (st_post_cs st) && store_equiv (after_s ss st r) (st_post_ss st).

(* a history: the model's stores are threaded through; after a scripted mutation they are replaced
   by the observed ones, otherwise the observed ones must be what the model computed *)
Fixpoint hist_ok_from (cs ss : store) (l : list ostep) : bool :=
  match l with
  | [] => true
  | st :: t =>
      let cs0 := if st_mut st then st_cs st else cs in
      let ss0 := if st_mut st then st_ss st else ss in
      (st_mut st || (store_equiv cs (st_cs st) && store_equiv ss (st_ss st))) &&
      step_ok cs0 ss0 st &&
      let r := connT (st_p st) cs0 ss0 in
      hist_ok_from (after_c cs0 st r) (after_s ss0 st r) t
  end.

Definition hist_case := list ostep.
Definition hist_ok (h : hist_case) : bool := hist_ok_from [] [] h.

(* diagnosis: index of the first step that is not accepted, with the model's result for it *)
Fixpoint first_bad_from (i : N) (cs ss : store) (l : list ostep) : option (N * result KT) :=
  match l with
  | [] => None
  | st :: t =>
      let cs0 := if st_mut st then st_cs st else cs in
      let ss0 := if st_mut st then st_ss st else ss in
      let r := connT (st_p st) cs0 ss0 in
      if (st_mut st || (store_equiv cs (st_cs st) && store_equiv ss (st_ss st))) && step_ok cs0 ss0 st
      then first_bad_from (i + 1) (after_c cs0 st r) (after_s ss0 st r) t
      else Some (i, r)
  end.
Definition first_bad (h : hist_case) := first_bad_from 0 [] [] h.

Fixpoint mismatches_from {A} (ok : A -> bool) (i : N) (l : list A) : list N :=
  match l with
  | [] => []
  | c :: l' => if ok c then mismatches_from ok (i + 1) l' else i :: mismatches_from ok (i + 1) l'
  end.
Definition mismatches {A} (ok : A -> bool) (l : list A) : list N := mismatches_from ok 0 l.
