(* Executable model of the DTLS 1.3 handshake machinery of one endpoint (hs13):
   conn.go receive path (readAndBuffer: one event per datagram with HasHandshake / IsRetransmit /
   ACKs / RecordsToACK; bufferHandshakeRecord: pendingACKs for epoch >= 2; future-epoch queue and
   handleQueuedPackets; fragment buffer with retransmit detection message_seq < current),
   the parsers of internal/flight/flight13 ("ready / not ready"), internal/handshake/fsm13.go
   (prepare / send / wait / finish, handleReceivedFlight, handlePreviousFlightRetransmit,
   handleImplicitFinalACK, transitionAfterACK with the replyOnly / lastSent rule,
   applyACKProgress), fsm.go handleRetransmitTimeout (doubling, 60 s cap, backoff switch),
   reliable_flight.go (pending fragments), handshake_context.go (advanceAfterReceivedFlight,
   afterSend), conn.go compactPreparedRecords (packing of records into datagrams) and the part of
   post_handshake.go that matters for completion (the server's NewSessionTicket, its own
   retransmission timer and its ACK; ACKs sent from FINISHED).

   Modelling decisions (stated once):
   - messages are kinds; unmodified traffic (cryptographic checks are C03/C04); malformed flights
     (alerts) are outside this model;
   - a record is named by the fragment it carries (message_seq, offset, length); an ACK lists the
     fragments carried by the record numbers it acknowledges (the harness resolves record numbers
     against what the peer emitted; reliable_flight.go's number->fragment map is then checked by
     the predicted retransmissions);
   - the future-epoch queue, the fragment buffer and the list of records still to be acknowledged
     are kept as SETS (duplicate-free, in a canonical order): the order of arrival and a second
     copy of a queued record change nothing but the order and multiplicity of the entries of the
     next ACK, and acknowledging is idempotent and order-independent; an ACK is therefore compared
     with the implementation as the set of fragments it acknowledges;
   - a second delivery of the same datagram instance: its protected records are inert (record
     replay window, C06), its unprotected records are processed again (the epoch-0 window is
     never moved by unauthenticated records).
   Numbers are N (milliseconds for time).  Definitions only. *)
From Coq Require Import List NArith Bool.
Import ListNotations.
Open Scope N_scope.

(* handshake types; a HelloRetryRequest is a ServerHello with the special random: type 6 here *)
Definition HT_CH := 1.  Definition HT_SH := 2.  Definition HT_NST := 4.  Definition HT_HRR := 6.
Definition HT_EE := 8.  Definition HT_CERT := 11.  Definition HT_CR := 13.  Definition HT_CV := 15.
Definition HT_FIN := 20.

(* flights, numbered as flight13.Flight; FN = the server's post-handshake NewSessionTicket *)
Definition F0 := 1. Definition F1 := 2. Definition F2 := 3. Definition F3 := 4. Definition F4 := 5.
Definition F5 := 6. Definition FN := 7.

Definition frag := (N * N * N)%type.        (* message_seq, fragment_offset, fragment_length *)

Inductive body :=
| Hs (ht mseq foff flen tlen : N)           (* one handshake fragment *)
| Ack (fs : list frag).                     (* the records acknowledged, by the fragment each carried *)

Record rec := { r_ep : N; r_body : body; r_size : N }.
Definition dgram := list rec.

Definition frag_eqb (a b : frag) : bool :=
  let '(a1, a2, a3) := a in let '(b1, b2, b3) := b in N.eqb a1 b1 && N.eqb a2 b2 && N.eqb a3 b3.

Definition rec_frag (r : rec) : option frag :=
  match r_body r with Hs _ m fo fl _ => Some (m, fo, fl) | Ack _ => None end.

Fixpoint fmem (f : frag) (l : list frag) : bool :=
  match l with [] => false | g :: l' => frag_eqb f g || fmem f l' end.
Definition frag_ltb (a b : frag) : bool :=
  let '(a1, a2, a3) := a in let '(b1, b2, b3) := b in
  (a1 <? b1) || (N.eqb a1 b1 && ((a2 <? b2) || (N.eqb a2 b2 && (a3 <? b3)))).
(* sets of fragments: duplicate-free, sorted *)
Fixpoint fadd (f : frag) (l : list frag) : list frag :=
  match l with
  | [] => [f]
  | g :: l' => if frag_eqb f g then l else if frag_ltb f g then f :: l else g :: fadd f l'
  end.
Definition fadd_all (fs l : list frag) : list frag := fold_left (fun acc f => fadd f acc) fs l.
Definition fremove (f : frag) (l : list frag) : list frag := filter (fun g => negb (frag_eqb f g)) l.

Fixpoint lfeqb (a b : list frag) : bool :=
  match a, b with
  | [], [] => true
  | x :: a', y :: b' => frag_eqb x y && lfeqb a' b'
  | _, _ => false
  end.

Definition body_eqb (a b : body) : bool :=
  match a, b with
  | Hs h1 m1 o1 l1 t1, Hs h2 m2 o2 l2 t2 => N.eqb h1 h2 && N.eqb m1 m2 && N.eqb o1 o2 && N.eqb l1 l2 && N.eqb t1 t2
  | Ack f1, Ack f2 => lfeqb f1 f2
  | _, _ => false
  end.
Definition rec_eqb (a b : rec) : bool :=
  N.eqb (r_ep a) (r_ep b) && body_eqb (r_body a) (r_body b) && N.eqb (r_size a) (r_size b).
Fixpoint rmem (r : rec) (l : list rec) : bool :=
  match l with [] => false | g :: l' => rec_eqb r g || rmem r l' end.

(* a total order on records (only used to keep sets of records in a canonical order) *)
Definition frag_key (f : frag) : list N := let '(a, b, c) := f in [a; b; c].
Definition rec_key (r : rec) : list N :=
  r_ep r :: match r_body r with
            | Hs h m o l t => [0; m; o; l; h; t]
            | Ack fs => 1 :: N.of_nat (length fs) :: flat_map frag_key fs
            end.
Fixpoint lcmp (a b : list N) : comparison :=
  match a, b with
  | [], [] => Eq
  | [], _ => Lt
  | _, [] => Gt
  | x :: a', y :: b' => match N.compare x y with Eq => lcmp a' b' | c => c end
  end.
Fixpoint rins (r : rec) (l : list rec) : list rec :=
  match l with
  | [] => [r]
  | x :: l' => if rec_eqb r x then l
               else match lcmp (rec_key r) (rec_key x) with Lt => r :: l | _ => x :: rins r l' end
  end.

(* ---------- configuration ---------- *)

Record cfg := {
  c_mtu : N;
  c_hrr : bool;                              (* the server answers the first ClientHello with a HelloRetryRequest *)
  c_initial : N;                             (* initial retransmit interval (ms) *)
  c_backoff : bool;
  c_flags : list (N * bool * bool * bool);   (* flight, retransmit, last send, last receive: from flight13 *)
  c_fl : list (N * list rec);                (* the records of each flight, in sending order *)
  c_dualc : bool                             (* dual-stack client: the version is negotiated before the state machine starts *)
}.

Fixpoint flags_of (f : N) (t : list (N * bool * bool * bool)) : bool * bool * bool :=
  match t with
  | [] => (false, false, false)
  | (f', r, ls, lr) :: t' => if N.eqb f f' then (r, ls, lr) else flags_of f t'
  end.
Definition fl_retransmit (c : cfg) (f : N) : bool := let '(r, _, _) := flags_of f (c_flags c) in r.
Definition fl_last_send (c : cfg) (f : N) : bool := let '(_, ls, _) := flags_of f (c_flags c) in ls.
Definition fl_last_recv (c : cfg) (f : N) : bool := let '(_, _, lr) := flags_of f (c_flags c) in lr.

Fixpoint fl_lookup (f : N) (t : list (N * list rec)) : list rec :=
  match t with
  | [] => []
  | (f', d) :: t' => if N.eqb f f' then d else fl_lookup f t'
  end.

Definition mk_rec (x : N * N * N * N * N * N * N) : rec :=
  let '(ep, ht, m, fo, fl, tl, sz) := x in {| r_ep := ep; r_body := Hs ht m fo fl tl; r_size := sz |}.

(* from the regenerated raw table (Gen/GeneratedHs13.v) *)
Definition mk_cfg (flags : list (N * bool * bool * bool))
           (raw : N * bool * list (N * list (N * N * N * N * N * N * N))) (initial : N) (backoff : bool) : cfg :=
  let '(mtu, hrr, fls) := raw in
  {| c_mtu := mtu; c_hrr := hrr; c_initial := initial; c_backoff := backoff; c_flags := flags;
     c_fl := map (fun p => (fst p, map mk_rec (snd p))) fls; c_dualc := false |}.

Definition dual_client (c : cfg) : cfg :=
  {| c_mtu := c_mtu c; c_hrr := c_hrr c; c_initial := c_initial c; c_backoff := c_backoff c; c_flags := c_flags c;
     c_fl := c_fl c; c_dualc := true |}.

(* conn.go compactPreparedRecords: a record opens a new datagram when the current one is not
   empty and would reach the MTU *)
Fixpoint pack_aux (mtu : N) (cur : list rec) (cursz : N) (rs : list rec) : list dgram :=
  match rs with
  | [] => match cur with [] => [] | _ => [rev cur] end
  | r :: rs' =>
      if (0 <? cursz) && (mtu <=? cursz + r_size r)
      then rev cur :: pack_aux mtu [r] (r_size r) rs'
      else pack_aux mtu (r :: cur) (cursz + r_size r) rs'
  end.
Definition pack (c : cfg) (rs : list rec) : list dgram := pack_aux (c_mtu c) [] 0 rs.

(* ---------- endpoint ---------- *)

Inductive fstate := Waiting | Finished.

(* stored fragment: (mseq, ht, foff, flen, tlen, epoch) *)
Definition sfrag := (N * N * N * N * N * N)%type.

Record ep := {
  e_client : bool;
  (* state machine *)
  e_flight : N;
  e_fst : fstate;
  e_retr : bool;                      (* fsm13.retransmit *)
  e_reply : bool;                     (* fsm13.replyOnly *)
  e_lastsent : N;                     (* fsm13.lastSent *)
  e_sent : bool;                      (* fsm13.lastSent is set: the state machine itself has sent something *)
  e_interval : N;                     (* fsm13.retransmitInterval *)
  e_timer : N;                        (* deadline of the timer of wait() *)
  e_out : list rec;                   (* fsm13.flights: what a (re)transmission puts on the wire *)
  e_pending : list frag;              (* reliableFlight.pending *)
  e_est : bool;                       (* establishment marked *)
  (* post-handshake: the server's NewSessionTicket *)
  e_nstinit : bool;                   (* postHandshake.initialized *)
  e_nst : list rec;                   (* un-acknowledged records of the active flight ([] = none active) *)
  e_nsti : N;                         (* its RetransmitInterval *)
  e_nstt : N;                         (* its NextRetransmit *)
  (* receive path *)
  e_recvseq : N;                      (* state.HandshakeRecvSequence *)
  e_fbcur : N;                        (* FragmentBuffer.currentMessageSequenceNumber *)
  e_frags : list sfrag;
  e_cache : list (N * N * N);         (* peer messages in the handshake cache: (mseq, type, epoch) *)
  e_repoch : N;                       (* remote epoch (read keys exist for epochs 2..e_repoch) *)
  e_lepoch : N;                       (* local epoch *)
  e_queue : list rec;                 (* encryptedPackets *)
  e_toack : list frag                 (* pendingACKs *)
}.

Definition set_rx (e : ep) recvseq fbcur frags cache repoch lepoch queue toack : ep :=
  {| e_client := e_client e; e_flight := e_flight e; e_fst := e_fst e; e_retr := e_retr e; e_reply := e_reply e;
     e_lastsent := e_lastsent e; e_sent := e_sent e; e_interval := e_interval e; e_timer := e_timer e; e_out := e_out e;
     e_pending := e_pending e; e_est := e_est e; e_nstinit := e_nstinit e; e_nst := e_nst e; e_nsti := e_nsti e;
     e_nstt := e_nstt e;
     e_recvseq := recvseq; e_fbcur := fbcur; e_frags := frags; e_cache := cache; e_repoch := repoch;
     e_lepoch := lepoch; e_queue := queue; e_toack := toack |}.

Definition set_fsm (e : ep) flight fst retr reply lastsent interval timer out pending est : ep :=
  {| e_client := e_client e; e_flight := flight; e_fst := fst; e_retr := retr; e_reply := reply;
     e_lastsent := lastsent; e_sent := e_sent e; e_interval := interval; e_timer := timer; e_out := out;
     e_pending := pending; e_est := est; e_nstinit := e_nstinit e; e_nst := e_nst e; e_nsti := e_nsti e;
     e_nstt := e_nstt e;
     e_recvseq := e_recvseq e; e_fbcur := e_fbcur e; e_frags := e_frags e; e_cache := e_cache e;
     e_repoch := e_repoch e; e_lepoch := e_lepoch e; e_queue := e_queue e; e_toack := e_toack e |}.

Definition set_nst (e : ep) init nst nsti nstt : ep :=
  {| e_client := e_client e; e_flight := e_flight e; e_fst := e_fst e; e_retr := e_retr e; e_reply := e_reply e;
     e_lastsent := e_lastsent e; e_sent := e_sent e; e_interval := e_interval e; e_timer := e_timer e; e_out := e_out e;
     e_pending := e_pending e; e_est := e_est e; e_nstinit := init; e_nst := nst; e_nsti := nsti; e_nstt := nstt;
     e_recvseq := e_recvseq e; e_fbcur := e_fbcur e; e_frags := e_frags e; e_cache := e_cache e;
     e_repoch := e_repoch e; e_lepoch := e_lepoch e; e_queue := e_queue e; e_toack := e_toack e |}.

Definition set_sent (e : ep) (b : bool) : ep :=
  {| e_client := e_client e; e_flight := e_flight e; e_fst := e_fst e; e_retr := e_retr e; e_reply := e_reply e;
     e_lastsent := e_lastsent e; e_sent := b; e_interval := e_interval e; e_timer := e_timer e; e_out := e_out e;
     e_pending := e_pending e; e_est := e_est e; e_nstinit := e_nstinit e; e_nst := e_nst e; e_nsti := e_nsti e;
     e_nstt := e_nstt e;
     e_recvseq := e_recvseq e; e_fbcur := e_fbcur e; e_frags := e_frags e; e_cache := e_cache e;
     e_repoch := e_repoch e; e_lepoch := e_lepoch e; e_queue := e_queue e; e_toack := e_toack e |}.

Definition set_recvseq (e : ep) (n : N) : ep :=
  set_rx e n (e_fbcur e) (e_frags e) (e_cache e) (e_repoch e) (e_lepoch e) (e_queue e) (e_toack e).
Definition set_epochs (e : ep) (r l : N) : ep :=
  set_rx e (e_recvseq e) (e_fbcur e) (e_frags e) (e_cache e) r l (e_queue e) (e_toack e).
Definition set_toack (e : ep) (t : list frag) : ep :=
  set_rx e (e_recvseq e) (e_fbcur e) (e_frags e) (e_cache e) (e_repoch e) (e_lepoch e) (e_queue e) t.
Definition set_interval (e : ep) (i : N) : ep :=
  set_fsm e (e_flight e) (e_fst e) (e_retr e) (e_reply e) (e_lastsent e) i (e_timer e) (e_out e) (e_pending e) (e_est e).

(* ---------- fragment buffer (internal/fragmentbuffer) ---------- *)

Definition fr_mseq (f : sfrag) : N := let '(m, _, _, _, _, _) := f in m.

(* AdvanceTo(HandshakeRecvSequence) *)
Definition fb_advance (e : ep) : ep :=
  if e_fbcur e <? e_recvseq e
  then set_rx e (e_recvseq e) (e_recvseq e)
         (filter (fun f => negb (fr_mseq f <? e_recvseq e)) (e_frags e))
         (e_cache e) (e_repoch e) (e_lepoch e) (e_queue e) (e_toack e)
  else e.

Definition sfrag_ltb (a b : sfrag) : bool :=
  let '(m1, _, o1, _, _, _) := a in let '(m2, _, o2, _, _, _) := b in (m1 <? m2) || (N.eqb m1 m2 && (o1 <? o2)).
Fixpoint sins (f : sfrag) (l : list sfrag) : list sfrag :=
  match l with
  | [] => [f]
  | g :: l' => if sfrag_ltb f g then f :: l else g :: sins f l'
  end.

Definition same_slot (m foff : N) (f : sfrag) : bool :=
  let '(m', _, foff', _, _, _) := f in N.eqb m m' && N.eqb foff foff'.

Definition sum_flen (m : N) (fs : list sfrag) : N :=
  fold_left (fun acc f => let '(m', _, _, fl, _, _) := f in if N.eqb m m' then acc + fl else acc) fs 0.
Definition first_of (m : N) (fs : list sfrag) : option sfrag := find (fun f => N.eqb (fr_mseq f) m) fs.
Definition zero_of (m : N) (fs : list sfrag) : option sfrag := find (same_slot m 0) fs.

(* message m is complete: the stored lengths add up to the declared length and a fragment at
   offset 0 exists (honest fragments of one partition); Some (type, epoch of the first fragment) *)
Definition complete (m : N) (fs : list sfrag) : option (N * N) :=
  match first_of m fs, zero_of m fs with
  | Some (_, _, _, _, tl, _), Some (_, ht, _, _, _, ep0) =>
      if N.eqb (sum_flen m fs) tl then Some (ht, ep0) else None
  | _, _ => None
  end.

Fixpoint pop_all (fuel : nat) (e : ep) : ep :=
  match fuel with
  | O => e
  | S fuel' =>
      match complete (e_fbcur e) (e_frags e) with
      | None => e
      | Some (ht, ep0) =>
          pop_all fuel'
            (set_rx e (e_recvseq e) (e_fbcur e + 1)
               (filter (fun f => negb (N.eqb (fr_mseq f) (e_fbcur e))) (e_frags e))
               (e_cache e ++ [(e_fbcur e, ht, ep0)]) (e_repoch e) (e_lepoch e) (e_queue e) (e_toack e))
      end
  end.

(* Push of one fragment, then Pop until nothing is complete; returns (endpoint, is-retransmission) *)
Definition push (e0 : ep) (f : sfrag) : ep * bool :=
  let e := fb_advance e0 in
  let '(m, ht, foff, fl, tl, ep0) := f in
  if m <? e_fbcur e then (e, true)
  else if N.eqb fl 0 && (negb (N.eqb tl 0) || negb (N.eqb foff 0)) then (e, false)
  else
    let fs := if existsb (same_slot m foff) (e_frags e) then e_frags e else sins f (e_frags e) in
    let e1 := set_rx e (e_recvseq e) (e_fbcur e) fs (e_cache e) (e_repoch e) (e_lepoch e) (e_queue e) (e_toack e) in
    (pop_all (S (length fs)) e1, false).

(* ---------- records ---------- *)

Definition max_queue : nat := 100.

Definition enqueue (lease : bool) (e : ep) (r : rec) : ep :=
  if lease && Nat.ltb (length (e_queue e)) max_queue && negb (rmem r (e_queue e))
  then set_rx e (e_recvseq e) (e_fbcur e) (e_frags e) (e_cache e) (e_repoch e) (e_lepoch e) (rins r (e_queue e)) (e_toack e)
  else e.

(* a protected record of epoch ep can be opened: read keys for the remote epoch exist and the
   record's epoch is not ahead of it *)
Definition can_open (e : ep) (epo : N) : bool := (2 <=? e_repoch e) && (epo <=? e_repoch e).
(* ... otherwise it is queued when no inbound protection exists yet, or when it is of the next epoch *)
Definition queueable (e : ep) (epo : N) : bool := (e_repoch e <? 2) || N.eqb epo (e_repoch e + 1).

(* outcome of one record: (endpoint, carried handshake data, retransmission, received ACK) *)
Definition process_record (lease : bool) (e : ep) (r : rec) : ep * bool * bool * option (list frag) :=
  (* conn.go bufferHandshakeRecord: once established, unprotected records are dropped before reassembly *)
  if N.eqb (r_ep r) 0 && e_est e then (e, false, false, None)
  else if N.eqb (r_ep r) 0 || can_open e (r_ep r) then
    match r_body r with
    | Hs ht m fo fl tl =>
        let '(e1, retr) := push e (m, ht, fo, fl, tl, r_ep r) in
        let e2 := if 2 <=? r_ep r then set_toack e1 (fadd (m, fo, fl) (e_toack e1)) else e1 in
        (e2, true, retr, None)
    | Ack fs => if N.eqb (r_ep r) 0 then (e, false, false, None)   (* an unprotected ACK is discarded *)
                else (e, false, false, Some fs)
    end
  else if queueable e (r_ep r) then (enqueue lease e r, false, false, None)
  else (e, false, false, None).

Fixpoint process_records (lease : bool) (e : ep) (rs : list rec) : ep * bool * bool * list (list frag) :=
  match rs with
  | [] => (e, false, false, [])
  | r :: rs' =>
      let '(e1, h1, r1, a1) := process_record lease e r in
      let '(e2, h2, r2, a2) := process_records lease e1 rs' in
      (e2, h1 || h2, r1 || r2, match a1 with Some a => a :: a2 | None => a2 end)
  end.

(* handleQueuedPackets: outcomes are not reported to the state machine *)
Definition drain (e : ep) : ep :=
  let q := e_queue e in
  let e0 := set_rx e (e_recvseq e) (e_fbcur e) (e_frags e) (e_cache e) (e_repoch e) (e_lepoch e) [] (e_toack e) in
  let '(e1, _, _, _) := process_records false e0 q in e1.

(* ---------- flight parsers (internal/flight/flight13) ---------- *)

Definition has (e : ep) (m ht ep0 : N) : bool :=
  existsb (fun c => let '(m', ht', ep') := c in N.eqb m m' && N.eqb ht ht' && N.eqb ep0 ep') (e_cache e).

(* Cache.PullSequential over (type, optional) rules of one epoch; Some next-sequence when ready *)
Fixpoint pull_seq (e : ep) (ep0 seq : N) (rules : list (N * bool)) : option N :=
  match rules with
  | [] => Some seq
  | (ht, opt) :: rs =>
      if has e seq ht ep0 then pull_seq e ep0 (seq + 1) rs
      else if opt then pull_seq e ep0 seq rs else None
  end.

Definition rules_server_flight := [(HT_EE, false); (HT_CR, true); (HT_CERT, true); (HT_CV, true); (HT_FIN, false)].
Definition rules_client_final := [(HT_CERT, true); (HT_CV, true); (HT_FIN, false)].

(* flight3Parse: ServerHello (installs the handshake keys, drains the queue), then the protected
   server flight; result: (endpoint, next flight or 0) *)
Definition parse_c3 (e : ep) : ep * N :=
  let '(e1, ok) :=
    if e_repoch e <? 2 then
      if has e (e_recvseq e) HT_SH 0
      then (drain (set_epochs (set_recvseq e (e_recvseq e + 1)) 2 2), true)
      else (e, false)
    else (e, true) in
  if ok then
    match pull_seq e1 2 (e_recvseq e1) rules_server_flight with
    | Some n => (set_recvseq e1 n, F5)
    | None => (e1, 0)
    end
  else (e, 0).

Definition parse (c : cfg) (e : ep) : ep * N :=
  let s := e_recvseq e in
  let f := e_flight e in
  if e_client e then
    if N.eqb f F1 then
      if 2 <=? e_repoch e then parse_c3 e
      else if has e s HT_HRR 0 then (set_recvseq e (s + 1), F3)
      else if has e s HT_SH 0 then parse_c3 e else (e, 0)
    else if N.eqb f F3 then parse_c3 e
    else (e, 0)
  else
    if N.eqb f F0 then
      if has e 0 HT_CH 0 then (set_recvseq e 1, if c_hrr c then F2 else F4) else (e, 0)
    else if N.eqb f F2 then
      if has e s HT_CH 0 then (set_recvseq e (s + 1), F4) else (e, 0)
    else if N.eqb f F4 then
      match pull_seq e 2 s rules_client_final with
      | Some n => (set_recvseq e n, F4)
      | None => (e, 0)
      end
    else (e, 0).

(* ---------- state machine ---------- *)

Definition cap60 (i : N) : N := if 60000 <? i then 60000 else i.
(* fsm.go handleRetransmitTimeout on the interval *)
(* the interval doubles only while below 60 s (above 30 s it becomes 60 s); an interval configured at
   or above the cap is left as it is, with and without backoff *)
Definition bump (c : cfg) (i : N) : N :=
  if c_backoff c && (i <? 60000) then (if 30000 <? i then 60000 else 2 * i) else i.

Definition tracked_frags (c : cfg) (f : N) (rs : list rec) : list frag :=
  if fl_retransmit c f then
    flat_map (fun r => if 2 <=? r_ep r then match rec_frag r with Some g => [g] | None => [] end else []) rs
  else [].

Definition ack_dgram (epo : N) (fs : list frag) : list dgram :=
  match fs with [] => [] | _ => [[{| r_ep := epo; r_body := Ack fs; r_size := 0 |}]] end.

(* entering FINISHED: establishment is marked; the first finish() initialises the post-handshake
   machine, which on the server queues and sends a NewSessionTicket *)
Definition to_finished (c : cfg) (e : ep) (now : N) : ep * list dgram :=
  let e1 := set_fsm e (e_flight e) Finished (e_retr e) (e_reply e) (e_lastsent e) (e_interval e) (e_timer e)
                    (e_out e) (e_pending e) true in
  if e_nstinit e1 then (e1, [])
  else if e_client e1 then (set_nst e1 true [] (e_nsti e1) (e_nstt e1), [])
  else
    let t := fl_lookup FN (c_fl c) in
    (set_nst e1 true t (c_initial c) (now + c_initial c), pack c t).

(* fsm13.send (+ afterSend) *)
Definition do_send (c : cfg) (e : ep) (now : N) : ep * list dgram :=
  let out := pack c (e_out e) in
  let pend := fadd_all (tracked_frags c (e_flight e) (e_out e)) (e_pending e) in
  let e1 := if negb (e_client e) && N.eqb (e_flight e) F4 && (e_repoch e <? 2)
            then drain (set_epochs e 2 (e_lepoch e)) else e in
  let fin := e_client e && fl_last_send c (e_flight e) in
  let e2 := if fin then drain (set_epochs e1 3 3) else e1 in
  let e3 := set_sent (set_fsm e2 (e_flight e2) Waiting (e_retr e2) (e_reply e2) now (e_interval e2) (now + e_interval e2)
                             (e_out e2) pend (e_est e2)) true in
  if fin && match pend with [] => true | _ => false end
  then let '(e4, o4) := to_finished c e3 now in (e4, out ++ o4)
  else (e3, out).

(* fsm13.prepare of flight f, then send *)
Definition enter (c : cfg) (e : ep) (f : N) (now : N) : ep * list dgram :=
  let rs := fl_lookup f (c_fl c) in
  let r := fl_retransmit c f in
  let lep := if existsb (fun x => 2 <=? r_ep x) rs then 2 else e_lepoch e in
  let e1 := set_epochs e (e_repoch e) lep in
  do_send c (set_fsm e1 f Waiting r (negb r) (e_lastsent e1) (e_interval e1) (e_timer e1) rs [] (e_est e1)) now.

(* reliableFlight.acknowledge + fsm13.applyACKProgress; returns (endpoint, Empty, progress made) *)
Definition acknowledge (e : ep) (acks : list (list frag)) : ep * bool * bool :=
  let empty := existsb (fun a => match a with [] => true | _ => false end) acks in
  let all := concat acks in
  let hit := filter (fun f => fmem f (e_pending e)) all in
  let pend := filter (fun f => negb (fmem f all)) (e_pending e) in
  let changed (m : N) := existsb (fun f => let '(m', _, _) := f in N.eqb m m') hit in
  let out := filter (fun r => match rec_frag r with
                              | Some (m, fo, fl) => negb (changed m) || fmem (m, fo, fl) pend
                              | None => true end) (e_out e) in
  (set_fsm e (e_flight e) (e_fst e) (e_retr e) (e_reply e) (e_lastsent e) (e_interval e) (e_timer e) out pend (e_est e),
   empty, match hit with [] => false | _ => true end).

(* time.Since(lastSent) < InitialRetransmitInterval/2 (never true before the state machine has sent) *)
Definition sent_recently (c : cfg) (e : ep) (now : N) : bool :=
  e_sent e && (2 * (now - e_lastsent e) <? c_initial c).

(* fsm13.transitionAfterACK *)
Definition after_ack (c : cfg) (e : ep) (empty progress peer : bool) (now : N) : ep * list dgram :=
  if progress && match e_pending e with [] => true | _ => false end then
    let e1 := set_fsm e (e_flight e) (e_fst e) false (e_reply e) (e_lastsent e) (e_interval e) (e_timer e)
                      (e_out e) (e_pending e) (e_est e) in
    if fl_last_send c (e_flight e1) then to_finished c e1 now else (e1, [])
  else if peer && e_reply e then
    if sent_recently c e now then (e, []) else do_send c e now
  else if peer && negb empty && negb progress && sent_recently c e now then
    (* the flight has just been sent: a repetition by the peer that acknowledges nothing is not
       answered (no zero-delay ping-pong); the timer still retransmits *)
    (e, [])
  else if empty || progress || peer then
    if e_retr e then do_send c (set_interval e (bump c (e_interval e))) now else (e, [])
  else (e, []).

(* postHandshake.handlePostHandshakeReceive *)
Fixpoint consume_nst (fuel : nat) (e : ep) : ep :=
  match fuel with
  | O => e
  | S fuel' =>
      if has e (e_recvseq e) HT_NST 3 then
        (* handled, then forgotten (Cache.Remove) *)
        let e1 := set_rx e (e_recvseq e + 1) (e_fbcur e) (e_frags e)
                         (filter (fun x => let '(m, _, _) := x in negb (N.eqb m (e_recvseq e))) (e_cache e))
                         (e_repoch e) (e_lepoch e) (e_queue e) (e_toack e) in
        consume_nst fuel' e1
      else e
  end.

(* fsm13.hasPostHandshakeMessage: the next message expected from the peer is in the cache and came
   under the application traffic keys *)
Definition has_post (e : ep) : bool :=
  existsb (fun x => let '(m, _, ep0) := x in N.eqb m (e_recvseq e) && (3 <=? ep0)) (e_cache e).

Definition post_receive (c : cfg) (e : ep) (hs : bool) (acks : list (list frag)) (rta : list frag) : ep * list dgram :=
  let all := concat acks in
  let nst := filter (fun r => match rec_frag r with Some g => negb (fmem g all) | None => true end) (e_nst e) in
  let e1 := set_nst e (e_nstinit e) nst (e_nsti e) (e_nstt e) in
  let e2 := if hs && e_client e1 then consume_nst 8 e1 else e1 in
  let fs := fadd_all (e_toack e2) rta in
  (set_toack e2 [], ack_dgram (e_lepoch e2) fs).

(* fsm13.handleReceivedFlight / finish: one event of the read loop *)
Definition on_event (c : cfg) (e : ep) (hs retr : bool) (acks : list (list frag)) (rta : list frag) (now : N)
  : ep * list dgram :=
  match e_fst e with
  | Finished => post_receive c e hs acks rta
  | Waiting =>
      let e1 := if retr then e else set_interval e (c_initial c) in
      let '(e2, empty, progress) := acknowledge e1 acks in
      if negb hs && negb (match acks with [] => true | _ => false end) then after_ack c e2 empty progress false now
      else if hs && retr && fl_last_send c (e_flight e2) then
        (* handlePreviousFlightRetransmit *)
        let '(e3, o3) := after_ack c e2 empty progress true now in
        (e3, ack_dgram (e_lepoch e2) rta ++ o3)
      else if hs && e_client e2 && fl_last_send c (e_flight e2) && negb (has_post e2) then
        (* anybody can send an unprotected fragment: it is acknowledged (if protected) and the final flight stays
           unacknowledged *)
        (e2, ack_dgram (e_lepoch e2) rta)
      else if hs && e_client e2 && fl_last_send c (e_flight e2) then
        (* handleImplicitFinalACK *)
        let e3 := set_fsm e2 (e_flight e2) Waiting false (e_reply e2) (e_lastsent e2) (e_interval e2) (e_timer e2)
                          (e_out e2) [] (e_est e2) in
        let '(e4, o4) := to_finished c e3 now in
        let '(e5, o5) := post_receive c e4 hs acks rta in
        (e5, o4 ++ o5)
      else
        let '(e3, nxt) := parse c e2 in
        if N.eqb nxt 0 then
          let '(e4, o4) := after_ack c e3 empty progress retr now in
          (e4, ack_dgram (e_lepoch e3) rta ++ o4)
        else if negb (e_client e3) && N.eqb nxt (e_flight e3) && fl_last_recv c nxt then
          (* the server received the client's final flight *)
          let e4 := drain (set_epochs e3 3 3) in
          let '(e5, o5) := to_finished c e4 now in
          (e5, ack_dgram 3 rta ++ o5)
        else enter c e3 nxt now
  end.

(* conn.go readAndBuffer *)
Definition on_datagram (c : cfg) (e : ep) (d : dgram) (now : N) : ep * list dgram :=
  let '(e1, hs, retr, acks) := process_records true e d in
  if negb hs && match acks with [] => true | _ => false end then (e1, [])
  else on_event c (set_toack e1 []) hs retr acks (e_toack e1) now.

(* the pending timer of an endpoint: the wait() timer while WAITING (a timer that finds
   retransmit = false only re-arms itself and is skipped), the NewSessionTicket timer in FINISHED *)
Definition next_timer (e : ep) : option N :=
  match e_fst e with
  | Waiting => if e_retr e then Some (e_timer e) else None
  | Finished => match e_nst e with [] => None | _ => Some (e_nstt e) end
  end.

(* that timer fires (at its own deadline) *)
Definition on_timer (c : cfg) (e : ep) : ep * list dgram :=
  match e_fst e with
  | Waiting =>
      if e_retr e then do_send c (set_interval e (bump c (e_interval e))) (e_timer e)
      else (set_fsm e (e_flight e) Waiting (e_retr e) (e_reply e) (e_lastsent e) (e_interval e)
                    (e_timer e + e_interval e) (e_out e) (e_pending e) (e_est e), [])
  | Finished =>
      match e_nst e with
      | [] => (e, [])
      | _ =>
          let i := bump c (e_nsti e) in     (* the handshake's interval rule *)
          (set_nst e (e_nstinit e) (e_nst e) i (e_nstt e + i), pack c (e_nst e))
      end
  end.

(* both endpoints start in PREPARING: Flight 1 / Flight 0 prepared and sent at time 0 *)
Definition ep_blank (c : cfg) (client : bool) : ep :=
  {| e_client := client; e_flight := 0; e_fst := Waiting; e_retr := false; e_reply := false; e_lastsent := 0; e_sent := false;
     e_interval := c_initial c; e_timer := 0; e_out := []; e_pending := []; e_est := false;
     e_nstinit := false; e_nst := []; e_nsti := 0; e_nstt := 0;
     e_recvseq := 0; e_fbcur := 0; e_frags := []; e_cache := []; e_repoch := 0; e_lepoch := 0;
     e_queue := []; e_toack := [] |}.

(* ---------- dual-stack client: version negotiation before the state machine starts ----------
   conn.go negotiateVersionClient: the ClientHello (Flight 1 of the DTLS 1.3 machinery) is written
   and repeated on the configured schedule by a loop of its own, whose deadline belongs to the
   transmission (a datagram that is read does not move it); records are buffered as usual but no
   event reaches a state machine.  Once the
   server's first message (ServerHello / HelloRetryRequest, message_seq 0) is complete the DTLS 1.3
   state machine starts in Flight 1, WAITING, with the ClientHello as its flight, its own initial
   interval, lastSent unset, and is primed with an empty event (primeHandshakeRecv).
   Flight number 0 of a client stands for this phase. *)
Definition negotiating (e : ep) : bool :=
  e_client e && N.eqb (e_flight e) 0 && match e_fst e with Waiting => true | Finished => false end.

Definition neg_start (c : cfg) : ep * list dgram :=
  let e := ep_blank c true in
  let out := fl_lookup F1 (c_fl c) in
  (set_fsm e 0 Waiting true false 0 (c_initial c) (c_initial c) out [] false, pack c out).

Definition neg_timer (c : cfg) (e : ep) : ep * list dgram :=
  let i := bump c (e_interval e) in
  (set_fsm e (e_flight e) (e_fst e) (e_retr e) (e_reply e) (e_lastsent e) i (e_timer e + i) (e_out e) (e_pending e) (e_est e),
   pack c (e_out e)).

Definition neg_datagram (c : cfg) (e : ep) (d : dgram) (now : N) : ep * list dgram :=
  let '(e2, _, _, _) := process_records true e d in
  (* the repeat deadline belongs to the transmission: reading a datagram does not re-arm it *)
  if has e2 0 HT_SH 0 || has e2 0 HT_HRR 0 then
    on_event c (set_fsm e2 F1 Waiting true false (e_lastsent e2) (c_initial c) (now + c_initial c) (e_out e2) [] (e_est e2))
             false false [] [] now
  else (e2, []).

(* one endpoint: negotiation phase or state machine *)
Definition ep_datagram (c : cfg) (e : ep) (d : dgram) (now : N) : ep * list dgram :=
  if negotiating e then neg_datagram c e d now else on_datagram c e d now.
Definition ep_timer (c : cfg) (e : ep) : ep * list dgram :=
  if negotiating e then neg_timer c e else on_timer c e.

Definition ep_start (c : cfg) (client : bool) : ep * list dgram :=
  if client && c_dualc c then neg_start c
  else enter c (ep_blank c client) (if client then F1 else F0) 0.
Definition ep_init (c : cfg) (client : bool) : ep := fst (ep_start c client).

(* ---------- two endpoints and the scripted network (timed; trace acceptance) ---------- *)

Record sys := {
  s_c : ep; s_s : ep;
  s_cout : list (N * dgram);     (* everything the client emitted, in order, with the time *)
  s_sout : list (N * dgram);
  s_cseen : list N;            (* client datagrams (by index) already delivered to the server *)
  s_sseen : list N
}.

Definition stamp (t : N) (ds : list dgram) : list (N * dgram) := map (fun d => (t, d)) ds.

Definition sys_init (c : cfg) : sys :=
  {| s_c := ep_init c true; s_s := ep_init c false;
     s_cout := stamp 0 (snd (ep_start c true)); s_sout := stamp 0 (snd (ep_start c false));
     s_cseen := []; s_sseen := [] |}.

Definition due (e : ep) (T : N) : option N :=
  match next_timer e with Some t => if t <=? T then Some t else None | None => None end.

(* fire every timer due at or before T, earliest first (the two sides do not interact through timers) *)
Fixpoint advance (fuel : nat) (c : cfg) (s : sys) (T : N) : sys :=
  match fuel with
  | O => s
  | S fuel' =>
      match due (s_c s) T, due (s_s s) T with
      | Some tc, Some ts =>
          if tc <=? ts then
            let '(e', out) := ep_timer c (s_c s) in
            advance fuel' c {| s_c := e'; s_s := s_s s; s_cout := s_cout s ++ stamp tc out; s_sout := s_sout s;
                               s_cseen := s_cseen s; s_sseen := s_sseen s |} T
          else
            let '(e', out) := ep_timer c (s_s s) in
            advance fuel' c {| s_c := s_c s; s_s := e'; s_cout := s_cout s; s_sout := s_sout s ++ stamp ts out;
                               s_cseen := s_cseen s; s_sseen := s_sseen s |} T
      | Some tc, None =>
          let '(e', out) := ep_timer c (s_c s) in
          advance fuel' c {| s_c := e'; s_s := s_s s; s_cout := s_cout s ++ stamp tc out; s_sout := s_sout s;
                             s_cseen := s_cseen s; s_sseen := s_sseen s |} T
      | None, Some ts =>
          let '(e', out) := ep_timer c (s_s s) in
          advance fuel' c {| s_c := s_c s; s_s := e'; s_cout := s_cout s; s_sout := s_sout s ++ stamp ts out;
                             s_cseen := s_cseen s; s_sseen := s_sseen s |} T
      | None, None => s
      end
  end.

(* at time T the network delivers the k-th datagram emitted by the client (to the server) or by
   the server (to the client); of a second delivery of the same datagram only the unprotected records count *)
Inductive move :=
| Deliver (from_client : bool) (k : N) (T : N)
| Inject (to_client : bool) (d : dgram) (T : N).   (* a datagram no endpoint sent (forged, unprotected) *)

Definition nmem (k : N) (l : list N) : bool := existsb (N.eqb k) l.
(* a second copy of a datagram instance: the epoch-0 window is never moved, so its unprotected records
   are processed again; its protected records are replays (or already sit in the queue) *)
Definition unprotected (d : dgram) : dgram := filter (fun r => N.eqb (r_ep r) 0) d.

Definition do_move (c : cfg) (s0 : sys) (m : move) : option sys :=
  match m with
  | Deliver fc k T =>
      let s := advance 4096 c s0 T in
      if fc then
        match nth_error (s_cout s) (N.to_nat k) with
        | None => None
        | Some (_, d) =>
            let d := if nmem k (s_cseen s) then unprotected d else d in
            let '(e', out) := ep_datagram c (s_s s) d T in
            Some {| s_c := s_c s; s_s := e'; s_cout := s_cout s; s_sout := s_sout s ++ stamp T out;
                    s_cseen := k :: s_cseen s; s_sseen := s_sseen s |}
        end
      else
        match nth_error (s_sout s) (N.to_nat k) with
        | None => None
        | Some (_, d) =>
            let d := if nmem k (s_sseen s) then unprotected d else d in
            let '(e', out) := ep_datagram c (s_c s) d T in
            Some {| s_c := e'; s_s := s_s s; s_cout := s_cout s ++ stamp T out; s_sout := s_sout s;
                    s_cseen := s_cseen s; s_sseen := k :: s_sseen s |}
        end
  | Inject tc d T =>
      let s := advance 4096 c s0 T in
      if tc then
        let '(e', out) := ep_datagram c (s_c s) d T in
        Some {| s_c := e'; s_s := s_s s; s_cout := s_cout s ++ stamp T out; s_sout := s_sout s;
                s_cseen := s_cseen s; s_sseen := s_sseen s |}
      else
        let '(e', out) := ep_datagram c (s_s s) d T in
        Some {| s_c := s_c s; s_s := e'; s_cout := s_cout s; s_sout := s_sout s ++ stamp T out;
                s_cseen := s_cseen s; s_sseen := s_sseen s |}
  end.

Fixpoint run_moves (c : cfg) (s : sys) (ms : list move) : option sys :=
  match ms with
  | [] => Some s
  | m :: ms' => match do_move c s m with None => None | Some s' => run_moves c s' ms' end
  end.
