(* hs13 cookie exchange (C13, DTLS 1.3): the server side of the HelloRetryRequest exchange at the level
   of cookie VALUES (the state-machine model Hs/Hs13.v has no cookie bytes).
   internal/flight/flight13: flight0Generate draws the cookie when hello verification is on (before any
   ClientHello is seen); flight0Parse answers the first ClientHello with a HelloRetryRequest that
   carries the cookie - and a key_share request when the preferred common group is not among the
   client's shares; flight2Parse accepts a second ClientHello only if it echoes the cookie
   (ValidateClientHelloRetry: cookie extension equal to the one of the HelloRetryRequest) and is
   otherwise the first hello with the authorised changes; everything else is a fatal alert.
   Cookies are numbers; [None] = no cookie extension.  Definitions only. *)
From Coq Require Import List NArith Bool.
Import ListNotations.
Open Scope N_scope.

Inductive cin :=
| ICH1 (share_ok : bool)                          (* first ClientHello; its key shares include the preferred group *)
| ICH2 (ck : option N) (same share_ok : bool)     (* second ClientHello: cookie extension, same hello, share for the asked group *)
| IStale                                          (* a stale handshake fragment (counts as a repetition of the first hello) *)
| ITimerC.

Inductive cout :=
| OHRR (ck : option N) (group : bool)             (* HelloRetryRequest: cookie extension, asks for another group *)
| OFlight4                                        (* ServerHello + protected flight *)
| OAlertC.

Inductive cphase := C0 | CHrr (group : bool) | CDone | CFailed.

Record csrv := { cs_verify : bool; cs_cookie : N; cs_phase : cphase }.

Definition csrv_init (verify : bool) (k : N) : csrv := {| cs_verify := verify; cs_cookie := k; cs_phase := C0 |}.
Definition cset (s : csrv) (p : cphase) : csrv := {| cs_verify := cs_verify s; cs_cookie := cs_cookie s; cs_phase := p |}.

Definition issued (s : csrv) : option N := if cs_verify s then Some (cs_cookie s) else None.

Definition ock_eqb (a b : option N) : bool :=
  match a, b with Some x, Some y => N.eqb x y | None, None => true | _, _ => false end.

Definition cstep (s : csrv) (i : cin) : csrv * list cout :=
  match cs_phase s, i with
  | C0, ICH1 ok =>
      if cs_verify s then (cset s (CHrr (negb ok)), [OHRR (issued s) (negb ok)])
      else if ok then (cset s CDone, [OFlight4])
      else (cset s (CHrr true), [OHRR None true])
  | CHrr g, ICH1 _ => (s, [OHRR (issued s) g])            (* the repeated first hello is answered again *)
  | CHrr g, IStale => (s, [OHRR (issued s) g])            (* known gap F61: any stale fragment counts as that *)
  | CHrr g, ICH2 ck same ok =>
      if ock_eqb ck (issued s) && same && (ok || negb g) then (cset s CDone, [OFlight4])
      else (cset s CFailed, [OAlertC])
  | _, _ => (s, [])
  end.

Fixpoint crun (s : csrv) (is : list cin) : csrv * list (cin * list cout) :=
  match is with
  | [] => (s, [])
  | i :: is' => let '(s1, o) := cstep s i in let '(s2, tr) := crun s1 is' in (s2, (i, o) :: tr)
  end.

(* correspondence: observed outputs, one list per input; observed cookies are classes (1 = the cookie
   of the connection's first HelloRetryRequest) *)
Definition cout_eqb (a b : cout) : bool :=
  match a, b with
  | OHRR c1 g1, OHRR c2 g2 => ock_eqb c1 c2 && Bool.eqb g1 g2
  | OFlight4, OFlight4 => true
  | OAlertC, OAlertC => true
  | _, _ => false
  end.
Fixpoint louts_eqb (a b : list cout) : bool :=
  match a, b with [] , [] => true | x :: a', y :: b' => cout_eqb x y && louts_eqb a' b' | _, _ => false end.
Fixpoint trace_eqb (tr : list (cin * list cout)) (obs : list (list cout)) : bool :=
  match tr, obs with
  | [], [] => true
  | (_, o) :: tr', o' :: obs' => louts_eqb o o' && trace_eqb tr' obs'
  | _, _ => false
  end.

Definition hs13ck_case := (bool * list cin * list (list cout))%type.
Definition hs13ck_ok (c : hs13ck_case) : bool :=
  let '(verify, is, obs) := c in trace_eqb (snd (crun (csrv_init verify 1) is)) obs.

Fixpoint ck_mismatches_from (i : N) (l : list hs13ck_case) : list N :=
  match l with
  | [] => []
  | c :: l' => if hs13ck_ok c then ck_mismatches_from (i + 1) l' else i :: ck_mismatches_from (i + 1) l'
  end.
Definition mismatches (ok : hs13ck_case -> bool) (l : list hs13ck_case) : list N :=
  (fix go (i : N) (l : list hs13ck_case) : list N :=
     match l with [] => [] | c :: l' => if ok c then go (i + 1) l' else i :: go (i + 1) l' end) 0 l.
