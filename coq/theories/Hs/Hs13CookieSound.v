(* hs13 cookie exchange: proofs about Hs/Hs13Cookie.v over all input histories. *)
From Coq Require Import List NArith Bool.
From DtlsV Require Import Hs.Hs13Cookie.
Import ListNotations.
Open Scope N_scope.

Lemma cstep_fst s i : fst (cstep s i) = s \/ exists p, fst (cstep s i) = cset s p.
Proof.
  unfold cstep. destruct (cs_phase s), i;
    repeat (match goal with |- context [if ?b then _ else _] => destruct b eqn:? end); cbn [fst]; eauto.
Qed.

Lemma cstep_verify s i : cs_verify (fst (cstep s i)) = cs_verify s /\ cs_cookie (fst (cstep s i)) = cs_cookie s.
Proof. destruct (cstep_fst s i) as [H | [p H]]; rewrite H; split; reflexivity. Qed.

Lemma ock_eqb_ok a b : ock_eqb a b = true -> a = b.
Proof. destruct a, b; cbn; intro H; try discriminate; auto. apply N.eqb_eq in H. now subst. Qed.

(* with hello verification on, EVERY HelloRetryRequest the server ever emits carries the cookie of the
   connection (in particular: a cookie), whether or not it also asks for another key-share group *)
Theorem hrr_always_carries_cookie verify k is :
  verify = true ->
  forall i o c g, In (i, o) (snd (crun (csrv_init verify k) is)) -> In (OHRR c g) o -> c = Some k.
Proof.
  intro Hv.
  assert (G : forall is s, cs_verify s = true -> cs_cookie s = k ->
              forall i o c g, In (i, o) (snd (crun s is)) -> In (OHRR c g) o -> c = Some k).
  { clear is. induction is as [|i0 is IH]; intros s H1 H2 i o c g Hin Ho; cbn [crun] in Hin; [destruct Hin|].
    destruct (cstep_verify s i0) as [V1 V2].
    destruct (cstep s i0) as [s1 o1] eqn:E. cbn [fst] in *.
    destruct (crun s1 is) as [s2 tr] eqn:E2. cbn [snd] in Hin. destruct Hin as [Hin | Hin].
    - inversion Hin; subst i o. clear Hin.
      unfold cstep in E. unfold issued in E. rewrite H1 in E.
      destruct (cs_phase s), i0; cbn in E;
        repeat (match type of E with context [if ?b then _ else _] => destruct b end);
        inversion E; subst; cbn in Ho; try tauto;
        destruct Ho as [Ho | []]; inversion Ho; subst; reflexivity.
    - apply (IH s1 (eq_trans V1 H1) (eq_trans V2 H2) i o c g); [|exact Ho]. rewrite E2. exact Hin. }
  apply G; subst; reflexivity.
Qed.

(* with hello verification on, the server emits its ServerHello flight only after a second ClientHello
   whose cookie extension equals the issued cookie (so "no cookie" never matches) and which is the first
   hello; before that it emits nothing but HelloRetryRequests and alerts *)
Theorem cookie_gate13 verify k is :
  verify = true ->
  (exists i, In (i, [OFlight4]) (snd (crun (csrv_init verify k) is))) ->
  exists ok, In (ICH2 (Some k) true ok) is.
Proof.
  intros Hv.
  assert (G : forall is s, cs_verify s = true -> cs_cookie s = k ->
              (exists i, In (i, [OFlight4]) (snd (crun s is))) -> exists ok, In (ICH2 (Some k) true ok) is).
  { clear is. induction is as [|i0 is IH]; intros s H1 H2 (i & Hin); cbn [crun] in Hin; [destruct Hin|].
    destruct (cstep_verify s i0) as [V1 V2].
    destruct (cstep s i0) as [s1 o1] eqn:E. cbn [fst] in *.
    destruct (crun s1 is) as [s2 tr] eqn:E2. cbn [snd] in Hin. destruct Hin as [Hin | Hin].
    - inversion Hin; subst i o1. clear Hin.
      unfold cstep in E. unfold issued in E. rewrite H1 in E.
      destruct (cs_phase s) eqn:Ep; destruct i0; cbn in E; try (inversion E; fail).
      destruct (ock_eqb ck (Some (cs_cookie s)) && same && (share_ok || negb group)) eqn:Eb; [|inversion E].
      apply andb_prop in Eb. destruct Eb as [Eb _]. apply andb_prop in Eb. destruct Eb as [Ec Es].
      apply ock_eqb_ok in Ec. subst ck same. rewrite H2. exists share_ok. now left.
    - destruct (IH s1 (eq_trans V1 H1) (eq_trans V2 H2)) as (ok & Hok); [exists i; rewrite E2; exact Hin|].
      exists ok. now right. }
  intro H. apply (G is (csrv_init verify k)); subst; auto.
Qed.

(* every step emits nothing, one HelloRetryRequest, the flight, or an alert; and never on the timer *)
Theorem cstep_shape s i o :
  snd (cstep s i) = o ->
  o = [] \/ (exists c g, o = [OHRR c g] /\ i <> ITimerC) \/ o = [OFlight4] \/ o = [OAlertC].
Proof.
  intros <-. unfold cstep. destruct (cs_phase s), i; cbn;
    repeat (match goal with |- context [if ?b then _ else _] => destruct b end; cbn); auto;
    try (right; left; eexists; eexists; (split; [reflexivity | discriminate])).
Qed.
