(* hs13: boolean equality on model states with correctness proofs (set membership in the
   reachability computation of Hs13Live). *)
From Coq Require Import List NArith Bool Lia.
From DtlsV Require Import Hs.Hs13.
Import ListNotations.
Open Scope N_scope.

Section ListEq.
  Context {A : Type} (eqb : A -> A -> bool) (eqb_ok : forall a b, eqb a b = true -> a = b).
  Fixpoint leqb (a b : list A) : bool :=
    match a, b with
    | [], [] => true
    | x :: a', y :: b' => eqb x y && leqb a' b'
    | _, _ => false
    end.
  Lemma leqb_ok : forall a b, leqb a b = true -> a = b.
  Proof.
    induction a as [|x a IH]; intros [|y b] H; cbn in H; try discriminate; [reflexivity|].
    apply andb_prop in H. destruct H as [H1 H2]. apply eqb_ok in H1. apply IH in H2. now subst.
  Qed.
End ListEq.

Ltac beq :=
  repeat match goal with
         | H : _ && _ = true |- _ => apply andb_prop in H; destruct H
         | H : N.eqb _ _ = true |- _ => apply N.eqb_eq in H
         | H : Bool.eqb _ _ = true |- _ => apply Bool.eqb_prop in H
         end.

Lemma frag_eqb_ok a b : frag_eqb a b = true -> a = b.
Proof. destruct a as [[a1 a2] a3], b as [[b1 b2] b3]. cbn. intro H. beq. subst. reflexivity. Qed.

Lemma lfeqb_ok : forall a b, lfeqb a b = true -> a = b.
Proof.
  induction a as [|x a IH]; intros [|y b] H; cbn in H; try discriminate; [reflexivity|].
  apply andb_prop in H. destruct H as [H1 H2]. apply frag_eqb_ok in H1. apply IH in H2. now subst.
Qed.

Lemma body_eqb_ok a b : body_eqb a b = true -> a = b.
Proof.
  destruct a, b; cbn; intro H; try discriminate.
  - beq. subst. reflexivity.
  - apply lfeqb_ok in H. now subst.
Qed.

Lemma rec_eqb_ok a b : rec_eqb a b = true -> a = b.
Proof.
  destruct a as [e1 b1 s1], b as [e2 b2 s2]. unfold rec_eqb; cbn. intro H. beq.
  match goal with H : body_eqb _ _ = true |- _ => apply body_eqb_ok in H end. subst. reflexivity.
Qed.

Definition sfrag_eqb (a b : sfrag) : bool :=
  let '(a1, a2, a3, a4, a5, a6) := a in let '(b1, b2, b3, b4, b5, b6) := b in
  N.eqb a1 b1 && N.eqb a2 b2 && N.eqb a3 b3 && N.eqb a4 b4 && N.eqb a5 b5 && N.eqb a6 b6.
Lemma sfrag_eqb_ok a b : sfrag_eqb a b = true -> a = b.
Proof.
  destruct a as [[[[[a1 a2] a3] a4] a5] a6], b as [[[[[b1 b2] b3] b4] b5] b6]. cbn. intro H. beq. subst. reflexivity.
Qed.

Definition cache_eqb (a b : N * N * N) : bool :=
  let '(a1, a2, a3) := a in let '(b1, b2, b3) := b in N.eqb a1 b1 && N.eqb a2 b2 && N.eqb a3 b3.
Lemma cache_eqb_ok a b : cache_eqb a b = true -> a = b.
Proof. destruct a as [[a1 a2] a3], b as [[b1 b2] b3]. cbn. intro H. beq. subst. reflexivity. Qed.

Definition fstate_eqb (a b : fstate) : bool :=
  match a, b with Waiting, Waiting => true | Finished, Finished => true | _, _ => false end.
Lemma fstate_eqb_ok a b : fstate_eqb a b = true -> a = b.
Proof. destruct a, b; cbn; intro H; try discriminate; reflexivity. Qed.

Definition ep_eqb (a b : ep) : bool :=
  Bool.eqb (e_client a) (e_client b) && N.eqb (e_flight a) (e_flight b) && fstate_eqb (e_fst a) (e_fst b) &&
  Bool.eqb (e_retr a) (e_retr b) && Bool.eqb (e_reply a) (e_reply b) && N.eqb (e_lastsent a) (e_lastsent b) &&
  Bool.eqb (e_sent a) (e_sent b) &&
  N.eqb (e_interval a) (e_interval b) && N.eqb (e_timer a) (e_timer b) && leqb rec_eqb (e_out a) (e_out b) &&
  lfeqb (e_pending a) (e_pending b) && Bool.eqb (e_est a) (e_est b) && Bool.eqb (e_nstinit a) (e_nstinit b) &&
  leqb rec_eqb (e_nst a) (e_nst b) && N.eqb (e_nsti a) (e_nsti b) && N.eqb (e_nstt a) (e_nstt b) &&
  N.eqb (e_recvseq a) (e_recvseq b) && N.eqb (e_fbcur a) (e_fbcur b) && leqb sfrag_eqb (e_frags a) (e_frags b) &&
  leqb cache_eqb (e_cache a) (e_cache b) && N.eqb (e_repoch a) (e_repoch b) && N.eqb (e_lepoch a) (e_lepoch b) &&
  leqb rec_eqb (e_queue a) (e_queue b) && lfeqb (e_toack a) (e_toack b).

Lemma ep_eqb_ok a b : ep_eqb a b = true -> a = b.
Proof.
  unfold ep_eqb. destruct a, b; cbn. intro H. beq.
  repeat match goal with
         | H : leqb rec_eqb _ _ = true |- _ => apply (leqb_ok rec_eqb rec_eqb_ok) in H
         | H : leqb sfrag_eqb _ _ = true |- _ => apply (leqb_ok sfrag_eqb sfrag_eqb_ok) in H
         | H : leqb cache_eqb _ _ = true |- _ => apply (leqb_ok cache_eqb cache_eqb_ok) in H
         | H : lfeqb _ _ = true |- _ => apply lfeqb_ok in H
         | H : fstate_eqb _ _ = true |- _ => apply fstate_eqb_ok in H
         end.
  subst. reflexivity.
Qed.

Lemma bool_eqb_ok (a b : bool) : Bool.eqb a b = true -> a = b.
Proof. apply Bool.eqb_prop. Qed.

Definition dgram_eqb (a b : dgram) : bool := leqb rec_eqb a b.
Lemma dgram_eqb_ok a b : dgram_eqb a b = true -> a = b.
Proof. apply (leqb_ok rec_eqb rec_eqb_ok). Qed.
