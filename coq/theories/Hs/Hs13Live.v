(* hs13: untimed, adversarial closure of the DTLS 1.3 handshake model (Hs13) and a checker for
   liveness.  The network may deliver any datagram that was ever sent, any number of times, in
   any order, fire either endpoint's pending timer at any moment and let time pass (this
   over-approximates every finite pattern of loss, duplication, reordering and delay: the only
   decisions of the model that depend on the clock are which timer fires when, and the rule that
   a HelloRetryRequest is repeated at most once per InitialRetransmitInterval/2 - kept here as a
   flag "sent recently" that the adversary clears by letting time pass).  From EVERY state
   reachable that way, a bounded number of reliable rounds (each side's timer fires, everything
   emitted is delivered in order; at least InitialRetransmitInterval/2 passes between rounds, which
   the interval law guarantees) completes the handshake on both sides.
   Definitions and the generic soundness of the checker. *)
From Coq Require Import List NArith Bool Lia.
From DtlsV Require Import Hs.Hs13 Hs.Hs13Eq.
Import ListNotations.
Open Scope N_scope.

Notation "a &&& b" := (if a then b else false) (at level 40, left associativity).

(* ---------- untimed endpoint: clock fields erased ---------- *)

Definition untime (e : ep) : ep :=
  set_nst (set_fsm e (e_flight e) (e_fst e) (e_retr e) (e_reply e) 0 0 0 (e_out e) (e_pending e) (e_est e))
          (e_nstinit e) (e_nst e) 0 0.

(* ---------- sets of datagrams, kept sorted (canonical representation) ---------- *)

Definition dgram_key (d : dgram) : list N := N.of_nat (length d) :: flat_map rec_key d.

Fixpoint dins (d : dgram) (l : list dgram) : list dgram :=
  match l with
  | [] => [d]
  | x :: l' => match lcmp (dgram_key d) (dgram_key x) with
               | Lt => d :: l
               | Eq => if dgram_eqb d x then l else x :: dins d l'
               | Gt => x :: dins d l'
               end
  end.
Definition dins_all (ds l : list dgram) : list dgram := fold_left (fun acc d => dins d acc) ds l.

(* ---------- states and moves ---------- *)

Record ustate := {
  u_c : ep; u_s : ep;
  u_rc : bool; u_rs : bool;      (* the endpoint sent something less than InitialRetransmitInterval/2 ago *)
  u_nc : list dgram;             (* the datagrams the client has sent so far *)
  u_ns : list dgram
}.

(* a delivery to an endpoint whose "recent" flag is r: the clock reads its last send time (0 after
   erasure) if r, and half an interval or more later otherwise *)
Definition unow (c : cfg) (r : bool) : N := if r then 0 else c_initial c.
Definition urecent (c : cfg) (r : bool) (e' : ep) : bool :=
  r || (negb (N.eqb (c_initial c) 0) && N.eqb (e_lastsent e') (c_initial c)).

Definition uinit (c : cfg) : ustate :=
  {| u_c := untime (ep_init c true); u_s := untime (ep_init c false); u_rc := true; u_rs := true;
     u_nc := dins_all (snd (ep_start c true)) []; u_ns := dins_all (snd (ep_start c false)) [] |}.

Inductive umove := UDeliverToServer (i : nat) | UDeliverToClient (i : nat) | UTimerC | UTimerS | UTick.

Definition timer_pending (e : ep) : bool := match next_timer e with Some _ => true | None => false end.

Definition to_server (c : cfg) (s : ustate) (d : dgram) : ustate :=
  let '(e', out) := ep_datagram c (u_s s) d (unow c (u_rs s)) in
  {| u_c := u_c s; u_s := untime e'; u_rc := u_rc s; u_rs := urecent c (u_rs s) e';
     u_nc := u_nc s; u_ns := dins_all out (u_ns s) |}.
Definition to_client (c : cfg) (s : ustate) (d : dgram) : ustate :=
  let '(e', out) := ep_datagram c (u_c s) d (unow c (u_rc s)) in
  {| u_c := untime e'; u_s := u_s s; u_rc := urecent c (u_rc s) e'; u_rs := u_rs s;
     u_nc := dins_all out (u_nc s); u_ns := u_ns s |}.

Definition ustep (c : cfg) (s : ustate) (m : umove) : option ustate :=
  match m with
  | UDeliverToServer i =>
      match nth_error (u_nc s) i with Some d => Some (to_server c s d) | None => None end
  | UDeliverToClient i =>
      match nth_error (u_ns s) i with Some d => Some (to_client c s d) | None => None end
  | UTimerC =>
      if timer_pending (u_c s) then
        let '(e', out) := ep_timer c (u_c s) in
        Some {| u_c := untime e'; u_s := u_s s; u_rc := u_rc s; u_rs := u_rs s;
                u_nc := dins_all out (u_nc s); u_ns := u_ns s |}
      else None
  | UTimerS =>
      if timer_pending (u_s s) then
        let '(e', out) := ep_timer c (u_s s) in
        Some {| u_c := u_c s; u_s := untime e'; u_rc := u_rc s; u_rs := u_rs s;
                u_nc := u_nc s; u_ns := dins_all out (u_ns s) |}
      else None
  | UTick => Some {| u_c := u_c s; u_s := u_s s; u_rc := false; u_rs := false; u_nc := u_nc s; u_ns := u_ns s |}
  end.

Definition moves_of (c : cfg) (s : ustate) : list umove :=
  map UDeliverToServer (seq 0 (length (u_nc s))) ++
  map UDeliverToClient (seq 0 (length (u_ns s))) ++ [UTimerC; UTimerS; UTick].

Inductive Reach (c : cfg) : ustate -> Prop :=
| reach_init : Reach c (uinit c)
| reach_step : forall s m s', Reach c s -> ustep c s m = Some s' -> Reach c s'.

(* ---------- reliable rounds ---------- *)

(* an endpoint with its "recent" flag *)
Definition pep := (ep * bool)%type.

(* deliver queues of datagrams until quiescence; everything emitted is delivered, in order *)
Fixpoint flush (fuel : nat) (c : cfg) (pc ps : pep) (to_s to_c : list dgram) : pep * pep :=
  match fuel with
  | O => (pc, ps)
  | S fuel' =>
      match to_s, to_c with
      | d :: to_s', _ =>
          let '(es', out) := ep_datagram c (fst ps) d (unow c (snd ps)) in
          flush fuel' c pc (untime es', urecent c (snd ps) es') to_s' (to_c ++ out)
      | [], d :: to_c' =>
          let '(ec', out) := ep_datagram c (fst pc) d (unow c (snd pc)) in
          flush fuel' c (untime ec', urecent c (snd pc) ec') ps out to_c'
      | [], [] => (pc, ps)
      end
  end.

Definition flush_fuel : nat := 4000.

Definition fire (c : cfg) (p : pep) : pep * list dgram :=
  if timer_pending (fst p) then let '(e', out) := ep_timer c (fst p) in ((untime e', snd p), out) else (p, []).

(* the client's timer, then the server's; after each, the network delivers everything *)
Definition round (c : cfg) (p : pep * pep) : pep * pep :=
  let '(pc, ps) := p in
  let '(pc1, o1) := fire c pc in
  let '(pc2, ps2) := flush flush_fuel c pc1 ps o1 [] in
  let '(ps3, o3) := fire c ps2 in
  flush flush_fuel c pc2 ps3 [] o3.

Definition tick (p : pep * pep) : pep * pep := let '((ec, _), (es, _)) := p in ((ec, false), (es, false)).

(* further rounds: time passes between rounds *)
Fixpoint rounds (k : nat) (c : cfg) (p : pep * pep) : pep * pep :=
  match k with O => p | S k' => rounds k' c (round c (tick p)) end.

Definition both_est (p : pep * pep) : bool := e_est (fst (fst p)) && e_est (fst (snd p)).

(* K reliable rounds from state s (K >= 1) *)
Definition live_from (K : nat) (c : cfg) (s : ustate) : bool :=
  both_est (rounds (pred K) c (round c ((u_c s, u_rc s), (u_s s, u_rs s)))).

(* ---------- equality of states ---------- *)

Definition ustate_eqb (a b : ustate) : bool :=
  N.eqb (e_flight (u_c a)) (e_flight (u_c b)) &&& N.eqb (e_flight (u_s a)) (e_flight (u_s b)) &&&
  Bool.eqb (u_rc a) (u_rc b) &&& Bool.eqb (u_rs a) (u_rs b) &&&
  Nat.eqb (length (u_nc a)) (length (u_nc b)) &&& Nat.eqb (length (u_ns a)) (length (u_ns b)) &&&
  ep_eqb (u_c a) (u_c b) &&& ep_eqb (u_s a) (u_s b) &&&
  leqb dgram_eqb (u_nc a) (u_nc b) &&& leqb dgram_eqb (u_ns a) (u_ns b).

Lemma andl_prop (a b : bool) : a &&& b = true -> a = true /\ b = true.
Proof. destruct a; cbn; auto. discriminate. Qed.

Lemma ustate_eqb_ok a b : ustate_eqb a b = true -> a = b.
Proof.
  unfold ustate_eqb. destruct a, b; cbn [u_c u_s u_rc u_rs u_nc u_ns]. intro H.
  repeat match goal with H : _ &&& _ = true |- _ => apply andl_prop in H; destruct H end.
  repeat match goal with
         | H : ep_eqb _ _ = true |- _ => apply ep_eqb_ok in H
         | H : leqb dgram_eqb _ _ = true |- _ => apply (leqb_ok dgram_eqb dgram_eqb_ok) in H
         | H : Bool.eqb _ _ = true |- _ => apply Bool.eqb_prop in H
         end.
  subst. reflexivity.
Qed.

Definition umem (s : ustate) (R : list ustate) : bool := existsb (ustate_eqb s) R.

Lemma umem_In s R : umem s R = true -> In s R.
Proof.
  unfold umem. intro H. apply existsb_exists in H. destruct H as (x & Hx & He).
  apply ustate_eqb_ok in He. now subst.
Qed.

(* ---------- closure computation and the checker ---------- *)

Definition succs (c : cfg) (s : ustate) : list ustate :=
  flat_map (fun m => match ustep c s m with Some s' => [s'] | None => [] end) (moves_of c s).

Fixpoint add_new (R : list ustate) (xs : list ustate) (acc : list ustate) : list ustate * list ustate :=
  match xs with
  | [] => (R, acc)
  | x :: xs' => if umem x R then add_new R xs' acc else add_new (x :: R) xs' (x :: acc)
  end.

Fixpoint closure (fuel : nat) (c : cfg) (R : list ustate) (frontier : list ustate) : list ustate :=
  match fuel with
  | O => R
  | S fuel' =>
      match frontier with
      | [] => R
      | _ =>
          let '(R', fresh) := add_new R (flat_map (succs c) frontier) [] in
          closure fuel' c R' fresh
      end
  end.

Definition reach_set (fuel : nat) (c : cfg) : list ustate := closure fuel c [uinit c] [uinit c].

Definition closed (c : cfg) (R : list ustate) : bool :=
  umem (uinit c) R && forallb (fun s => forallb (fun s' => umem s' R) (succs c s)) R.

Definition live_check (fuel K : nat) (c : cfg) : bool :=
  let R := reach_set fuel c in
  closed c R && forallb (live_from K c) R.

Lemma enabled_in_moves c s m s' : ustep c s m = Some s' -> In m (moves_of c s).
Proof.
  unfold moves_of. intro H. destruct m as [i | i | | | ]; cbn [ustep] in H.
  - apply in_or_app. left. apply in_map. apply in_seq.
    destruct (nth_error (u_nc s) i) eqn:E; [|discriminate].
    assert (i < length (u_nc s))%nat by (apply nth_error_Some; congruence). lia.
  - apply in_or_app. right. apply in_or_app. left. apply in_map. apply in_seq.
    destruct (nth_error (u_ns s) i) eqn:E; [|discriminate].
    assert (i < length (u_ns s))%nat by (apply nth_error_Some; congruence). lia.
  - apply in_or_app. right. apply in_or_app. right. now left.
  - apply in_or_app. right. apply in_or_app. right. right. now left.
  - apply in_or_app. right. apply in_or_app. right. right. right. now left.
Qed.

Lemma succs_complete c s m s' : ustep c s m = Some s' -> In s' (succs c s).
Proof.
  intro H. unfold succs. apply in_flat_map. exists m. split; [eapply enabled_in_moves; exact H|].
  rewrite H. now left.
Qed.

Lemma closed_reach c R : closed c R = true -> forall s, Reach c s -> In s R.
Proof.
  unfold closed. intro H. apply andb_prop in H. destruct H as [Hi Hc].
  intros s Hr. induction Hr as [|s m s' Hr IH Hstep].
  - now apply umem_In.
  - rewrite forallb_forall in Hc. specialize (Hc s IH). rewrite forallb_forall in Hc.
    apply umem_In. apply Hc. eapply succs_complete; exact Hstep.
Qed.

(* soundness of the checker: if it says yes, then from EVERY reachable state K reliable rounds
   establish both sides *)
Theorem live_check_sound fuel K c :
  live_check fuel K c = true -> forall s, Reach c s -> live_from K c s = true.
Proof.
  unfold live_check. intro H. apply andb_prop in H. destruct H as [Hc Hl].
  intros s Hr. rewrite forallb_forall in Hl. apply Hl. eapply closed_reach; eauto.
Qed.

(* any boolean state predicate checked over the same closure holds in every reachable state *)
Theorem closure_invariant fuel c (P : ustate -> bool) :
  closed c (reach_set fuel c) = true -> forallb P (reach_set fuel c) = true ->
  forall s, Reach c s -> P s = true.
Proof.
  intros Hc Hp s Hr. rewrite forallb_forall in Hp. apply Hp. eapply closed_reach; eauto.
Qed.
