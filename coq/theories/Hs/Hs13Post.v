(* DTLS 1.3 post-handshake retransmission (internal/handshake/post_handshake.go): the timer of a
   reliable post-handshake flight (NewSessionTicket, KeyUpdate).  Definitions only; proofs in
   Hs/Hs13PostSound.v, comparison with the implementation in Hs/Hs13PostRun.v.

   reliablePostHandshakeFlight carries its own RetransmitInterval and NextRetransmit:
   - buildKeyUpdateFlight / makeReliableNewSessionTicket set RetransmitInterval to the configured
     initial interval, startKeyUpdate / startNewSessionTicket arm NextRetransmit = now + interval;
   - retransmitPostHandshakeFlight (timer expiry at [now]) applies the rule of
     handleRetransmitTimeout to the flight's interval and arms NextRetransmit = now + new interval;
   - completePostHandshakeFlight (every fragment acknowledged) deletes the flight.
   startQueuedPostHandshake keeps one outbound flight active at a time.  Times in ms. *)
From Coq Require Import List NArith Bool.
Import ListNotations.
Open Scope N_scope.

Record pcfg := { p_initial : N; p_backoff : bool }.

(* the interval rule (the same function of backoff flag and interval as Hs13.bump) *)
Definition pbump (c : pcfg) (i : N) : N :=
  if p_backoff c && (i <? 60000) then (if 30000 <? i then 60000 else 2 * i) else i.

Definition psched (c : pcfg) (i : N) (k : nat) : N :=
  if p_backoff c && (i <? 60000) then N.min (i * 2 ^ N.of_nat k) 60000 else i.

Record pflight := { pf_interval : N; pf_next : N }.

Definition start (c : pcfg) (now : N) : pflight :=
  {| pf_interval := p_initial c; pf_next := now + p_initial c |}.

Definition timeout (c : pcfg) (f : pflight) (now : N) : pflight :=
  let i := pbump c (pf_interval f) in {| pf_interval := i; pf_next := now + i |}.

Fixpoint timeouts (c : pcfg) (f : pflight) (k : nat) : pflight :=
  match k with O => f | S k' => let g := timeouts c f k' in timeout c g (pf_next g) end.

(* the connection: the active outbound flight (named by its message_seq), if any *)
Definition pconn := option (N * pflight).

Inductive pev :=
| Start (id now : N)     (* a queued command starts its flight at [now] *)
| Timeout                (* the timer of the active flight expires (at its deadline) *)
| Acked (id : N).        (* every fragment of flight [id] acknowledged *)

Definition acked (s : pconn) (id : N) : pconn :=
  match s with Some (a, f) => if N.eqb a id then None else s | None => None end.

Definition pstep (c : pcfg) (s : pconn) (e : pev) : pconn :=
  match e, s with
  | Start id now, None => Some (id, start c now)
  | Start _ _, Some _ => s                         (* stays queued behind the active flight *)
  | Timeout, Some (a, f) => Some (a, timeout c f (pf_next f))
  | Timeout, None => None
  | Acked id, _ => acked s id
  end.

Definition prun (c : pcfg) (s : pconn) (h : list pev) : pconn := fold_left (pstep c) h s.

(* ---------- the variant with ONE interval field per connection that nothing restores ---------- *)

Record shconn := { sh_interval : N; sh_active : option (N * N) (* id, NextRetransmit *) }.

Definition sh_init (c : pcfg) : shconn := {| sh_interval := p_initial c; sh_active := None |}.

Definition sh_step (c : pcfg) (s : shconn) (e : pev) : shconn :=
  match e, sh_active s with
  | Start id now, None => {| sh_interval := sh_interval s; sh_active := Some (id, now + sh_interval s) |}
  | Start _ _, Some _ => s
  | Timeout, Some (a, nx) =>
      let i := pbump c (sh_interval s) in {| sh_interval := i; sh_active := Some (a, nx + i) |}
  | Timeout, None => s
  | Acked id, Some (a, _) => if N.eqb a id then {| sh_interval := sh_interval s; sh_active := None |} else s
  | Acked _, None => s
  end.

Definition sh_run (c : pcfg) (s : shconn) (h : list pev) : shconn := fold_left (sh_step c) h s.
