(* Comparison of observed post-handshake flights (harness zz_verif_c17_post_test.go: every
   transmission of a NewSessionTicket / KeyUpdate with its virtual timestamp, attributed to its
   flight by opening the record) with the model Hs/Hs13Post.v. *)
From Coq Require Import List NArith Bool.
From DtlsV Require Import Hs.Hs13Post.
Import ListNotations.
Open Scope N_scope.

Inductive obs :=
| OStart (id t : N)   (* first transmission of flight [id] at [t] *)
| OTx (id t : N)      (* a further transmission of flight [id] at [t] *)
| OAck (id : N).      (* an ACK naming a record of flight [id] reached its sender *)

(* one side of a connection: every first transmission finds no other flight active, every further
   transmission comes exactly at the model's deadline, and at the end of the run no deadline has passed *)
Fixpoint side_ok (c : pcfg) (s : pconn) (tend : N) (l : list obs) : bool :=
  match l with
  | [] => match s with Some (_, f) => tend <=? pf_next f | None => true end
  | OStart id t :: l' =>
      match s with None => side_ok c (pstep c s (Start id t)) tend l' | Some _ => false end
  | OTx id t :: l' =>
      match s with
      | Some (a, f) => N.eqb a id && N.eqb t (pf_next f) && side_ok c (pstep c s Timeout) tend l'
      | None => false
      end
  | OAck id :: l' => side_ok c (pstep c s (Acked id)) tend l'
  end.

(* case: initial interval (ms), backoff, end of the run, observations of the client, of the server *)
Definition post_ok (x : N * bool * N * list obs * list obs) : bool :=
  let '(i, b, tend, cl, sv) := x in
  let c := {| p_initial := i; p_backoff := b |} in
  side_ok c None tend cl && side_ok c None tend sv.

Fixpoint mismatches_from {A} (ok : A -> bool) (i : N) (l : list A) : list N :=
  match l with
  | [] => []
  | c :: l' => if ok c then mismatches_from ok (i + 1) l' else i :: mismatches_from ok (i + 1) l'
  end.
Definition mismatches {A} (ok : A -> bool) (l : list A) : list N := mismatches_from ok 0 l.

(* non-vacuity: a second flight on its own schedule is accepted, one that inherits the interval the
   first flight had backed off to is rejected *)
Example post_ok_accepts :
  post_ok (100, true, 2000, [OStart 3 400; OTx 3 500; OTx 3 700; OAck 3; OStart 4 1300; OTx 4 1400; OTx 4 1600; OTx 4 2000], []) = true.
Proof. vm_compute. reflexivity. Qed.
Example post_ok_rejects_inherited_interval :
  post_ok (100, true, 2100, [OStart 3 400; OTx 3 500; OTx 3 700; OAck 3; OStart 4 1300; OTx 4 1700], []) = false.
Proof. vm_compute. reflexivity. Qed.
