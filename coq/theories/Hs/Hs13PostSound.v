(* Proofs about the post-handshake flight timer (Hs/Hs13Post.v). *)
From Coq Require Import List NArith Bool Lia ZifyN ZifyNat ZifyBool.
From DtlsV Require Import Hs.Hs13 Hs.Hs13Sound Hs.Hs13Post.
Import ListNotations.
Open Scope N_scope.

(* the rule is the handshake's rule (Hs13.bump / Hs13Sound.sched) *)
Lemma pbump_is_bump (c : cfg) (p : pcfg) i : p_backoff p = c_backoff c -> pbump p i = bump c i.
Proof. intro H. unfold pbump, bump. rewrite H. reflexivity. Qed.

Definition cfg_of (p : pcfg) : cfg :=
  {| c_mtu := 0; c_hrr := false; c_initial := p_initial p; c_backoff := p_backoff p;
     c_flags := []; c_fl := []; c_dualc := false |}.

Lemma pbump_psched c i k : pbump c (psched c i k) = psched c i (S k).
Proof. exact (bump_sched (cfg_of c) i k). Qed.

Lemma psched_0 c i : psched c i 0 = i.
Proof. exact (sched_0 (cfg_of c) i). Qed.

Lemma psched_bounds c i k : i <= psched c i k /\ psched c i k <= N.max i 60000.
Proof. exact (sched_bounds (cfg_of c) i k). Qed.

(* a flight that is not acknowledged: after k expiries its interval is psched I k, and the next
   expiry comes exactly that interval after the previous one; the first one comes one INITIAL
   interval after the first transmission *)
Theorem post_flight_schedule c now k :
  let f := timeouts c (start c now) k in
  pf_interval f = psched c (p_initial c) k /\
  pf_next (timeouts c (start c now) (S k)) = pf_next f + psched c (p_initial c) (S k).
Proof.
  cbv zeta. assert (Hi : forall n, pf_interval (timeouts c (start c now) n) = psched c (p_initial c) n).
  { induction n as [|n IH].
    - cbn [timeouts start pf_interval]. symmetry. apply psched_0.
    - cbn [timeouts]. unfold timeout. cbn [pf_interval]. rewrite IH. apply pbump_psched. }
  split; [apply Hi|].
  cbn [timeouts]. unfold timeout at 1. cbn [pf_next]. rewrite Hi, pbump_psched. reflexivity.
Qed.

Theorem post_first_retransmission c now :
  pf_next (start c now) = now + p_initial c /\ pf_interval (start c now) = p_initial c.
Proof. split; reflexivity. Qed.

Lemma prun_app c s h1 h2 : prun c s (h1 ++ h2) = prun c (prun c s h1) h2.
Proof. unfold prun. apply fold_left_app. Qed.

(* whatever happened on the connection before (any history of starts, expiries and
   acknowledgements, from any state): once the active flight is acknowledged, the flight started
   next has the configured initial interval and its first retransmission is due one initial
   interval after its start *)
Definition active_is (s : pconn) (id : N) : Prop :=
  match s with Some (a, _) => a = id | None => True end.

Theorem post_interval_restored c s h id id' now :
  active_is (prun c s h) id ->
  prun c s (h ++ [Acked id; Start id' now]) = Some (id', start c now) /\
  pf_interval (start c now) = p_initial c /\ pf_next (start c now) = now + p_initial c.
Proof.
  intro Hact. split; [|split; reflexivity].
  rewrite prun_app. unfold prun at 1. cbn [fold_left pstep].
  destruct (prun c s h) as [[a f]|]; cbn [acked active_is] in *.
  - subst a. rewrite N.eqb_refl. reflexivity.
  - reflexivity.
Qed.

(* every flight that starts, starts afresh: nothing of the flights before it survives *)
Theorem post_start_fresh c s h id now :
  prun c s h = None -> prun c s (h ++ [Start id now]) = Some (id, start c now).
Proof. intro H. rewrite prun_app, H. reflexivity. Qed.

(* k expiries of the active flight, nothing else *)
Lemma prun_timeouts c a f k : prun c (Some (a, f)) (repeat Timeout k) = Some (a, timeouts c f k).
Proof.
  revert f. induction k as [|k IH]; intro f; [reflexivity|].
  replace (repeat Timeout (S k)) with (repeat Timeout k ++ [Timeout]).
  - rewrite prun_app, IH. reflexivity.
  - clear. induction k as [|k IH]; [reflexivity|]. cbn [repeat app] in *. rewrite IH. reflexivity.
Qed.

(* the whole law on the connection: after any history, the acknowledgement of the active flight
   and the start of the next one, k expiries in silence leave the interval at psched I k and the
   deadline one such interval after the previous expiry *)
Theorem post_schedule_after_history c s h id id' now k :
  active_is (prun c s h) id ->
  exists f, prun c s (h ++ [Acked id; Start id' now] ++ repeat Timeout k) = Some (id', f) /\
    pf_interval f = psched c (p_initial c) k /\
    pf_next (timeout c f (pf_next f)) = pf_next f + psched c (p_initial c) (S k).
Proof.
  intro Hact. exists (timeouts c (start c now) k).
  rewrite app_assoc, prun_app.
  destruct (post_interval_restored c s h id id' now Hact) as [-> _].
  rewrite prun_timeouts. split; [reflexivity|]. exact (post_flight_schedule c now k).
Qed.

(* the variant with one interval field per connection that is never restored does NOT have the
   property: one expiry of an earlier, acknowledged flight and the next flight is first
   retransmitted after twice the configured interval *)
Theorem shared_interval_restored_refuted :
  exists c h id id' now nx,
    sh_active (sh_run c (sh_init c) h) = Some (id, nx) /\
    forall d, sh_active (sh_run c (sh_init c) (h ++ [Acked id; Start id' now])) = Some (id', d) ->
              d <> now + p_initial c.
Proof.
  exists {| p_initial := 100; p_backoff := true |}, [Start 3 0; Timeout], 3, 4, 1000, 300.
  split; [reflexivity|]. intros d H. vm_compute in H. injection H as <-. vm_compute. discriminate.
Qed.

(* ... and it inherits every expiry of the connection: after k expiries in all the first
   retransmission of a new flight is psched I k late *)
Theorem shared_interval_inherits c k id id' now :
  let h := Start id 0 :: repeat Timeout k in
  sh_active (sh_run c (sh_init c) (h ++ [Acked id; Start id' now])) = Some (id', now + psched c (p_initial c) k).
Proof.
  cbv zeta.
  assert (Hk : exists nx, sh_run c (sh_init c) (Start id 0 :: repeat Timeout k) =
            {| sh_interval := psched c (p_initial c) k; sh_active := Some (id, nx) |}).
  { induction k as [|k [nx IH]].
    - exists (0 + p_initial c). cbn. rewrite psched_0. reflexivity.
    - exists (nx + psched c (p_initial c) (S k)).
      replace (Start id 0 :: repeat Timeout (S k)) with ((Start id 0 :: repeat Timeout k) ++ [Timeout]).
      + unfold sh_run in *. rewrite fold_left_app, IH. cbn [fold_left sh_step sh_active sh_interval].
        rewrite pbump_psched. reflexivity.
      + cbn [app]. f_equal. clear. induction k as [|k IH]; [reflexivity|]. cbn [repeat app] in *. rewrite IH. reflexivity. }
  destruct Hk as [nx Hk]. unfold sh_run in *. rewrite fold_left_app, Hk.
  cbn [fold_left sh_step sh_active sh_interval]. rewrite N.eqb_refl. reflexivity.
Qed.
