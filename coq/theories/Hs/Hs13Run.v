(* hs13 trace acceptance: replay the deliveries the scripted network performed on the real DTLS 1.3
   client and server through the model (Hs/Hs13.v) and compare everything each side emitted
   (datagram by datagram: epoch and content of every record, ACK contents, virtual time) and
   whether each side reported an established handshake. *)
From Coq Require Import List NArith Bool.
From DtlsV Require Import Hs.Hs13.
Import ListNotations.
Open Scope N_scope.

(* first occurrences only (an ACK that lists two records carrying the same fragment) *)
Fixpoint dedupe (l acc : list frag) : list frag :=
  match l with
  | [] => acc
  | f :: l' => dedupe l' (fadd f acc)
  end.

Definition body_obs_eqb (model obs : body) : bool :=
  match model, obs with
  | Hs h1 m1 o1 l1 t1, Hs h2 m2 o2 l2 t2 => N.eqb h1 h2 && N.eqb m1 m2 && N.eqb o1 o2 && N.eqb l1 l2 && N.eqb t1 t2
  | Ack f1, Ack f2 => lfeqb f1 (dedupe f2 [])
  | _, _ => false
  end.

Definition rec_obs_eqb (a b : rec) : bool := N.eqb (r_ep a) (r_ep b) && body_obs_eqb (r_body a) (r_body b).

Fixpoint dgram_eqb (a b : dgram) : bool :=
  match a, b with
  | [], [] => true
  | x :: a', y :: b' => rec_obs_eqb x y && dgram_eqb a' b'
  | _, _ => false
  end.

Fixpoint out_eqb (a b : list (N * dgram)) : bool :=
  match a, b with
  | [], [] => true
  | (t1, d1) :: a', (t2, d2) :: b' => N.eqb t1 t2 && dgram_eqb d1 d2 && out_eqb a' b'
  | _, _ => false
  end.

(* case: configuration, moves, end time, observed client emissions, observed server emissions,
   client established, server established *)
Definition hs13_case := (cfg * list move * N * list (N * dgram) * list (N * dgram) * bool * bool)%type.

Definition hs13_final (c : hs13_case) : option sys :=
  let '(cf, ms, tend, oc, os, ce, se) := c in
  match run_moves cf (sys_init cf) ms with
  | None => None
  | Some s => Some (advance 4096 cf s tend)
  end.

Definition hs13_ok (c : hs13_case) : bool :=
  let '(cf, ms, tend, oc, os, ce, se) := c in
  match hs13_final c with
  | None => false
  | Some s' =>
      out_eqb (s_cout s') oc && out_eqb (s_sout s') os &&
      Bool.eqb (e_est (s_c s')) ce && Bool.eqb (e_est (s_s s')) se
  end.

(* for diagnosis: what the model emitted *)
Definition hs13_model_out (c : hs13_case) :=
  match hs13_final c with
  | None => None
  | Some s' => Some (s_cout s', s_sout s', e_est (s_c s'), e_est (s_s s'), e_flight (s_c s'), e_flight (s_s s'))
  end.

(* index of the first emission on which model and observation differ (for diagnosis) *)
Fixpoint first_diff (i : N) (a b : list (N * dgram)) : option N :=
  match a, b with
  | [], [] => None
  | (t1, d1) :: a', (t2, d2) :: b' => if N.eqb t1 t2 && dgram_eqb d1 d2 then first_diff (i + 1) a' b' else Some i
  | _, _ => Some i
  end.

Definition hs13_diff (c : hs13_case) :=
  let '(cf, ms, tend, oc, os, ce, se) := c in
  match hs13_final c with
  | None => None
  | Some s' => Some (first_diff 0 (s_cout s') oc, first_diff 0 (s_sout s') os, e_est (s_c s'), e_est (s_s s'))
  end.

Fixpoint mismatches_from {A} (ok : A -> bool) (i : N) (l : list A) : list N :=
  match l with
  | [] => []
  | c :: l' => if ok c then mismatches_from ok (i + 1) l' else i :: mismatches_from ok (i + 1) l'
  end.
Definition mismatches {A} (ok : A -> bool) (l : list A) : list N := mismatches_from ok 0 l.

(* helpers to write observations compactly *)
Definition H (ep ht m fo fl tl : N) : rec := {| r_ep := ep; r_body := Hs ht m fo fl tl; r_size := 0 |}.
Definition A (ep : N) (fs : list frag) : rec := {| r_ep := ep; r_body := Ack fs; r_size := 0 |}.
