(* hs13: proofs about the DTLS 1.3 handshake state-machine model (Hs13): retransmission
   discipline (C17), cookie-exchange discipline of the HelloRetryRequest (C13) and the instances of
   the liveness checker on the regenerated flight structures (C02). *)
From Coq Require Import List NArith Bool Arith Lia.
From Coq Require Import ZifyN ZifyNat ZifyBool.
From DtlsV Require Import Gen.GeneratedHs13 Hs.Hs13 Hs.Hs13Eq Hs.Hs13Live.
Import ListNotations.
Open Scope N_scope.

Ltac dif := match goal with |- context [if ?b then _ else _] => destruct b end.

(* ---------- the receive path never touches the state-machine fields ---------- *)

Definition same_fsm (a b : ep) : Prop :=
  e_client a = e_client b /\ e_flight a = e_flight b /\ e_fst a = e_fst b /\ e_retr a = e_retr b /\
  e_reply a = e_reply b /\ e_lastsent a = e_lastsent b /\ e_interval a = e_interval b /\ e_timer a = e_timer b /\
  e_out a = e_out b /\ e_pending a = e_pending b /\ e_est a = e_est b /\ e_nstinit a = e_nstinit b /\
  e_nst a = e_nst b /\ e_nsti a = e_nsti b /\ e_nstt a = e_nstt b /\ e_sent a = e_sent b.

Lemma same_fsm_refl a : same_fsm a a.
Proof. unfold same_fsm; repeat split. Qed.
Lemma same_fsm_trans a b c : same_fsm a b -> same_fsm b c -> same_fsm a c.
Proof.
  unfold same_fsm.
  intros (?&?&?&?&?&?&?&?&?&?&?&?&?&?&?&?) (?&?&?&?&?&?&?&?&?&?&?&?&?&?&?&?). repeat split; congruence.
Qed.
Lemma same_fsm_set_rx e a b c d f g h i : same_fsm e (set_rx e a b c d f g h i).
Proof. unfold same_fsm, set_rx; cbn; repeat split. Qed.

Lemma same_fsm_pop_all fuel : forall e, same_fsm e (pop_all fuel e).
Proof.
  induction fuel as [|fuel IH]; intro e; cbn [pop_all]; [apply same_fsm_refl|].
  destruct (complete (e_fbcur e) (e_frags e)) as [[ht ep0]|]; [|apply same_fsm_refl].
  eapply same_fsm_trans; [apply same_fsm_set_rx | apply IH].
Qed.

Lemma same_fsm_fb_advance e : same_fsm e (fb_advance e).
Proof. unfold fb_advance. dif; [apply same_fsm_set_rx | apply same_fsm_refl]. Qed.

Lemma same_fsm_push e f : same_fsm e (fst (push e f)).
Proof.
  unfold push. destruct f as [[[[[m ht] foff] fl] tl] ep0].
  destruct (m <? e_fbcur (fb_advance e)); cbn [fst]; [apply same_fsm_fb_advance|].
  destruct (_ && _); cbn [fst]; [apply same_fsm_fb_advance|].
  eapply same_fsm_trans; [apply same_fsm_fb_advance|].
  eapply same_fsm_trans; [apply same_fsm_set_rx | apply same_fsm_pop_all].
Qed.

Lemma same_fsm_enqueue l e r : same_fsm e (enqueue l e r).
Proof. unfold enqueue. dif; [apply same_fsm_set_rx | apply same_fsm_refl]. Qed.

Lemma same_fsm_set_toack e t : same_fsm e (set_toack e t).
Proof. apply same_fsm_set_rx. Qed.
Lemma same_fsm_set_recvseq e n : same_fsm e (set_recvseq e n).
Proof. apply same_fsm_set_rx. Qed.
Lemma same_fsm_set_epochs e a b : same_fsm e (set_epochs e a b).
Proof. apply same_fsm_set_rx. Qed.

Lemma same_fsm_process_record l e r : same_fsm e (fst (fst (fst (process_record l e r)))).
Proof.
  unfold process_record.
  destruct (N.eqb (r_ep r) 0 && e_est e); cbn [fst]; [apply same_fsm_refl|].
  destruct (N.eqb (r_ep r) 0 || can_open e (r_ep r)).
  - destruct (r_body r) as [ht m fo fl tl | fs].
    + pose proof (same_fsm_push e (m, ht, fo, fl, tl, r_ep r)) as H.
      destruct (push e (m, ht, fo, fl, tl, r_ep r)) as [e1 retr]. cbn [fst] in *.
      dif; cbn [fst]; [|exact H]. eapply same_fsm_trans; [exact H | apply same_fsm_set_toack].
    + dif; cbn [fst]; apply same_fsm_refl.
  - dif; cbn [fst]; [apply same_fsm_enqueue | apply same_fsm_refl].
Qed.

Lemma same_fsm_process_records l rs : forall e, same_fsm e (fst (fst (fst (process_records l e rs)))).
Proof.
  induction rs as [|r rs IH]; intro e; cbn [process_records]; [apply same_fsm_refl|].
  pose proof (same_fsm_process_record l e r) as H1.
  destruct (process_record l e r) as [[[e1 h1] r1] a1]. cbn [fst] in H1.
  pose proof (IH e1) as H2. destruct (process_records l e1 rs) as [[[e2 h2] r2] a2]. cbn [fst] in *.
  eapply same_fsm_trans; eauto.
Qed.

Lemma same_fsm_drain e : same_fsm e (drain e).
Proof.
  unfold drain.
  pose proof (same_fsm_process_records false (e_queue e)
    (set_rx e (e_recvseq e) (e_fbcur e) (e_frags e) (e_cache e) (e_repoch e) (e_lepoch e) [] (e_toack e))) as H.
  destruct (process_records false _ (e_queue e)) as [[[e1 h] r] a]. cbn [fst] in H.
  eapply same_fsm_trans; [apply same_fsm_set_rx | exact H].
Qed.

Lemma same_fsm_parse_c3 e : same_fsm e (fst (parse_c3 e)).
Proof.
  unfold parse_c3.
  destruct (e_repoch e <? 2).
  - destruct (has e (e_recvseq e) HT_SH 0); [|apply same_fsm_refl].
    set (e1 := drain _).
    assert (H1 : same_fsm e e1).
    { subst e1. eapply same_fsm_trans; [|apply same_fsm_drain].
      eapply same_fsm_trans; [apply same_fsm_set_recvseq | apply same_fsm_set_epochs]. }
    destruct (pull_seq e1 2 (e_recvseq e1) rules_server_flight); cbn [fst]; [|exact H1].
    eapply same_fsm_trans; [exact H1 | apply same_fsm_set_recvseq].
  - destruct (pull_seq e 2 (e_recvseq e) rules_server_flight); cbn [fst];
      [apply same_fsm_set_recvseq | apply same_fsm_refl].
Qed.

Lemma same_fsm_parse c e : same_fsm e (fst (parse c e)).
Proof.
  unfold parse. cbn zeta.
  repeat (dif; cbn [fst]);
    first [ apply same_fsm_parse_c3 | apply same_fsm_set_recvseq | apply same_fsm_refl | idtac ].
  all: destruct (pull_seq e 2 (e_recvseq e) rules_client_final); cbn [fst];
    [apply same_fsm_set_recvseq | apply same_fsm_refl].
Qed.

(* ---------- the per-flight flags of the current tree ---------- *)

Definition flags_cfg (c : cfg) : Prop := c_flags c = g13_flags.

(* HelloRetryRequest (Flight 2) is the only flight not retransmitted on a timer; the last flight
   sent is Flight 5 (client), the last received Flight 4 (server).  From Gen/GeneratedHs13.v. *)
Lemma flags_of_tree c : flags_cfg c ->
  map (fl_retransmit c) [F0; F1; F2; F3; F4; F5] = [true; true; false; true; true; true] /\
  map (fl_last_send c) [F0; F1; F2; F3; F4; F5] = [false; false; false; false; false; true] /\
  map (fl_last_recv c) [F0; F1; F2; F3; F4; F5] = [false; false; false; false; true; false].
Proof.
  unfold flags_cfg, fl_retransmit, fl_last_send, fl_last_recv. intro H. rewrite H.
  vm_compute. repeat split; reflexivity.
Qed.

Lemma mk_cfg_flags raw i b : flags_cfg (mk_cfg g13_flags raw i b).
Proof. destruct raw as [[mtu hrr] fls]. reflexivity. Qed.

(* ---------- send ---------- *)

Definition is_nil {A} (l : list A) : bool := match l with [] => true | _ => false end.

Lemma fadd_nonnil f l : l <> [] -> fadd f l <> [].
Proof. intros _. destruct l as [|g l]; cbn [fadd]; [discriminate|]. repeat dif; discriminate. Qed.

Lemma fadd_all_nonnil fs : forall l, l <> [] -> fadd_all fs l <> [].
Proof.
  unfold fadd_all. induction fs as [|f fs IH]; intros l H; cbn [fold_left]; [exact H|].
  apply IH. now apply fadd_nonnil.
Qed.

(* the endpoint that do_send leaves behind when it does not complete the handshake *)
Definition sent_state (c : cfg) (e e' : ep) (now : N) : Prop :=
  e_client e' = e_client e /\ e_flight e' = e_flight e /\ e_fst e' = Waiting /\ e_retr e' = e_retr e /\
  e_reply e' = e_reply e /\ e_lastsent e' = now /\ e_interval e' = e_interval e /\
  e_timer e' = now + e_interval e /\ e_out e' = e_out e /\
  e_pending e' = fadd_all (tracked_frags c (e_flight e) (e_out e)) (e_pending e) /\ e_est e' = e_est e /\
  e_nstinit e' = e_nstinit e /\ e_nst e' = e_nst e /\ e_nsti e' = e_nsti e /\ e_nstt e' = e_nstt e /\ e_sent e' = true.

Lemma do_send_shape c e now :
  exists e3, sent_state c e e3 now /\
    do_send c e now =
      if (e_client e && fl_last_send c (e_flight e)) &&
         is_nil (fadd_all (tracked_frags c (e_flight e) (e_out e)) (e_pending e))
      then (let '(e4, o4) := to_finished c e3 now in (e4, pack c (e_out e) ++ o4))
      else (e3, pack c (e_out e)).
Proof.
  unfold do_send.
  set (e1 := if negb (e_client e) && N.eqb (e_flight e) F4 && (e_repoch e <? 2) then _ else e).
  assert (H1 : same_fsm e e1).
  { subst e1. dif; [|apply same_fsm_refl].
    eapply same_fsm_trans; [apply same_fsm_set_epochs | apply same_fsm_drain]. }
  set (fin := e_client e && fl_last_send c (e_flight e)).
  set (e2 := if fin then drain (set_epochs e1 3 3) else e1).
  assert (H2 : same_fsm e e2).
  { subst e2. destruct fin; [|exact H1].
    eapply same_fsm_trans; [exact H1|]. eapply same_fsm_trans; [apply same_fsm_set_epochs | apply same_fsm_drain]. }
  set (pend := fadd_all _ (e_pending e)).
  set (e3 := set_sent (set_fsm e2 _ _ _ _ _ _ _ _ _ _) true).
  exists e3. split.
  - destruct H2 as (Ha&Hb&Hc&Hd&He&Hf&Hg&Hh&Hi&Hj&Hk&Hl&Hm&Hn&Ho&_).
    unfold sent_state. subst e3. cbn. rewrite <- Ha, <- Hb, <- Hd, <- He, <- Hg, <- Hi, <- Hk, <- Hl, <- Hm, <- Hn, <- Ho.
    repeat split.
  - replace (match pend with [] => true | _ => false end) with (is_nil pend) by reflexivity.
    reflexivity.
Qed.

(* ---------- timers ---------- *)

(* an endpoint that awaits a reply and whose next transmission cannot complete the handshake by
   itself: every endpoint except a client whose final flight has nothing left to acknowledge *)
Definition awaiting (c : cfg) (e : ep) : Prop :=
  e_fst e = Waiting /\ e_retr e = true /\ (e_client e && fl_last_send c (e_flight e) = false \/ e_pending e <> []).

(* C17, one expiry: the interval is doubled up to 60 s (kept without backoff), the current flight
   (what is left of it to acknowledge) is sent again, the next deadline is one new interval later *)
Theorem timer_step c e :
  awaiting c e ->
  let e' := fst (on_timer c e) in
  e_interval e' = bump c (e_interval e) /\
  e_timer e' = e_timer e + e_interval e' /\
  e_flight e' = e_flight e /\ e_out e' = e_out e /\ awaiting c e' /\
  snd (on_timer c e) = pack c (e_out e).
Proof.
  intros (Hw & Hr & Hp). unfold on_timer. rewrite Hw, Hr.
  set (e0 := set_interval e (bump c (e_interval e))).
  destruct (do_send_shape c e0 (e_timer e)) as (e3 & Hs & Heq). rewrite Heq.
  assert (Hnil : (e_client e0 && fl_last_send c (e_flight e0)) &&
                 is_nil (fadd_all (tracked_frags c (e_flight e0) (e_out e0)) (e_pending e0)) = false).
  { subst e0. cbn [set_interval set_fsm e_client e_flight e_out e_pending].
    destruct Hp as [Hp | Hp]; [now rewrite Hp|].
    apply andb_false_intro2.
    pose proof (fadd_all_nonnil (tracked_frags c (e_flight e) (e_out e)) (e_pending e) Hp) as Hn.
    destruct (fadd_all _ _); [congruence | reflexivity]. }
  rewrite Hnil. cbn [fst snd].
  destruct Hs as (Ha&Hb&Hc&Hd&He&Hf&Hg&Hh&Hi&Hj&Hk&_).
  subst e0. cbn [set_interval set_fsm e_client e_flight e_out e_pending e_interval e_retr] in *.
  split; [exact Hg|]. split; [rewrite Hh, Hg; reflexivity|]. split; [exact Hb|]. split; [exact Hi|].
  split; [|reflexivity].
  unfold awaiting. split; [exact Hc|]. split; [congruence|].
  rewrite Ha, Hb, Hj. destruct Hp as [Hp | Hp]; [left; exact Hp | right].
  now apply fadd_all_nonnil.
Qed.

Fixpoint timeouts (k : nat) (c : cfg) (e : ep) : ep :=
  match k with O => e | S k' => fst (on_timer c (timeouts k' c e)) end.

(* the schedule: I, 2I, 4I ... capped at 60 s with backoff while I is below the cap; constantly I
   without backoff, and for an I configured at or above 60 s *)
Definition sched (c : cfg) (i : N) (k : nat) : N :=
  if c_backoff c && (i <? 60000) then N.min (i * 2 ^ N.of_nat k) 60000 else i.

Lemma bump_sched c i k : bump c (sched c i k) = sched c i (S k).
Proof.
  unfold sched, bump. destruct (c_backoff c); cbn [andb]; [|reflexivity].
  destruct (N.ltb_spec i 60000) as [Hi | Hi].
  - replace (N.of_nat (S k)) with (N.succ (N.of_nat k)) by lia. rewrite N.pow_succ_r'.
    set (p := 2 ^ N.of_nat k).
    destruct (N.leb_spec (i * p) 60000) as [Hle | Hgt].
    + rewrite (N.min_l _ _ Hle).
      destruct (N.ltb_spec (i * p) 60000) as [Hlt | Hge].
      * destruct (N.ltb_spec 30000 (i * p)) as [H3 | H3].
        -- rewrite N.min_r by lia. reflexivity.
        -- rewrite N.min_l by lia. lia.
      * rewrite N.min_r by lia. lia.
    + rewrite N.min_r by lia. change (60000 <? 60000) with false. cbv iota. rewrite N.min_r by lia. reflexivity.
  - destruct (N.ltb_spec i 60000); [lia | reflexivity].
Qed.

Lemma sched_0 c i : sched c i 0 = i.
Proof.
  unfold sched. destruct (c_backoff c && (i <? 60000)) eqn:E; [|reflexivity].
  apply andb_prop in E. destruct E as [_ E]. apply N.ltb_lt in E.
  change (2 ^ N.of_nat 0) with 1. rewrite N.mul_1_r, N.min_l by lia. reflexivity.
Qed.

(* C17 timer law: in the absence of input the k-th consecutive retransmission interval is
   min(I * 2^k, 60 s) with backoff (for I below the cap) and constantly I otherwise; the flight stays
   the same; each expiry comes exactly one (new) interval after the previous one *)
Theorem interval_law c e k :
  awaiting c e ->
  let e' := timeouts k c e in
  awaiting c e' /\ e_flight e' = e_flight e /\ e_out e' = e_out e /\
  e_interval e' = sched c (e_interval e) k /\
  e_timer (timeouts (S k) c e) = e_timer e' + e_interval (timeouts (S k) c e).
Proof.
  intros Ha. induction k as [|k IH].
  - cbn [timeouts]. destruct (timer_step c e Ha) as (H1 & H2 & H3 & H4 & H5 & H6).
    split; [exact Ha|]. split; [reflexivity|]. split; [reflexivity|]. split; [|exact H2].
    now rewrite sched_0.
  - destruct IH as (Ha' & Hf & Ho & Hint & _).
    cbn [timeouts].
    destruct (timer_step c (timeouts k c e) Ha') as (H1 & H2 & H3 & H4 & H5 & H6).
    split; [exact H5|]. split; [congruence|]. split; [congruence|]. split.
    + rewrite H1, Hint. apply bump_sched.
    + destruct (timer_step c (fst (on_timer c (timeouts k c e))) H5) as (_ & H2' & _). exact H2'.
Qed.

(* the schedule never exceeds max(I, 60 s) and never shrinks *)
Lemma sched_bounds c i k : i <= sched c i k /\ sched c i k <= N.max i 60000.
Proof.
  unfold sched. destruct (c_backoff c && (i <? 60000)) eqn:E; [|lia].
  apply andb_prop in E. destruct E as [_ E]. apply N.ltb_lt in E.
  assert (1 <= 2 ^ N.of_nat k) by (apply N.lt_pred_le; cbn; apply N.neq_0_lt_0; apply N.pow_nonzero; lia).
  split; [apply N.min_glb; nia | lia].
Qed.

(* C17: while a flight that is not retransmitted (HelloRetryRequest) is current, the timer sends
   nothing; nor does it once the NewSessionTicket has been acknowledged after completion *)
Theorem timer_silent_when_not_retransmitting c e :
  e_fst e = Waiting -> e_retr e = false -> snd (on_timer c e) = [].
Proof. intros H1 H2. unfold on_timer. now rewrite H1, H2. Qed.

Theorem finished_timer c e :
  e_fst e = Finished ->
  e_fst (fst (on_timer c e)) = Finished /\ e_est (fst (on_timer c e)) = e_est e /\
  snd (on_timer c e) = match e_nst e with [] => [] | _ => pack c (e_nst e) end.
Proof.
  intro H. unfold on_timer. rewrite H. destruct (e_nst e) eqn:E; cbn [fst snd]; auto.
Qed.

(* ---------- the interval after an event ---------- *)

Lemma to_finished_interval c e now : e_interval (fst (to_finished c e now)) = e_interval e.
Proof. unfold to_finished. repeat (dif; cbn [fst]); reflexivity. Qed.

Lemma do_send_interval c e now : e_interval (fst (do_send c e now)) = e_interval e.
Proof.
  destruct (do_send_shape c e now) as (e3 & Hs & Heq). rewrite Heq.
  destruct Hs as (_&_&_&_&_&_&Hg&_).
  dif; cbn [fst]; [|exact Hg].
  pose proof (to_finished_interval c e3 now) as H. destruct (to_finished c e3 now). cbn [fst] in *. congruence.
Qed.

Lemma enter_interval c e f now : e_interval (fst (enter c e f now)) = e_interval e.
Proof. unfold enter. rewrite do_send_interval. reflexivity. Qed.

Lemma acknowledge_interval e acks : e_interval (fst (fst (acknowledge e acks))) = e_interval e.
Proof. reflexivity. Qed.

Lemma post_receive_interval c e hs acks rta : e_interval (fst (post_receive c e hs acks rta)) = e_interval e.
Proof.
  unfold post_receive. cbn [fst]. set (e1 := set_nst _ _ _ _ _).
  assert (H : forall n x, e_interval (consume_nst n x) = e_interval x).
  { induction n as [|n IH]; intro x; cbn [consume_nst]; [reflexivity|]. dif; [rewrite IH|]; reflexivity. }
  set (e2 := if hs && e_client e1 then consume_nst 8 e1 else e1).
  transitivity (e_interval e2); [reflexivity|].
  subst e2. dif; [rewrite H|]; reflexivity.
Qed.

Definition int_ok (c : cfg) (base i : N) : Prop := i = base \/ i = bump c base.

Lemma after_ack_interval c e empty progress peer now :
  int_ok c (e_interval e) (e_interval (fst (after_ack c e empty progress peer now))).
Proof.
  unfold after_ack, int_ok.
  repeat (dif; cbn [fst]); try (left; reflexivity);
    try (left; rewrite ?to_finished_interval, ?do_send_interval; reflexivity).
  right. rewrite do_send_interval. reflexivity.
Qed.

(* C17: the initial interval is restored exactly when NEW (not retransmitted) data arrives: after
   an event that carries only retransmitted records the interval is the old one, otherwise the
   initial one - in both cases possibly advanced by one backoff step when the event itself
   triggered a retransmission (a partial acknowledgement, or a repeated flight of the peer) *)
Theorem interval_reset_rule c e hs (retr : bool) acks rta now :
  e_fst e = Waiting ->
  int_ok c (if retr then e_interval e else c_initial c)
         (e_interval (fst (on_event c e hs retr acks rta now))).
Proof.
  intro Hw. unfold on_event. rewrite Hw.
  set (base := if retr then e_interval e else c_initial c).
  set (e1 := if retr then e else set_interval e (c_initial c)).
  assert (Hb : e_interval e1 = base) by (subst e1 base; destruct retr; reflexivity).
  destruct (acknowledge e1 acks) as [[e2 empty] progress] eqn:Ea.
  assert (H2 : e_interval e2 = base).
  { pose proof (acknowledge_interval e1 acks) as H. rewrite Ea in H. cbn [fst] in H. congruence. }
  destruct (negb hs && _).
  { rewrite <- H2. apply after_ack_interval. }
  destruct (hs && retr && fl_last_send c (e_flight e2)).
  { pose proof (after_ack_interval c e2 empty progress true now) as H.
    destruct (after_ack c e2 empty progress true now). cbn [fst] in *. now rewrite <- H2. }
  destruct (hs && e_client e2 && fl_last_send c (e_flight e2) && negb (has_post e2)).
  { cbn [fst]. left. exact H2. }
  destruct (hs && e_client e2 && fl_last_send c (e_flight e2)).
  { set (e3 := set_fsm e2 _ _ _ _ _ _ _ _ _ _).
    pose proof (to_finished_interval c e3 now) as H4. destruct (to_finished c e3 now) as [e4 o4].
    pose proof (post_receive_interval c e4 hs acks rta) as H5. destruct (post_receive c e4 hs acks rta) as [e5 o5].
    cbn [fst] in *. left. rewrite H5, H4. subst e3. cbn. exact H2. }
  pose proof (same_fsm_parse c e2) as Hp. destruct (parse c e2) as [e3 nxt]. cbn [fst] in Hp.
  assert (H3 : e_interval e3 = base) by (destruct Hp as (_&_&_&_&_&_&Hi&_); congruence).
  destruct (N.eqb nxt 0).
  { pose proof (after_ack_interval c e3 empty progress retr now) as H.
    destruct (after_ack c e3 empty progress retr now). cbn [fst] in *. now rewrite <- H3. }
  destruct (negb (e_client e3) && N.eqb nxt (e_flight e3) && fl_last_recv c nxt).
  { set (e4 := drain _).
    assert (H4 : e_interval e4 = base).
    { subst e4. pose proof (same_fsm_drain (set_epochs e3 3 3)) as (_&_&_&_&_&_&Hi&_). rewrite <- Hi. exact H3. }
    pose proof (to_finished_interval c e4 now) as H. destruct (to_finished c e4 now). cbn [fst] in *.
    left. congruence. }
  left. rewrite enter_interval. exact H3.
Qed.

(* ---------- after completion ---------- *)

Lemma consume_nst_same n : forall e, same_fsm e (consume_nst n e).
Proof.
  induction n as [|n IH]; intro e; cbn [consume_nst]; [apply same_fsm_refl|].
  dif; [|apply same_fsm_refl]. eapply same_fsm_trans; [apply same_fsm_set_rx | apply IH].
Qed.

Lemma post_receive_shape c e hs acks rta :
  let r := post_receive c e hs acks rta in
  e_fst (fst r) = e_fst e /\ e_est (fst r) = e_est e /\ e_flight (fst r) = e_flight e /\
  e_out (fst r) = e_out e /\ e_retr (fst r) = e_retr e /\
  (exists l, e_nst (fst r) = filter l (e_nst e)) /\ exists epo fs, snd r = ack_dgram epo fs.
Proof.
  unfold post_receive. cbn [fst snd]. set (e1 := set_nst _ _ _ _ _).
  set (e2 := if hs && e_client e1 then consume_nst 8 e1 else e1).
  assert (H : same_fsm e1 e2) by (subst e2; dif; [apply consume_nst_same | apply same_fsm_refl]).
  destruct H as (_&Hf&Hs&Hr&_&_&_&_&Ho&_&He&_&Hn&_).
  repeat split.
  - change (e_fst e2 = e_fst e). rewrite <- Hs. reflexivity.
  - change (e_est e2 = e_est e). rewrite <- He. reflexivity.
  - change (e_flight e2 = e_flight e). rewrite <- Hf. reflexivity.
  - change (e_out e2 = e_out e). rewrite <- Ho. reflexivity.
  - change (e_retr e2 = e_retr e). rewrite <- Hr. reflexivity.
  - eexists. transitivity (e_nst e2); [reflexivity|]. rewrite <- Hn. reflexivity.
  - eauto.
Qed.

(* C17: after completing, an endpoint emits on input at most one datagram, and that datagram is an
   ACK (of the protected handshake records it has just received: a retransmitted final flight of
   the peer, or the NewSessionTicket); it never sends a handshake flight again *)
Theorem finished_receive c e d now :
  e_fst e = Finished ->
  let r := on_datagram c e d now in
  e_fst (fst r) = Finished /\ e_est (fst r) = e_est e /\ exists epo fs, snd r = ack_dgram epo fs.
Proof.
  intro Hf. unfold on_datagram.
  pose proof (same_fsm_process_records true d e) as Hs.
  destruct (process_records true e d) as [[[e1 hs] retr] acks]. cbn [fst] in Hs.
  destruct Hs as (_&_&Hs&_&_&_&_&_&_&_&He&_).
  dif; cbn [fst snd].
  - repeat split; try congruence. exists 0, []. reflexivity.
  - unfold on_event. cbn [set_toack set_rx e_fst]. rewrite <- Hs, Hf.
    destruct (post_receive_shape c (set_toack e1 []) hs acks (e_toack e1)) as (H1&H2&_&_&_&_&H3).
    split; [rewrite H1; cbn; congruence|]. split; [rewrite H2; cbn; congruence | exact H3].
Qed.

(* ---------- emission bound ---------- *)

Open Scope nat_scope.

Definition maxrecs (c : cfg) : nat := fold_right (fun fd m => Nat.max (length (snd fd)) m) 0 (c_fl c).

Lemma fl_lookup_bound f t : length (fl_lookup f t) <= fold_right (fun fd m => Nat.max (length (snd fd)) m) 0 t.
Proof.
  induction t as [|[f' d] t IH]; cbn [fl_lookup fold_right snd]; [cbn; lia|].
  destruct (N.eqb f f'); lia.
Qed.

Lemma pack_aux_len mtu : forall rs cur sz,
  (is_nil cur = true -> sz = 0%N) ->
  length (pack_aux mtu cur sz rs) <= length rs + (if is_nil cur then 0 else 1).
Proof.
  induction rs as [|r rs IH]; intros cur sz Hz; cbn [pack_aux length].
  - destruct cur; cbn; lia.
  - destruct ((0 <? sz)%N && (mtu <=? sz + r_size r)%N) eqn:Ec.
    + cbn [length]. specialize (IH [r] (r_size r)). cbn [is_nil] in IH.
      destruct cur; cbn [is_nil] in *.
      * rewrite (Hz eq_refl) in Ec. cbn in Ec. discriminate.
      * assert (false = true -> r_size r = 0%N) by discriminate. specialize (IH H). lia.
    + specialize (IH (r :: cur) (sz + r_size r)%N). cbn [is_nil] in IH.
      assert (false = true -> (sz + r_size r)%N = 0%N) by discriminate. specialize (IH H).
      destruct cur; cbn [is_nil]; lia.
Qed.

Lemma pack_len c rs : length (pack c rs) <= length rs.
Proof.
  unfold pack. pose proof (pack_aux_len (c_mtu c) rs [] 0%N (fun _ => eq_refl)) as H. cbn [is_nil] in H. lia.
Qed.

Lemma ack_dgram_len epo fs : length (ack_dgram epo fs) <= 1.
Proof. destruct fs; cbn; lia. Qed.

Lemma filter_len {A} (f : A -> bool) l : length (filter f l) <= length l.
Proof. induction l as [|x l IH]; cbn; [lia|]. destruct (f x); cbn; lia. Qed.

(* what is kept for (re)transmission never exceeds one flight *)
Definition bounded (c : cfg) (e : ep) : Prop :=
  length (e_out e) <= maxrecs c /\ length (e_nst e) <= maxrecs c.

Lemma bounded_same c a b : same_fsm a b -> bounded c a -> bounded c b.
Proof. intros (_&_&_&_&_&_&_&_&Ho&_&_&_&Hn&_) [H1 H2]. unfold bounded. rewrite <- Ho, <- Hn. auto. Qed.

Lemma to_finished_bound c e now :
  bounded c e ->
  bounded c (fst (to_finished c e now)) /\ length (snd (to_finished c e now)) <= maxrecs c /\
  (e_client e = true -> snd (to_finished c e now) = []).
Proof.
  intros [H1 H2]. unfold to_finished.
  set (e1 := set_fsm e _ _ _ _ _ _ _ _ _ _).
  change (e_nstinit e1) with (e_nstinit e). change (e_client e1) with (e_client e).
  destruct (e_nstinit e); cbn [fst snd].
  { split; [split; assumption|]. split; [cbn; lia | reflexivity]. }
  destruct (e_client e); cbn [fst snd].
  { split; [split; cbn; [assumption | lia]|]. split; [cbn; lia | reflexivity]. }
  pose proof (fl_lookup_bound FN (c_fl c)) as Hb. fold (maxrecs c) in Hb.
  split; [split; cbn; assumption|]. split; [|discriminate].
  etransitivity; [apply pack_len | exact Hb].
Qed.

Lemma do_send_bound c e now :
  bounded c e -> bounded c (fst (do_send c e now)) /\ length (snd (do_send c e now)) <= maxrecs c.
Proof.
  intros [H1 H2]. destruct (do_send_shape c e now) as (e3 & Hs & Heq). rewrite Heq.
  destruct Hs as (Hc&_&_&_&_&_&_&_&Ho&_&_&_&Hn&_).
  assert (Hb3 : bounded c e3) by (unfold bounded; rewrite Ho, Hn; auto).
  pose proof (pack_len c (e_out e)) as Hp.
  destruct (e_client e && fl_last_send c (e_flight e)) eqn:Ec; cbn [andb].
  - destruct (is_nil _); cbn [fst snd]; [|split; [exact Hb3 | lia]].
    destruct (to_finished_bound c e3 now Hb3) as (Ha & _ & Hcl).
    apply andb_prop in Ec. destruct Ec as [Ec _]. rewrite Hc in Hcl. specialize (Hcl Ec).
    destruct (to_finished c e3 now) as [e4 o4]. cbn [fst snd] in *. subst o4. rewrite app_nil_r.
    split; [exact Ha | lia].
  - cbn [fst snd]. split; [exact Hb3 | lia].
Qed.

Lemma enter_bound c e f now :
  bounded c e -> bounded c (fst (enter c e f now)) /\ length (snd (enter c e f now)) <= maxrecs c.
Proof.
  intros [H1 H2]. unfold enter. apply do_send_bound.
  pose proof (fl_lookup_bound f (c_fl c)) as Hb. fold (maxrecs c) in Hb.
  split; cbn; assumption.
Qed.

Lemma acknowledge_bound c e acks : bounded c e -> bounded c (fst (fst (acknowledge e acks))).
Proof.
  intros [H1 H2]. unfold acknowledge. cbn [fst]. split; cbn; [|exact H2].
  etransitivity; [apply filter_len | exact H1].
Qed.

Lemma after_ack_bound c e empty progress peer now :
  bounded c e ->
  bounded c (fst (after_ack c e empty progress peer now)) /\
  length (snd (after_ack c e empty progress peer now)) <= maxrecs c.
Proof.
  intro Hb. unfold after_ack.
  repeat (dif; cbn [fst snd]);
    try (split; [exact Hb | cbn; lia]);
    try (apply do_send_bound; destruct Hb; split; cbn; assumption).
  set (e1 := set_fsm e _ _ _ _ _ _ _ _ _ _).
  assert (Hb1 : bounded c e1) by (destruct Hb; split; cbn; assumption).
  destruct (to_finished_bound c e1 now Hb1) as (Ha & Hl & _). split; assumption.
Qed.

Lemma post_receive_bound c e hs acks rta :
  bounded c e ->
  bounded c (fst (post_receive c e hs acks rta)) /\ length (snd (post_receive c e hs acks rta)) <= 1.
Proof.
  intros [H1 H2].
  destruct (post_receive_shape c e hs acks rta) as (_&_&_&Ho&_&(l & Hn)&(epo & fs & Ha)).
  split.
  - split; [rewrite Ho; exact H1|]. rewrite Hn. etransitivity; [apply filter_len | exact H2].
  - rewrite Ha. apply ack_dgram_len.
Qed.

Lemma on_event_bound c e hs (retr : bool) acks rta now :
  bounded c e ->
  bounded c (fst (on_event c e hs retr acks rta now)) /\
  length (snd (on_event c e hs retr acks rta now)) <= 1 + maxrecs c.
Proof.
  intro Hb. unfold on_event.
  destruct (e_fst e).
  2:{ destruct (post_receive_bound c e hs acks rta Hb). split; [assumption | lia]. }
  set (e1 := if retr then e else set_interval e (c_initial c)).
  assert (Hb1 : bounded c e1) by (subst e1; destruct retr; [exact Hb | destruct Hb; split; cbn; assumption]).
  pose proof (acknowledge_bound c e1 acks Hb1) as Hb2.
  destruct (acknowledge e1 acks) as [[e2 empty] progress]. cbn [fst] in Hb2.
  destruct (negb hs && _).
  { destruct (after_ack_bound c e2 empty progress false now Hb2). split; [assumption | lia]. }
  destruct (hs && retr && fl_last_send c (e_flight e2)).
  { destruct (after_ack_bound c e2 empty progress true now Hb2) as [Ha Hl].
    destruct (after_ack c e2 empty progress true now) as [e3 o3]. cbn [fst snd] in *.
    split; [exact Ha|]. rewrite app_length. pose proof (ack_dgram_len (e_lepoch e2) rta). lia. }
  destruct (hs && e_client e2 && fl_last_send c (e_flight e2) && negb (has_post e2)).
  { cbn [fst snd]. split; [exact Hb2|]. pose proof (ack_dgram_len (e_lepoch e2) rta). lia. }
  destruct (hs && e_client e2 && fl_last_send c (e_flight e2)) eqn:Ec.
  { set (e3 := set_fsm e2 _ _ _ _ _ _ _ _ _ _).
    assert (Hb3 : bounded c e3) by (destruct Hb2; split; cbn; assumption).
    destruct (to_finished_bound c e3 now Hb3) as (Ha & Hl & _).
    destruct (to_finished c e3 now) as [e4 o4]. cbn [fst snd] in *.
    destruct (post_receive_bound c e4 hs acks rta Ha) as [Ha5 Hl5].
    destruct (post_receive c e4 hs acks rta) as [e5 o5]. cbn [fst snd] in *.
    split; [exact Ha5|]. rewrite app_length. lia. }
  pose proof (same_fsm_parse c e2) as Hp. destruct (parse c e2) as [e3 nxt]. cbn [fst] in Hp.
  pose proof (bounded_same c e2 e3 Hp Hb2) as Hb3.
  destruct (N.eqb nxt 0).
  { destruct (after_ack_bound c e3 empty progress retr now Hb3) as [Ha Hl].
    destruct (after_ack c e3 empty progress retr now) as [e4 o4]. cbn [fst snd] in *.
    split; [exact Ha|]. rewrite app_length. pose proof (ack_dgram_len (e_lepoch e3) rta). lia. }
  destruct (negb (e_client e3) && N.eqb nxt (e_flight e3) && fl_last_recv c nxt).
  { set (e4 := drain _).
    assert (Hb4 : bounded c e4).
    { subst e4. eapply bounded_same; [|exact Hb3].
      eapply same_fsm_trans; [apply same_fsm_set_epochs | apply same_fsm_drain]. }
    destruct (to_finished_bound c e4 now Hb4) as (Ha & Hl & _).
    destruct (to_finished c e4 now) as [e5 o5]. cbn [fst snd] in *.
    split; [exact Ha|]. rewrite app_length. pose proof (ack_dgram_len 3%N rta). lia. }
  destruct (enter_bound c e3 nxt now Hb3). split; [assumption | lia].
Qed.

(* C17: whatever arrives - new data, stale flights, anything - one received datagram makes an
   endpoint emit at most one ACK plus one flight; one timer expiry at most one flight *)
Theorem emission_bound_per_datagram c e d now :
  bounded c e ->
  bounded c (fst (on_datagram c e d now)) /\ length (snd (on_datagram c e d now)) <= 1 + maxrecs c.
Proof.
  intro Hb. unfold on_datagram.
  pose proof (same_fsm_process_records true d e) as Hs.
  destruct (process_records true e d) as [[[e1 hs] retr] acks]. cbn [fst] in Hs.
  pose proof (bounded_same c e e1 Hs Hb) as Hb1.
  dif; cbn [fst snd]; [split; [exact Hb1 | cbn; lia]|].
  apply on_event_bound. eapply bounded_same; [apply same_fsm_set_toack | exact Hb1].
Qed.

Theorem emission_bound_per_timer c e :
  bounded c e -> bounded c (fst (on_timer c e)) /\ length (snd (on_timer c e)) <= maxrecs c.
Proof.
  intro Hb. unfold on_timer. destruct (e_fst e).
  - dif; [|cbn [fst snd]; split; [destruct Hb; split; cbn; assumption | cbn; lia]].
    apply do_send_bound. destruct Hb; split; cbn; assumption.
  - pose proof (pack_len c (e_nst e)) as Hp. destruct Hb as [H1 H2].
    destruct (e_nst e) eqn:En; cbn [fst snd]; [split; [split; [exact H1 | rewrite En; exact H2] | cbn; lia]|].
    split; [|lia]. unfold bounded. cbn [set_nst e_out e_nst]. split; [exact H1 | exact H2].
Qed.

(* over whole histories: any sequence of received datagrams (arbitrary content, arbitrary times)
   and timer expiries *)
Inductive input := IDgram (d : dgram) (now : N) | ITimer.

Definition step (c : cfg) (e : ep) (i : input) : ep * list dgram :=
  match i with IDgram d now => on_datagram c e d now | ITimer => on_timer c e end.

Fixpoint run (c : cfg) (e : ep) (ins : list input) : ep * list (input * list dgram) :=
  match ins with
  | [] => (e, [])
  | i :: ins' => let '(e1, o) := step c e i in let '(e2, tr) := run c e1 ins' in (e2, (i, o) :: tr)
  end.

Definition emitted (tr : list (input * list dgram)) : nat := fold_right (fun p n => length (snd p) + n) 0 tr.
Definition is_timer (i : input) : bool := match i with ITimer => true | _ => false end.
Definition n_timers (ins : list input) : nat := length (filter is_timer ins).
Definition n_dgrams (ins : list input) : nat := length (filter (fun i => negb (is_timer i)) ins).

Lemma ep_blank_bounded c cl : bounded c (ep_blank c cl).
Proof. split; cbn; lia. Qed.

Lemma ep_init_bounded c cl : bounded c (ep_init c cl).
Proof.
  unfold ep_init, ep_start. destruct (cl && c_dualc c); [|apply enter_bound; apply ep_blank_bounded].
  pose proof (fl_lookup_bound F1 (c_fl c)) as Hb. fold (maxrecs c) in Hb. split; cbn; [exact Hb | lia].
Qed.

(* C17 emission bound: datagrams emitted <= timer expiries * F + datagrams received * (F + 1),
   F = the number of records of the largest flight; for every input history, even when the peer
   keeps sending stale or invalid flights *)
Theorem emission_bound c ins : forall e,
  bounded c e ->
  emitted (snd (run c e ins)) <= n_timers ins * maxrecs c + n_dgrams ins * (1 + maxrecs c).
Proof.
  induction ins as [|i ins IH]; intros e Hb; cbn [run]; [cbn; lia|].
  assert (Hs : bounded c (fst (step c e i)) /\
               length (snd (step c e i)) <= (if is_timer i then maxrecs c else 1 + maxrecs c)).
  { destruct i as [d now|]; cbn [step is_timer];
      [apply emission_bound_per_datagram | apply emission_bound_per_timer]; exact Hb. }
  destruct (step c e i) as [e1 o]. cbn [fst snd] in Hs. destruct Hs as [Hb1 Hl].
  specialize (IH e1 Hb1). destruct (run c e1 ins) as [e2 tr]. cbn [snd emitted fold_right] in *.
  unfold n_timers, n_dgrams in *. cbn [filter].
  destruct (is_timer i); cbn [negb length]; lia.
Qed.

Open Scope N_scope.

(* ---------- the HelloRetryRequest exchange (C13, DTLS 1.3) ---------- *)

Definition is_hrr (r : rec) : bool :=
  match r_body r with Hs ht _ _ _ _ => N.eqb ht HT_HRR && N.eqb (r_ep r) 0 | Ack _ => false end.
Definition all_hrr (out : list dgram) : Prop := forall d r, In d out -> In r d -> is_hrr r = true.

Lemma pack_aux_incl mtu : forall rs cur sz d r,
  In d (pack_aux mtu cur sz rs) -> In r d -> In r cur \/ In r rs.
Proof.
  induction rs as [|x rs IH]; intros cur sz d r Hd Hr; cbn [pack_aux] in Hd.
  - destruct cur as [|y cur]; [destruct Hd|]. destruct Hd as [<- | []]. left. now apply in_rev.
  - destruct (_ && _).
    + destruct Hd as [<- | Hd]; [left; now apply in_rev|].
      destruct (IH _ _ _ _ Hd Hr) as [[<- | []] | H]; right; [now left | now right].
    + destruct (IH _ _ _ _ Hd Hr) as [[<- | H] | H]; [right; now left | now left | right; now right].
Qed.

Lemma pack_incl c rs d r : In d (pack c rs) -> In r d -> In r rs.
Proof. unfold pack. intros Hd Hr. destruct (pack_aux_incl _ _ _ _ _ _ Hd Hr) as [[] | H]. exact H. Qed.

(* the receive path while no protected record can be opened *)
Definition same_rx0 (a b : ep) : Prop :=
  e_repoch a = e_repoch b /\ e_toack a = e_toack b /\ e_lepoch a = e_lepoch b /\ e_recvseq a = e_recvseq b.

Lemma same_rx0_refl a : same_rx0 a a. Proof. unfold same_rx0; auto. Qed.
Lemma same_rx0_trans a b c : same_rx0 a b -> same_rx0 b c -> same_rx0 a c.
Proof. unfold same_rx0. intros (?&?&?&?) (?&?&?&?). repeat split; congruence. Qed.

Lemma same_rx0_pop_all fuel : forall e, same_rx0 e (pop_all fuel e).
Proof.
  induction fuel as [|fuel IH]; intro e; cbn [pop_all]; [apply same_rx0_refl|].
  destruct (complete (e_fbcur e) (e_frags e)) as [[ht ep0]|]; [|apply same_rx0_refl].
  eapply same_rx0_trans; [|apply IH]. unfold same_rx0; cbn; auto.
Qed.

Lemma same_rx0_fb_advance e : same_rx0 e (fb_advance e).
Proof. unfold fb_advance. dif; [unfold same_rx0; cbn; auto | apply same_rx0_refl]. Qed.

Lemma same_rx0_push e f : same_rx0 e (fst (push e f)).
Proof.
  unfold push. destruct f as [[[[[m ht] foff] fl] tl] ep0].
  destruct (m <? e_fbcur (fb_advance e)); cbn [fst]; [apply same_rx0_fb_advance|].
  destruct (_ && _); cbn [fst]; [apply same_rx0_fb_advance|].
  eapply same_rx0_trans; [apply same_rx0_fb_advance|].
  eapply same_rx0_trans; [|apply same_rx0_pop_all]. unfold same_rx0; cbn; auto.
Qed.

Lemma same_rx0_enqueue l e r : same_rx0 e (enqueue l e r).
Proof. unfold enqueue. dif; [unfold same_rx0; cbn; auto | apply same_rx0_refl]. Qed.

Lemma process_record_rx0 l e r :
  e_repoch e = 0 ->
  same_rx0 e (fst (fst (fst (process_record l e r)))) /\ snd (process_record l e r) = None.
Proof.
  intro H0. unfold process_record.
  destruct (N.eqb (r_ep r) 0 && e_est e); cbn [fst snd]; [split; [apply same_rx0_refl | reflexivity]|].
  unfold can_open. rewrite H0. cbn [N.leb N.compare andb]. rewrite orb_false_r.
  destruct (N.eqb (r_ep r) 0) eqn:E0.
  - apply N.eqb_eq in E0. rewrite E0. destruct (r_body r) as [ht m fo fl tl | fs].
    + pose proof (same_rx0_push e (m, ht, fo, fl, tl, 0)) as H.
      destruct (push e (m, ht, fo, fl, tl, 0)) as [e1 retr]. cbn [fst] in H.
      cbn [N.leb N.compare fst snd]. split; [exact H | reflexivity].
    + cbn. split; [apply same_rx0_refl | reflexivity].
  - dif; cbn [fst snd]; split; try reflexivity; [apply same_rx0_enqueue | apply same_rx0_refl].
Qed.

Lemma process_records_rx0 l rs : forall e,
  e_repoch e = 0 ->
  same_rx0 e (fst (fst (fst (process_records l e rs)))) /\ snd (process_records l e rs) = [].
Proof.
  induction rs as [|r rs IH]; intros e H0; cbn [process_records]; [split; [apply same_rx0_refl | reflexivity]|].
  destruct (process_record_rx0 l e r H0) as [H1 Hn].
  destruct (process_record l e r) as [[[e1 h1] r1] a1]. cbn [fst snd] in *. subst a1.
  assert (H0' : e_repoch e1 = 0) by (destruct H1 as (Hr&_); congruence).
  destruct (IH e1 H0') as [H2 Hn2].
  destruct (process_records l e1 rs) as [[[e2 h2] r2] a2]. cbn [fst snd] in *.
  split; [eapply same_rx0_trans; eauto | exact Hn2].
Qed.

Lemma filter_true {A} (f : A -> bool) l : (forall x, f x = true) -> filter f l = l.
Proof. intro H. induction l as [|x l IH]; cbn; [reflexivity|]. now rewrite H, IH. Qed.

Lemma acknowledge_nil e :
  e_pending e = [] ->
  acknowledge e [] =
    (set_fsm e (e_flight e) (e_fst e) (e_retr e) (e_reply e) (e_lastsent e) (e_interval e) (e_timer e)
             (e_out e) [] (e_est e), false, false).
Proof.
  intro Hp. unfold acknowledge. cbn [concat existsb filter]. rewrite Hp. cbn [filter].
  rewrite filter_true; [reflexivity|]. intro r. destruct (rec_frag r) as [[[m fo] fl]|]; reflexivity.
Qed.

Lemma do_send_server c e now :
  e_client e = false -> N.eqb (e_flight e) F4 = false ->
  do_send c e now =
    (set_sent (set_fsm e (e_flight e) Waiting (e_retr e) (e_reply e) now (e_interval e) (now + e_interval e) (e_out e)
                       (fadd_all (tracked_frags c (e_flight e) (e_out e)) (e_pending e)) (e_est e)) true,
     pack c (e_out e)).
Proof. intros Hc Hf. unfold do_send. rewrite Hc, Hf. cbn [negb andb]. reflexivity. Qed.

(* the server before it has seen a ClientHello that answers its HelloRetryRequest: in Flight 0
   (nothing sent yet) or in Flight 2 (the HelloRetryRequest is the current, reply-only flight) *)
Definition pre_cookie (c : cfg) (e : ep) : Prop :=
  e_client e = false /\ e_fst e = Waiting /\ e_est e = false /\ e_repoch e = 0 /\ e_toack e = [] /\
  e_pending e = [] /\
  ((e_flight e = F0 /\ e_out e = [] /\ e_reply e = false) \/
   (e_flight e = F2 /\ e_out e = fl_lookup F2 (c_fl c) /\ e_reply e = true /\ e_retr e = false /\ e_recvseq e = 1)).

Definition hrr_cfg (c : cfg) : Prop :=
  flags_cfg c /\ forallb is_hrr (fl_lookup F2 (c_fl c)) = true /\ fl_lookup F0 (c_fl c) = [].

Lemma hrr_flags c : flags_cfg c ->
  fl_retransmit c F2 = false /\ fl_retransmit c F0 = true /\ fl_last_send c F0 = false /\ fl_last_send c F2 = false /\
  fl_last_recv c F2 = false /\ fl_last_recv c F4 = true.
Proof.
  unfold flags_cfg, fl_retransmit, fl_last_send, fl_last_recv. intro H. rewrite H. vm_compute. repeat split.
Qed.

Lemma all_hrr_nil : all_hrr []. Proof. intros d r []. Qed.

Lemma all_hrr_pack c : hrr_cfg c -> all_hrr (pack c (fl_lookup F2 (c_fl c))).
Proof.
  intros (_ & H & _) d r Hd Hr. rewrite forallb_forall in H. apply H. eapply pack_incl; eauto.
Qed.


Lemma pre_cookie_transfer c a b : same_fsm a b -> same_rx0 a b -> pre_cookie c a -> pre_cookie c b.
Proof.
  intros (Hc&Hf&Hs&Hr&Hy&_&_&_&Ho&Hp&He&_) (Hre&Hta&_&Hrs) (P1&P2&P3&P4&P5&P6&P7).
  unfold pre_cookie. rewrite <- Hc, <- Hf, <- Hs, <- Hr, <- Hy, <- Ho, <- Hp, <- He, <- Hre, <- Hta, <- Hrs. auto 10.
Qed.

Lemma pre_cookie_set_interval c e i : pre_cookie c e -> pre_cookie c (set_interval e i).
Proof. intro H. exact H. Qed.

Lemma pack_nil c : pack c [] = []. Proof. reflexivity. Qed.

Lemma tracked_nil c f : tracked_frags c f [] = [].
Proof. unfold tracked_frags. dif; reflexivity. Qed.

Lemma pre_cookie_do_send c e now :
  hrr_cfg c -> pre_cookie c e ->
  pre_cookie c (fst (do_send c e now)) /\ all_hrr (snd (do_send c e now)).
Proof.
  intros Hc (P1&P2&P3&P4&P5&P6&P7).
  destruct (hrr_flags c (proj1 Hc)) as (Hr2&_).
  destruct P7 as [(Q1&Q2&Q3) | (Q1&Q2&Q3&Q4&Q5)].
  - rewrite do_send_server by (rewrite ?Q1; auto). cbn [fst snd]. rewrite Q2, pack_nil. split; [|apply all_hrr_nil].
    unfold pre_cookie. cbn. rewrite tracked_nil, P6. cbn. rewrite ?P1, ?P3, ?P4, ?P5, ?Q1, ?Q3. auto 10.
  - rewrite do_send_server by (rewrite ?Q1; auto). cbn [fst snd]. rewrite Q2. split; [|now apply all_hrr_pack].
    unfold pre_cookie. cbn. unfold tracked_frags. rewrite Q1, Hr2, P6. cbn.
    repeat (split; [assumption || reflexivity|]). right. auto 10.
Qed.

Lemma pre_cookie_after_ack c e peer now :
  hrr_cfg c -> pre_cookie c e ->
  pre_cookie c (fst (after_ack c e false false peer now)) /\ all_hrr (snd (after_ack c e false false peer now)).
Proof.
  intros Hc Hp. unfold after_ack. cbn [andb orb].
  repeat (dif; cbn [fst snd]); try (split; [exact Hp | apply all_hrr_nil]);
    apply pre_cookie_do_send; auto.
Qed.

Lemma enter_flight c e f now : e_client e = false -> e_flight (fst (enter c e f now)) = f.
Proof.
  intro Hc. unfold enter.
  set (e0 := set_fsm _ _ _ _ _ _ _ _ _ _ _).
  destruct (do_send_shape c e0 now) as (e3 & Hs & Heq). rewrite Heq.
  replace (e_client e0) with false by (subst e0; cbn; congruence). cbn [andb fst].
  destruct Hs as (_&Hf&_). rewrite Hf. reflexivity.
Qed.

(* C13 (DTLS 1.3): until the server has a complete ClientHello that follows its HelloRetryRequest,
   whatever datagram arrives it emits nothing but HelloRetryRequest records (or moves to Flight 4,
   which it does only by consuming that ClientHello: see [server_leaves_hrr]) *)
Theorem pre_cookie_event c e (retr : bool) now :
  hrr_cfg c -> pre_cookie c e ->
  let r := on_event c e true retr [] [] now in
  (pre_cookie c (fst r) /\ all_hrr (snd r)) \/ e_flight (fst r) = F4.
Proof.
  intros Hc Hp. pose proof Hp as (P1&P2&P3&P4&P5&P6&P7).
  destruct (hrr_flags c (proj1 Hc)) as (Hr2&Hr0&Hs0&Hs2&Hl2&Hl4).
  unfold on_event. rewrite P2.
  set (e1 := if retr then e else set_interval e (c_initial c)).
  assert (Hp1 : pre_cookie c e1) by (subst e1; destruct retr; exact Hp).
  pose proof Hp1 as (A1&A2&A3&A4&A5&A6&A7).
  rewrite (acknowledge_nil e1 A6). cbn [negb].
  set (e2 := set_fsm e1 _ _ _ _ _ _ _ _ _ _).
  assert (Hp2 : pre_cookie c e2) by (subst e2; unfold pre_cookie; cbn; auto 10).
  pose proof Hp2 as (B1&B2&B3&B4&B5&B6&B7).
  assert (Hls : fl_last_send c (e_flight e2) = false) by (destruct B7 as [(Q&_) | (Q&_)]; rewrite Q; assumption).
  rewrite Hls, B1. cbn [andb negb]. rewrite ?andb_false_r. cbv iota.
  unfold parse. rewrite B1.
  destruct B7 as [(Q1&Q2&Q3) | (Q1&Q2&Q3&Q4&Q5)]; rewrite Q1.
  - change (N.eqb F0 F0) with true. cbv iota.
    destruct (has e2 0 HT_CH 0).
    + destruct (c_hrr c).
      * change (N.eqb F2 0) with false. cbv iota. cbn [e_client e_flight set_recvseq set_rx].
        rewrite B1, Q1. change (N.eqb F2 F0) with false. rewrite andb_false_r. cbn [andb].
        left. unfold enter.
        set (e3 := set_fsm _ _ _ _ _ _ _ _ _ _ _).
        apply pre_cookie_do_send; [exact Hc|].
        subst e3. unfold pre_cookie. cbn. rewrite Hr2. repeat (split; [assumption || reflexivity|]). right. cbn. auto 10.
      * right. change (N.eqb F4 0) with false. cbv iota. cbn [e_client e_flight set_recvseq set_rx].
        rewrite B1, Q1. change (N.eqb F4 F0) with false. rewrite andb_false_r. cbn [andb].
        apply enter_flight. exact B1.
    + change (N.eqb 0 0) with true. cbv iota.
      destruct (pre_cookie_after_ack c e2 retr now Hc Hp2) as [Ha Hb].
      destruct (after_ack c e2 false false retr now) as [e4 o4]. cbn [fst snd] in *. left. split; assumption.
  - change (N.eqb F2 F0) with false. change (N.eqb F2 F2) with true. cbv iota.
    destruct (has e2 (e_recvseq e2) HT_CH 0).
    + right. change (N.eqb F4 0) with false. cbv iota. cbn [e_client e_flight set_recvseq set_rx].
      rewrite B1, Q1. change (N.eqb F4 F2) with false. rewrite andb_false_r. cbn [andb].
      apply enter_flight. exact B1.
    + change (N.eqb 0 0) with true. cbv iota.
      destruct (pre_cookie_after_ack c e2 retr now Hc Hp2) as [Ha Hb].
      destruct (after_ack c e2 false false retr now) as [e4 o4]. cbn [fst snd] in *. left. split; assumption.
Qed.

Theorem pre_cookie_datagram c e d now :
  hrr_cfg c -> pre_cookie c e ->
  let r := on_datagram c e d now in
  ((pre_cookie c (fst r) /\ all_hrr (snd r)) \/ e_flight (fst r) = F4) /\
  (snd r <> [] -> snd (fst (fst (process_records true e d))) = true).
Proof.
  intros Hc Hp. pose proof Hp as (P1&P2&P3&P4&P5&P6&P7).
  unfold on_datagram.
  pose proof (same_fsm_process_records true d e) as Hs.
  destruct (process_records_rx0 true d e P4) as [Hx Hn].
  destruct (process_records true e d) as [[[e1 hs] retr] acks]. cbn [fst snd] in *. subst acks.
  pose proof (pre_cookie_transfer c e e1 Hs Hx Hp) as Hp1.
  destruct hs; cbn [negb andb fst snd].
  - split; [|reflexivity].
    assert (Ht : e_toack e1 = []) by (destruct Hp1 as (_&_&_&_&Ht&_); exact Ht).
    rewrite Ht. apply pre_cookie_event; [exact Hc|].
    eapply pre_cookie_transfer; [apply same_fsm_set_toack | | exact Hp1].
    unfold same_rx0; cbn. rewrite Ht. auto.
  - split; [left; split; [exact Hp1 | apply all_hrr_nil] | congruence].
Qed.

(* C13/C17 (DTLS 1.3): in that phase the retransmission timer emits nothing: a HelloRetryRequest
   is never sent by a timer *)
Theorem pre_cookie_timer c e :
  hrr_cfg c -> pre_cookie c e -> pre_cookie c (fst (on_timer c e)) /\ snd (on_timer c e) = [].
Proof.
  intros Hc Hp. pose proof Hp as (P1&P2&P3&P4&P5&P6&P7).
  unfold on_timer. rewrite P2.
  destruct (e_retr e) eqn:Er.
  - destruct P7 as [(Q1&Q2&Q3) | (Q1&Q2&Q3&Q4&Q5)]; [|congruence].
    destruct (pre_cookie_do_send c (set_interval e (bump c (e_interval e))) (e_timer e) Hc Hp) as [Ha _].
    split; [exact Ha|].
    rewrite do_send_server by (cbn; rewrite ?Q1; auto). cbn [snd set_interval set_fsm e_out]. rewrite Q2. reflexivity.
  - cbn [fst snd]. split; [|reflexivity]. unfold pre_cookie. cbn. repeat (split; [assumption || reflexivity|]). exact P7.
Qed.

(* the server leaves the HelloRetryRequest flight only by consuming a complete ClientHello whose
   message_seq follows the first one; it leaves Flight 0 only by consuming the first ClientHello *)
Theorem server_leaves_hrr c e :
  e_client e = false -> e_flight e = F2 -> snd (parse c e) <> 0 ->
  has e (e_recvseq e) HT_CH 0 = true /\ snd (parse c e) = F4.
Proof.
  intros Hc Hf. unfold parse. rewrite Hc, Hf.
  change (N.eqb F2 F0) with false. change (N.eqb F2 F2) with true. cbv iota.
  destruct (has e (e_recvseq e) HT_CH 0); cbn [snd]; [auto | congruence].
Qed.

Theorem server_leaves_flight0 c e :
  e_client e = false -> e_flight e = F0 -> snd (parse c e) <> 0 ->
  has e 0 HT_CH 0 = true /\ snd (parse c e) = if c_hrr c then F2 else F4.
Proof.
  intros Hc Hf. unfold parse. rewrite Hc, Hf. change (N.eqb F0 F0) with true. cbv iota.
  destruct (has e 0 HT_CH 0); cbn [snd]; [auto | congruence].
Qed.

Lemma server_start_pre_cookie c :
  hrr_cfg c -> pre_cookie c (ep_init c false) /\ snd (ep_start c false) = [].
Proof.
  intros Hc. destruct Hc as (Hfl & Hh & H0). unfold ep_init, ep_start, enter. rewrite H0.
  rewrite do_send_server by reflexivity. cbn [fst snd]. split; [|reflexivity].
  destruct (hrr_flags c Hfl) as (_ & Hr0 & _).
  unfold pre_cookie. cbn. rewrite tracked_nil, Hr0. cbn. auto 10.
Qed.

(* over whole histories of the server: any inputs (datagrams of arbitrary content, timer expiries);
   as long as the server has not moved to Flight 4 every step's output is HelloRetryRequest records
   only, and a timer step emits nothing *)
Theorem hrr_discipline c ins : hrr_cfg c -> forall e,
  pre_cookie c e ->
  Forall (fun p => all_hrr (snd p) /\ (fst p = ITimer -> snd p = [])) (snd (run c e ins)) \/
  exists ins1 i ins2 e1, ins = ins1 ++ i :: ins2 /\ i <> ITimer /\
    Forall (fun p => all_hrr (snd p) /\ (fst p = ITimer -> snd p = [])) (snd (run c e ins1)) /\
    e1 = fst (run c e ins1) /\ pre_cookie c e1 /\ e_flight (fst (step c e1 i)) = F4.
Proof.
  intro Hc. induction ins as [|i ins IH]; intros e Hp; [left; constructor|].
  destruct i as [d now|].
  - destruct (pre_cookie_datagram c e d now Hc Hp) as [[[Ha Hb] | H4] _].
    + destruct (IH _ Ha) as [Hall | (ins1 & i & ins2 & e1 & He & Hi & Hall & He1 & Hp1 & H4)].
      * left. cbn [run step]. destruct (on_datagram c e d now) as [e' o]. cbn [fst snd] in *.
        destruct (run c e' ins) as [e2 tr]. cbn [snd] in *. constructor; [split; [exact Hb | discriminate] | exact Hall].
      * right. exists (IDgram d now :: ins1), i, ins2, e1. subst ins. split; [reflexivity|]. split; [exact Hi|].
        cbn [run step]. destruct (on_datagram c e d now) as [e' o]. cbn [fst snd] in *.
        destruct (run c e' ins1) as [e2 tr]. cbn [fst snd] in *.
        split; [constructor; [split; [exact Hb | discriminate] | exact Hall]|]. auto.
    + right. exists [], (IDgram d now), ins, e. cbn [run fst snd app]. split; [reflexivity|].
      split; [discriminate|]. split; [constructor|]. auto.
  - destruct (pre_cookie_timer c e Hc Hp) as [Ha Hb].
    destruct (IH _ Ha) as [Hall | (ins1 & i & ins2 & e1 & He & Hi & Hall & He1 & Hp1 & H4)].
    + left. cbn [run step]. destruct (on_timer c e) as [e' o]. cbn [fst snd] in *. subst o.
      destruct (run c e' ins) as [e2 tr]. cbn [snd] in *. constructor; [split; [apply all_hrr_nil | reflexivity] | exact Hall].
    + right. exists (ITimer :: ins1), i, ins2, e1. subst ins. split; [reflexivity|]. split; [exact Hi|].
      cbn [run step]. destruct (on_timer c e) as [e' o]. cbn [fst snd] in *. subst o.
      destruct (run c e' ins1) as [e2 tr]. cbn [fst snd] in *.
      split; [constructor; [split; [apply all_hrr_nil | reflexivity] | exact Hall]|]. auto.
Qed.

(* the NewSessionTicket timer of a completed server obeys the same law *)
Theorem nst_timer_step c e :
  e_fst e = Finished -> e_nst e <> [] ->
  let e' := fst (on_timer c e) in
  e_nsti e' = bump c (e_nsti e) /\
  e_nstt e' = e_nstt e + e_nsti e' /\ e_nst e' = e_nst e /\ snd (on_timer c e) = pack c (e_nst e).
Proof.
  intros Hf Hn. unfold on_timer. rewrite Hf. destruct (e_nst e) eqn:E; [congruence|]. cbn. auto.
Qed.

(* ---------- instances on the regenerated flight structures ---------- *)

Definition cfg13 (raw : N * bool * list (N * list (N * N * N * N * N * N * N))) : cfg := mk_cfg g13_flags raw 1000 true.

Lemma hrr_cfg_v13 : hrr_cfg (cfg13 g13_v13). Proof. repeat split; vm_compute; reflexivity. Qed.
Lemma hrr_cfg_v13_hrr : hrr_cfg (cfg13 g13_v13_hrr). Proof. repeat split; vm_compute; reflexivity. Qed.
Lemma hrr_cfg_v13_clientauth : hrr_cfg (cfg13 g13_v13_clientauth). Proof. repeat split; vm_compute; reflexivity. Qed.
Lemma hrr_cfg_v13_hrr_clientauth : hrr_cfg (cfg13 g13_v13_hrr_clientauth). Proof. repeat split; vm_compute; reflexivity. Qed.
Lemma hrr_cfg_v13_hrr_mtu300 : hrr_cfg (cfg13 g13_v13_hrr_mtu300). Proof. repeat split; vm_compute; reflexivity. Qed.
Lemma hrr_cfg_v13_mtu300 : hrr_cfg (cfg13 g13_v13_mtu300). Proof. repeat split; vm_compute; reflexivity. Qed.
Lemma hrr_cfg_v13_mtu120 : hrr_cfg (cfg13 g13_v13_mtu120). Proof. repeat split; vm_compute; reflexivity. Qed.

(* liveness: every state of the adversarial closure completes within 2 reliable rounds *)
Lemma live_v13 : live_check 400 2 (cfg13 g13_v13) = true. Proof. vm_compute. reflexivity. Qed.
Lemma live_v13_hrr : live_check 400 2 (cfg13 g13_v13_hrr) = true. Proof. vm_compute. reflexivity. Qed.
Lemma live_v13_direct : live_check 400 2 (cfg13 g13_v13_direct) = true. Proof. vm_compute. reflexivity. Qed.
Lemma live_v13_clientauth : live_check 400 2 (cfg13 g13_v13_clientauth) = true. Proof. vm_compute. reflexivity. Qed.
Lemma live_v13_hrr_clientauth : live_check 400 2 (cfg13 g13_v13_hrr_clientauth) = true. Proof. vm_compute. reflexivity. Qed.

(* one round is not always enough: a state in which the HelloRetryRequest was repeated less than
   half an interval ago lets the next repeated ClientHello go unanswered *)
Lemma live_v13_one_round_refuted : forallb (live_from 1 (cfg13 g13_v13)) (reach_set 400 (cfg13 g13_v13)) = false.
Proof. vm_compute. reflexivity. Qed.

(* ---------- amplification witness ---------- *)

Definition upto (a n : N) : list N := map (fun i => a + N.of_nat i) (seq 0 (N.to_nat n)).

(* MTU 120: the fault-free exchange up to the server's Flight 4 (14 + 14 ClientHello datagrams, one
   HelloRetryRequest); at 1000 ms both retransmission timers fire; then ONE of the client's
   retransmitted ClientHello fragments (a 145-byte datagram) is delivered to the server *)
Definition storm_cfg : cfg := cfg13 g13_v13_mtu120.
Definition storm_moves : list move :=
  map (fun k => Deliver true k 0) (upto 0 14) ++ [Deliver false 0 0] ++ map (fun k => Deliver true k 0) (upto 14 14).

Definition sout_len (o : option sys) : nat := match o with Some s => length (s_sout s) | None => 0 end.

(* a received datagram flagged as a retransmission makes the DTLS 1.3 state machine send its whole
   current flight again unless the flight went out less than half an initial interval ago: right
   after the server's own timer retransmission (1000 ms) the stale fragment costs nothing (33
   datagrams so far), 600 ms later it costs 16 datagrams (the constant of the emission bound is the
   flight size, not a small number) *)
Lemma storm_witness :
  sout_len (run_moves storm_cfg (sys_init storm_cfg) storm_moves) = 17%nat /\
  sout_len (run_moves storm_cfg (sys_init storm_cfg) (storm_moves ++ [Deliver true 28 1000])) = 33%nat /\
  sout_len (run_moves storm_cfg (sys_init storm_cfg) (storm_moves ++ [Deliver true 28 1600])) = 49%nat /\
  maxrecs storm_cfg = 16%nat.
Proof. vm_compute. repeat split; reflexivity. Qed.

(* ---------- the gap: ANY stale fragment re-elicits the HelloRetryRequest ---------- *)

Definition carries_client_hello (d : dgram) : bool :=
  existsb (fun r => match r_body r with Hs ht _ _ _ _ => N.eqb ht HT_CH | Ack _ => false end) d.

(* as coded (fragment_buffer.go pushHandshakeFragments: message_seq < current => retransmission,
   whatever the handshake type; fsm13.transitionAfterACK: peerRetransmit && replyOnly): a server that
   has sent its HelloRetryRequest sends it again for ONE unprotected handshake record of ANY type
   [ht], any fragment range, whose message_seq is below the reassembly sequence, as soon as
   InitialRetransmitInterval/2 has passed since it last sent something *)
Theorem stale_fragment_reanswers c e ht m fo fl tl sz now :
  hrr_cfg c -> pre_cookie c e -> e_flight e = F2 ->
  e_recvseq e <= e_fbcur e -> m < e_fbcur e -> has e (e_recvseq e) HT_CH 0 = false ->
  c_initial c <= 2 * (now - e_lastsent e) ->
  snd (on_datagram c e [{| r_ep := 0; r_body := Hs ht m fo fl tl; r_size := sz |}] now)
  = pack c (fl_lookup F2 (c_fl c)).
Proof.
  intros Hc Hp Hf Hrs Hm Hnc Hrate. pose proof Hp as (P1&P2&P3&P4&P5&P6&P7).
  destruct P7 as [(Q1&_) | (Q1&Q2&Q3&Q4&Q5)]; [rewrite Hf in Q1; discriminate|].
  destruct (hrr_flags c (proj1 Hc)) as (Hr2&Hr0&Hs0&Hs2&Hl2&Hl4).
  unfold on_datagram. cbn [process_records]. unfold process_record. cbn [r_ep r_body].
  rewrite P3. cbn [N.eqb andb orb].
  unfold push.
  assert (Ha : fb_advance e = e).
  { unfold fb_advance. destruct (N.ltb_spec (e_fbcur e) (e_recvseq e)) as [Hlt | _]; [clear - Hrs Hlt; lia | reflexivity]. }
  rewrite Ha.
  destruct (N.ltb_spec m (e_fbcur e)) as [_ | Hge]; [|clear - Hm Hge; lia].
  cbn [N.leb N.compare fst snd orb negb andb]. rewrite P5.
  change (set_toack e []) with (set_rx e (e_recvseq e) (e_fbcur e) (e_frags e) (e_cache e) (e_repoch e) (e_lepoch e) (e_queue e) []).
  set (e0 := set_rx e _ _ _ _ _ _ _ []).
  assert (Hp0 : pre_cookie c e0).
  { eapply pre_cookie_transfer; [apply same_fsm_set_rx | | exact Hp]. unfold same_rx0; subst e0; cbn. rewrite P5. auto. }
  unfold on_event. replace (e_fst e0) with Waiting by (subst e0; cbn; congruence).
  assert (A6 : e_pending e0 = []) by (subst e0; cbn; exact P6).
  rewrite (acknowledge_nil e0 A6). cbn [negb].
  set (e2 := set_fsm e0 _ _ _ _ _ _ _ _ _ _).
  assert (B1 : e_client e2 = false) by (subst e2 e0; cbn; exact P1).
  assert (Bf : e_flight e2 = F2) by (subst e2 e0; cbn; exact Hf).
  rewrite Bf, Hs2, B1. cbn [andb].
  unfold parse. rewrite B1, Bf.
  change (N.eqb F2 F0) with false. change (N.eqb F2 F2) with true. cbv iota.
  replace (has e2 (e_recvseq e2) HT_CH 0) with false by (subst e2 e0; cbn; symmetry; exact Hnc).
  change (N.eqb 0 0) with true. cbv iota.
  unfold after_ack. cbn [andb].
  replace (e_reply e2) with true by (subst e2 e0; cbn; congruence).
  assert (Hsr : sent_recently c e2 now = false).
  { unfold sent_recently. replace (e_lastsent e2) with (e_lastsent e) by (subst e2 e0; reflexivity).
    destruct (N.ltb_spec (2 * (now - e_lastsent e)) (c_initial c)) as [Hlt | _]; [clear - Hrate Hlt; lia | apply andb_false_r]. }
  rewrite Hsr.
  rewrite do_send_server by (rewrite ?B1, ?Bf; auto).
  cbn [snd app ack_dgram]. subst e2 e0. cbn [e_out set_fsm set_rx]. rewrite Q2. reflexivity.
Qed.

(* ... so "a HelloRetryRequest is sent only in direct response to a ClientHello" is FALSE of the
   faithful model: after the first ClientHello (two fragments) and its HelloRetryRequest, a 1-byte
   fragment of a Finished message (type 20, message_seq 0) handed to the server 600 ms later makes it
   emit the HelloRetryRequest again (the DTLS 1.3 analogue of known finding F17) *)
Definition stale_cfg : cfg := cfg13 g13_v13.
Definition stale_state : ep :=
  fst (run stale_cfg (ep_init stale_cfg false)
           (map (fun d => IDgram d 0) (pack stale_cfg (fl_lookup F1 (c_fl stale_cfg))))).
Definition stale_dgram : dgram := [{| r_ep := 0; r_body := Hs HT_FIN 0 0 1 32; r_size := 26 |}].

Theorem hrr_only_for_client_hello_refuted :
  exists (e : ep) (d : dgram) (now : N),
    pre_cookie stale_cfg e /\ carries_client_hello d = false /\
    snd (on_datagram stale_cfg e d now) = pack stale_cfg (fl_lookup F2 (c_fl stale_cfg)) /\
    snd (on_datagram stale_cfg e d now) <> [].
Proof.
  exists stale_state, stale_dgram, 600.
  split; [|split; [reflexivity|split; [vm_compute; reflexivity | vm_compute; discriminate]]].
  unfold pre_cookie. vm_compute. repeat (split; [reflexivity|]). right. repeat split; reflexivity.
Qed.

(* inside the rate limit the same fragment elicits nothing *)
Lemma stale_fragment_rate_limited : snd (on_datagram stale_cfg stale_state stale_dgram 300) = [].
Proof. vm_compute. reflexivity. Qed.

(* ---------- no zero-delay ping-pong (e875bea) ---------- *)

Definition is_hs_rec (r : rec) : bool := match r_body r with Hs _ _ _ _ _ => true | Ack _ => false end.
Definition has_hs (out : list dgram) : bool := existsb (existsb is_hs_rec) out.

(* how far the handshake has got: the flight number while waiting, 7 once finished *)
Definition stage (e : ep) : N := match e_fst e with Finished => 7 | Waiting => e_flight e end.

Lemma has_hs_app a b : has_hs (a ++ b) = has_hs a || has_hs b.
Proof. unfold has_hs. apply existsb_app. Qed.
Lemma has_hs_ack epo fs : has_hs (ack_dgram epo fs) = false.
Proof. destruct fs; reflexivity. Qed.

(* the endpoint sent something less than half an initial interval ago *)
Definition recent (c : cfg) (e : ep) (now : N) : Prop := e_sent e = true /\ 2 * (now - e_lastsent e) < c_initial c.

Lemma recent_transfer c a b now : e_lastsent a = e_lastsent b -> e_sent a = e_sent b -> recent c a now -> recent c b now.
Proof. unfold recent. intros -> ->. auto. Qed.

(* a step that neither re-sends nor goes back: the clock of the last transmission is kept or set to
   now, the stage does not decrease, and handshake records are emitted only when it increases *)
Definition ok_step (e : ep) (now : N) (r : ep * list dgram) : Prop :=
  ((e_lastsent (fst r) = e_lastsent e /\ e_sent (fst r) = e_sent e) \/ (e_lastsent (fst r) = now /\ e_sent (fst r) = true)) /\
  stage e <= stage (fst r) /\ (has_hs (snd r) = true -> stage e < stage (fst r)) /\
  stage (fst r) <= N.max (stage e) 7.

Lemma ok_step_same e now e' :
  e_lastsent e' = e_lastsent e -> e_sent e' = e_sent e -> stage e' = stage e ->
  forall o, has_hs o = false -> ok_step e now (e', o).
Proof.
  intros H1 H0 H2 o Ho. unfold ok_step. cbn [fst snd]. rewrite H1, H0, H2, Ho.
  split; [auto|]. split; [lia|]. split; [discriminate | lia].
Qed.

Lemma after_ack_recent c e peer now :
  recent c e now -> after_ack c e false false peer now = (e, []).
Proof.
  unfold recent, after_ack. intros [Hs Hr]. cbn [andb orb negb].
  assert (H : sent_recently c e now = true) by (unfold sent_recently; rewrite Hs; apply N.ltb_lt; exact Hr).
  rewrite H. destruct peer; cbn [andb]; [|reflexivity]. destruct (e_reply e); reflexivity.
Qed.

Lemma to_finished_fst c e now : e_fst (fst (to_finished c e now)) = Finished.
Proof. unfold to_finished. cbv zeta. cbn [e_nstinit e_client set_fsm]. repeat dif; reflexivity. Qed.

Lemma to_finished_stage c e now :
  stage (fst (to_finished c e now)) = 7 /\ e_lastsent (fst (to_finished c e now)) = e_lastsent e /\
  e_sent (fst (to_finished c e now)) = e_sent e.
Proof. unfold to_finished. cbv zeta. cbn [e_nstinit e_client set_fsm]. repeat dif; unfold stage; cbn; auto. Qed.

Lemma to_finished_client c e now : e_client e = true -> snd (to_finished c e now) = [].
Proof.
  intro Hc. unfold to_finished. cbv zeta. cbn [e_nstinit e_client set_fsm].
  destruct (e_nstinit e); [reflexivity|]. rewrite Hc. reflexivity.
Qed.

Lemma last_send_is_F5 c f : flags_cfg c -> fl_last_send c f = true -> f = F5.
Proof.
  unfold flags_cfg, fl_last_send. intros -> H. unfold g13_flags in H. cbn [flags_of] in H.
  repeat match type of H with context [N.eqb f ?k] => destruct (N.eqb_spec f k); [subst; try discriminate; try reflexivity|] end.
  discriminate.
Qed.

Lemma stage_le_7 e : e_flight e <= 6 -> stage e <= 7.
Proof. unfold stage. destruct (e_fst e); lia. Qed.

(* what do_send leaves: the same flight, WAITING, sent now - or FINISHED *)
Lemma do_send_stage c e now :
  e_fst e = Waiting ->
  (e_lastsent (fst (do_send c e now)) = now /\ e_sent (fst (do_send c e now)) = true) /\
  (stage (fst (do_send c e now)) = e_flight e \/ stage (fst (do_send c e now)) = 7).
Proof.
  intro Hw. destruct (do_send_shape c e now) as (e3 & Hs & Heq). rewrite Heq.
  destruct Hs as (_&Hf&Hst&_&_&Hl&_&_&_&_&_&_&_&_&_&Hsn).
  dif; cbn [fst].
  - destruct (to_finished_stage c e3 now) as (H1 & H2 & H3). destruct (to_finished c e3 now). cbn [fst] in *.
    split; [split; congruence | right; exact H1].
  - split; [split; assumption|]. left. unfold stage. rewrite Hst. exact Hf.
Qed.

(* the parsers only move forward *)
Lemma parse_next c e :
  snd (parse c e) = 0 \/ (e_flight e < snd (parse c e) /\ snd (parse c e) <= 6) \/
  (e_client e = false /\ e_flight e = F4 /\ snd (parse c e) = F4).
Proof.
  assert (H3 : forall x, snd (parse_c3 x) = 0 \/ snd (parse_c3 x) = F5).
  { intro x. unfold parse_c3. repeat (dif; cbn [snd]); auto;
      destruct (pull_seq _ _ _ _); cbn [snd]; auto. }
  unfold parse. cbn zeta.
  destruct (e_client e) eqn:Ec.
  - destruct (N.eqb_spec (e_flight e) F1) as [E1 | E1].
    + rewrite E1. repeat (dif; cbn [snd]); auto;
        try (destruct (H3 e) as [H | H]; rewrite H; [left; reflexivity | right; left; cbv; split; [reflexivity | discriminate]]).
      right. left. cbv. split; [reflexivity | discriminate].
    + destruct (N.eqb_spec (e_flight e) F3) as [E2 | E2]; [|left; reflexivity].
      rewrite E2. destruct (H3 e) as [H | H]; rewrite H; [left; reflexivity | right; left; cbv; split; [reflexivity | discriminate]].
  - destruct (N.eqb_spec (e_flight e) F0) as [E0 | E0].
    + rewrite E0. dif; cbn [snd]; [|auto]. right. left. dif; cbv; split; (reflexivity || discriminate).
    + destruct (N.eqb_spec (e_flight e) F2) as [E2 | E2].
      * rewrite E2. dif; cbn [snd]; [|auto]. right. left. cbv; split; (reflexivity || discriminate).
      * destruct (N.eqb_spec (e_flight e) F4) as [E4 | E4]; [|left; reflexivity].
        destruct (pull_seq e 2 (e_recvseq e) rules_client_final); cbn [snd]; auto.
Qed.

Lemma same_fsm_stage a b :
  same_fsm a b -> stage a = stage b /\ e_lastsent a = e_lastsent b /\ e_flight a = e_flight b /\ e_sent a = e_sent b.
Proof. intros (_&Hf&Hs&_&_&Hl&_&_&_&_&_&_&_&_&_&Hn). unfold stage. rewrite Hs, Hf. auto. Qed.

Lemma acknowledge_keeps e acks :
  let e' := fst (fst (acknowledge e acks)) in
  stage e' = stage e /\ e_lastsent e' = e_lastsent e /\ e_flight e' = e_flight e /\ e_fst e' = e_fst e /\
  e_client e' = e_client e /\ e_sent e' = e_sent e.
Proof. unfold acknowledge, stage; cbn. auto 10. Qed.

(* an ACK makes progress only if it acknowledges a fragment that is still pending *)
Lemma acknowledge_progress e acks :
  snd (acknowledge e acks) = true -> exists f, In f (concat acks) /\ fmem f (e_pending e) = true.
Proof.
  unfold acknowledge. cbn [snd].
  destruct (filter (fun f => fmem f (e_pending e)) (concat acks)) as [|f l] eqn:E; [discriminate|]. intros _.
  assert (Hin : In f (filter (fun f => fmem f (e_pending e)) (concat acks))) by (rewrite E; now left).
  apply filter_In in Hin. exists f. exact Hin.
Qed.

Lemma acknowledge_empty e acks :
  Forall (fun a => a <> []) acks -> snd (fst (acknowledge e acks)) = false.
Proof.
  unfold acknowledge. cbn [fst snd]. intro H. induction H as [|a l Ha Hl IH]; [reflexivity|].
  cbn [existsb]. destruct a; [congruence | exact IH].
Qed.

(* the core: within half an initial interval of its last transmission, an event that brings no ACK
   progress (and no empty ACK) makes a waiting endpoint re-send nothing - it emits handshake
   records only by moving on to a later flight (or finishing) *)
Lemma on_event_recent c e hs (retr : bool) acks rta now :
  flags_cfg c -> e_fst e = Waiting -> recent c e now ->
  snd (fst (acknowledge (if retr then e else set_interval e (c_initial c)) acks)) = false ->
  snd (acknowledge (if retr then e else set_interval e (c_initial c)) acks) = false ->
  ok_step e now (on_event c e hs retr acks rta now).
Proof.
  intros Hfl Hw Hrec Hemp Hprog.
  destruct (hrr_flags c Hfl) as (_&_&_&_&_&Hl4).
  unfold on_event. rewrite Hw.
  set (e1 := if retr then e else set_interval e (c_initial c)) in *.
  assert (K1 : stage e1 = stage e /\ e_lastsent e1 = e_lastsent e /\ e_flight e1 = e_flight e /\ e_fst e1 = Waiting /\
               e_client e1 = e_client e /\ e_sent e1 = e_sent e).
  { subst e1. destruct retr; unfold stage; cbn; rewrite ?Hw; auto 10. }
  pose proof (acknowledge_keeps e1 acks) as K2.
  destruct (acknowledge e1 acks) as [[e2 empty] progress]. cbn [fst snd] in *. subst empty progress.
  destruct K1 as (S1&L1&F1'&W1&C1&N1). destruct K2 as (S2&L2&F2'&W2&C2&N2).
  assert (Hst2 : stage e2 = stage e) by congruence.
  assert (Hls2 : e_lastsent e2 = e_lastsent e) by congruence.
  assert (Hsn2 : e_sent e2 = e_sent e) by congruence.
  assert (Hrec2 : recent c e2 now) by (eapply recent_transfer; [symmetry; exact Hls2 | symmetry; exact Hsn2 | exact Hrec]).
  destruct (negb hs && _).
  { rewrite (after_ack_recent c e2 false now Hrec2). now apply ok_step_same. }
  destruct (hs && retr && fl_last_send c (e_flight e2)).
  { rewrite (after_ack_recent c e2 true now Hrec2). apply ok_step_same; auto.
    rewrite has_hs_app, has_hs_ack. reflexivity. }
  destruct (hs && e_client e2 && fl_last_send c (e_flight e2) && negb (has_post e2)).
  { apply ok_step_same; auto. apply has_hs_ack. }
  destruct (hs && e_client e2 && fl_last_send c (e_flight e2)) eqn:Ec.
  { set (e3 := set_fsm e2 _ _ _ _ _ _ _ _ _ _).
    assert (Hc3 : e_client e3 = true).
    { subst e3. cbn. apply andb_prop in Ec. destruct Ec as [Ec _]. apply andb_prop in Ec. tauto. }
    destruct (to_finished_stage c e3 now) as (T1 & T2 & T4). pose proof (to_finished_fst c e3 now) as T0.
    pose proof (to_finished_client c e3 now Hc3) as T3.
    destruct (to_finished c e3 now) as [e4 o4]. cbn [fst snd] in *. subst o4.
    destruct (post_receive_shape c e4 hs acks rta) as (P1&_&_&_&_&_&(epo & fs & P7)).
    assert (P8 : e_lastsent (fst (post_receive c e4 hs acks rta)) = e_lastsent e4 /\
                 e_sent (fst (post_receive c e4 hs acks rta)) = e_sent e4).
    { unfold post_receive. cbn [fst]. set (x := set_nst _ _ _ _ _).
      assert (Hx : forall n y, e_lastsent (consume_nst n y) = e_lastsent y /\ e_sent (consume_nst n y) = e_sent y).
      { induction n as [|n IH]; intro y; cbn [consume_nst]; [auto|]. dif; [|auto].
        destruct (IH (set_rx y (e_recvseq y + 1) (e_fbcur y) (e_frags y)
                         (filter (fun x0 => let '(m, _, _) := x0 in negb (N.eqb m (e_recvseq y))) (e_cache y))
                         (e_repoch y) (e_lepoch y) (e_queue y) (e_toack y))) as [A B].
        rewrite A, B. auto. }
      set (y := if hs && e_client x then consume_nst 8 x else x).
      assert (Hy : e_lastsent y = e_lastsent e4 /\ e_sent y = e_sent e4).
      { subst y. dif; [destruct (Hx 8%nat x) as [A B]; rewrite A, B|]; auto. }
      exact Hy. }
    destruct P8 as [P8 P9].
    destruct (post_receive c e4 hs acks rta) as [e5 o5]. cbn [fst snd] in *.
    unfold ok_step. cbn [fst snd app].
    assert (S5 : stage e5 = 7).
    { unfold stage. rewrite P1, T0. reflexivity. }
    split; [left; split; [rewrite P8, T2; subst e3; cbn; exact Hls2 | rewrite P9, T4; subst e3; cbn; exact Hsn2]|].
    assert (Hle : stage e <= 7).
    { rewrite <- Hst2. unfold stage. rewrite W2, W1.
      apply andb_prop in Ec. destruct Ec as [_ Ec]. rewrite (last_send_is_F5 c _ Hfl Ec). cbv. discriminate. }
    split; [rewrite S5; exact Hle|].
    split; [rewrite P7, has_hs_ack; discriminate | rewrite S5; apply N.le_max_r]. }
  pose proof (same_fsm_parse c e2) as Hp. pose proof (parse_next c e2) as Hn.
  destruct (parse c e2) as [e3 nxt]. cbn [fst snd] in *.
  destruct (same_fsm_stage e2 e3 Hp) as (S3&L3&F3'&N3).
  assert (Hrec3 : recent c e3 now) by (eapply recent_transfer; [exact L3 | exact N3 | exact Hrec2]).
  destruct (N.eqb_spec nxt 0) as [E0 | E0].
  { rewrite (after_ack_recent c e3 retr now Hrec3). apply ok_step_same; try congruence.
    rewrite has_hs_app, has_hs_ack. reflexivity. }
  assert (W3 : e_fst e3 = Waiting) by (destruct Hp as (_&_&Hs&_); congruence).
  destruct Hn as [Hn | [[Hn1 Hn2] | (Hn1&Hn2&Hn3)]]; [congruence | |].
  - (* a later flight *)
    assert (Hne : N.eqb nxt (e_flight e3) = false) by (apply N.eqb_neq; rewrite <- F3'; clear - Hn1; lia).
    rewrite Hne, andb_false_r. cbn [andb].
    unfold enter. set (e0 := set_fsm _ nxt _ _ _ _ _ _ _ _ _).
    assert (W0 : e_fst e0 = Waiting) by reflexivity.
    destruct (do_send_stage c e0 now W0) as [D1 D2].
    unfold ok_step. split; [right; exact D1|].
    assert (Hlt : stage e < stage (fst (do_send c e0 now))).
    { rewrite <- Hst2. unfold stage at 1. rewrite W2, W1.
      destruct D2 as [D2 | D2]; rewrite D2; [subst e0; cbn [set_fsm e_flight]; exact Hn1 | clear - Hn1 Hn2; lia]. }
    split; [apply N.lt_le_incl; exact Hlt|]. split; [intros _; exact Hlt|].
    destruct D2 as [D2 | D2]; rewrite D2; [subst e0; cbn [set_fsm e_flight]; clear - Hn2; lia | apply N.le_max_r].
  - (* the server received the client's final flight *)
    assert (Hc3 : e_client e3 = false) by (destruct Hp as (Hc&_); congruence).
    rewrite Hc3, Hn3, <- F3', Hn2, Hl4. change (N.eqb F4 F4) with true. cbn [negb andb].
    set (e4 := drain _).
    assert (H4 : same_fsm e3 e4).
    { subst e4. eapply same_fsm_trans; [apply same_fsm_set_epochs | apply same_fsm_drain]. }
    destruct (same_fsm_stage e3 e4 H4) as (S4&L4&_&N4).
    destruct (to_finished_stage c e4 now) as (T1 & T2 & T4).
    destruct (to_finished c e4 now) as [e5 o5]. cbn [fst snd] in *.
    unfold ok_step. cbn [fst snd].
    assert (Hlt : stage e < stage e5).
    { rewrite T1, <- Hst2. unfold stage. rewrite W2, W1, Hn2. cbv. reflexivity. }
    split; [left; split; congruence|]. split; [apply N.lt_le_incl; exact Hlt|].
    split; [intros _; exact Hlt | rewrite T1; apply N.le_max_r].
Qed.

(* C17: within half an initial interval of its last transmission a waiting endpoint answers a
   datagram with handshake records only if the datagram makes real progress: it lets the endpoint
   move on to a later flight (or finish), or it acknowledges a fragment that was still pending.
   (No ACK with an empty record list: the implementation never sends one, and forging one needs
   the keys.)  A repetition by the peer, however often it comes, is not answered. *)
Theorem reanswer_needs_progress c e d now :
  flags_cfg c -> e_fst e = Waiting -> recent c e now ->
  Forall (fun a => a <> []) (snd (process_records true e d)) ->
  has_hs (snd (on_datagram c e d now)) = true ->
  stage e < stage (fst (on_datagram c e d now)) \/
  exists f, In f (concat (snd (process_records true e d))) /\ fmem f (e_pending e) = true.
Proof.
  intros Hfl Hw Hrec Hne. unfold on_datagram.
  pose proof (same_fsm_process_records true d e) as Hs.
  destruct (process_records true e d) as [[[e1 hs] retr] acks]. cbn [fst snd] in *.
  dif; cbn [fst snd]; [discriminate|].
  set (e1' := set_toack e1 []).
  assert (Hs' : same_fsm e e1') by (eapply same_fsm_trans; [exact Hs | apply same_fsm_set_toack]).
  destruct (same_fsm_stage e e1' Hs') as (S1&L1&_&N1).
  assert (Hw1 : e_fst e1' = Waiting) by (destruct Hs' as (_&_&H&_); congruence).
  assert (Hrec1 : recent c e1' now) by (eapply recent_transfer; [exact L1 | exact N1 | exact Hrec]).
  set (e2 := if retr then e1' else set_interval e1' (c_initial c)).
  destruct (snd (acknowledge e2 acks)) eqn:Ep.
  - intros _. right. destruct (acknowledge_progress e2 acks Ep) as (f & Hf1 & Hf2). exists f. split; [exact Hf1|].
    replace (e_pending e) with (e_pending e2); [exact Hf2|].
    destruct Hs' as (_&_&_&_&_&_&_&_&_&Hp&_). subst e2. destruct retr; [symmetry; exact Hp|]. cbn [set_interval set_fsm e_pending]. symmetry. exact Hp.
  - intro Hh. left.
    pose proof (on_event_recent c e1' hs retr acks (e_toack e1) now Hfl Hw1 Hrec1 (acknowledge_empty e2 acks Hne) Ep)
      as (_ & _ & Hlt & _).
    rewrite S1. apply Hlt. exact Hh.
Qed.

(* a datagram without ACK records *)
Definition ack_free (d : dgram) : bool := forallb is_hs_rec d.

Lemma process_record_ack_free l e r : is_hs_rec r = true -> snd (process_record l e r) = None.
Proof.
  unfold is_hs_rec, process_record. destruct (r_body r) as [ht m fo fl tl | fs]; [|discriminate]. intros _.
  repeat (dif; cbn [snd]); try reflexivity.
  all: destruct (push e (m, ht, fo, fl, tl, r_ep r)); try dif; reflexivity.
Qed.

Lemma process_records_ack_free l d : forall e, ack_free d = true -> snd (process_records l e d) = [].
Proof.
  induction d as [|r d IH]; intros e H; cbn [process_records]; [reflexivity|].
  cbn [ack_free forallb] in H. apply andb_prop in H. destruct H as [H1 H2].
  pose proof (process_record_ack_free l e r H1) as Hn.
  destruct (process_record l e r) as [[[e1 h1] r1] a1]. cbn [snd] in Hn. subst a1.
  specialize (IH e1 H2). destruct (process_records l e1 d) as [[[e2 h2] r2] a2]. cbn [snd] in *. exact IH.
Qed.

(* C17, the zero-delay ping-pong is impossible: whatever handshake datagrams (no ACKs) arrive, in
   whatever number, within a window shorter than half an initial interval that starts no earlier
   than the endpoint's last transmission, the endpoint emits handshake records in at most
   7 - stage steps (each of them moves it to a later flight): two endpoints that take each other's
   flights for retransmissions cannot answer each other without end *)
Definition in_window (c : cfg) (T : N) (i : input) : Prop :=
  match i with
  | IDgram d now => ack_free d = true /\ T <= now /\ 2 * (now - T) < c_initial c
  | ITimer => False
  end.

Definition count_hs (tr : list (input * list dgram)) : nat := length (filter (fun p => has_hs (snd p)) tr).

Theorem no_zero_delay_ping_pong c T ins : flags_cfg c -> forall e,
  Forall (in_window c T) ins -> stage e <= 7 -> (e_fst e = Waiting -> T <= e_lastsent e /\ e_sent e = true) ->
  N.of_nat (count_hs (snd (run c e ins))) + stage e <= 7.
Proof.
  intro Hfl. induction ins as [|i ins IH]; intros e Hall Hst Hls; [cbn; lia|].
  inversion Hall as [|i' ins' Hi Hrest]; subst.
  destruct i as [d now|]; [|destruct Hi]. destruct Hi as (Haf & Hn1 & Hn2).
  cbn [run step].
  assert (Hstep : let r := on_datagram c e d now in
                  stage e <= stage (fst r) /\ (has_hs (snd r) = true -> stage e < stage (fst r)) /\
                  stage (fst r) <= 7 /\ (e_fst (fst r) = Waiting -> T <= e_lastsent (fst r) /\ e_sent (fst r) = true)).
  { destruct (e_fst e) eqn:Ef.
    - destruct (Hls eq_refl) as [Hl0 Hn0].
      assert (Hrec : recent c e now) by (unfold recent; split; [exact Hn0 | clear - Hl0 Hn1 Hn2; lia]).
      unfold on_datagram.
      pose proof (same_fsm_process_records true d e) as Hs.
      pose proof (process_records_ack_free true d e Haf) as Hna.
      destruct (process_records true e d) as [[[e1 hs] retr] acks]. cbn [fst snd] in *. subst acks.
      destruct (same_fsm_stage e e1 Hs) as (S1&L1&_&N1).
      dif; cbn [fst snd].
      + rewrite <- S1. split; [apply N.le_refl|]. split; [discriminate|]. split; [exact Hst|]. intros _. rewrite <- L1, <- N1. auto.
      + set (e1' := set_toack e1 []).
        assert (Hs' : same_fsm e e1') by (eapply same_fsm_trans; [exact Hs | apply same_fsm_set_toack]).
        destruct (same_fsm_stage e e1' Hs') as (S2&L2&_&N2).
        assert (Hw1 : e_fst e1' = Waiting) by (destruct Hs' as (_&_&H&_); congruence).
        assert (Hrec1 : recent c e1' now) by (eapply recent_transfer; [exact L2 | exact N2 | exact Hrec]).
        pose proof (on_event_recent c e1' hs retr [] (e_toack e1) now Hfl Hw1 Hrec1 eq_refl eq_refl) as (K1 & K2 & K3 & K4).
        rewrite S2. split; [exact K2|]. split; [exact K3|]. split; [rewrite <- S2 in K4; clear - K4 Hst; lia|].
        intros _. destruct K1 as [[K1 K1'] | [K1 K1']]; rewrite K1, K1'; [rewrite <- L2, <- N2; auto | auto].
    - destruct (finished_receive c e d now Ef) as (F1 & _ & (epo & fs & F3)).
      cbv zeta in *. rewrite F3, has_hs_ack. unfold stage. rewrite F1, Ef.
      split; [apply N.le_refl|]. split; [discriminate|]. split; [apply N.le_refl|]. discriminate. }
  destruct (on_datagram c e d now) as [e1 o]. cbn [fst snd] in Hstep. destruct Hstep as (H1 & H2 & H3 & H4).
  specialize (IH e1 Hrest H3 H4). destruct (run c e1 ins) as [e2 tr]. cbn [snd] in *.
  unfold count_hs in *. cbn [filter snd]. destruct (has_hs o) eqn:Eo; cbn [length]; [specialize (H2 eq_refl); clear - IH H2; lia | clear - IH H1; lia].
Qed.

(* ---------- known gap (C17): a repeated identical fragment is "new data" every time ---------- *)

(* as coded (fragment_buffer.go pushHandshakeFragments): only message_seq < current makes a
   retransmission; a fragment of the message being assembled or of a later one is never one, even
   when the very same fragment is already held *)
Lemma held_fragment_is_new_data e m ht fo fl tl ep0 :
  e_fbcur (fb_advance e) <= m -> snd (push e (m, ht, fo, fl, tl, ep0)) = false.
Proof.
  intro H. unfold push. destruct (N.ltb_spec m (e_fbcur (fb_advance e))); [lia|]. dif; reflexivity.
Qed.

(* ... so "the initial interval is restored (only) when new data arrives" is FALSE of the faithful
   model: a client that has backed off to 4 s and already holds the 1-byte fragment (ServerHello
   type, message_seq 40) is handed the identical fragment again: it emits nothing and its interval is
   back at the initial 1 s.  (Not repaired: flagging a held fragment as a retransmission would make
   the DTLS 1.3 machine re-send its flight for every copy.) *)
Definition repeat_cfg : cfg := cfg13 g13_v13.
Definition repeat_dgram : dgram := [{| r_ep := 0; r_body := Hs HT_SH 40 0 1 32; r_size := 26 |}].
Definition repeat_state : ep :=
  timeouts 2 repeat_cfg (fst (on_datagram repeat_cfg (timeouts 2 repeat_cfg (ep_init repeat_cfg true)) repeat_dgram 7100)).

Theorem only_new_data_restores_interval_refuted :
  exists (e : ep) (d : dgram) (now : N),
    existsb (same_slot 40 0) (e_frags e) = true /\ d = repeat_dgram /\
    e_interval e = 4000 /\ c_initial repeat_cfg = 1000 /\
    e_interval (fst (on_datagram repeat_cfg e d now)) = 1000 /\ snd (on_datagram repeat_cfg e d now) = [].
Proof. exists repeat_state, repeat_dgram, 14200. vm_compute. repeat split; reflexivity. Qed.

(* ---------- dual-stack client: the negotiation phase ---------- *)

Lemma ep_datagram_fsm c e d now : negotiating e = false -> ep_datagram c e d now = on_datagram c e d now.
Proof. unfold ep_datagram. now intros ->. Qed.
Lemma ep_timer_fsm c e : negotiating e = false -> ep_timer c e = on_timer c e.
Proof. unfold ep_timer. now intros ->. Qed.
Lemma server_never_negotiates e : e_client e = false -> negotiating e = false.
Proof. unfold negotiating. now intros ->. Qed.

(* C17, dual-stack client (conn.go negotiateVersionClient): while the version is being negotiated the
   ClientHello is repeated on the same schedule: one expiry doubles the interval up to 60 s (kept
   without backoff), sends the ClientHello again, and the next deadline is one new interval later;
   the state machine's own clock (lastSent) is not touched *)
Theorem neg_timer_step c e :
  negotiating e = true ->
  let e' := fst (ep_timer c e) in
  e_interval e' = bump c (e_interval e) /\ e_timer e' = e_timer e + e_interval e' /\
  e_out e' = e_out e /\ negotiating e' = true /\ e_lastsent e' = e_lastsent e /\ e_sent e' = e_sent e /\
  snd (ep_timer c e) = pack c (e_out e).
Proof.
  intro Hn. unfold ep_timer. rewrite Hn. unfold neg_timer. cbn [fst snd].
  repeat split. unfold negotiating in *. cbn. exact Hn.
Qed.

Fixpoint neg_timeouts (k : nat) (c : cfg) (e : ep) : ep :=
  match k with O => e | S k' => fst (ep_timer c (neg_timeouts k' c e)) end.

Theorem neg_interval_law c e k :
  negotiating e = true ->
  let e' := neg_timeouts k c e in
  negotiating e' = true /\ e_out e' = e_out e /\ e_interval e' = sched c (e_interval e) k /\
  e_timer (neg_timeouts (S k) c e) = e_timer e' + e_interval (neg_timeouts (S k) c e).
Proof.
  intro Hn. induction k as [|k IH].
  - cbn [neg_timeouts]. destruct (neg_timer_step c e Hn) as (H1 & H2 & _).
    split; [exact Hn|]. split; [reflexivity|]. split; [now rewrite sched_0 | exact H2].
  - destruct IH as (Hn' & Ho & Hi & _). cbn [neg_timeouts].
    destruct (neg_timer_step c (neg_timeouts k c e) Hn') as (H1 & H2 & H3 & H4 & _).
    split; [exact H4|]. split; [congruence|]. split; [rewrite H1, Hi; apply bump_sched|].
    destruct (neg_timer_step c (fst (ep_timer c (neg_timeouts k c e))) H4) as (_ & H2' & _). exact H2'.
Qed.

(* a datagram read during negotiation changes neither the deadline nor the interval (the timer law
   of the negotiating client holds whatever arrives in between); it starts the state machine
   (Flight 1, primed with an empty event) exactly when the server's first message is complete, and
   is answered by nothing otherwise *)
Theorem neg_datagram_quiet c e d now :
  negotiating e = true ->
  let e1 := fst (fst (fst (process_records true e d))) in
  has e1 0 HT_SH 0 || has e1 0 HT_HRR 0 = false ->
  snd (ep_datagram c e d now) = [] /\ negotiating (fst (ep_datagram c e d now)) = true /\
  e_timer (fst (ep_datagram c e d now)) = e_timer e /\
  e_interval (fst (ep_datagram c e d now)) = e_interval e /\
  e_out (fst (ep_datagram c e d now)) = e_out e.
Proof.
  intros Hn. unfold ep_datagram. rewrite Hn. unfold neg_datagram.
  pose proof (same_fsm_process_records true d e) as Hs.
  destruct (process_records true e d) as [[[e1 hs] retr] acks]. cbn [fst] in *. intro Hh.
  rewrite Hh. cbn [fst snd].
  destruct Hs as (Hc&Hf&Hst&_&_&_&Hi&Ht&Ho&_).
  split; [reflexivity|]. split; [|split; [|split]; congruence].
  unfold negotiating in *. rewrite <- Hc, <- Hf, <- Hst. exact Hn.
Qed.

(* hence: any number of datagrams that do not complete the server's first message, then the timer:
   the same expiry, at the same deadline, as without them *)
Fixpoint neg_reads (c : cfg) (e : ep) (ds : list (dgram * N)) : ep :=
  match ds with [] => e | (d, now) :: ds' => neg_reads c (fst (ep_datagram c e d now)) ds' end.

Definition undecided (e : ep) (d : dgram) : Prop :=
  let e1 := fst (fst (fst (process_records true e d))) in has e1 0 HT_SH 0 || has e1 0 HT_HRR 0 = false.

Fixpoint all_undecided (c : cfg) (e : ep) (ds : list (dgram * N)) : Prop :=
  match ds with
  | [] => True
  | (d, now) :: ds' => undecided e d /\ all_undecided c (fst (ep_datagram c e d now)) ds'
  end.

Theorem neg_timer_unmoved c ds : forall e,
  negotiating e = true -> all_undecided c e ds ->
  let e' := neg_reads c e ds in
  negotiating e' = true /\ e_timer e' = e_timer e /\ e_interval e' = e_interval e /\ e_out e' = e_out e.
Proof.
  induction ds as [|[d now] ds IH]; intros e Hn Hu; cbn [neg_reads]; [auto|].
  destruct Hu as [Hu1 Hu2].
  destruct (neg_datagram_quiet c e d now Hn Hu1) as (_ & H1 & H2 & H3 & H4).
  destruct (IH _ H1 Hu2) as (K1 & K2 & K3 & K4). repeat split; congruence.
Qed.

(* emission bound with the negotiation phase included *)
Definition estep (c : cfg) (e : ep) (i : input) : ep * list dgram :=
  match i with IDgram d now => ep_datagram c e d now | ITimer => ep_timer c e end.

Fixpoint erun (c : cfg) (e : ep) (ins : list input) : ep * list (input * list dgram) :=
  match ins with
  | [] => (e, [])
  | i :: ins' => let '(e1, o) := estep c e i in let '(e2, tr) := erun c e1 ins' in (e2, (i, o) :: tr)
  end.

Lemma estep_bound c e i :
  bounded c e ->
  bounded c (fst (estep c e i)) /\
  (length (snd (estep c e i)) <= (if is_timer i then maxrecs c else 1 + maxrecs c))%nat.
Proof.
  intro Hb. destruct i as [d now|]; cbn [estep is_timer].
  - unfold ep_datagram. destruct (negotiating e); [|now apply emission_bound_per_datagram].
    unfold neg_datagram.
    pose proof (same_fsm_process_records true d e) as Hs.
    destruct (process_records true e d) as [[[e1 hs] retr] acks]. cbn [fst] in Hs.
    pose proof (bounded_same c e e1 Hs Hb) as Hb1.
    dif; [|cbn [fst snd]; split; [exact Hb1 | cbn; lia]].
    apply on_event_bound. destruct Hb1; split; assumption.
  - unfold ep_timer. destruct (negotiating e); [|now apply emission_bound_per_timer].
    unfold neg_timer. cbn [fst snd]. destruct Hb as [H1 H2]. split; [split; assumption|].
    etransitivity; [apply pack_len | exact H1].
Qed.

Theorem emission_bound_ep c ins : forall e,
  bounded c e ->
  (emitted (snd (erun c e ins)) <= n_timers ins * maxrecs c + n_dgrams ins * (1 + maxrecs c))%nat.
Proof.
  induction ins as [|i ins IH]; intros e Hb; cbn [erun]; [cbn; lia|].
  destruct (estep_bound c e i Hb) as [Hb1 Hl].
  destruct (estep c e i) as [e1 o]. cbn [fst snd] in *.
  specialize (IH e1 Hb1). destruct (erun c e1 ins) as [e2 tr]. cbn [snd emitted fold_right] in *.
  unfold n_timers, n_dgrams in *. cbn [filter].
  destruct (is_timer i); cbn [negb length]; lia.
Qed.

(* liveness instances with a dual-stack client (negotiation phase included in the closure) *)
Definition cfg13d (raw : N * bool * list (N * list (N * N * N * N * N * N * N))) : cfg := dual_client (cfg13 raw).
Lemma live_v13_dualc : live_check 400 2 (cfg13d g13_v13_dualc) = true. Proof. vm_compute. reflexivity. Qed.
Lemma live_v13_dualc_direct : live_check 400 2 (cfg13d g13_v13_dualc_direct) = true. Proof. vm_compute. reflexivity. Qed.
