(* C20 - DTLS 1.3 key updates: executable model (definitions only; proofs in C20KeyUpdateSound.v).

   What is modelled (pion/dtls as pinned in /repo):
   - internal/handshake/post_handshake.go: the post-handshake command queue (one active reliable
     flight; application records may overtake a KeyUpdate that is waiting for the active flight),
     startKeyUpdate / buildKeyUpdateFlight, retransmitPostHandshakeFlight, applyACK +
     completePostHandshakeFlight (the new write generation is committed when an ACK names any record
     that carried the single-fragment KeyUpdate), handleKeyUpdate (read generation advances when the
     message is processed, the previous generations stay installed, a requested response is queued in
     front of queued application data), sendACK under the CURRENT local epoch;
   - internal/state/traffic_keys.go: Install never discards a generation (readOld is a map that only
     grows), ReadCandidates selects by the two epoch bits on the wire, current generation first;
   - conn.go: openCiphertextRecord (candidates only with generation.Epoch <= remoteEpoch; no eligible
     candidate = ErrInvalidEpoch -> handleFutureCiphertextPacket parks the datagram when its epoch bits
     are those of remoteEpoch+1 and fewer than 100 are parked; an eligible candidate that fails to open
     = dropped), reconstructSequenceNumber with the 16 sequence bits that sealRecordContent puts on
     the wire, protectedReplayMarker (one sliding window per epoch, max = 2^64-1),
     handleQueuedPackets after the read epoch advanced (parked datagrams are processed once, never
     parked again), commitLocalKeyUpdate / validateNextWriteGeneration, nextLocalSequenceNumber
     (2^48-1 limit), nextTrafficGeneration (epoch 65535 = ErrEpochOverflow), the uint16 message_seq
     limits (ErrHandshakeSequenceOverflow).
   Symbolic record = key term + epoch bits + sequence number + content; a generation opens a record
   iff it holds the same key term and the reconstructed sequence number is the sealed one (AEAD
   idealisation: nonce = iv xor seq, key per epoch).  Secrets are terms: generation g+1 = Next
   (generation g) (bytes of HKDF-Expand-Label are C10's business).
   Ghost fields (no influence on behaviour): [seen] (record numbers accepted by the windows), [got]
   (payloads handed to Read with their record numbers).
   [failed] freezes a side: the state machine returned an error (sequence-number / epoch / message_seq
   limits); the partial field updates the code performs before returning are not represented because
   nothing observes a failed side.
   Deviation (only reachable with records the peer never sent, excluded by the [authentic] premise of
   the theorems that need it): a KeyUpdate whose message_seq is ahead of the expected one is only
   acknowledged (the code also keeps it in the fragment buffer), and a KeyUpdate with the expected
   message_seq under a non-current epoch makes the side [failed] (the code answers with a fatal alert
   and stops its post-handshake state machine with ErrUnexpectedPostHandshakeMessage); handshake/ACK
   content of PARKED records is ignored.
   What an off-path sender can leave behind DURING the handshake is part of [config]: [c_shadow] (see
   [on_ku]).  The theorems hold for [no_shadow] configurations; Ku/C20KeyUpdateSound.v
   [shadowed_keyupdate_refuted] is the witness that they fail otherwise (known finding K-C20-1).
   The model starts from an established connection (application epoch 3 on both sides, the server's
   NewSessionTicket flight acknowledged); [config] carries what establishment left behind. *)
From Coq Require Import List NArith Bool.
From DtlsV Require Import Lib.Bytes Rec.Window.
Import ListNotations.
Open Scope N_scope.

(* ---------- sides, secrets, records ---------- *)

Inductive side := A | B.   (* A = client, B = server *)
Definition other (s : side) : side := match s with A => B | B => A end.
Definition side_eqb (a b : side) : bool :=
  match a, b with A, A => true | B, B => true | _, _ => false end.

(* traffic secrets as terms: Init s = s's application_traffic_secret_0 (write direction of s),
   Hs s = s's handshake traffic secret, Next = HKDF-Expand-Label(., "traffic upd", "", Hash.length) *)
Inductive sec := Init (s : side) | Hs (s : side) | Next (k : sec).

Fixpoint sec_eqb (a b : sec) : bool :=
  match a, b with
  | Init x, Init y => side_eqb x y
  | Hs x, Hs y => side_eqb x y
  | Next x, Next y => sec_eqb x y
  | _, _ => false
  end.

Fixpoint nx (n : nat) (k : sec) : sec := match n with O => k | S n' => Next (nx n' k) end.
(* the write secret of side s for epoch e >= 3 *)
Definition secret_of (s : side) (e : N) : sec := nx (N.to_nat (e - 3)) (Init s).

Inductive kind :=
| App (p : N)                       (* application data, payload identified by a number *)
| KU (msg : N) (req : bool)         (* KeyUpdate handshake message: message_seq, request_update *)
| Ack (l : list (N * N)).           (* ACK: record numbers (epoch, sequence number) *)

Record rec := mkrec { r_key : sec; r_elow : N; r_seq : N; r_kind : kind }.

Record gen := mkgen { g_epoch : N; g_sec : sec }.

Inductive cmd := CApp (p : N) | CKU (req : bool) (id : option N).

(* the active KeyUpdate flight: message_seq, request flag, UpdateKeys call waiting for it (None for
   a response the peer asked for), sequence numbers of every transmission (all under w_epoch) *)
Record flight := mkflight { f_msg : N; f_req : bool; f_id : option N; f_seqs : list N }.

Definition max_epoch : N := 65535.
Definition max_msg : N := 65535.
Definition max_seq48 : N := 281474976710655.
Definition max_seq64 : N := 18446744073709551615.
Definition futq_cap : nat := 100.
Definition seq_bits : N := 65536.
Definition low2 (e : N) : N := e mod 4.

Record sidest := mkside {
  failed : bool;                 (* post-handshake state machine returned an error *)
  w_epoch : N;                   (* LocalEpoch = epoch of the current write generation *)
  w_sec : sec;                   (* secret of the current write generation *)
  w_seq : N;                     (* LocalSequenceNumber[w_epoch] *)
  hs_send : N;                   (* HandshakeSendSequence *)
  pending : option flight;       (* postHandshake.flights (KeyUpdate) *)
  queue : list cmd;              (* postHandshake.queue *)
  r_epoch : N;                   (* RemoteEpoch: authorised receive epoch *)
  r_gens : list gen;             (* installed read generations, current first *)
  hs_recv : N;                   (* HandshakeRecvSequence *)
  wins : N -> win;               (* ReplayDetector[epoch]; latest = RemoteSequenceNumber[epoch] *)
  futq : list rec;               (* encryptedPackets: parked future-epoch datagrams *)
  seen : list (N * N);           (* ghost: accepted record numbers, newest first *)
  got : list (N * N * N);        (* ghost: (epoch, seq, payload) handed to Read, newest first *)
  shadow : list N                (* message numbers for which an UNAUTHENTICATED fragment was left in the
                                    reassembly buffer during the handshake (never changes; see on_ku) *)
}.

Inductive event :=
| EvSent (s : side) (e : N) (r : rec)   (* s emitted r under epoch e *)
| EvRead (s : side) (p : N)             (* payload p handed to s's Read *)
| EvStart (s : side) (id : N) (m : N)   (* UpdateKeys call id of s sent its KeyUpdate, message_seq m *)
| EvDone (s : side) (id : N)            (* UpdateKeys call id of s returned nil *)
| EvCommit (s : side) (e : N)           (* s's write epoch became e *)
| EvKuIn (s : side) (m : N)             (* s processed KeyUpdate message m (read epoch advanced) *)
| EvFail (s : side).                    (* s's state machine failed (overflow limits) *)

(* ---------- field updates ---------- *)

Definition set_failed (s : sidest) : sidest :=
  mkside true (w_epoch s) (w_sec s) (w_seq s) (hs_send s) (pending s) (queue s) (r_epoch s) (r_gens s)
         (hs_recv s) (wins s) (futq s) (seen s) (got s) (shadow s).
Definition set_wseq (s : sidest) (q : N) : sidest :=
  mkside (failed s) (w_epoch s) (w_sec s) q (hs_send s) (pending s) (queue s) (r_epoch s) (r_gens s)
         (hs_recv s) (wins s) (futq s) (seen s) (got s) (shadow s).
Definition set_queue (s : sidest) (q : list cmd) : sidest :=
  mkside (failed s) (w_epoch s) (w_sec s) (w_seq s) (hs_send s) (pending s) q (r_epoch s) (r_gens s)
         (hs_recv s) (wins s) (futq s) (seen s) (got s) (shadow s).
Definition set_pending (s : sidest) (p : option flight) : sidest :=
  mkside (failed s) (w_epoch s) (w_sec s) (w_seq s) (hs_send s) p (queue s) (r_epoch s) (r_gens s)
         (hs_recv s) (wins s) (futq s) (seen s) (got s) (shadow s).
Definition set_futq (s : sidest) (q : list rec) : sidest :=
  mkside (failed s) (w_epoch s) (w_sec s) (w_seq s) (hs_send s) (pending s) (queue s) (r_epoch s) (r_gens s)
         (hs_recv s) (wins s) q (seen s) (got s) (shadow s).

(* ---------- sending ---------- *)

(* one record under the current write generation (sealRecordContent after nextLocalSequenceNumber);
   None = ErrSequenceNumberOverflow (the counter has still been incremented) *)
Definition seal (s : sidest) (k : kind) : sidest * option rec :=
  let q := w_seq s in
  let s' := set_wseq s (q + 1) in
  if max_seq48 <? q then (s', None)
  else (s', Some (mkrec (w_sec s) (low2 (w_epoch s)) q k)).

(* control records (KeyUpdate, ACK): a failed write fails the state machine *)
Definition emit_ctl (me : side) (s : sidest) (k : kind) : sidest * list event * option N :=
  match seal s k with
  | (s', Some r) => (s', [EvSent me (w_epoch s) r], Some (r_seq r))
  | (s', None) => (set_failed s', [EvFail me], None)
  end.

(* writeApplicationData: the error goes to the Write caller, the state machine continues *)
Definition emit_app (me : side) (s : sidest) (p : N) : sidest * list event :=
  match seal s (App p) with
  | (s', Some r) => (s', [EvSent me (w_epoch s) r])
  | (s', None) => (s', [])
  end.

(* startKeyUpdate / buildKeyUpdateFlight (ErrEpochOverflow, ErrHandshakeSequenceOverflow,
   ErrSequenceNumberOverflow all end the state machine; a failed side is frozen, so the partial
   updates the code performs before returning the error are not represented) *)
Definition start_ku (me : side) (s : sidest) (req : bool) (id : option N) : sidest * list event :=
  if (w_epoch s =? max_epoch) || (max_msg <? hs_send s) || (max_seq48 <? w_seq s)
  then (set_failed s, [EvFail me])
  else
    let m := hs_send s in
    let q := w_seq s in
    (mkside (failed s) (w_epoch s) (w_sec s) (q + 1) (m + 1) (Some (mkflight m req id [q])) (queue s)
            (r_epoch s) (r_gens s) (hs_recv s) (wins s) (futq s) (seen s) (got s) (shadow s),
     EvSent me (w_epoch s) (mkrec (w_sec s) (low2 (w_epoch s)) q (KU m req))
       :: match id with Some i => [EvStart me i m] | None => [] end).

(* startQueuedPostHandshake: FIFO; a KeyUpdate command waits while a flight is active, application
   data at the head of the queue does not *)
Fixpoint drain (me : side) (s : sidest) (q : list cmd) : sidest * list event :=
  match q with
  | [] => (set_queue s [], [])
  | CApp p :: q' =>
      let '(s1, e1) := emit_app me s p in
      let '(s2, e2) := drain me s1 q' in (s2, e1 ++ e2)
  | CKU req id :: q' =>
      match pending s with
      | Some _ => (set_queue s q, [])
      | None =>
          let '(s1, e1) := start_ku me s req id in
          if failed s1 then (set_queue s1 q', e1)
          else let '(s2, e2) := drain me s1 q' in (s2, e1 ++ e2)
      end
  end.

Definition run_queue (me : side) (s : sidest) : sidest * list event := drain me s (queue s).

(* retransmitPostHandshakeFlight: same message, fresh record number, same (current) epoch *)
Definition timer (me : side) (s : sidest) : sidest * list event :=
  if failed s then (s, []) else
  match pending s with
  | None => (s, [])
  | Some f =>
      match emit_ctl me s (KU (f_msg f) (f_req f)) with
      | (s1, evs, Some q) =>
          (set_pending s1 (Some (mkflight (f_msg f) (f_req f) (f_id f) (q :: f_seqs f))), evs)
      | (s1, evs, None) => (s1, evs)
      end
  end.

(* ---------- receiving ---------- *)

(* conn.go reconstructSequenceNumber with SeqBit (16 bits); highest = RemoteSequenceNumber[epoch] *)
Definition reconstruct (partial highest : N) : N :=
  let window := seq_bits in
  let half := window / 2 in
  let expected := highest + 1 in
  let candidate := (expected / window) * window + partial mod window in
  if candidate + half <=? expected then candidate + window
  else if (expected + half <? candidate) && (window <=? candidate) then candidate - window
  else candidate.

Inductive opened := NoEpoch | BadRecord | Opened (e : N).

Definition gen_opens (s : sidest) (r : rec) (g : gen) : bool :=
  sec_eqb (g_sec g) (r_key r) &&
  (reconstruct (r_seq r mod seq_bits) (latest (wins s (g_epoch g))) =? r_seq r).

(* TrafficKeys.ReadCandidates + the loop of openCiphertextRecord.  (Go iterates the old generations
   in map order; at most one generation holds the key of a record, so the order is not observable.) *)
Definition open_rec (s : sidest) (r : rec) : opened :=
  let cands := filter (fun g => low2 (g_epoch g) =? r_elow r) (r_gens s) in
  let elig := filter (fun g => g_epoch g <=? r_epoch s) cands in
  match elig with
  | [] => NoEpoch
  | _ => match find (gen_opens s r) elig with
         | Some g => Opened (g_epoch g)
         | None => BadRecord
         end
  end.

(* markPacketAsValid: replay window accept; ghost [seen] *)
Definition mark (s : sidest) (e q : N) : sidest :=
  let w' := fst (accept max_seq64 (wins s e) q) in
  mkside (failed s) (w_epoch s) (w_sec s) (w_seq s) (hs_send s) (pending s) (queue s) (r_epoch s)
         (r_gens s) (hs_recv s) (fun x => if x =? e then w' else wins s x) (futq s)
         ((e, q) :: seen s) (got s) (shadow s).

Definition add_got (s : sidest) (e q p : N) : sidest :=
  mkside (failed s) (w_epoch s) (w_sec s) (w_seq s) (hs_send s) (pending s) (queue s) (r_epoch s)
         (r_gens s) (hs_recv s) (wins s) (futq s) (seen s) ((e, q, p) :: got s) (shadow s).

(* handleQueuedPackets: a parked datagram is opened with the generations now authorised; never parked
   again; only application data has an effect here (see header) *)
Definition recv_parked (me : side) (s : sidest) (r : rec) : sidest * list event :=
  match open_rec s r with
  | Opened e =>
      if check max_seq64 (wins s e) (r_seq r) then
        let s1 := mark s e (r_seq r) in
        match r_kind r with
        | App p => (add_got s1 e (r_seq r) p, [EvRead me p])
        | _ => (s1, [])
        end
      else (s, [])
  | _ => (s, [])
  end.

Fixpoint recv_parked_all (me : side) (s : sidest) (l : list rec) : sidest * list event :=
  match l with
  | [] => (s, [])
  | r :: l' =>
      let '(s1, e1) := recv_parked me s r in
      let '(s2, e2) := recv_parked_all me s1 l' in (s2, e1 ++ e2)
  end.

(* queueRequiredKeyUpdateResponse: in front of the first queued application-data command *)
Fixpoint insert_response (q : list cmd) : list cmd :=
  match q with
  | [] => [CKU false None]
  | CApp p :: _ => CKU false None :: q
  | c :: q' => c :: insert_response q'
  end.

(* applyACK + completePostHandshakeFlight + commitLocalKeyUpdate *)
Definition acked (s : sidest) (f : flight) (l : list (N * N)) : bool :=
  existsb (fun en => (fst en =? w_epoch s) && existsb (N.eqb (snd en)) (f_seqs f)) l.

Definition commit (me : side) (s : sidest) (f : flight) : sidest * list event :=
  (mkside (failed s) (w_epoch s + 1) (Next (w_sec s)) 0 (hs_send s) None (queue s) (r_epoch s)
          (r_gens s) (hs_recv s) (wins s) (futq s) (seen s) (got s) (shadow s),
   EvCommit me (w_epoch s + 1) :: match f_id f with Some i => [EvDone me i] | None => [] end).

Definition on_ack (me : side) (s : sidest) (l : list (N * N)) : sidest * list event :=
  match pending s with
  | Some f => if acked s f l then commit me s f else (s, [])
  | None => (s, [])
  end.

(* handleKeyUpdate (message m is the expected one, carried by a record of epoch e) *)
Definition advance_read (me : side) (s : sidest) (m : N) (req : bool) : sidest * list event :=
  match r_gens s with
  | cur :: _ =>
      let s1 := mkside (failed s) (w_epoch s) (w_sec s) (w_seq s) (hs_send s) (pending s)
                       (if req then insert_response (queue s) else queue s)
                       (r_epoch s + 1) (mkgen (r_epoch s + 1) (Next (g_sec cur)) :: r_gens s)
                       (hs_recv s + 1) (wins s) [] (seen s) (got s) (shadow s) in
      let '(s2, e2) := recv_parked_all me s1 (futq s) in
      (s2, EvKuIn me m :: e2)
  | [] => (set_failed s, [EvFail me])
  end.

Definition send_ack (me : side) (s : sidest) (l : list (N * N)) : sidest * list event :=
  let '(s1, evs, _) := emit_ctl me s (Ack l) in (s1, evs).

(* the message is the expected one or not, nothing was planted: the reassembly buffer hands over
   exactly what the peer sent *)
Definition on_ku0 (me : side) (s : sidest) (e q m : N) (req : bool) : sidest * list event :=
  if m <? hs_recv s then send_ack me s [(e, q)]            (* retransmission of a processed message *)
  else if m =? hs_recv s then
    let cur_ok := match r_gens s with g :: _ => g_epoch g =? e | [] => false end in
    if negb (cur_ok && (r_epoch s =? e)) then (set_failed s, [EvFail me])
    else if r_epoch s =? max_epoch then (set_failed s, [EvFail me])      (* ErrEpochOverflow *)
    else
      let '(s1, e1) := advance_read me s m req in
      if failed s1 then (s1, e1)
      else if max_msg <? hs_recv s1 then (set_failed s1, e1 ++ [EvFail me])  (* ErrHandshakeSequenceOverflow *)
      else let '(s2, e2) := send_ack me s1 [(e, q)] in (s2, e1 ++ e2)
  else send_ack me s [(e, q)].                              (* ahead of the expected message *)

(* AS CODED (known finding K-C20-1): the reassembly buffer (internal/fragmentbuffer) is keyed by
   message_seq only and takes fragments from unprotected epoch-0 records while the handshake runs.
   A fragment planted under number m (> the number of the peer's first post-handshake message) stays
   there.  Complete: when message m-1 has been assembled Pop also returns the planted message m
   (dropped by bufferHandshakeRecord: established && epoch 0) and the buffer's sequence moves to m+1;
   the genuine message m is then "a fragment of an already assembled message".  Incomplete (declares a
   longer message): the slot of offset 0 is taken, the genuine fragment is not stored and message m is
   never assembled.  Either way the record that carries the genuine KeyUpdate m is put on the list of
   records to acknowledge (conn.go pendingACKs) and nothing else happens: HandshakeRecvSequence stays
   m for ever, so every later KeyUpdate of the peer is "ahead" and only acknowledged as well. *)
Definition shadowed (s : sidest) (m : N) : bool := existsb (N.eqb m) (shadow s).

Definition on_ku (me : side) (s : sidest) (e q m : N) (req : bool) : sidest * list event :=
  if shadowed s m then send_ack me s [(e, q)] else on_ku0 me s e q m req.

(* one datagram (= one record after the handshake) arriving at side [me] *)
Definition recv (me : side) (s : sidest) (r : rec) : sidest * list event :=
  if failed s then (s, []) else
  match open_rec s r with
  | NoEpoch =>
      if (low2 (r_epoch s + 1) =? r_elow r) && (length (futq s) <? futq_cap)%nat
      then (set_futq s (futq s ++ [r]), []) else (s, [])
  | BadRecord => (s, [])
  | Opened e =>
      if negb (check max_seq64 (wins s e) (r_seq r)) then (s, []) else
      let s1 := mark s e (r_seq r) in
      match r_kind r with
      | App p => (add_got s1 e (r_seq r) p, [EvRead me p])
      | Ack l =>
          let '(s2, e2) := on_ack me s1 l in
          if failed s2 then (s2, e2) else
          let '(s3, e3) := run_queue me s2 in (s3, e2 ++ e3)
      | KU m req =>
          let '(s2, e2) := on_ku me s1 e (r_seq r) m req in
          if failed s2 then (s2, e2) else
          let '(s3, e3) := run_queue me s2 in (s3, e2 ++ e3)
      end
  end.

(* Conn.UpdateKeys / Conn.Write: the command is appended to the queue and the queue is run *)
Definition submit (me : side) (s : sidest) (c : cmd) : sidest * list event :=
  if failed s then (s, []) else drain me s (queue s ++ [c]).

(* ---------- the two endpoints and the network ---------- *)

Inductive op :=
| OpUpdate (s : side) (req : bool) (id : N)   (* s calls UpdateKeys(RequestPeerUpdate = req); id names the call *)
| OpWrite (s : side) (p : N)                  (* s calls Write(payload p) *)
| OpDeliver (to : side) (r : rec)             (* the network hands r to [to] (any record, any time, any number of times) *)
| OpTimer (s : side).                         (* s's retransmission timer fires *)

Record gst := mkgst {
  sd : side -> sidest;
  net : side -> list (N * rec)      (* every record ever emitted by a side, with its epoch; newest first *)
}.

Fixpoint sent_by (me : side) (evs : list event) : list (N * rec) :=
  match evs with
  | [] => []
  | EvSent s e r :: evs' => if side_eqb s me then sent_by me evs' ++ [(e, r)] else sent_by me evs'
  | _ :: evs' => sent_by me evs'
  end.

Definition put (st : gst) (me : side) (res : sidest * list event) : gst * list event :=
  let '(s', evs) := res in
  (mkgst (fun x => if side_eqb x me then s' else sd st x)
         (fun x => if side_eqb x me then sent_by me evs ++ net st x else net st x),
   evs).

Definition step (st : gst) (o : op) : gst * list event :=
  match o with
  | OpUpdate s req id => put st s (submit s (sd st s) (CKU req (Some id)))
  | OpWrite s p => put st s (submit s (sd st s) (CApp p))
  | OpDeliver to r => put st to (recv to (sd st to) r)
  | OpTimer s => put st s (timer s (sd st s))
  end.

Fixpoint exec (st : gst) (ops : list op) : gst * list event :=
  match ops with
  | [] => (st, [])
  | o :: ops' =>
      let '(st1, e1) := step st o in
      let '(st2, e2) := exec st1 ops' in (st2, e1 ++ e2)
  end.

(* the peer really emitted every delivered record (AEAD authenticity, C05) *)
Definition authentic_op (st : gst) (o : op) : Prop :=
  match o with
  | OpDeliver to r => In r (map snd (net st (other to)))
  | _ => True
  end.

Fixpoint authentic (st : gst) (ops : list op) : Prop :=
  match ops with
  | [] => True
  | o :: ops' => authentic_op st o /\ authentic (fst (step st o)) ops'
  end.

(* ---------- initial state: right after establishment (application epoch 3) ---------- *)

Record config := mkcfg {
  c_window : nat;             (* replay window (conn.replayProtectionWindow) *)
  c_base : side -> N;         (* HandshakeSendSequence of each side when the model starts *)
  c_wseq : side -> N;         (* epoch-3 records each side already emitted *)
  c_pre : side -> list N;     (* epoch-3 sequence numbers each side already received, in arrival order *)
  c_shadow : side -> list N   (* message numbers (> c_base of the peer) planted in each side's reassembly
                                 buffer by an off-path sender during the handshake *)
}.

(* nobody interfered with the handshake *)
Definition no_shadow (c : config) : Prop := forall s, c_shadow c s = [].

(* epochs 3+n-1 ... 3, then the handshake generation *)
Fixpoint gens_down_from (s : side) (n : nat) : list gen :=
  match n with
  | O => [mkgen 2 (Hs s)]
  | S k => mkgen (3 + N.of_nat k) (nx k (Init s)) :: gens_down_from s k
  end.

(* read generations of the receiver of s's records when its read epoch is r >= 3 *)
Definition gens_down (s : side) (r : N) : list gen := gens_down_from s (N.to_nat (r - 2)).

Definition init_side (c : config) (me : side) : sidest :=
  let wr := run max_seq64 (win_init (c_window c)) (c_pre c me) in
  mkside false 3 (Init me) (c_wseq c me) (c_base c me) None []
         3 (gens_down (other me) 3) (c_base c (other me))
         (fun e => if e =? 3 then fst wr else win_init (c_window c))
         [] (map (fun q => (3, q)) (rev (snd wr))) [] (c_shadow c me).

Definition init (c : config) : gst := mkgst (init_side c) (fun _ => []).
